V = 'verifier/verifier.go'
H = 'verifier/helpers.go'
VARIANTS = [
 dict(name='expiry-after-instead-of-not-before', file=V, expect='flagged(expiry/clock)',
      find='!expiry.IsZero() && !time.Now().Before(expiry) {', replace='!expiry.IsZero() && time.Now().After(expiry) {'),
 dict(name='expiry-vs-signing-time', file=V, expect='flagged(expiry/clock)',
      find='!expiry.IsZero() && !time.Now().Before(expiry) {', replace='!expiry.IsZero() && !outcome.EnvelopeContent.SignerInfo.SignedAttributes.SigningTime.Before(expiry) {'),
 dict(name='sa-notbefore-dropped', file=V, expect='flagged(signing-authority/window)',
      find='if authenticSigningTime.Before(cert.NotBefore) || authenticSigningTime.After(cert.NotAfter) {', replace='if authenticSigningTime.After(cert.NotAfter) {'),
 dict(name='sa-leaf-only', file=V, expect='flagged(signing-authority/window)',
      find='for _, cert := range signerInfo.CertificateChain {\n\t\tif authenticSigningTime.Before(cert.NotBefore)', replace='for _, cert := range signerInfo.CertificateChain[:1] {\n\t\tif authenticSigningTime.Before(cert.NotBefore)'),
 dict(name='sa-uses-now', file=V, expect='flagged(signing-authority/window)',
      find='authenticSigningTime := signerInfo.SignedAttributes.SigningTime\n', replace='authenticSigningTime := time.Now()\n'),
 dict(name='x509-uses-signing-time', file=V, expect='flagged(regime/valid-now)',
      find='\ttimeOfVerification := time.Now()\n', replace='\ttimeOfVerification := signerInfo.SignedAttributes.SigningTime\n'),
 dict(name='now-notbefore-dropped', file=V, expect='flagged(regime/valid-now)',
      find='\t\t\tif timeOfVerification.Before(cert.NotBefore) {\n\t\t\t\treturn fmt.Errorf("verification time is before certificate %q validity period, it will be valid from %q", cert.Subject, cert.NotBefore.Format(time.RFC1123Z))\n\t\t\t}\n', replace=''),
 dict(name='always-treated-as-after-expiry', file=V, expect='flagged(regime/decision-table)',
      find='signatureVerification.VerifyTimestamp == trustpolicy.OptionAfterCertExpiry {', replace='signatureVerification.VerifyTimestamp != "" {'),
 dict(name='tsa-disabled-still-timestamps', file=V, expect='flagged(regime/decision-table)',
      find='\tif !tsaEnabled {\n\t\tlogger.Info("Timestamp verification disabled: no tsa trust store is configured in trust policy")\n\t\tperformTimestampVerification = false\n\t}',
      replace='\tif !tsaEnabled && signatureVerification.VerifyTimestamp == "" {\n\t\tlogger.Info("Timestamp verification disabled: no tsa trust store is configured in trust policy")\n\t\tperformTimestampVerification = false\n\t}'),
 dict(name='expired-inverted', file=V, expect='flagged(regime/decision-table)',
      find='\t\tif !expired {\n\t\t\tlogger.Infof("Timestamp verification disabled: verifyTimestamp is set to %q', replace='\t\tif expired {\n\t\t\tlogger.Infof("Timestamp verification disabled: verifyTimestamp is set to %q'),
 dict(name='tsa-helper-any-store', file=H, expect='flagged(regime/tsa-enabled-helper)',
      find='\t\tif truststore.Type(storeType) == truststore.TypeTSA {\n\t\t\treturn true, nil\n\t\t}', replace='\t\tif truststore.Type(storeType) != truststore.TypeCA {\n\t\t\treturn true, nil\n\t\t}'),
 dict(name='countersignature-optional', file=V, expect='flagged(timestamp/countersignature-present)',
      find='\tif len(signerInfo.UnsignedAttributes.TimestampSignature) == 0 {\n\t\treturn errors.New("no timestamp countersignature was found in the signature envelope")\n\t}',
      replace='\tif len(signerInfo.UnsignedAttributes.TimestampSignature) == 0 {\n\t\treturn nil\n\t}'),
 dict(name='imprint-over-payload', file=V, expect='flagged(timestamp/message-imprint)',
      find='timestamp, err := info.Validate(signerInfo.Signature)', replace='timestamp, err := info.Validate(outcome.EnvelopeContent.Payload.Content)'),
 dict(name='roots-from-ca-stores', file=V, expect='flagged(timestamp/)',
      find='trustTSACerts, err := loadX509TSATrustStores(ctx, outcome.EnvelopeContent.SignerInfo.SignedAttributes.SigningScheme, policyName, trustStores, x509TrustStore)',
      replace='trustTSACerts, err := loadX509TrustStores(ctx, outcome.EnvelopeContent.SignerInfo.SignedAttributes.SigningScheme, policyName, trustStores, x509TrustStore)'),
 dict(name='system-roots', file=V, expect='flagged(timestamp/roots-from-tsa-stores)',
      find='\t\tRoots:       rootCertPool,\n', replace=''),
 dict(name='cert-chain-validation-skipped', file=V, expect='flagged(timestamp/tsa-cert-chain)',
      find='\tif err := nx509.ValidateTimestampingCertChain(tsaCertChain); err != nil {\n\t\treturn fmt.Errorf("failed to validate the timestamping certificate chain with error: %w", err)\n\t}',
      replace='\tif err := nx509.ValidateTimestampingCertChain(tsaCertChain); err != nil {\n\t\tlogger.Debugf("failed to validate the timestamping certificate chain with error: %v", err)\n\t}'),
 dict(name='window-notafter-dropped', file=V, expect='flagged(timestamp/window)',
      find='\t\tif !timestamp.BoundedBefore(cert.NotAfter) {\n\t\t\treturn fmt.Errorf("timestamp can be after certificate %q validity period, it was expired at %q", cert.Subject, cert.NotAfter.Format(time.RFC1123Z))\n\t\t}\n', replace=''),
 dict(name='window-leaf-only', file=V, expect='flagged(timestamp/window)',
      find='\tfor _, cert := range signerInfo.CertificateChain {\n\t\tif !timestamp.BoundedAfter(cert.NotBefore) {', replace='\tfor _, cert := range signerInfo.CertificateChain[:1] {\n\t\tif !timestamp.BoundedAfter(cert.NotBefore) {'),
 dict(name='tsa-revocation-unknown-passes', file=V, expect='flagged(timestamp/tsa-revocation-ok)',
      find='''	default:
		// revocationresult.ResultUnknown
		return fmt.Errorf("timestamping certificate with subject %q revocation status is unknown", problematicCertSubject)
	}''', replace='''	default:
		// revocationresult.ResultUnknown
		logger.Warnf("timestamping certificate with subject %q revocation status is unknown", problematicCertSubject)
	}'''),
 dict(name='tsa-revocation-on-signing-chain', file=V, expect='flagged(timestamp/revocation-of-tsa-chain)',
      find='\t\tCertChain: tsaCertChain,\n\t})', replace='\t\tCertChain: signerInfo.CertificateChain,\n\t})'),
 dict(name='x509-result-ignores-timestamp-error', file=V, expect='flagged(dispatch/)',
      find='\t\t\tError:  verifyTimestamp(ctx, policyName, trustStores, signatureVerification, x509TrustStore, r, outcome),\n\t\t\tType:   trustpolicy.TypeAuthenticTimestamp,',
      replace='\t\t\tType:   trustpolicy.TypeAuthenticTimestamp,'),
 # benign
 dict(name='benign-expiry-after-now', file=V, expect='silent',
      find='!expiry.IsZero() && !time.Now().Before(expiry) {', replace='!expiry.IsZero() && !expiry.After(time.Now()) {'),
 dict(name='benign-two-ifs', file=V, expect='silent',
      find='''		if authenticSigningTime.Before(cert.NotBefore) || authenticSigningTime.After(cert.NotAfter) {
			return &notation.ValidationResult{
				Error:  fmt.Errorf("certificate %q was not valid when the digital signature was produced at %q", cert.Subject, authenticSigningTime.Format(time.RFC1123Z)),
				Type:   trustpolicy.TypeAuthenticTimestamp,
				Action: outcome.VerificationLevel.Enforcement[trustpolicy.TypeAuthenticTimestamp],
			}
		}''', replace='''		if authenticSigningTime.Before(cert.NotBefore) {
			return &notation.ValidationResult{
				Error:  fmt.Errorf("certificate %q was not yet valid when the digital signature was produced at %q", cert.Subject, authenticSigningTime.Format(time.RFC1123Z)),
				Type:   trustpolicy.TypeAuthenticTimestamp,
				Action: outcome.VerificationLevel.Enforcement[trustpolicy.TypeAuthenticTimestamp],
			}
		}
		if authenticSigningTime.After(cert.NotAfter) {
			return &notation.ValidationResult{
				Error:  fmt.Errorf("certificate %q was expired when the digital signature was produced at %q", cert.Subject, authenticSigningTime.Format(time.RFC1123Z)),
				Type:   trustpolicy.TypeAuthenticTimestamp,
				Action: outcome.VerificationLevel.Enforcement[trustpolicy.TypeAuthenticTimestamp],
			}
		}'''),
 dict(name='benign-flag-restructured', file=V, expect='silent',
      find='''	if !tsaEnabled {
		logger.Info("Timestamp verification disabled: no tsa trust store is configured in trust policy")
		performTimestampVerification = false
	}''', replace='''	performTimestampVerification = tsaEnabled
	if !tsaEnabled {
		logger.Info("Timestamp verification disabled: no tsa trust store is configured in trust policy")
	}'''),
]
