V = 'verifier/verifier.go'
H = 'verifier/helpers.go'
VARIANTS = [
 dict(name='expiry-after-instead-of-not-before', file=V, expect='flagged(expiry/clock)',
      find='!expiry.IsZero() && !time.Now().Before(expiry) {', replace='!expiry.IsZero() && time.Now().After(expiry) {'),
 dict(name='expiry-vs-signing-time', file=V, expect='flagged(expiry/clock)',
      find='!expiry.IsZero() && !time.Now().Before(expiry) {', replace='!expiry.IsZero() && !outcome.EnvelopeContent.SignerInfo.SignedAttributes.SigningTime.Before(expiry) {'),
 dict(name='sa-notbefore-dropped', file=V, expect='flagged(signing-authority/window)',
      find='if authenticSigningTime.Before(cert.NotBefore) || authenticSigningTime.After(cert.NotAfter) {', replace='if authenticSigningTime.After(cert.NotAfter) {'),
 dict(name='sa-leaf-only', file=V, expect='flagged(signing-authority/window)',
      find='for _, cert := range signerInfo.CertificateChain {\n\t\tif authenticSigningTime.Before(cert.NotBefore)', replace='for _, cert := range signerInfo.CertificateChain[:1] {\n\t\tif authenticSigningTime.Before(cert.NotBefore)'),
 dict(name='sa-uses-now', file=V, expect='flagged(signing-authority/window)',
      find='authenticSigningTime := signerInfo.SignedAttributes.SigningTime\n', replace='authenticSigningTime := time.Now()\n'),
 dict(name='x509-uses-signing-time', file=V, expect='flagged(regime/valid-now)',
      find='\ttimeOfVerification := time.Now()\n', replace='\ttimeOfVerification := signerInfo.SignedAttributes.SigningTime\n'),
 dict(name='now-notbefore-dropped', file=V, expect='flagged(regime/valid-now)',
      find='\t\t\tif timeOfVerification.Before(cert.NotBefore) {\n\t\t\t\treturn fmt.Errorf("verification time is before certificate %q validity period, it will be valid from %q", cert.Subject, cert.NotBefore.Format(time.RFC1123Z))\n\t\t\t}\n', replace=''),
 dict(name='always-treated-as-after-expiry', file=V, expect='flagged(regime/decision-table)',
      find='signatureVerification.VerifyTimestamp == trustpolicy.OptionAfterCertExpiry {', replace='signatureVerification.VerifyTimestamp != "" {'),
 dict(name='tsa-disabled-still-timestamps', file=V, expect='flagged(regime/decision-table)',
      find='\tif !tsaEnabled {\n\t\tlogger.Info("Timestamp verification disabled: no tsa trust store is configured in trust policy")\n\t\tperformTimestampVerification = false\n\t}',
      replace='\tif !tsaEnabled && signatureVerification.VerifyTimestamp == "" {\n\t\tlogger.Info("Timestamp verification disabled: no tsa trust store is configured in trust policy")\n\t\tperformTimestampVerification = false\n\t}'),
 dict(name='expired-inverted', file=V, expect='flagged(regime/decision-table)',
      find='\t\tif !expired {\n\t\t\tlogger.Infof("Timestamp verification disabled: verifyTimestamp is set to %q', replace='\t\tif expired {\n\t\t\tlogger.Infof("Timestamp verification disabled: verifyTimestamp is set to %q'),
 dict(name='tsa-helper-any-store', file=H, expect='flagged(regime/tsa-enabled-helper)',
      find='\t\tif truststore.Type(storeType) == truststore.TypeTSA {\n\t\t\treturn true, nil\n\t\t}', replace='\t\tif truststore.Type(storeType) != truststore.TypeCA {\n\t\t\treturn true, nil\n\t\t}'),
 dict(name='countersignature-optional', file=V, expect='flagged(timestamp/countersignature-present)',
      find='\tif len(signerInfo.UnsignedAttributes.TimestampSignature) == 0 {\n\t\treturn errors.New("no timestamp countersignature was found in the signature envelope")\n\t}',
      replace='\tif len(signerInfo.UnsignedAttributes.TimestampSignature) == 0 {\n\t\treturn nil\n\t}'),
 dict(name='imprint-over-payload', file=V, expect='flagged(timestamp/message-imprint)',
      find='timestamp, err := info.Validate(signerInfo.Signature)', replace='timestamp, err := info.Validate(outcome.EnvelopeContent.Payload.Content)'),
 dict(name='roots-from-ca-stores', file=V, expect='flagged(timestamp/)',
      find='trustTSACerts, err := loadX509TSATrustStores(ctx, outcome.EnvelopeContent.SignerInfo.SignedAttributes.SigningScheme, policyName, trustStores, x509TrustStore)',
      replace='trustTSACerts, err := loadX509TrustStores(ctx, outcome.EnvelopeContent.SignerInfo.SignedAttributes.SigningScheme, policyName, trustStores, x509TrustStore)'),
 dict(name='system-roots', file=V, expect='flagged(timestamp/roots-from-tsa-stores)',
      find='\t\tRoots:       rootCertPool,\n', replace=''),
 dict(name='cert-chain-validation-skipped', file=V, expect='flagged(timestamp/tsa-cert-chain)',
      find='\tif err := nx509.ValidateTimestampingCertChain(tsaCertChain); err != nil {\n\t\treturn fmt.Errorf("failed to validate the timestamping certificate chain with error: %w", err)\n\t}',
      replace='\tif err := nx509.ValidateTimestampingCertChain(tsaCertChain); err != nil {\n\t\tlogger.Debugf("failed to validate the timestamping certificate chain with error: %v", err)\n\t}'),
 dict(name='window-notafter-dropped', file=V, expect='flagged(timestamp/window)',
      find='\t\tif !timestamp.BoundedBefore(cert.NotAfter) {\n\t\t\treturn fmt.Errorf("timestamp can be after certificate %q validity period, it was expired at %q", cert.Subject, cert.NotAfter.Format(time.RFC1123Z))\n\t\t}\n', replace=''),
 dict(name='window-leaf-only', file=V, expect='flagged(timestamp/window)',
      find='\tfor _, cert := range signerInfo.CertificateChain {\n\t\tif !timestamp.BoundedAfter(cert.NotBefore) {', replace='\tfor _, cert := range signerInfo.CertificateChain[:1] {\n\t\tif !timestamp.BoundedAfter(cert.NotBefore) {'),
 dict(name='tsa-revocation-unknown-passes', file=V, expect='flagged(timestamp/tsa-revocation-ok)',
      find='''	default:
		// revocationresult.ResultUnknown
		return fmt.Errorf("timestamping certificate with subject %q revocation status is unknown", problematicCertSubject)
	}''', replace='''	default:
		// revocationresult.ResultUnknown
		logger.Warnf("timestamping certificate with subject %q revocation status is unknown", problematicCertSubject)
	}'''),
 dict(name='tsa-revocation-on-signing-chain', file=V, expect='flagged(timestamp/revocation-of-tsa-chain)',
      find='\t\tCertChain: tsaCertChain,\n\t})', replace='\t\tCertChain: signerInfo.CertificateChain,\n\t})'),
 dict(name='x509-result-ignores-timestamp-error', file=V, expect='flagged(dispatch/)',
      find='\t\t\tError:  verifyTimestamp(ctx, policyName, trustStores, signatureVerification, x509TrustStore, r, outcome),\n\t\t\tType:   trustpolicy.TypeAuthenticTimestamp,',
      replace='\t\t\tType:   trustpolicy.TypeAuthenticTimestamp,'),
 # benign
 dict(name='benign-expiry-after-now', file=V, expect='silent',
      find='!expiry.IsZero() && !time.Now().Before(expiry) {', replace='!expiry.IsZero() && !expiry.After(time.Now()) {'),
 dict(name='benign-two-ifs', file=V, expect='silent',
      find='''		if authenticSigningTime.Before(cert.NotBefore) || authenticSigningTime.After(cert.NotAfter) {
			return &notation.ValidationResult{
				Error:  fmt.Errorf("certificate %q was not valid when the digital signature was produced at %q", cert.Subject, authenticSigningTime.Format(time.RFC1123Z)),
				Type:   trustpolicy.TypeAuthenticTimestamp,
				Action: outcome.VerificationLevel.Enforcement[trustpolicy.TypeAuthenticTimestamp],
			}
		}''', replace='''		if authenticSigningTime.Before(cert.NotBefore) {
			return &notation.ValidationResult{
				Error:  fmt.Errorf("certificate %q was not yet valid when the digital signature was produced at %q", cert.Subject, authenticSigningTime.Format(time.RFC1123Z)),
				Type:   trustpolicy.TypeAuthenticTimestamp,
				Action: outcome.VerificationLevel.Enforcement[trustpolicy.TypeAuthenticTimestamp],
			}
		}
		if authenticSigningTime.After(cert.NotAfter) {
			return &notation.ValidationResult{
				Error:  fmt.Errorf("certificate %q was expired when the digital signature was produced at %q", cert.Subject, authenticSigningTime.Format(time.RFC1123Z)),
				Type:   trustpolicy.TypeAuthenticTimestamp,
				Action: outcome.VerificationLevel.Enforcement[trustpolicy.TypeAuthenticTimestamp],
			}
		}'''),
 dict(name='benign-flag-restructured', file=V, expect='silent',
      find='''	if !tsaEnabled {
		logger.Info("Timestamp verification disabled: no tsa trust store is configured in trust policy")
		performTimestampVerification = false
	}''', replace='''	performTimestampVerification = tsaEnabled
	if !tsaEnabled {
		logger.Info("Timestamp verification disabled: no tsa trust store is configured in trust policy")
	}'''),
]

# ---------------------------------------------------------------------------------------------------------------------
# Refactored shapes of the same behaviour (each a list of edits on the base tree), and the same shapes with the property
# broken. _mut rewrites the replacement text of exactly one edit of a shape.
def _mut(edits, old, new, also=()):
    n = sum(r.count(old) for _, _, r in edits)
    assert n == 1, (n, old)
    res = [(f, a, r.replace(old, new)) for f, a, r in edits]
    return res + list(also)

# the three per-certificate loops of verifyTimestamp extracted into helper functions
SHAPE_HELPERS = [
 (V,
  '\tif performTimestampVerification &&\n\t\tsignatureVerification.VerifyTimestamp == trustpolicy.OptionAfterCertExpiry {\n\t\t// check if signing cert chain has expired\n\t\tvar expired bool\n\t\tfor _, cert := range signerInfo.CertificateChain {\n\t\t\tif timeOfVerification.After(cert.NotAfter) {\n\t\t\t\texpired = true\n\t\t\t\tbreak\n\t\t\t}\n\t\t}\n\t\tif !expired {\n\t\t\tlogger.Infof("Timestamp verification disabled: verifyTimestamp is set to %q and signing cert chain unexpired", trustpolicy.OptionAfterCertExpiry)\n\t\t\tperformTimestampVerification = false\n\t\t}\n',
  '\tif performTimestampVerification &&\n\t\tsignatureVerification.VerifyTimestamp == trustpolicy.OptionAfterCertExpiry {\n\t\t// check if signing cert chain has expired\n\t\tif !isCertChainExpiredAt(signerInfo.CertificateChain, timeOfVerification) {\n\t\t\tlogger.Infof("Timestamp verification disabled: verifyTimestamp is set to %q and signing cert chain unexpired", trustpolicy.OptionAfterCertExpiry)\n\t\t\tperformTimestampVerification = false\n\t\t}\n'),
 (V,
  '\t// timestamp verification disabled, signing cert chain MUST be valid\n\t// at time of verification\n\tif !performTimestampVerification {\n\t\tfor _, cert := range signerInfo.CertificateChain {\n\t\t\tif timeOfVerification.Before(cert.NotBefore) {\n\t\t\t\treturn fmt.Errorf("verification time is before certificate %q validity period, it will be valid from %q", cert.Subject, cert.NotBefore.Format(time.RFC1123Z))\n\t\t\t}\n\t\t\tif timeOfVerification.After(cert.NotAfter) {\n\t\t\t\treturn fmt.Errorf("verification time is after certificate %q validity period, it was expired at %q", cert.Subject, cert.NotAfter.Format(time.RFC1123Z))\n\t\t\t}\n\t\t}\n\n\t\t// success\n\t\treturn nil\n\t}\n\n\t// Performing timestamp verification\n',
  '\t// timestamp verification disabled, signing cert chain MUST be valid\n\t// at time of verification\n\tif !performTimestampVerification {\n\t\treturn validateCertChainAtVerificationTime(signerInfo.CertificateChain, timeOfVerification)\n\t}\n\n\t// Performing timestamp verification\n'),
 (V,
  '\t// 4. Check the timestamp against the signing certificate chain\n\tlogger.Debug("Checking the timestamp against the signing certificate chain...")\n\tlogger.Debugf("Timestamp range: %s", timestamp.Format(time.RFC3339))\n\tfor _, cert := range signerInfo.CertificateChain {\n\t\tif !timestamp.BoundedAfter(cert.NotBefore) {\n\t\t\treturn fmt.Errorf("timestamp can be before certificate %q validity period, it will be valid from %q", cert.Subject, cert.NotBefore.Format(time.RFC1123Z))\n\t\t}\n\t\tif !timestamp.BoundedBefore(cert.NotAfter) {\n\t\t\treturn fmt.Errorf("timestamp can be after certificate %q validity period, it was expired at %q", cert.Subject, cert.NotAfter.Format(time.RFC1123Z))\n\t\t}\n\t\tif timeOfVerification.After(cert.NotAfter) {\n\t\t\tlogger.Debugf("Certificate %q expired at %q, but timestamp is within certificate validity period", cert.Subject, cert.NotAfter.Format(time.RFC1123Z))\n\t\t}\n\t}\n\n\t// 5. Perform the timestamping certificate chain revocation check\n',
  '\t// 4. Check the timestamp against the signing certificate chain\n\tlogger.Debug("Checking the timestamp against the signing certificate chain...")\n\tlogger.Debugf("Timestamp range: %s", timestamp.Format(time.RFC3339))\n\tif err := validateCertChainAtTimestamp(logger, signerInfo.CertificateChain, timestamp, timeOfVerification); err != nil {\n\t\treturn err\n\t}\n\n\t// 5. Perform the timestamping certificate chain revocation check\n'),
 (V,
  '\tlogger.Debug("Timestamp verification: Success")\n\treturn nil\n}\n',
  '\tlogger.Debug("Timestamp verification: Success")\n\treturn nil\n}\n\n// isCertChainExpiredAt reports whether at least one certificate of certChain\n// has expired at time t.\nfunc isCertChainExpiredAt(certChain []*x509.Certificate, t time.Time) bool {\n\tfor _, cert := range certChain {\n\t\tif t.After(cert.NotAfter) {\n\t\t\treturn true\n\t\t}\n\t}\n\treturn false\n}\n\n// validateCertChainAtVerificationTime checks that every certificate of\n// certChain is within its validity period at timeOfVerification. It is used\n// when timestamp verification is disabled.\nfunc validateCertChainAtVerificationTime(certChain []*x509.Certificate, timeOfVerification time.Time) error {\n\tfor _, cert := range certChain {\n\t\tif timeOfVerification.Before(cert.NotBefore) {\n\t\t\treturn fmt.Errorf("verification time is before certificate %q validity period, it will be valid from %q", cert.Subject, cert.NotBefore.Format(time.RFC1123Z))\n\t\t}\n\t\tif timeOfVerification.After(cert.NotAfter) {\n\t\t\treturn fmt.Errorf("verification time is after certificate %q validity period, it was expired at %q", cert.Subject, cert.NotAfter.Format(time.RFC1123Z))\n\t\t}\n\t}\n\n\t// success\n\treturn nil\n}\n\n// validateCertChainAtTimestamp checks that the time range of timestamp lies\n// inside the validity period of every certificate of certChain.\nfunc validateCertChainAtTimestamp(logger log.Logger, certChain []*x509.Certificate, timestamp *tspclient.Timestamp, timeOfVerification time.Time) error {\n\tfor _, cert := range certChain {\n\t\tif !timestamp.BoundedAfter(cert.NotBefore) {\n\t\t\treturn fmt.Errorf("timestamp can be before certificate %q validity period, it will be valid from %q", cert.Subject, cert.NotBefore.Format(time.RFC1123Z))\n\t\t}\n\t\tif !timestamp.BoundedBefore(cert.NotAfter) {\n\t\t\treturn fmt.Errorf("timestamp can be after certificate %q validity period, it was expired at %q", cert.Subject, cert.NotAfter.Format(time.RFC1123Z))\n\t\t}\n\t\tif timeOfVerification.After(cert.NotAfter) {\n\t\t\tlogger.Debugf("Certificate %q expired at %q, but timestamp is within certificate validity period", cert.Subject, cert.NotAfter.Format(time.RFC1123Z))\n\t\t}\n\t}\n\treturn nil\n}\n'),
]
# single exit with an error variable (verifyExpiry, verifyAuthenticTimestamp: switch + break), tag-less switches, flag initialised from tsaEnabled
SHAPE_SINGLE_EXIT = [
 (V,
  '}\n\nfunc verifyExpiry(outcome *notation.VerificationOutcome) *notation.ValidationResult {\n\tif expiry := outcome.EnvelopeContent.SignerInfo.SignedAttributes.Expiry; !expiry.IsZero() && !time.Now().Before(expiry) {\n\t\treturn &notation.ValidationResult{\n\t\t\tError:  fmt.Errorf("digital signature has expired on %q", expiry.Format(time.RFC1123Z)),\n\t\t\tType:   trustpolicy.TypeExpiry,\n\t\t\tAction: outcome.VerificationLevel.Enforcement[trustpolicy.TypeExpiry],\n\t\t}\n\t}\n\n\treturn &notation.ValidationResult{\n\t\tType:   trustpolicy.TypeExpiry,\n\t\tAction: outcome.VerificationLevel.Enforcement[trustpolicy.TypeExpiry],\n\t}\n',
  '}\n\nfunc verifyExpiry(outcome *notation.VerificationOutcome) *notation.ValidationResult {\n\tvar expiryErr error\n\texpiry := outcome.EnvelopeContent.SignerInfo.SignedAttributes.Expiry\n\tif !expiry.IsZero() {\n\t\t// a signature without expiry never expires\n\t\tif !time.Now().Before(expiry) {\n\t\t\texpiryErr = fmt.Errorf("digital signature has expired on %q", expiry.Format(time.RFC1123Z))\n\t\t}\n\t}\n\n\treturn &notation.ValidationResult{\n\t\tError:  expiryErr,\n\t\tType:   trustpolicy.TypeExpiry,\n\t\tAction: outcome.VerificationLevel.Enforcement[trustpolicy.TypeExpiry],\n\t}\n'),
 (V,
  '\tlogger := log.GetLogger(ctx)\n\n\tsignerInfo := outcome.EnvelopeContent.SignerInfo\n\t// under signing scheme notary.x509\n\tif signerInfo.SignedAttributes.SigningScheme == signature.SigningSchemeX509 {\n\t\tlogger.Debug("Under signing scheme notary.x509...")\n\t\treturn &notation.ValidationResult{\n\t\t\tError:  verifyTimestamp(ctx, policyName, trustStores, signatureVerification, x509TrustStore, r, outcome),\n\t\t\tType:   trustpolicy.TypeAuthenticTimestamp,\n\t\t\tAction: outcome.VerificationLevel.Enforcement[trustpolicy.TypeAuthenticTimestamp],\n\t\t}\n\t}\n\n\t// under signing scheme notary.x509.signingAuthority\n\tlogger.Debug("Under signing scheme notary.x509.signingAuthority...")\n\tauthenticSigningTime := signerInfo.SignedAttributes.SigningTime\n\tfor _, cert := range signerInfo.CertificateChain {\n\t\tif authenticSigningTime.Before(cert.NotBefore) || authenticSigningTime.After(cert.NotAfter) {\n\t\t\treturn &notation.ValidationResult{\n\t\t\t\tError:  fmt.Errorf("certificate %q was not valid when the digital signature was produced at %q", cert.Subject, authenticSigningTime.Format(time.RFC1123Z)),\n\t\t\t\tType:   trustpolicy.TypeAuthenticTimestamp,\n\t\t\t\tAction: outcome.VerificationLevel.Enforcement[trustpolicy.TypeAuthenticTimestamp],\n\t\t\t}\n\t\t}\n\t}\n\n\t// success\n\treturn &notation.ValidationResult{\n\t\tType:   trustpolicy.TypeAuthenticTimestamp,\n\t\tAction: outcome.VerificationLevel.Enforcement[trustpolicy.TypeAuthenticTimestamp],\n\t}\n',
  '\tlogger := log.GetLogger(ctx)\n\n\tsignerInfo := outcome.EnvelopeContent.SignerInfo\n\tvar timestampErr error\n\tswitch signerInfo.SignedAttributes.SigningScheme {\n\tcase signature.SigningSchemeX509:\n\t\t// under signing scheme notary.x509\n\t\tlogger.Debug("Under signing scheme notary.x509...")\n\t\ttimestampErr = verifyTimestamp(ctx, policyName, trustStores, signatureVerification, x509TrustStore, r, outcome)\n\tdefault:\n\t\t// under signing scheme notary.x509.signingAuthority\n\t\tlogger.Debug("Under signing scheme notary.x509.signingAuthority...")\n\t\tauthenticSigningTime := signerInfo.SignedAttributes.SigningTime\n\t\tfor _, cert := range signerInfo.CertificateChain {\n\t\t\tif authenticSigningTime.Before(cert.NotBefore) || authenticSigningTime.After(cert.NotAfter) {\n\t\t\t\ttimestampErr = fmt.Errorf("certificate %q was not valid when the digital signature was produced at %q", cert.Subject, authenticSigningTime.Format(time.RFC1123Z))\n\t\t\t\tbreak\n\t\t\t}\n\t\t}\n\t}\n\n\t// timestampErr is nil on success\n\treturn &notation.ValidationResult{\n\t\tError:  timestampErr,\n\t\tType:   trustpolicy.TypeAuthenticTimestamp,\n\t\tAction: outcome.VerificationLevel.Enforcement[trustpolicy.TypeAuthenticTimestamp],\n\t}\n'),
 (V,
  '\tlogger := log.GetLogger(ctx)\n\n\tsignerInfo := outcome.EnvelopeContent.SignerInfo\n\tperformTimestampVerification := true\n\n\t// check if tsa trust store is configured in trust policy\n\ttsaEnabled, err := isTSATrustStoreInPolicy(policyName, trustStores)\n\tif err != nil {\n\t\treturn fmt.Errorf("failed to check tsa trust store configuration in turst policy with error: %w", err)\n\t}\n\tif !tsaEnabled {\n\t\tlogger.Info("Timestamp verification disabled: no tsa trust store is configured in trust policy")\n\t\tperformTimestampVerification = false\n\t}\n\n\t// check based on \'verifyTimestamp\' field\n\ttimeOfVerification := time.Now()\n\tif performTimestampVerification &&\n\t\tsignatureVerification.VerifyTimestamp == trustpolicy.OptionAfterCertExpiry {\n\t\t// check if signing cert chain has expired\n\t\tvar expired bool\n\t\tfor _, cert := range signerInfo.CertificateChain {\n\t\t\tif timeOfVerification.After(cert.NotAfter) {\n\t\t\t\texpired = true\n\t\t\t\tbreak\n\t\t\t}\n\t\t}\n\t\tif !expired {\n\t\t\tlogger.Infof("Timestamp verification disabled: verifyTimestamp is set to %q and signing cert chain unexpired", trustpolicy.OptionAfterCertExpiry)\n\t\t\tperformTimestampVerification = false\n\t\t}\n\t}\n\n',
  '\tlogger := log.GetLogger(ctx)\n\n\tsignerInfo := outcome.EnvelopeContent.SignerInfo\n\n\t// check if tsa trust store is configured in trust policy\n\ttsaEnabled, err := isTSATrustStoreInPolicy(policyName, trustStores)\n\tif err != nil {\n\t\treturn fmt.Errorf("failed to check tsa trust store configuration in turst policy with error: %w", err)\n\t}\n\t// without a tsa trust store, timestamp verification is never performed\n\tperformTimestampVerification := tsaEnabled\n\tif !tsaEnabled {\n\t\tlogger.Info("Timestamp verification disabled: no tsa trust store is configured in trust policy")\n\t}\n\n\t// check based on \'verifyTimestamp\' field\n\ttimeOfVerification := time.Now()\n\tif tsaEnabled && signatureVerification.VerifyTimestamp == trustpolicy.OptionAfterCertExpiry {\n\t\t// perform timestamp verification only if signing cert chain has\n\t\t// expired\n\t\tperformTimestampVerification = false\n\t\tfor _, cert := range signerInfo.CertificateChain {\n\t\t\tif timeOfVerification.After(cert.NotAfter) {\n\t\t\t\tperformTimestampVerification = true\n\t\t\t\tbreak\n\t\t\t}\n\t\t}\n\t\tif !performTimestampVerification {\n\t\t\tlogger.Infof("Timestamp verification disabled: verifyTimestamp is set to %q and signing cert chain unexpired", trustpolicy.OptionAfterCertExpiry)\n\t\t}\n\t}\n\n'),
 (V,
  '\t// at time of verification\n\tif !performTimestampVerification {\n\t\tfor _, cert := range signerInfo.CertificateChain {\n\t\t\tif timeOfVerification.Before(cert.NotBefore) {\n\t\t\t\treturn fmt.Errorf("verification time is before certificate %q validity period, it will be valid from %q", cert.Subject, cert.NotBefore.Format(time.RFC1123Z))\n\t\t\t}\n\t\t\tif timeOfVerification.After(cert.NotAfter) {\n\t\t\t\treturn fmt.Errorf("verification time is after certificate %q validity period, it was expired at %q", cert.Subject, cert.NotAfter.Format(time.RFC1123Z))\n\t\t\t}\n\t\t}\n',
  '\t// at time of verification\n\tif !performTimestampVerification {\n\t\tfor _, cert := range signerInfo.CertificateChain {\n\t\t\tswitch {\n\t\t\tcase timeOfVerification.Before(cert.NotBefore):\n\t\t\t\treturn fmt.Errorf("verification time is before certificate %q validity period, it will be valid from %q", cert.Subject, cert.NotBefore.Format(time.RFC1123Z))\n\t\t\tcase timeOfVerification.After(cert.NotAfter):\n\t\t\t\treturn fmt.Errorf("verification time is after certificate %q validity period, it was expired at %q", cert.Subject, cert.NotAfter.Format(time.RFC1123Z))\n\t\t\t}\n\t\t}\n'),
 (V,
  '\tlogger.Debug("Checking the timestamp against the signing certificate chain...")\n\tlogger.Debugf("Timestamp range: %s", timestamp.Format(time.RFC3339))\n\tfor _, cert := range signerInfo.CertificateChain {\n\t\tif !timestamp.BoundedAfter(cert.NotBefore) {\n\t\t\treturn fmt.Errorf("timestamp can be before certificate %q validity period, it will be valid from %q", cert.Subject, cert.NotBefore.Format(time.RFC1123Z))\n\t\t}\n\t\tif !timestamp.BoundedBefore(cert.NotAfter) {\n\t\t\treturn fmt.Errorf("timestamp can be after certificate %q validity period, it was expired at %q", cert.Subject, cert.NotAfter.Format(time.RFC1123Z))\n\t\t}\n\t\tif timeOfVerification.After(cert.NotAfter) {\n\t\t\tlogger.Debugf("Certificate %q expired at %q, but timestamp is within certificate validity period", cert.Subject, cert.NotAfter.Format(time.RFC1123Z))\n\t\t}\n\t}\n',
  '\tlogger.Debug("Checking the timestamp against the signing certificate chain...")\n\tlogger.Debugf("Timestamp range: %s", timestamp.Format(time.RFC3339))\n\tfor _, cert := range signerInfo.CertificateChain {\n\t\tswitch {\n\t\tcase !timestamp.BoundedAfter(cert.NotBefore):\n\t\t\treturn fmt.Errorf("timestamp can be before certificate %q validity period, it will be valid from %q", cert.Subject, cert.NotBefore.Format(time.RFC1123Z))\n\t\tcase !timestamp.BoundedBefore(cert.NotAfter):\n\t\t\treturn fmt.Errorf("timestamp can be after certificate %q validity period, it was expired at %q", cert.Subject, cert.NotAfter.Format(time.RFC1123Z))\n\t\tcase timeOfVerification.After(cert.NotAfter):\n\t\t\tlogger.Debugf("Certificate %q expired at %q, but timestamp is within certificate validity period", cert.Subject, cert.NotAfter.Format(time.RFC1123Z))\n\t\t}\n\t}\n'),
 (V,
  '\t\treturn fmt.Errorf("failed to check timestamping certificate chain revocation with error: %w", err)\n\t}\n\tfinalResult, problematicCertSubject := revocationFinalResult(certResults, tsaCertChain, logger)\n\tswitch finalResult {\n\tcase revocationresult.ResultOK:\n\t\tlogger.Debug("No verification impacting errors encountered while checking timestamping certificate chain revocation, status is OK")\n\tcase revocationresult.ResultRevoked:\n\t\treturn fmt.Errorf("timestamping certificate with subject %q is revoked", problematicCertSubject)\n\tdefault:\n\t\t// revocationresult.ResultUnknown\n\t\treturn fmt.Errorf("timestamping certificate with subject %q revocation status is unknown", problematicCertSubject)\n\t}\n\n\t// success\n\tlogger.Debug("Timestamp verification: Success")\n',
  '\t\treturn fmt.Errorf("failed to check timestamping certificate chain revocation with error: %w", err)\n\t}\n\tfinalResult, problematicCertSubject := revocationFinalResult(certResults, tsaCertChain, logger)\n\tif finalResult == revocationresult.ResultRevoked {\n\t\treturn fmt.Errorf("timestamping certificate with subject %q is revoked", problematicCertSubject)\n\t}\n\tif finalResult != revocationresult.ResultOK {\n\t\t// revocationresult.ResultUnknown\n\t\treturn fmt.Errorf("timestamping certificate with subject %q revocation status is unknown", problematicCertSubject)\n\t}\n\tlogger.Debug("No verification impacting errors encountered while checking timestamping certificate chain revocation, status is OK")\n\n\t// success\n\tlogger.Debug("Timestamp verification: Success")\n'),
]
# time.Time.Compare, slices.IndexFunc / ContainsFunc with predicates, strings.HasPrefix for the store type
SHAPE_LIBRARY = [
 (H,
  '// isTSATrustStoreInPolicy checks if tsa trust store is configured in\n// trust policy\nfunc isTSATrustStoreInPolicy(policyName string, trustStores []string) (bool, error) {\n\tfor _, trustStore := range trustStores {\n\t\tstoreType, _, found := strings.Cut(trustStore, ":")\n\t\tif !found {\n\t\t\treturn false, truststore.TrustStoreError{Msg: fmt.Sprintf("invalid trust policy statement: %q is missing separator in trust store value %q. The required format is <TrustStoreType>:<TrustStoreName>", policyName, trustStore)}\n\t\t}\n\t\tif truststore.Type(storeType) == truststore.TypeTSA {\n\t\t\treturn true, nil\n\t\t}\n\t}\n',
  '// isTSATrustStoreInPolicy checks if tsa trust store is configured in\n// trust policy\nfunc isTSATrustStoreInPolicy(policyName string, trustStores []string) (bool, error) {\n\ttsaPrefix := string(truststore.TypeTSA) + ":"\n\tfor _, trustStore := range trustStores {\n\t\tif !strings.Contains(trustStore, ":") {\n\t\t\treturn false, truststore.TrustStoreError{Msg: fmt.Sprintf("invalid trust policy statement: %q is missing separator in trust store value %q. The required format is <TrustStoreType>:<TrustStoreName>", policyName, trustStore)}\n\t\t}\n\t\tif strings.HasPrefix(trustStore, tsaPrefix) {\n\t\t\treturn true, nil\n\t\t}\n\t}\n'),
 (V,
  '\t"fmt"\n\t"net/http"\n\t"reflect"\n\t"strings"\n\t"time"\n\n',
  '\t"fmt"\n\t"net/http"\n\t"reflect"\n\tstdslices "slices"\n\t"strings"\n\t"time"\n\n'),
 (V,
  '}\n\nfunc verifyExpiry(outcome *notation.VerificationOutcome) *notation.ValidationResult {\n\tif expiry := outcome.EnvelopeContent.SignerInfo.SignedAttributes.Expiry; !expiry.IsZero() && !time.Now().Before(expiry) {\n\t\treturn &notation.ValidationResult{\n\t\t\tError:  fmt.Errorf("digital signature has expired on %q", expiry.Format(time.RFC1123Z)),\n\t\t\tType:   trustpolicy.TypeExpiry,\n',
  '}\n\nfunc verifyExpiry(outcome *notation.VerificationOutcome) *notation.ValidationResult {\n\tif expiry := outcome.EnvelopeContent.SignerInfo.SignedAttributes.Expiry; !expiry.IsZero() && time.Now().Compare(expiry) >= 0 {\n\t\treturn &notation.ValidationResult{\n\t\t\tError:  fmt.Errorf("digital signature has expired on %q", expiry.Format(time.RFC1123Z)),\n\t\t\tType:   trustpolicy.TypeExpiry,\n'),
 (V,
  '\t// under signing scheme notary.x509.signingAuthority\n\tlogger.Debug("Under signing scheme notary.x509.signingAuthority...")\n\tauthenticSigningTime := signerInfo.SignedAttributes.SigningTime\n\tfor _, cert := range signerInfo.CertificateChain {\n\t\tif authenticSigningTime.Before(cert.NotBefore) || authenticSigningTime.After(cert.NotAfter) {\n\t\t\treturn &notation.ValidationResult{\n\t\t\t\tError:  fmt.Errorf("certificate %q was not valid when the digital signature was produced at %q", cert.Subject, authenticSigningTime.Format(time.RFC1123Z)),\n\t\t\t\tType:   trustpolicy.TypeAuthenticTimestamp,\n\t\t\t\tAction: outcome.VerificationLevel.Enforcement[trustpolicy.TypeAuthenticTimestamp],\n\t\t\t}\n\t\t}\n\t}\n\n',
  '\t// under signing scheme notary.x509.signingAuthority\n\tlogger.Debug("Under signing scheme notary.x509.signingAuthority...")\n\tauthenticSigningTime := signerInfo.SignedAttributes.SigningTime\n\tinvalidCertIndex := stdslices.IndexFunc(signerInfo.CertificateChain, func(cert *x509.Certificate) bool {\n\t\treturn authenticSigningTime.Compare(cert.NotBefore) < 0 || authenticSigningTime.Compare(cert.NotAfter) > 0\n\t})\n\tif invalidCertIndex >= 0 {\n\t\tcert := signerInfo.CertificateChain[invalidCertIndex]\n\t\treturn &notation.ValidationResult{\n\t\t\tError:  fmt.Errorf("certificate %q was not valid when the digital signature was produced at %q", cert.Subject, authenticSigningTime.Format(time.RFC1123Z)),\n\t\t\tType:   trustpolicy.TypeAuthenticTimestamp,\n\t\t\tAction: outcome.VerificationLevel.Enforcement[trustpolicy.TypeAuthenticTimestamp],\n\t\t}\n\t}\n\n'),
 (V,
  '\tif performTimestampVerification &&\n\t\tsignatureVerification.VerifyTimestamp == trustpolicy.OptionAfterCertExpiry {\n\t\t// check if signing cert chain has expired\n\t\tvar expired bool\n\t\tfor _, cert := range signerInfo.CertificateChain {\n\t\t\tif timeOfVerification.After(cert.NotAfter) {\n\t\t\t\texpired = true\n\t\t\t\tbreak\n\t\t\t}\n\t\t}\n\t\tif !expired {\n\t\t\tlogger.Infof("Timestamp verification disabled: verifyTimestamp is set to %q and signing cert chain unexpired", trustpolicy.OptionAfterCertExpiry)\n\t\t\tperformTimestampVerification = false\n',
  '\tif performTimestampVerification &&\n\t\tsignatureVerification.VerifyTimestamp == trustpolicy.OptionAfterCertExpiry {\n\t\t// check if signing cert chain has expired\n\t\texpired := stdslices.ContainsFunc(signerInfo.CertificateChain, func(cert *x509.Certificate) bool {\n\t\t\treturn timeOfVerification.After(cert.NotAfter)\n\t\t})\n\t\tif !expired {\n\t\t\tlogger.Infof("Timestamp verification disabled: verifyTimestamp is set to %q and signing cert chain unexpired", trustpolicy.OptionAfterCertExpiry)\n\t\t\tperformTimestampVerification = false\n'),
]

# verifyTimestamp turned into a method of a struct of options; the signer info is passed as a pointer to the caller's copy
SHAPE_METHOD = [
 (V, '\t\tlogger.Debug("Under signing scheme notary.x509...")\n\t\treturn &notation.ValidationResult{\n\t\t\tError:  verifyTimestamp(ctx, policyName, trustStores, signatureVerification, x509TrustStore, r, outcome),\n',
     '\t\tlogger.Debug("Under signing scheme notary.x509...")\n\t\ttsVerifier := timestampVerifier{\n\t\t\tpolicyName:          policyName,\n\t\t\ttrustStores:         trustStores,\n\t\t\tverifyTimestamp:     signatureVerification.VerifyTimestamp,\n\t\t\tx509TrustStore:      x509TrustStore,\n\t\t\trevocationValidator: r,\n\t\t}\n\t\treturn &notation.ValidationResult{\n\t\t\tError:  tsVerifier.verify(ctx, &signerInfo),\n'),
 (V, 'func verifyTimestamp(ctx context.Context, policyName string, trustStores []string, signatureVerification trustpolicy.SignatureVerification, x509TrustStore truststore.X509TrustStore, r revocation.Validator, outcome *notation.VerificationOutcome) error {\n\tlogger := log.GetLogger(ctx)\n\n\tsignerInfo := outcome.EnvelopeContent.SignerInfo\n',
     'type timestampVerifier struct {\n\tpolicyName          string\n\ttrustStores         []string\n\tverifyTimestamp     trustpolicy.TimestampOption\n\tx509TrustStore      truststore.X509TrustStore\n\trevocationValidator revocation.Validator\n}\n\nfunc (tv timestampVerifier) verify(ctx context.Context, signerInfo *signature.SignerInfo) error {\n\tlogger := log.GetLogger(ctx)\n\n'),
 (V, 'tsaEnabled, err := isTSATrustStoreInPolicy(policyName, trustStores)', 'tsaEnabled, err := isTSATrustStoreInPolicy(tv.policyName, tv.trustStores)'),
 (V, '\t\tsignatureVerification.VerifyTimestamp == trustpolicy.OptionAfterCertExpiry {', '\t\ttv.verifyTimestamp == trustpolicy.OptionAfterCertExpiry {'),
 (V, 'loadX509TSATrustStores(ctx, outcome.EnvelopeContent.SignerInfo.SignedAttributes.SigningScheme, policyName, trustStores, x509TrustStore)', 'loadX509TSATrustStores(ctx, signerInfo.SignedAttributes.SigningScheme, tv.policyName, tv.trustStores, tv.x509TrustStore)'),
 (V, 'certResults, err := r.ValidateContext(ctx, revocation.ValidateContextOptions{\n\t\tCertChain: tsaCertChain,', 'certResults, err := tv.revocationValidator.ValidateContext(ctx, revocation.ValidateContextOptions{\n\t\tCertChain: tsaCertChain,'),
]

VARIANTS += [
 # --- shape: helpers
 dict(name='shape-helpers', expect='silent', edits=SHAPE_HELPERS),
 dict(name='helpers-now-notbefore-dropped', expect='flagged(regime/valid-now)',
      edits=_mut(SHAPE_HELPERS, '\t\tif timeOfVerification.Before(cert.NotBefore) {\n\t\t\treturn fmt.Errorf("verification time is before certificate %q validity period, it will be valid from %q", cert.Subject, cert.NotBefore.Format(time.RFC1123Z))\n\t\t}\n', '')),
 dict(name='helpers-now-fed-signing-time', expect='flagged(regime/valid-now)',
      edits=_mut(SHAPE_HELPERS, 'return validateCertChainAtVerificationTime(signerInfo.CertificateChain, timeOfVerification)', 'return validateCertChainAtVerificationTime(signerInfo.CertificateChain, signerInfo.SignedAttributes.SigningTime)')),
 dict(name='helpers-now-leaf-only', expect='flagged(regime/valid-now)',
      edits=_mut(SHAPE_HELPERS, 'return validateCertChainAtVerificationTime(signerInfo.CertificateChain, timeOfVerification)', 'return validateCertChainAtVerificationTime(signerInfo.CertificateChain[:1], timeOfVerification)')),
 dict(name='helpers-now-verdict-dropped', expect='flagged(regime/valid-now)',
      edits=_mut(SHAPE_HELPERS, '\t\treturn validateCertChainAtVerificationTime(signerInfo.CertificateChain, timeOfVerification)\n', '\t\tif err := validateCertChainAtVerificationTime(signerInfo.CertificateChain, timeOfVerification); err != nil {\n\t\t\tlogger.Debug(err)\n\t\t}\n\t\treturn nil\n')),
 dict(name='helpers-now-helper-stops-after-leaf', expect='flagged(regime/valid-now)',
      edits=_mut(SHAPE_HELPERS, '\t\tif timeOfVerification.After(cert.NotAfter) {\n\t\t\treturn fmt.Errorf("verification time is after certificate %q validity period, it was expired at %q", cert.Subject, cert.NotAfter.Format(time.RFC1123Z))\n\t\t}\n\t}\n\n\t// success\n\treturn nil\n',
                 '\t\tif timeOfVerification.After(cert.NotAfter) {\n\t\t\treturn fmt.Errorf("verification time is after certificate %q validity period, it was expired at %q", cert.Subject, cert.NotAfter.Format(time.RFC1123Z))\n\t\t}\n\t\tbreak\n\t}\n\n\t// success\n\treturn nil\n')),
 dict(name='helpers-window-error-ignored', expect='flagged(timestamp/window)',
      edits=_mut(SHAPE_HELPERS, 'timestamp, timeOfVerification); err != nil {\n\t\treturn err\n\t}', 'timestamp, timeOfVerification); err != nil {\n\t\tlogger.Debug(err)\n\t}')),
 dict(name='helpers-window-notafter-dropped', expect='flagged(timestamp/window)',
      edits=_mut(SHAPE_HELPERS, '\t\tif !timestamp.BoundedBefore(cert.NotAfter) {\n\t\t\treturn fmt.Errorf("timestamp can be after certificate %q validity period, it was expired at %q", cert.Subject, cert.NotAfter.Format(time.RFC1123Z))\n\t\t}\n', '')),
 dict(name='helpers-window-early-success', expect='flagged(timestamp/window)',
      edits=_mut(SHAPE_HELPERS, '\t\t\tlogger.Debugf("Certificate %q expired at %q, but timestamp is within certificate validity period", cert.Subject, cert.NotAfter.Format(time.RFC1123Z))\n\t\t}\n\t}\n\treturn nil\n',
                 '\t\t\tlogger.Debugf("Certificate %q expired at %q, but timestamp is within certificate validity period", cert.Subject, cert.NotAfter.Format(time.RFC1123Z))\n\t\t\treturn nil\n\t\t}\n\t}\n\treturn nil\n')),
 dict(name='helpers-window-other-chain', expect='flagged(timestamp/window)',
      edits=_mut(SHAPE_HELPERS, 'validateCertChainAtTimestamp(logger, signerInfo.CertificateChain, timestamp, timeOfVerification)', 'validateCertChainAtTimestamp(logger, tsaCertChain, timestamp, timeOfVerification)')),
 dict(name='helpers-expired-answer-inverted', expect='flagged(regime/decision-table)',
      edits=_mut(SHAPE_HELPERS, '\t\tif t.After(cert.NotAfter) {\n\t\t\treturn true\n\t\t}\n\t}\n\treturn false\n', '\t\tif t.After(cert.NotAfter) {\n\t\t\treturn false\n\t\t}\n\t}\n\treturn true\n')),
 dict(name='helpers-expired-judged-by-notbefore', expect='flagged(regime/decision-table)',
      edits=_mut(SHAPE_HELPERS, '\t\tif t.After(cert.NotAfter) {\n\t\t\treturn true\n', '\t\tif t.After(cert.NotBefore) {\n\t\t\treturn true\n')),
 dict(name='helpers-expired-at-signing-time', expect='flagged(regime/decision-table)',
      edits=_mut(SHAPE_HELPERS, 'if !isCertChainExpiredAt(signerInfo.CertificateChain, timeOfVerification) {', 'if !isCertChainExpiredAt(signerInfo.CertificateChain, signerInfo.SignedAttributes.SigningTime) {')),
 dict(name='helpers-expired-answer-negated-twice', expect='flagged(regime/decision-table)',
      edits=_mut(SHAPE_HELPERS, 'if !isCertChainExpiredAt(signerInfo.CertificateChain, timeOfVerification) {', 'if isCertChainExpiredAt(signerInfo.CertificateChain, timeOfVerification) {')),
 # --- shape: single exit / error variable
 dict(name='shape-single-exit', expect='silent', edits=SHAPE_SINGLE_EXIT),
 dict(name='single-exit-expiry-after', expect='flagged(expiry/clock)',
      edits=_mut(SHAPE_SINGLE_EXIT, '\t\tif !time.Now().Before(expiry) {\n', '\t\tif time.Now().After(expiry) {\n')),
 dict(name='single-exit-expiry-error-not-reported', expect='flagged(expiry/clock)',
      edits=_mut(SHAPE_SINGLE_EXIT, '\t\tError:  expiryErr,\n', '', also=[(V, '\t\t\texpiryErr = fmt.Errorf("digital signature has expired on %q", expiry.Format(time.RFC1123Z))\n', '\t\t\texpiryErr = fmt.Errorf("digital signature has expired on %q", expiry.Format(time.RFC1123Z))\n\t\t\tlog.GetLogger(context.Background()).Debug(expiryErr)\n')])),
 dict(name='single-exit-expiry-error-cleared', expect='flagged(expiry/clock)',
      edits=_mut(SHAPE_SINGLE_EXIT, '\treturn &notation.ValidationResult{\n\t\tError:  expiryErr,\n', '\tif outcome.VerificationLevel.Name == "audit" {\n\t\texpiryErr = nil\n\t}\n\treturn &notation.ValidationResult{\n\t\tError:  expiryErr,\n')),
 dict(name='single-exit-sa-notafter-dropped', expect='flagged(signing-authority/window)',
      edits=_mut(SHAPE_SINGLE_EXIT, 'if authenticSigningTime.Before(cert.NotBefore) || authenticSigningTime.After(cert.NotAfter) {', 'if authenticSigningTime.Before(cert.NotBefore) {')),
 dict(name='single-exit-sa-break-without-error', expect='flagged(signing-authority/window)',
      edits=_mut(SHAPE_SINGLE_EXIT, '\t\t\t\ttimestampErr = fmt.Errorf("certificate %q was not valid when the digital signature was produced at %q", cert.Subject, authenticSigningTime.Format(time.RFC1123Z))\n\t\t\t\tbreak\n',
                 '\t\t\t\tlogger.Debugf("certificate %q was not valid when the digital signature was produced at %q", cert.Subject, authenticSigningTime.Format(time.RFC1123Z))\n\t\t\t\tbreak\n')),
 dict(name='single-exit-sa-leaf-only', expect='flagged(signing-authority/window)',
      edits=_mut(SHAPE_SINGLE_EXIT, '\t\tauthenticSigningTime := signerInfo.SignedAttributes.SigningTime\n\t\tfor _, cert := range signerInfo.CertificateChain {', '\t\tauthenticSigningTime := signerInfo.SignedAttributes.SigningTime\n\t\tfor _, cert := range signerInfo.CertificateChain[:1] {')),
 dict(name='single-exit-x509-error-dropped', expect='flagged(dispatch/)',
      edits=_mut(SHAPE_SINGLE_EXIT, '\t\ttimestampErr = verifyTimestamp(ctx, policyName, trustStores, signatureVerification, x509TrustStore, r, outcome)\n', '\t\tif err := verifyTimestamp(ctx, policyName, trustStores, signatureVerification, x509TrustStore, r, outcome); err != nil {\n\t\t\tlogger.Debug(err)\n\t\t}\n')),
 dict(name='single-exit-x509-falls-into-signing-authority', expect='flagged(dispatch/)',
      edits=_mut(SHAPE_SINGLE_EXIT, '\tswitch signerInfo.SignedAttributes.SigningScheme {\n\tcase signature.SigningSchemeX509:', '\tswitch signerInfo.SignedAttributes.SigningScheme {\n\tcase signature.SigningSchemeX509SigningAuthority:')),
 dict(name='single-exit-unknown-revocation-passes', expect='flagged(timestamp/tsa-revocation-ok)',
      edits=_mut(SHAPE_SINGLE_EXIT, '\tif finalResult != revocationresult.ResultOK {\n', '\tif finalResult == revocationresult.ResultNonRevokable {\n')),
 # --- shape: library calls
 dict(name='shape-library-calls', expect='silent', edits=SHAPE_LIBRARY),
 dict(name='lib-expiry-compare-boundary', expect='flagged(expiry/clock)',
      edits=_mut(SHAPE_LIBRARY, 'time.Now().Compare(expiry) >= 0 {', 'time.Now().Compare(expiry) > 0 {')),
 dict(name='lib-expiry-compare-operands-swapped', expect='flagged(expiry/clock)',
      edits=_mut(SHAPE_LIBRARY, 'time.Now().Compare(expiry) >= 0 {', 'expiry.Compare(time.Now()) >= 0 {')),
 dict(name='lib-sa-predicate-notbefore-dropped', expect='flagged(signing-authority/window)',
      edits=_mut(SHAPE_LIBRARY, 'return authenticSigningTime.Compare(cert.NotBefore) < 0 || authenticSigningTime.Compare(cert.NotAfter) > 0', 'return authenticSigningTime.Compare(cert.NotAfter) > 0')),
 dict(name='lib-sa-predicate-signs-flipped', expect='flagged(signing-authority/window)',
      edits=_mut(SHAPE_LIBRARY, 'return authenticSigningTime.Compare(cert.NotBefore) < 0 || authenticSigningTime.Compare(cert.NotAfter) > 0', 'return authenticSigningTime.Compare(cert.NotBefore) > 0 || authenticSigningTime.Compare(cert.NotAfter) < 0')),
 dict(name='lib-sa-search-leaf-only', expect='flagged(signing-authority/window)',
      edits=_mut(SHAPE_LIBRARY, 'stdslices.IndexFunc(signerInfo.CertificateChain, func', 'stdslices.IndexFunc(signerInfo.CertificateChain[:1], func')),
 dict(name='lib-sa-index-zero-missed', expect='flagged(signing-authority/window)',
      edits=_mut(SHAPE_LIBRARY, '\tif invalidCertIndex >= 0 {\n', '\tif invalidCertIndex > 0 {\n')),
 dict(name='lib-sa-predicate-captured-time-reassigned', expect='flagged(signing-authority/window)',
      edits=_mut(SHAPE_LIBRARY, '\tinvalidCertIndex := stdslices.IndexFunc(', '\tif authenticSigningTime.IsZero() {\n\t\tauthenticSigningTime = time.Now()\n\t}\n\tinvalidCertIndex := stdslices.IndexFunc(')),
 dict(name='lib-expired-judged-by-notbefore', expect='flagged(regime/decision-table)',
      edits=_mut(SHAPE_LIBRARY, '\t\t\treturn timeOfVerification.After(cert.NotAfter)\n', '\t\t\treturn timeOfVerification.After(cert.NotBefore)\n')),
 dict(name='lib-expired-answer-negated', expect='flagged(regime/decision-table)',
      edits=_mut(SHAPE_LIBRARY, '\t\texpired := stdslices.ContainsFunc(', '\t\texpired := !stdslices.ContainsFunc(')),
 dict(name='lib-expired-leaf-only-time-of-signing', expect='flagged(regime/decision-table)',
      edits=_mut(SHAPE_LIBRARY, '\t\t\treturn timeOfVerification.After(cert.NotAfter)\n', '\t\t\treturn signerInfo.SignedAttributes.SigningTime.After(cert.NotAfter)\n')),
 dict(name='lib-tsa-prefix-without-separator', expect='flagged(regime/tsa-enabled-helper)',
      edits=_mut(SHAPE_LIBRARY, '\ttsaPrefix := string(truststore.TypeTSA) + ":"\n', '\ttsaPrefix := string(truststore.TypeTSA)\n')),
 dict(name='lib-tsa-prefix-of-other-type', expect='flagged(regime/tsa-enabled-helper)',
      edits=_mut(SHAPE_LIBRARY, '\ttsaPrefix := string(truststore.TypeTSA) + ":"\n', '\ttsaPrefix := string(truststore.TypeSigningAuthority) + ":"\n')),
 dict(name='lib-tsa-suffix-instead-of-prefix', expect='flagged(regime/tsa-enabled-helper)',
      edits=_mut(SHAPE_LIBRARY, 'if strings.HasPrefix(trustStore, tsaPrefix) {', 'if strings.Contains(trustStore, tsaPrefix) {')),
 # --- shape: method of an options struct, signer info by pointer
 dict(name='shape-method-struct', expect='silent', edits=SHAPE_METHOD),
 dict(name='method-option-not-from-policy', expect='flagged(regime/decision-table)',
      edits=_mut(SHAPE_METHOD, '\t\t\tverifyTimestamp:     signatureVerification.VerifyTimestamp,\n', '\t\t\tverifyTimestamp:     trustpolicy.OptionAfterCertExpiry,\n')),
 dict(name='method-option-overwritten-after-literal', expect='flagged(regime/decision-table)',
      edits=_mut(SHAPE_METHOD, '\t\t\trevocationValidator: r,\n\t\t}\n', '\t\t\trevocationValidator: r,\n\t\t}\n\t\tif len(trustStores) > 1 {\n\t\t\ttsVerifier.verifyTimestamp = trustpolicy.OptionAfterCertExpiry\n\t\t}\n')),
 dict(name='method-stores-not-from-policy', expect='flagged(regime/tsa-enabled-helper)',
      edits=_mut(SHAPE_METHOD, '\t\t\ttrustStores:         trustStores,\n', '\t\t\ttrustStores:         []string{"tsa:default"},\n')),
 dict(name='method-caller-trims-chain', expect='flagged(regime/valid-now)',
      edits=_mut(SHAPE_METHOD, '\t\ttsVerifier := timestampVerifier{\n', '\t\tsignerInfo.CertificateChain = signerInfo.CertificateChain[:1]\n\t\ttsVerifier := timestampVerifier{\n')),
 dict(name='method-callee-trims-chain', expect='flagged(timestamp/window)',
      edits=_mut(SHAPE_METHOD, 'func (tv timestampVerifier) verify(ctx context.Context, signerInfo *signature.SignerInfo) error {\n\tlogger := log.GetLogger(ctx)\n', 'func (tv timestampVerifier) verify(ctx context.Context, signerInfo *signature.SignerInfo) error {\n\tlogger := log.GetLogger(ctx)\n\tsignerInfo.CertificateChain = signerInfo.CertificateChain[:1]\n')),
 dict(name='method-other-signer-info', expect='flagged(timestamp/message-imprint)',
      edits=_mut(SHAPE_METHOD, '\t\t\tError:  tsVerifier.verify(ctx, &signerInfo),\n', '\t\t\tError:  tsVerifier.verify(ctx, &signature.SignerInfo{CertificateChain: signerInfo.CertificateChain, UnsignedAttributes: signerInfo.UnsignedAttributes}),\n')),
 dict(name='method-sa-time-from-modified-copy', expect='flagged(signing-authority/window)',
      edits=_mut(SHAPE_METHOD, '\t\t\tError:  tsVerifier.verify(ctx, &signerInfo),\n', '\t\t\tError:  tsVerifier.verify(ctx, &signerInfo),\n', also=[(V, '\tauthenticSigningTime := signerInfo.SignedAttributes.SigningTime\n', '\tif signerInfo.SignedAttributes.SigningTime.IsZero() {\n\t\tsignerInfo.SignedAttributes.SigningTime = time.Now()\n\t}\n\tauthenticSigningTime := signerInfo.SignedAttributes.SigningTime\n')])),
]
