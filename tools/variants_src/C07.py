N = 'notation.go'
S = 'signer/signer.go'
SP = 'signer/plugin.go'
A = 'plugin/proto/algorithm.go'

# ---- building blocks of the variants in the generalised shapes (see the end of VARIANTS) ----
_REQ = '\tsignReq := &signature.SignRequest{\n'
_NOW = '\t\tSigningTime:            time.Now(),\n'
_NOW_LOCALS = '\t\tSigningTime:            signingTime,\n\t\tExpiry:                 expiry,\n'
_AHEAD = '\tsigningTime := time.Now()\n\tvar expiry time.Time\n\tif opts.ExpiryDuration != 0 {\n\t\texpiry = signingTime.Add(opts.ExpiryDuration)\n\t}\n'
_PATCH_EXPIRY = '\tif opts.ExpiryDuration != 0 {\n\t\tsignReq.Expiry = signReq.SigningTime.Add(opts.ExpiryDuration)\n\t}\n'
_SWAP = [
 (S, 'func getDescriptor(ks signature.KeySpec, genDesc notation.BlobDescriptorGenerator)', 'func getDescriptor(genDesc notation.BlobDescriptorGenerator, ks signature.KeySpec)'),
 (S, 'getDescriptor(ks, genDesc)', 'getDescriptor(genDesc, ks)'),
 (SP, 'getDescriptor(ks, descGenFunc)', 'getDescriptor(descGenFunc, ks)'),
]
_INLINE = 'payload := envelope.Payload{TargetArtifact: envelope.SanitizeTargetArtifact(desc)}\n\tpayloadBytes, err := json.Marshal(payload)\n\tif err != nil {\n\t\treturn nil, nil, fmt.Errorf("envelope payload can\'t be marshalled: %w", err)\n\t}\n'
_HELPER_FN = 'func marshalPayload(desc ocispec.Descriptor) ([]byte, error) {\n\tpayload := envelope.Payload{TargetArtifact: envelope.SanitizeTargetArtifact(desc)}\n\tpayloadBytes, err := json.Marshal(payload)\n\tif err != nil {\n\t\treturn nil, fmt.Errorf("envelope payload can\'t be marshalled: %w", err)\n\t}\n\treturn payloadBytes, nil\n}\n\n'
_GETDESC = 'func getDescriptor(ks signature.KeySpec'
def _HELPER(helper=_HELPER_FN, plugin_call='marshalPayload(desc)'):
    call = 'payloadBytes, err := %s\n\tif err != nil {\n\t\treturn nil, nil, err\n\t}\n'
    return [
     (S, _INLINE + '\tvar signingAgentId string', call % 'marshalPayload(desc)' + '\tvar signingAgentId string'),
     (S, _GETDESC, helper + _GETDESC),
     (SP, _INLINE + '\n\t// Execute plugin sign command.', call % plugin_call + '\n\t// Execute plugin sign command.'),
    ]
_GEN = """func getDescriptorFunc(ctx context.Context, reader io.Reader, contentMediaType string, userMetadata map[string]string) BlobDescriptorGenerator {
	return func(hashAlgo digest.Algorithm) (ocispec.Descriptor, error) {
		digester := hashAlgo.Digester()
		bytes, err := io.Copy(digester.Hash(), reader)
		if err != nil {
			return ocispec.Descriptor{}, err
		}
		targetDesc := ocispec.Descriptor{
			MediaType: contentMediaType,
			Digest:    digester.Digest(),
			Size:      bytes,
		}
		return addUserMetadataToDescriptor(ctx, targetDesc, userMetadata)
	}
}
"""
_GEN_METHOD = """type blobDescriber struct {
	ctx              context.Context
	reader           io.Reader
	contentMediaType string
	userMetadata     map[string]string
}

func (b *blobDescriber) describe(hashAlgo digest.Algorithm) (ocispec.Descriptor, error) {
	digester := hashAlgo.Digester()
	bytes, err := io.Copy(digester.Hash(), b.reader)
	if err != nil {
		return ocispec.Descriptor{}, err
	}
	targetDesc := ocispec.Descriptor{
		MediaType: b.contentMediaType,
		Digest:    digester.Digest(),
		Size:      bytes,
	}
	return addUserMetadataToDescriptor(b.ctx, targetDesc, b.userMetadata)
}

func getDescriptorFunc(ctx context.Context, reader io.Reader, contentMediaType string, userMetadata map[string]string) BlobDescriptorGenerator {
	describer := &blobDescriber{
		ctx:              ctx,
		reader:           reader,
		contentMediaType: contentMediaType,
		userMetadata:     userMetadata,
	}
	return describer.describe
}
"""
VARIANTS = [
 dict(name='F11-reintroduced', file=N, expect='flagged(reader/)',
      find='''	var payload envelope.Payload
	if err = json.Unmarshal(vo.EnvelopeContent.Payload.Content, &payload); err != nil {
		return ocispec.Descriptor{}, nil, err
	}
	return payload.TargetArtifact, vo, nil''', replace='''	var desc ocispec.Descriptor
	if err = json.Unmarshal(vo.EnvelopeContent.Payload.Content, &desc); err != nil {
		return ocispec.Descriptor{}, nil, err
	}
	return desc, vo, nil'''),
 dict(name='verifyblob-returns-empty', file=N, expect='flagged(returns/VerifyBlob)',
      find='\treturn payload.TargetArtifact, vo, nil', replace='\treturn ocispec.Descriptor{MediaType: payload.TargetArtifact.MediaType}, vo, nil'),
 dict(name='usermetadata-from-elsewhere', file=N, expect='flagged(returns/UserMetadata)',
      find='\treturn payload.TargetArtifact.Annotations, nil\n}', replace='\treturn map[string]string{}, nil\n}'),
 dict(name='signer-table-changed', file=SP, expect='flagged(tables/hash-to-digest-algorithm)',
      find='\tcrypto.SHA384: digest.SHA384,\n', replace='\tcrypto.SHA384: digest.SHA512,\n'),
 dict(name='verifier-table-missing-512', file='verifier/verifier.go', expect='flagged(tables/)',
      find='\tcrypto.SHA512: digest.SHA512,\n', replace=''),
 dict(name='proto-hash-ec521', file=A, expect='flagged(tables/hash-of-keyspec/EC-521)',
      find='\t\tcase 521:\n\t\t\treturn plugin.HashAlgorithmSHA512, nil', replace='\t\tcase 521:\n\t\t\treturn plugin.HashAlgorithmSHA384, nil'),
 dict(name='decode-rsa3072-size', file=A, expect='flagged(tables/keyspec-codec/RSA-3072)',
      find='\tcase plugin.KeySpecRSA3072:\n\t\tkeySpec.Size = 3072', replace='\tcase plugin.KeySpecRSA3072:\n\t\tkeySpec.Size = 4096'),
 dict(name='encode-ec384', file=A, expect='flagged(tables/keyspec-codec/EC-384)',
      find='\t\tcase 384:\n\t\t\treturn plugin.KeySpecEC384, nil', replace='\t\tcase 384:\n\t\t\treturn plugin.KeySpecEC256, nil'),
 dict(name='sanitize-drops-annotations', file='internal/envelope/envelope.go', expect='flagged(payload/sanitize)',
      find='\t\tAnnotations: targetArtifact.Annotations,\n', replace=''),
 dict(name='sanitize-keeps-urls', file='internal/envelope/envelope.go', expect='flagged(payload/sanitize)',
      find='\t\tAnnotations: targetArtifact.Annotations,\n', replace='\t\tAnnotations: targetArtifact.Annotations,\n\t\tURLs:        targetArtifact.URLs,\n'),
 dict(name='expiry-from-now', file=S, expect='flagged(payload/expiry)',
      find='signReq.Expiry = signReq.SigningTime.Add(opts.ExpiryDuration)', replace='signReq.Expiry = time.Now().Add(opts.ExpiryDuration)'),
 dict(name='expiry-always-set', file=S, expect='flagged(payload/expiry)',
      find='\tif opts.ExpiryDuration != 0 {\n\t\tsignReq.Expiry = signReq.SigningTime.Add(opts.ExpiryDuration)\n\t}', replace='\tsignReq.Expiry = signReq.SigningTime.Add(opts.ExpiryDuration)'),
 dict(name='plugin-expiry-minutes', file=SP, expect='flagged(payload/expiry-plugin)',
      find='ExpiryDurationInSeconds: uint64(opts.ExpiryDuration / time.Second),', replace='ExpiryDurationInSeconds: uint64(opts.ExpiryDuration / time.Millisecond),'),
 dict(name='payload-type-differs', file=S, expect='flagged(payload/content-type-written)',
      find='\t\t\tContentType: envelope.MediaTypePayloadV1,\n', replace='\t\t\tContentType: "application/vnd.cncf.notary.payload.v2+json",\n'),
 dict(name='unsanitized-payload', file=SP, expect='flagged(payload/signed-descriptor)',
      find='payload := envelope.Payload{TargetArtifact: envelope.SanitizeTargetArtifact(desc)}\n\tpayloadBytes, err := json.Marshal(payload)\n\tif err != nil {\n\t\treturn nil, nil, fmt.Errorf("envelope payload can\'t be marshalled: %w", err)\n\t}\n\n\t// Execute plugin sign command.',
      replace='payload := envelope.Payload{TargetArtifact: desc}\n\tpayloadBytes, err := json.Marshal(payload)\n\tif err != nil {\n\t\treturn nil, nil, fmt.Errorf("envelope payload can\'t be marshalled: %w", err)\n\t}\n\n\t// Execute plugin sign command.'),
 dict(name='blob-digest-sha256-always', file=S, expect='flagged(payload/blob-digest-algorithm)',
      find='\treturn genDesc(digestAlg)', replace='\t_ = digestAlg\n\treturn genDesc(algorithms[crypto.SHA256])'),
 # benign
 dict(name='benign-pointer-payload', file=N, expect='silent',
      find='''	var payload envelope.Payload
	if err = json.Unmarshal(vo.EnvelopeContent.Payload.Content, &payload); err != nil {
		return ocispec.Descriptor{}, nil, err
	}
	return payload.TargetArtifact, vo, nil''', replace='''	payload := &envelope.Payload{}
	if err = json.Unmarshal(vo.EnvelopeContent.Payload.Content, payload); err != nil {
		return ocispec.Descriptor{}, nil, err
	}
	return payload.TargetArtifact, vo, nil'''),
 dict(name='benign-hash-switch-reordered', file=A, expect='silent',
      find='''	switch k.Type {
	case signature.KeyTypeEC:
		switch k.Size {
		case 256:
			return plugin.HashAlgorithmSHA256, nil
		case 384:
			return plugin.HashAlgorithmSHA384, nil
		case 521:
			return plugin.HashAlgorithmSHA512, nil
		}
	case signature.KeyTypeRSA:
		switch k.Size {
		case 2048:
			return plugin.HashAlgorithmSHA256, nil
		case 3072:
			return plugin.HashAlgorithmSHA384, nil
		case 4096:
			return plugin.HashAlgorithmSHA512, nil
		}
	}
	return "", fmt.Errorf("invalid KeySpec %q", k)
}

// SignatureAlgorithm is''', replace='''	if k.Type == signature.KeyTypeRSA {
		if k.Size == 4096 {
			return plugin.HashAlgorithmSHA512, nil
		} else if k.Size == 3072 {
			return plugin.HashAlgorithmSHA384, nil
		} else if k.Size == 2048 {
			return plugin.HashAlgorithmSHA256, nil
		}
	} else if k.Type == signature.KeyTypeEC {
		switch k.Size {
		case 521:
			return plugin.HashAlgorithmSHA512, nil
		case 384:
			return plugin.HashAlgorithmSHA384, nil
		case 256:
			return plugin.HashAlgorithmSHA256, nil
		}
	}
	return "", fmt.Errorf("invalid KeySpec %q", k)
}

// SignatureAlgorithm is'''),

 # ---- shapes accepted since the rules follow values / helpers instead of one body's printed form ----
 # (1) expiry computed ahead of the request (local signing time + local expiry, both put into the literal)
 dict(name='benign-expiry-computed-ahead', expect='silent', edits=[
      (S, _REQ, _AHEAD + _REQ), (S, _NOW, _NOW_LOCALS), (S, _PATCH_EXPIRY, '')]),
 dict(name='expiry-ahead-other-clock', expect='flagged(payload/expiry)', edits=[
      (S, _REQ, _AHEAD.replace('expiry = signingTime.Add(', 'expiry = time.Now().Add(') + _REQ), (S, _NOW, _NOW_LOCALS), (S, _PATCH_EXPIRY, '')]),
 dict(name='expiry-ahead-unguarded', expect='flagged(payload/expiry)', edits=[
      (S, _REQ, '\tsigningTime := time.Now()\n\texpiry := signingTime.Add(opts.ExpiryDuration)\n' + _REQ), (S, _NOW, _NOW_LOCALS), (S, _PATCH_EXPIRY, '')]),
 dict(name='expiry-ahead-request-reads-clock-again', expect='flagged(payload/expiry)', edits=[
      (S, _REQ, _AHEAD + _REQ), (S, _NOW, '\t\tSigningTime:            time.Now(),\n\t\tExpiry:                 expiry,\n'), (S, _PATCH_EXPIRY, '')]),
 dict(name='expiry-ahead-default-when-none-requested', expect='flagged(payload/expiry)', edits=[
      (S, _REQ, _AHEAD.replace('var expiry time.Time\n', 'expiry := signingTime.Add(24 * time.Hour)\n') + _REQ), (S, _NOW, _NOW_LOCALS), (S, _PATCH_EXPIRY, '')]),
 dict(name='expiry-ahead-never-set', expect='flagged(payload/expiry)', edits=[
      (S, _REQ, '\tsigningTime := time.Now()\n\tvar expiry time.Time\n' + _REQ), (S, _NOW, _NOW_LOCALS), (S, _PATCH_EXPIRY, '')]),
 dict(name='expiry-never-set', file=S, expect='flagged(payload/expiry)', find=_PATCH_EXPIRY, replace=''),
 dict(name='plugin-expiry-dropped', expect='flagged(payload/expiry-plugin)', edits=[
      (SP, '\t\tExpiryDurationInSeconds: uint64(opts.ExpiryDuration / time.Second),\n', ''),
      (SP, '\treq := &plugin.GenerateEnvelopeRequest{\n', '\t_ = time.Second\n\treq := &plugin.GenerateEnvelopeRequest{\n')]),
 # (2) the key spec is not the first parameter of the digest-algorithm lookup
 dict(name='benign-getdescriptor-params-swapped', expect='silent', edits=_SWAP),
 dict(name='getdescriptor-swapped-sha256-always', expect='flagged(payload/blob-digest-algorithm)', edits=_SWAP + [
      (S, '\treturn genDesc(digestAlg)', '\t_ = digestAlg\n\treturn genDesc(algorithms[crypto.SHA256])')]),
 dict(name='getdescriptor-swapped-miss-falls-back', expect='flagged(payload/blob-digest-algorithm)', edits=_SWAP + [
      (S, '\tif !ok {\n\t\treturn ocispec.Descriptor{}, fmt.Errorf("unknown hashing algo %v", ks.SignatureAlgorithm().Hash())\n\t}\n', '\tif !ok {\n\t\tdigestAlg = algorithms[crypto.SHA256]\n\t}\n')]),
 # (3) one marshalling helper shared by both signers
 dict(name='benign-marshal-helper', expect='silent', edits=_HELPER()),
 dict(name='marshal-helper-unsanitized', expect='flagged(payload/signed-descriptor)', edits=_HELPER(
      helper=_HELPER_FN.replace('envelope.SanitizeTargetArtifact(desc)', 'desc'))),
 dict(name='marshal-helper-caller-passes-other-descriptor', expect='flagged(payload/signed-descriptor/(*ngo/signer.PluginSigner).generateSignatureEnvelope)', edits=_HELPER(
      plugin_call='marshalPayload(ocispec.Descriptor{Digest: desc.Digest, Size: desc.Size})')),
 dict(name='marshal-helper-returns-other-bytes', expect='flagged(payload/bytes-signed)', edits=_HELPER(
      helper=_HELPER_FN.replace('\treturn payloadBytes, nil\n', '\tdescBytes, _ := json.Marshal(payload.TargetArtifact)\n\t_ = payloadBytes\n\treturn descBytes, nil\n'))),
 dict(name='marshal-helper-payload-type-differs', expect='flagged(payload/content-type-written/(*ngo/signer.GenericSigner).Sign)', edits=_HELPER() + [
      (S, '\t\t\tContentType: envelope.MediaTypePayloadV1,\n', '\t\t\tContentType: "application/vnd.cncf.notary.payload.v2+json",\n')]),
 dict(name='marshal-helper-one-signer-only', expect='flagged(payload/signers#count)', edits=_HELPER(
      plugin_call='json.Marshal(desc)')),
 dict(name='generator-size-of-other-reader', file=N, expect='flagged(blob-descriptor/generator-body)',
      find='bytes, err := io.Copy(digester.Hash(), reader)', replace='bytes, err := io.Copy(digester.Hash(), io.LimitReader(reader, 1<<20))'),
 # (4) the descriptor generator is a bound method of an object filled by the builder
 dict(name='benign-generator-bound-method', file=N, expect='silent', find=_GEN, replace=_GEN_METHOD),
 dict(name='generator-method-fixed-media-type', file=N, expect='flagged(blob-descriptor/generator-body)', find=_GEN,
      replace=_GEN_METHOD.replace('MediaType: b.contentMediaType,', 'MediaType: "application/octet-stream",')),
 dict(name='generator-method-builder-alters-media-type', file=N, expect='flagged(blob-descriptor/generator-body)', find=_GEN,
      replace=_GEN_METHOD.replace('contentMediaType: contentMediaType,', 'contentMediaType: strings.ToLower(contentMediaType),')),
 dict(name='generator-method-field-rewritten', file=N, expect='flagged(blob-descriptor/generator-body)', find=_GEN,
      replace=_GEN_METHOD.replace('\tdigester := hashAlgo.Digester()\n', '\tdigester := hashAlgo.Digester()\n\tb.contentMediaType, _, _ = strings.Cut(b.contentMediaType, ";")\n')),
 dict(name='generator-method-fixed-algorithm', file=N, expect='flagged(blob-descriptor/generator-algorithm)', find=_GEN,
      replace=_GEN_METHOD.replace('hashAlgo.Digester()', 'digest.SHA256.Digester()')),
 dict(name='generator-method-not-returned', file=N, expect='flagged(blob-descriptor/generator-body)', find=_GEN,
      replace=_GEN_METHOD.replace('\treturn describer.describe\n', '\t_ = describer.describe\n\treturn func(digest.Algorithm) (ocispec.Descriptor, error) { return ocispec.Descriptor{MediaType: contentMediaType}, nil }\n')),
 dict(name='generator-method-size-of-other-reader', file=N, expect='flagged(blob-descriptor/generator-body)', find=_GEN,
      replace=_GEN_METHOD.replace('io.Copy(digester.Hash(), b.reader)', 'io.Copy(digester.Hash(), io.LimitReader(b.reader, 1<<20))')),
]
