N = 'notation.go'
S = 'signer/signer.go'
SP = 'signer/plugin.go'
A = 'plugin/proto/algorithm.go'
VARIANTS = [
 dict(name='F11-reintroduced', file=N, expect='flagged(reader/)',
      find='''	var payload envelope.Payload
	if err = json.Unmarshal(vo.EnvelopeContent.Payload.Content, &payload); err != nil {
		return ocispec.Descriptor{}, nil, err
	}
	return payload.TargetArtifact, vo, nil''', replace='''	var desc ocispec.Descriptor
	if err = json.Unmarshal(vo.EnvelopeContent.Payload.Content, &desc); err != nil {
		return ocispec.Descriptor{}, nil, err
	}
	return desc, vo, nil'''),
 dict(name='verifyblob-returns-empty', file=N, expect='flagged(returns/VerifyBlob)',
      find='\treturn payload.TargetArtifact, vo, nil', replace='\treturn ocispec.Descriptor{MediaType: payload.TargetArtifact.MediaType}, vo, nil'),
 dict(name='usermetadata-from-elsewhere', file=N, expect='flagged(returns/UserMetadata)',
      find='\treturn payload.TargetArtifact.Annotations, nil\n}', replace='\treturn map[string]string{}, nil\n}'),
 dict(name='signer-table-changed', file=SP, expect='flagged(tables/hash-to-digest-algorithm)',
      find='\tcrypto.SHA384: digest.SHA384,\n', replace='\tcrypto.SHA384: digest.SHA512,\n'),
 dict(name='verifier-table-missing-512', file='verifier/verifier.go', expect='flagged(tables/)',
      find='\tcrypto.SHA512: digest.SHA512,\n', replace=''),
 dict(name='proto-hash-ec521', file=A, expect='flagged(tables/hash-of-keyspec/EC-521)',
      find='\t\tcase 521:\n\t\t\treturn plugin.HashAlgorithmSHA512, nil', replace='\t\tcase 521:\n\t\t\treturn plugin.HashAlgorithmSHA384, nil'),
 dict(name='decode-rsa3072-size', file=A, expect='flagged(tables/keyspec-codec/RSA-3072)',
      find='\tcase plugin.KeySpecRSA3072:\n\t\tkeySpec.Size = 3072', replace='\tcase plugin.KeySpecRSA3072:\n\t\tkeySpec.Size = 4096'),
 dict(name='encode-ec384', file=A, expect='flagged(tables/keyspec-codec/EC-384)',
      find='\t\tcase 384:\n\t\t\treturn plugin.KeySpecEC384, nil', replace='\t\tcase 384:\n\t\t\treturn plugin.KeySpecEC256, nil'),
 dict(name='sanitize-drops-annotations', file='internal/envelope/envelope.go', expect='flagged(payload/sanitize)',
      find='\t\tAnnotations: targetArtifact.Annotations,\n', replace=''),
 dict(name='sanitize-keeps-urls', file='internal/envelope/envelope.go', expect='flagged(payload/sanitize)',
      find='\t\tAnnotations: targetArtifact.Annotations,\n', replace='\t\tAnnotations: targetArtifact.Annotations,\n\t\tURLs:        targetArtifact.URLs,\n'),
 dict(name='expiry-from-now', file=S, expect='flagged(payload/expiry)',
      find='signReq.Expiry = signReq.SigningTime.Add(opts.ExpiryDuration)', replace='signReq.Expiry = time.Now().Add(opts.ExpiryDuration)'),
 dict(name='expiry-always-set', file=S, expect='flagged(payload/expiry)',
      find='\tif opts.ExpiryDuration != 0 {\n\t\tsignReq.Expiry = signReq.SigningTime.Add(opts.ExpiryDuration)\n\t}', replace='\tsignReq.Expiry = signReq.SigningTime.Add(opts.ExpiryDuration)'),
 dict(name='plugin-expiry-minutes', file=SP, expect='flagged(payload/expiry-plugin)',
      find='ExpiryDurationInSeconds: uint64(opts.ExpiryDuration / time.Second),', replace='ExpiryDurationInSeconds: uint64(opts.ExpiryDuration / time.Millisecond),'),
 dict(name='payload-type-differs', file=S, expect='flagged(payload/content-type-written)',
      find='\t\t\tContentType: envelope.MediaTypePayloadV1,\n', replace='\t\t\tContentType: "application/vnd.cncf.notary.payload.v2+json",\n'),
 dict(name='unsanitized-payload', file=SP, expect='flagged(payload/signed-descriptor)',
      find='payload := envelope.Payload{TargetArtifact: envelope.SanitizeTargetArtifact(desc)}\n\tpayloadBytes, err := json.Marshal(payload)\n\tif err != nil {\n\t\treturn nil, nil, fmt.Errorf("envelope payload can\'t be marshalled: %w", err)\n\t}\n\n\t// Execute plugin sign command.',
      replace='payload := envelope.Payload{TargetArtifact: desc}\n\tpayloadBytes, err := json.Marshal(payload)\n\tif err != nil {\n\t\treturn nil, nil, fmt.Errorf("envelope payload can\'t be marshalled: %w", err)\n\t}\n\n\t// Execute plugin sign command.'),
 dict(name='blob-digest-sha256-always', file=S, expect='flagged(payload/blob-digest-algorithm)',
      find='\treturn genDesc(digestAlg)', replace='\t_ = digestAlg\n\treturn genDesc(algorithms[crypto.SHA256])'),
 # benign
 dict(name='benign-pointer-payload', file=N, expect='silent',
      find='''	var payload envelope.Payload
	if err = json.Unmarshal(vo.EnvelopeContent.Payload.Content, &payload); err != nil {
		return ocispec.Descriptor{}, nil, err
	}
	return payload.TargetArtifact, vo, nil''', replace='''	payload := &envelope.Payload{}
	if err = json.Unmarshal(vo.EnvelopeContent.Payload.Content, payload); err != nil {
		return ocispec.Descriptor{}, nil, err
	}
	return payload.TargetArtifact, vo, nil'''),
 dict(name='benign-hash-switch-reordered', file=A, expect='silent',
      find='''	switch k.Type {
	case signature.KeyTypeEC:
		switch k.Size {
		case 256:
			return plugin.HashAlgorithmSHA256, nil
		case 384:
			return plugin.HashAlgorithmSHA384, nil
		case 521:
			return plugin.HashAlgorithmSHA512, nil
		}
	case signature.KeyTypeRSA:
		switch k.Size {
		case 2048:
			return plugin.HashAlgorithmSHA256, nil
		case 3072:
			return plugin.HashAlgorithmSHA384, nil
		case 4096:
			return plugin.HashAlgorithmSHA512, nil
		}
	}
	return "", fmt.Errorf("invalid KeySpec %q", k)
}

// SignatureAlgorithm is''', replace='''	if k.Type == signature.KeyTypeRSA {
		if k.Size == 4096 {
			return plugin.HashAlgorithmSHA512, nil
		} else if k.Size == 3072 {
			return plugin.HashAlgorithmSHA384, nil
		} else if k.Size == 2048 {
			return plugin.HashAlgorithmSHA256, nil
		}
	} else if k.Type == signature.KeyTypeEC {
		switch k.Size {
		case 521:
			return plugin.HashAlgorithmSHA512, nil
		case 384:
			return plugin.HashAlgorithmSHA384, nil
		case 256:
			return plugin.HashAlgorithmSHA256, nil
		}
	}
	return "", fmt.Errorf("invalid KeySpec %q", k)
}

// SignatureAlgorithm is'''),
]
