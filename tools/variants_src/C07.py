N = 'notation.go'
S = 'signer/signer.go'
SP = 'signer/plugin.go'
A = 'plugin/proto/algorithm.go'

# ---- building blocks of the variants in the generalised shapes (see the end of VARIANTS) ----
_REQ = '\tsignReq := &signature.SignRequest{\n'
_NOW = '\t\tSigningTime:            time.Now(),\n'
_NOW_LOCALS = '\t\tSigningTime:            signingTime,\n\t\tExpiry:                 expiry,\n'
_AHEAD = '\tsigningTime := time.Now()\n\tvar expiry time.Time\n\tif opts.ExpiryDuration != 0 {\n\t\texpiry = signingTime.Add(opts.ExpiryDuration)\n\t}\n'
_PATCH_EXPIRY = '\tif opts.ExpiryDuration != 0 {\n\t\tsignReq.Expiry = signReq.SigningTime.Add(opts.ExpiryDuration)\n\t}\n'
_SWAP = [
 (S, 'func getDescriptor(ks signature.KeySpec, genDesc notation.BlobDescriptorGenerator)', 'func getDescriptor(genDesc notation.BlobDescriptorGenerator, ks signature.KeySpec)'),
 (S, 'getDescriptor(ks, genDesc)', 'getDescriptor(genDesc, ks)'),
 (SP, 'getDescriptor(ks, descGenFunc)', 'getDescriptor(descGenFunc, ks)'),
]
_INLINE = 'payload := envelope.Payload{TargetArtifact: envelope.SanitizeTargetArtifact(desc)}\n\tpayloadBytes, err := json.Marshal(payload)\n\tif err != nil {\n\t\treturn nil, nil, fmt.Errorf("envelope payload can\'t be marshalled: %w", err)\n\t}\n'
_HELPER_FN = 'func marshalPayload(desc ocispec.Descriptor) ([]byte, error) {\n\tpayload := envelope.Payload{TargetArtifact: envelope.SanitizeTargetArtifact(desc)}\n\tpayloadBytes, err := json.Marshal(payload)\n\tif err != nil {\n\t\treturn nil, fmt.Errorf("envelope payload can\'t be marshalled: %w", err)\n\t}\n\treturn payloadBytes, nil\n}\n\n'
_GETDESC = 'func getDescriptor(ks signature.KeySpec'
def _HELPER(helper=_HELPER_FN, plugin_call='marshalPayload(desc)'):
    call = 'payloadBytes, err := %s\n\tif err != nil {\n\t\treturn nil, nil, err\n\t}\n'
    return [
     (S, _INLINE + '\tvar signingAgentId string', call % 'marshalPayload(desc)' + '\tvar signingAgentId string'),
     (S, _GETDESC, helper + _GETDESC),
     (SP, _INLINE + '\n\t// Execute plugin sign command.', call % plugin_call + '\n\t// Execute plugin sign command.'),
    ]
_GEN = """func getDescriptorFunc(ctx context.Context, reader io.Reader, contentMediaType string, userMetadata map[string]string) BlobDescriptorGenerator {
	return func(hashAlgo digest.Algorithm) (ocispec.Descriptor, error) {
		digester := hashAlgo.Digester()
		bytes, err := io.Copy(digester.Hash(), reader)
		if err != nil {
			return ocispec.Descriptor{}, err
		}
		targetDesc := ocispec.Descriptor{
			MediaType: contentMediaType,
			Digest:    digester.Digest(),
			Size:      bytes,
		}
		return addUserMetadataToDescriptor(ctx, targetDesc, userMetadata)
	}
}
"""
_GEN_METHOD = """type blobDescriber struct {
	ctx              context.Context
	reader           io.Reader
	contentMediaType string
	userMetadata     map[string]string
}

func (b *blobDescriber) describe(hashAlgo digest.Algorithm) (ocispec.Descriptor, error) {
	digester := hashAlgo.Digester()
	bytes, err := io.Copy(digester.Hash(), b.reader)
	if err != nil {
		return ocispec.Descriptor{}, err
	}
	targetDesc := ocispec.Descriptor{
		MediaType: b.contentMediaType,
		Digest:    digester.Digest(),
		Size:      bytes,
	}
	return addUserMetadataToDescriptor(b.ctx, targetDesc, b.userMetadata)
}

func getDescriptorFunc(ctx context.Context, reader io.Reader, contentMediaType string, userMetadata map[string]string) BlobDescriptorGenerator {
	describer := &blobDescriber{
		ctx:              ctx,
		reader:           reader,
		contentMediaType: contentMediaType,
		userMetadata:     userMetadata,
	}
	return describer.describe
}
"""
# ---- second pass: building blocks ----
_EXPIRYOF = 'func expiryOf(signingTime time.Time, expiryDuration time.Duration) time.Time {\n\tif expiryDuration == 0 {\n\t\treturn time.Time{}\n\t}\n\treturn signingTime.Add(expiryDuration)\n}\n\n'
def _EXPIRY_HELPER(helper=_EXPIRYOF, call='expiryOf(signingTime, opts.ExpiryDuration)'):
    """the request literal carries SigningTime: signingTime, Expiry: <call>; nothing is patched afterwards"""
    return [(S, _REQ, '\tsigningTime := time.Now()\n' + _REQ),
            (S, _NOW, '\t\tSigningTime:            signingTime,\n\t\tExpiry:                 %s,\n' % call),
            (S, _PATCH_EXPIRY, ''), (S, _GETDESC, helper + _GETDESC)]
def _EXPIRY_PATCH(stmt, helper):
    """the request is built as in the base tree and patched by <stmt>"""
    return [(S, _PATCH_EXPIRY, stmt), (S, _GETDESC, helper + _GETDESC)]
_SETTER = 'func setExpiry(req *signature.SignRequest, d time.Duration) {\n\tif d != 0 {\n\t\treq.Expiry = req.SigningTime.Add(d)\n\t}\n}\n\n'
_SETTER_BARE = 'func setExpiry(req *signature.SignRequest, d time.Duration) {\n\treq.Expiry = req.SigningTime.Add(d)\n}\n\n'
_EXPIRYFOR = 'func expiryFor(req *signature.SignRequest, d time.Duration) time.Time {\n\tif d == 0 {\n\t\treturn time.Time{}\n\t}\n\treturn req.SigningTime.Add(d)\n}\n\n'
_EXPIRY_VARIANTS = [
 dict(name='benign-expiry-helper', expect='silent', edits=_EXPIRY_HELPER()),
 dict(name='benign-expiry-helper-takes-options', expect='silent', edits=_EXPIRY_HELPER(
      helper='func expiryOf(signingTime time.Time, o notation.SignerSignOptions) time.Time {\n\tif o.ExpiryDuration == 0 {\n\t\treturn time.Time{}\n\t}\n\treturn signingTime.Add(o.ExpiryDuration)\n}\n\n',
      call='expiryOf(signingTime, opts)')),
 dict(name='benign-expiry-helper-swapped-named-result', expect='silent', edits=_EXPIRY_HELPER(
      helper='func expiryOf(d time.Duration, t time.Time) (expiry time.Time) {\n\tif d != 0 {\n\t\texpiry = t.Add(d)\n\t}\n\treturn\n}\n\n',
      call='expiryOf(opts.ExpiryDuration, signingTime)')),
 dict(name='benign-expiry-caller-tests-helper-adds', expect='silent', edits=_EXPIRY_PATCH(
      '\tif opts.ExpiryDuration != 0 {\n\t\tsignReq.Expiry = expiryAfter(signReq.SigningTime, opts.ExpiryDuration)\n\t}\n',
      'func expiryAfter(t time.Time, d time.Duration) time.Time {\n\treturn t.Add(d)\n}\n\n')),
 dict(name='benign-expiry-setter-helper', expect='silent', edits=_EXPIRY_PATCH('\tsetExpiry(signReq, opts.ExpiryDuration)\n', _SETTER)),
 dict(name='benign-expiry-setter-called-under-test', expect='silent', edits=_EXPIRY_PATCH(
      '\tif opts.ExpiryDuration != 0 {\n\t\tsetExpiry(signReq, opts.ExpiryDuration)\n\t}\n', _SETTER_BARE)),
 dict(name='benign-expiry-helper-reads-request', expect='silent', edits=_EXPIRY_PATCH('\tsignReq.Expiry = expiryFor(signReq, opts.ExpiryDuration)\n', _EXPIRYFOR)),
 dict(name='expiry-helper-unguarded', expect='flagged(payload/expiry)', edits=_EXPIRY_HELPER(
      helper='func expiryOf(signingTime time.Time, expiryDuration time.Duration) time.Time {\n\treturn signingTime.Add(expiryDuration)\n}\n\n')),
 dict(name='expiry-helper-other-clock', expect='flagged(payload/expiry)', edits=_EXPIRY_HELPER(call='expiryOf(time.Now(), opts.ExpiryDuration)')),
 dict(name='expiry-helper-other-duration', expect='flagged(payload/expiry)', edits=_EXPIRY_HELPER(call='expiryOf(signingTime, opts.ExpiryDuration+time.Hour)')),
 dict(name='expiry-helper-default-when-none-requested', expect='flagged(payload/expiry)', edits=_EXPIRY_HELPER(
      helper=_EXPIRYOF.replace('return time.Time{}', 'return signingTime.Add(24 * time.Hour)'))),
 dict(name='expiry-helper-test-inverted', expect='flagged(payload/expiry)', edits=_EXPIRY_HELPER(
      helper=_EXPIRYOF.replace('expiryDuration == 0', 'expiryDuration != 0'))),
 dict(name='expiry-helper-tests-other-parameter', expect='flagged(payload/expiry)', edits=_EXPIRY_HELPER(
      helper='func expiryOf(signingTime time.Time, expiryDuration, grace time.Duration) time.Time {\n\tif grace == 0 {\n\t\treturn time.Time{}\n\t}\n\treturn signingTime.Add(expiryDuration)\n}\n\n',
      call='expiryOf(signingTime, opts.ExpiryDuration, time.Minute)')),
 dict(name='expiry-setter-unguarded', expect='flagged(payload/expiry)', edits=_EXPIRY_PATCH('\tsetExpiry(signReq, opts.ExpiryDuration)\n', _SETTER_BARE)),
 dict(name='expiry-setter-second-call-other-duration', expect='flagged(payload/expiry)', edits=_EXPIRY_PATCH(
      '\tsetExpiry(signReq, 24*time.Hour)\n\tsetExpiry(signReq, opts.ExpiryDuration)\n', _SETTER)),
 dict(name='expiry-helper-reads-other-request', expect='flagged(payload/expiry)', edits=_EXPIRY_PATCH(
      '\tsignReq.Expiry = expiryFor(&signature.SignRequest{SigningTime: time.Now()}, opts.ExpiryDuration)\n', _EXPIRYFOR)),
]

# (8) CLASS "result object built by a constructor function": the sign request / plugin request is filled by a constructor
_REQ_LIT = ('\tsignReq := &signature.SignRequest{\n\t\tPayload: signature.Payload{\n\t\t\tContentType: envelope.MediaTypePayloadV1,\n\t\t\tContent:     payloadBytes,\n\t\t},\n'
            '\t\tSigner:                 s.signer,\n\t\tSigningTime:            time.Now(),\n\t\tSigningScheme:          signature.SigningSchemeX509,\n\t\tSigningAgent:           signingAgentId,\n'
            '\t\tTimestamper:            opts.Timestamper,\n\t\tTSARootCAs:             opts.TSARootCAs,\n\t\tTSARevocationValidator: opts.TSARevocationValidator,\n\t}\n')
_REQ_ALL = _REQ_LIT + '\n\t// Add expiry only if ExpiryDuration is not zero\n' + _PATCH_EXPIRY
_REQ_CTOR = ('func newSignRequest(signer signature.Signer, content []byte, agent string, opts notation.SignerSignOptions) *signature.SignRequest {\n'
             + _REQ_LIT.replace('payloadBytes', 'content').replace('s.signer', 'signer').replace('signingAgentId', 'agent')
             + _PATCH_EXPIRY + '\treturn signReq\n}\n\n')
def _REQUEST_CTOR(ctor=_REQ_CTOR, call='newSignRequest(s.signer, payloadBytes, signingAgentId, opts)'):
    return [(S, _REQ_ALL, '\tsignReq := %s\n' % call), (S, _GETDESC, ctor + _GETDESC)]
_PREQ = ('\treq := &plugin.GenerateEnvelopeRequest{\n\t\tContractVersion:         plugin.ContractVersion,\n\t\tKeyID:                   s.keyID,\n\t\tPayload:                 payloadBytes,\n'
         '\t\tSignatureEnvelopeType:   opts.SignatureMediaType,\n\t\tPayloadType:             envelope.MediaTypePayloadV1,\n\t\tExpiryDurationInSeconds: uint64(opts.ExpiryDuration / time.Second),\n'
         '\t\tPluginConfig:            s.mergeConfig(opts.PluginConfig),\n\t}\n')
_PREQ_CTOR = ('func newEnvelopeRequest(keyID string, payload []byte, envelopeType string, expirySeconds uint64, config map[string]string) *plugin.GenerateEnvelopeRequest {\n'
              '\treturn &plugin.GenerateEnvelopeRequest{\n\t\tContractVersion:         plugin.ContractVersion,\n\t\tKeyID:                   keyID,\n\t\tPayload:                 payload,\n'
              '\t\tSignatureEnvelopeType:   envelopeType,\n\t\tPayloadType:             envelope.MediaTypePayloadV1,\n\t\tExpiryDurationInSeconds: expirySeconds,\n\t\tPluginConfig:            config,\n\t}\n}\n\n')
_PGETKS = 'func (s *PluginSigner) getKeySpec('
def _PLUGIN_CTOR(ctor=_PREQ_CTOR, secs='uint64(opts.ExpiryDuration / time.Second)', payload='payloadBytes'):
    return [(SP, _PREQ, '\treq := newEnvelopeRequest(s.keyID, %s, opts.SignatureMediaType, %s, s.mergeConfig(opts.PluginConfig))\n' % (payload, secs)),
            (SP, _PGETKS, ctor + _PGETKS)]
_CTOR_VARIANTS = [
 dict(name='benign-request-constructor', expect='silent', edits=_REQUEST_CTOR()),
 dict(name='request-constructor-stores-other-bytes', expect='flagged(payload/bytes-signed)', edits=_REQUEST_CTOR(
      ctor=_REQ_CTOR.replace('Content:     content,', 'Content:     append([]byte(nil), content[:len(content)/2]...),'))),
 dict(name='request-constructor-other-content-type', expect='flagged(payload/content-type-written)', edits=_REQUEST_CTOR(
      ctor=_REQ_CTOR.replace('ContentType: envelope.MediaTypePayloadV1,', 'ContentType: "application/vnd.cncf.notary.payload.v2+json",'))),
 dict(name='request-constructor-expiry-unguarded', expect='flagged(payload/expiry)', edits=_REQUEST_CTOR(
      ctor=_REQ_CTOR.replace(_PATCH_EXPIRY, '\tsignReq.Expiry = signReq.SigningTime.Add(opts.ExpiryDuration)\n'))),
 dict(name='request-constructor-given-other-bytes', expect='flagged(payload/bytes-signed)', edits=_REQUEST_CTOR(
      call='newSignRequest(s.signer, payloadBytes[:len(payloadBytes)/2], signingAgentId, opts)')),
 dict(name='benign-plugin-request-constructor', expect='silent', edits=_PLUGIN_CTOR()),
 dict(name='plugin-request-constructor-caller-passes-milliseconds', expect='flagged(payload/expiry-plugin)', edits=_PLUGIN_CTOR(
      secs='uint64(opts.ExpiryDuration / time.Millisecond)')),
 dict(name='plugin-request-constructor-ignores-expiry', expect='flagged(payload/expiry-plugin)', edits=_PLUGIN_CTOR(
      ctor=_PREQ_CTOR.replace('ExpiryDurationInSeconds: expirySeconds,', 'ExpiryDurationInSeconds: expirySeconds / 60,'))),
 dict(name='plugin-request-constructor-other-payload-type', expect='flagged(payload/content-type-written)', edits=_PLUGIN_CTOR(
      ctor=_PREQ_CTOR.replace('PayloadType:             envelope.MediaTypePayloadV1,', 'PayloadType:             "application/json",'))),
 dict(name='expiry-read-from-other-request-in-same-function', file=S, expect='flagged(payload/expiry)', find=_PATCH_EXPIRY,
      replace='\tother := &signature.SignRequest{SigningTime: time.Now().Add(time.Hour)}\n\tif opts.ExpiryDuration != 0 {\n\t\tsignReq.Expiry = other.SigningTime.Add(opts.ExpiryDuration)\n\t}\n'),
]

# (6) CLASS "single exit with a local / value computed by a helper" for the two read-back clauses
_UM = '\tif payload.TargetArtifact.Annotations == nil {\n\t\treturn map[string]string{}, nil\n\t}\n\treturn payload.TargetArtifact.Annotations, nil\n}\n'
_UM_LOCAL = '\tuserMetadata := payload.TargetArtifact.Annotations\n\tif userMetadata == nil {\n\t\tuserMetadata = map[string]string{}\n\t}\n\treturn userMetadata, nil\n}\n'
_UM_DEFAULT_FIRST = '\tuserMetadata := map[string]string{}\n\tif payload.TargetArtifact.Annotations != nil {\n\t\tuserMetadata = payload.TargetArtifact.Annotations\n\t}\n\treturn userMetadata, nil\n}\n'
_UM_HELPER = '\treturn annotationsOrEmpty(payload.TargetArtifact.Annotations), nil\n}\n\nfunc annotationsOrEmpty(m map[string]string) map[string]string {\n\tif m == nil {\n\t\treturn map[string]string{}\n\t}\n\treturn m\n}\n'
_UM_HELPER_P = '\treturn userMetadataOf(&payload), nil\n}\n\nfunc userMetadataOf(p *envelope.Payload) map[string]string {\n\tif m := p.TargetArtifact.Annotations; m != nil {\n\t\treturn m\n\t}\n\treturn map[string]string{}\n}\n'
_VB = '\tif vo.EnvelopeContent == nil {\n\t\t// signature verification was skipped, there is no verified payload\n\t\treturn ocispec.Descriptor{}, vo, nil\n\t}\n\tvar payload envelope.Payload\n\tif err = json.Unmarshal(vo.EnvelopeContent.Payload.Content, &payload); err != nil {\n\t\treturn ocispec.Descriptor{}, nil, err\n\t}\n\treturn payload.TargetArtifact, vo, nil\n}\n'
_VB_SINGLE = '\tvar desc ocispec.Descriptor\n\tif vo.EnvelopeContent != nil {\n\t\tvar payload envelope.Payload\n\t\tif err = json.Unmarshal(vo.EnvelopeContent.Payload.Content, &payload); err != nil {\n\t\t\treturn ocispec.Descriptor{}, nil, err\n\t\t}\n\t\tdesc = payload.TargetArtifact\n\t}\n\treturn desc, vo, nil\n}\n'
_VB_HELPER = '\tdesc, err := signedDescriptor(vo)\n\tif err != nil {\n\t\treturn ocispec.Descriptor{}, nil, err\n\t}\n\treturn desc, vo, nil\n}\n\nfunc signedDescriptor(vo *VerificationOutcome) (ocispec.Descriptor, error) {\n\tif vo.EnvelopeContent == nil {\n\t\treturn ocispec.Descriptor{}, nil\n\t}\n\tvar payload envelope.Payload\n\tif err := json.Unmarshal(vo.EnvelopeContent.Payload.Content, &payload); err != nil {\n\t\treturn ocispec.Descriptor{}, err\n\t}\n\treturn payload.TargetArtifact, nil\n}\n'
_RETURN_VARIANTS = [
 dict(name='benign-usermetadata-local-defaulted', file=N, expect='silent', find=_UM, replace=_UM_LOCAL),
 dict(name='benign-usermetadata-default-first', file=N, expect='silent', find=_UM, replace=_UM_DEFAULT_FIRST),
 dict(name='benign-usermetadata-helper', file=N, expect='silent', find=_UM, replace=_UM_HELPER),
 dict(name='benign-usermetadata-helper-takes-payload', file=N, expect='silent', find=_UM, replace=_UM_HELPER_P),
 dict(name='usermetadata-local-test-inverted', file=N, expect='flagged(returns/UserMetadata)', find=_UM,
      replace=_UM_LOCAL.replace('if userMetadata == nil', 'if userMetadata != nil')),
 dict(name='usermetadata-default-first-test-inverted', file=N, expect='flagged(returns/UserMetadata)', find=_UM,
      replace=_UM_DEFAULT_FIRST.replace('Annotations != nil', 'Annotations == nil')),
 dict(name='usermetadata-default-first-never-overwritten', file=N, expect='flagged(returns/UserMetadata)', find=_UM,
      replace=_UM_DEFAULT_FIRST.replace('\t\tuserMetadata = payload.TargetArtifact.Annotations\n', '\t\t_ = payload.TargetArtifact.Annotations\n')),
 dict(name='usermetadata-helper-filters', file=N, expect='flagged(returns/UserMetadata)', find=_UM,
      replace=_UM_HELPER.replace('\treturn m\n', '\tout := map[string]string{}\n\tfor k, v := range m {\n\t\tif !strings.HasPrefix(k, "io.cncf.notary") {\n\t\t\tout[k] = v\n\t\t}\n\t}\n\treturn out\n')),
 dict(name='usermetadata-helper-empty-map-filled', file=N, expect='flagged(returns/UserMetadata)', find=_UM,
      replace=_UM_HELPER.replace('\t\treturn map[string]string{}\n', '\t\tempty := map[string]string{}\n\t\tempty["io.cncf.notary.none"] = "true"\n\t\treturn empty\n')),
 dict(name='usermetadata-helper-given-other-payload', file=N, expect='flagged(returns/UserMetadata)', find=_UM,
      replace=_UM_HELPER_P.replace('userMetadataOf(&payload), nil', 'userMetadataOf(&envelope.Payload{}), nil')),
 dict(name='usermetadata-empty-when-other-payload-has-none', file=N, expect='flagged(returns/UserMetadata)', find=_UM,
      replace='\tvar other envelope.Payload\n\tif other.TargetArtifact.Annotations == nil {\n\t\treturn map[string]string{}, nil\n\t}\n\treturn payload.TargetArtifact.Annotations, nil\n}\n'),
 dict(name='benign-verifyblob-single-exit', file=N, expect='silent', find=_VB, replace=_VB_SINGLE),
 dict(name='benign-verifyblob-helper', file=N, expect='silent', find=_VB, replace=_VB_HELPER),
 dict(name='verifyblob-single-exit-default-from-options', file=N, expect='flagged(returns/VerifyBlob)', find=_VB,
      replace=_VB_SINGLE.replace('var desc ocispec.Descriptor\n', 'desc := ocispec.Descriptor{MediaType: verifyBlobOpts.ContentMediaType}\n')),
 dict(name='verifyblob-helper-drops-annotations', file=N, expect='flagged(returns/VerifyBlob)', find=_VB,
      replace=_VB_HELPER.replace('\treturn payload.TargetArtifact, nil\n', '\tsigned := payload.TargetArtifact\n\tsigned.Annotations = nil\n\treturn signed, nil\n')),
 dict(name='verifyblob-helper-error-ignored', file=N, expect='flagged(returns/VerifyBlob)', find=_VB,
      replace=_VB_HELPER.replace('\tdesc, err := signedDescriptor(vo)\n\tif err != nil {\n\t\treturn ocispec.Descriptor{}, nil, err\n\t}\n', '\tdesc, _ := signedDescriptor(vo)\n')),
]

# (7) CLASS "closure vs method vs state object, object built in place or by a constructor": no builder function at all
_SB_CALL = '\tgetDescFunc := getDescriptorFunc(ctx, blobReader, signBlobOpts.ContentMediaType, signBlobOpts.UserMetadata)\n'
_VB_CALL = '\tgetDescFunc := getDescriptorFunc(ctx, blobReader, verifyBlobOpts.ContentMediaType, verifyBlobOpts.UserMetadata)\n'
_DESCRIBER = _GEN_METHOD[:_GEN_METHOD.index('func getDescriptorFunc(')]
def _OBJ(o, mt='%s.ContentMediaType', um='\t\tuserMetadata:     %s.UserMetadata,\n', after=''):
    return ('\tdescriber := &blobDescriber{\n\t\tctx:              ctx,\n\t\treader:           blobReader,\n\t\tcontentMediaType: ' + mt + ',\n' + um + '\t}\n' + after + '\tgetDescFunc := describer.describe\n').replace('%s', o)
def _OBJECT(sign=None, verify=None, describer=_DESCRIBER):
    return [(N, _GEN, describer), (N, _SB_CALL, sign or _OBJ('signBlobOpts')), (N, _VB_CALL, verify or _OBJ('verifyBlobOpts'))]
_CTOR = 'func newBlobDescriber(ctx context.Context, reader io.Reader, contentMediaType string, userMetadata map[string]string) *blobDescriber {\n\treturn &blobDescriber{\n\t\tctx:              ctx,\n\t\treader:           reader,\n\t\tcontentMediaType: contentMediaType,\n\t\tuserMetadata:     userMetadata,\n\t}\n}\n'
def _CTOR_CALL(o): return '\tgetDescFunc := newBlobDescriber(ctx, blobReader, %s.ContentMediaType, %s.UserMetadata).describe\n' % (o, o)
_OBJECT_VARIANTS = [
 dict(name='benign-generator-object-built-in-wrappers', expect='silent', edits=_OBJECT()),
 dict(name='benign-generator-object-fields-assigned', expect='silent', edits=_OBJECT(
      sign='\tdescriber := new(blobDescriber)\n\tdescriber.userMetadata = signBlobOpts.UserMetadata\n\tdescriber.contentMediaType = signBlobOpts.ContentMediaType\n\tdescriber.reader = blobReader\n\tdescriber.ctx = ctx\n\tgetDescFunc := describer.describe\n')),
 dict(name='benign-generator-object-from-constructor', expect='silent', edits=_OBJECT(
      sign=_CTOR_CALL('signBlobOpts'), verify=_CTOR_CALL('verifyBlobOpts'), describer=_DESCRIBER + _CTOR)),
 dict(name='benign-generator-builder-params-reordered', expect='silent', edits=[
      (N, 'func getDescriptorFunc(ctx context.Context, reader io.Reader, contentMediaType string, userMetadata map[string]string) BlobDescriptorGenerator {',
          'func getDescriptorFunc(userMetadata map[string]string, contentMediaType string, reader io.Reader, ctx context.Context) BlobDescriptorGenerator {'),
      (N, _SB_CALL, '\tgetDescFunc := getDescriptorFunc(signBlobOpts.UserMetadata, signBlobOpts.ContentMediaType, blobReader, ctx)\n'),
      (N, _VB_CALL, '\tgetDescFunc := getDescriptorFunc(verifyBlobOpts.UserMetadata, verifyBlobOpts.ContentMediaType, blobReader, ctx)\n')]),
 dict(name='generator-object-one-wrapper-lowercases', expect='flagged(blob-descriptor/same-inputs)', edits=_OBJECT(
      sign=_OBJ('signBlobOpts', mt='strings.ToLower(%s.ContentMediaType)'))),
 dict(name='generator-object-verify-omits-metadata', expect='flagged(blob-descriptor/same-inputs)', edits=_OBJECT(
      verify=_OBJ('verifyBlobOpts', um=''))),
 dict(name='generator-object-field-reassigned-in-wrapper', expect='flagged(blob-descriptor/)', edits=_OBJECT(
      sign=_OBJ('signBlobOpts', after='\tdescriber.contentMediaType, _, _ = strings.Cut(describer.contentMediaType, ";")\n'))),
 dict(name='generator-object-method-rewrites-field', expect='flagged(blob-descriptor/generator-body)', edits=_OBJECT(
      describer=_DESCRIBER.replace('\tdigester := hashAlgo.Digester()\n', '\tdigester := hashAlgo.Digester()\n\tb.contentMediaType, _, _ = strings.Cut(b.contentMediaType, ";")\n'))),
 dict(name='generator-object-method-overwrites-receiver', expect='flagged(blob-descriptor/generator-body)', edits=_OBJECT(
      describer=_DESCRIBER.replace('\tdigester := hashAlgo.Digester()\n', '\tdigester := hashAlgo.Digester()\n\t*b = blobDescriber{ctx: b.ctx, reader: b.reader, contentMediaType: "application/octet-stream", userMetadata: b.userMetadata}\n'))),
 dict(name='generator-object-fixed-algorithm', expect='flagged(blob-descriptor/generator-algorithm)', edits=_OBJECT(
      describer=_DESCRIBER.replace('hashAlgo.Digester()', 'digest.SHA256.Digester()'))),
 dict(name='generator-object-escapes-to-mutator', expect='flagged(blob-descriptor/generator-body)', edits=_OBJECT(
      sign=_OBJ('signBlobOpts', after='\tnormaliseDescriber(describer)\n'),
      describer=_DESCRIBER + 'func normaliseDescriber(b *blobDescriber) {\n\tb.reader = io.LimitReader(b.reader, 1<<20)\n}\n\n')),
 dict(name='generator-object-verify-binds-other-method', expect='flagged(blob-descriptor/same-builder)', edits=_OBJECT(
      verify=_OBJ('verifyBlobOpts').replace('describer.describe\n', 'describer.describeUntyped\n'),
      describer=_DESCRIBER + 'func (b *blobDescriber) describeUntyped(hashAlgo digest.Algorithm) (ocispec.Descriptor, error) {\n\tdesc, err := b.describe(hashAlgo)\n\tdesc.MediaType = ""\n\treturn desc, err\n}\n\n')),
 dict(name='generator-constructor-alters-media-type', expect='flagged(blob-descriptor/)', edits=_OBJECT(
      sign=_CTOR_CALL('signBlobOpts'), verify=_CTOR_CALL('verifyBlobOpts'),
      describer=_DESCRIBER + _CTOR.replace('contentMediaType: contentMediaType,', 'contentMediaType: strings.ToLower(contentMediaType),'))),
 dict(name='generator-constructor-one-wrapper-passes-other-media-type', expect='flagged(blob-descriptor/same-inputs)', edits=_OBJECT(
      sign=_CTOR_CALL('signBlobOpts').replace('signBlobOpts.ContentMediaType', 'strings.TrimSpace(signBlobOpts.ContentMediaType)'), verify=_CTOR_CALL('verifyBlobOpts'),
      describer=_DESCRIBER + _CTOR)),
 dict(name='generator-wrapper-hands-on-a-wrapping-literal', expect='flagged(blob-descriptor/same-builder)', edits=[
      (N, _SB_CALL, '\tgenDesc := getDescriptorFunc(ctx, blobReader, signBlobOpts.ContentMediaType, signBlobOpts.UserMetadata)\n\tgetDescFunc := func(hashAlgo digest.Algorithm) (ocispec.Descriptor, error) {\n\t\tdesc, err := genDesc(hashAlgo)\n\t\tdesc.MediaType, _, _ = strings.Cut(desc.MediaType, ";")\n\t\treturn desc, err\n\t}\n')]),
]

# ======== third pass ========
# (9) CLASS "a finite table written as a map literal / as a function of the key": the crypto.Hash -> digest.Algorithm
#     relation of the signer / the verifier is a package-level map, a switch or if-chain function (digest.Algorithm, bool),
#     a function returning (digest.Algorithm, error) or just digest.Algorithm, a wrapper over the map, or one function shared
#     through another package; the application of the table stands next to the generator invocation or in a module helper.
V = 'verifier/verifier.go'
ENVF = 'internal/envelope/envelope.go'
_MAP = 'var algorithms = map[crypto.Hash]digest.Algorithm{\n\tcrypto.SHA256: digest.SHA256,\n\tcrypto.SHA384: digest.SHA384,\n\tcrypto.SHA512: digest.SHA512,\n}\n'
def _SWITCH(name, tail='\treturn "", false\n', c384='digest.SHA384', c512='\tcase crypto.SHA512:\n\t\treturn digest.SHA512, true\n'):
    return ('func %s(hash crypto.Hash) (digest.Algorithm, bool) {\n\tswitch hash {\n\tcase crypto.SHA256:\n\t\treturn digest.SHA256, true\n'
            '\tcase crypto.SHA384:\n\t\treturn %s, true\n%s\t}\n%s}\n') % (name, c384, c512, tail)
_IFCHAIN = ('func digestOf(h crypto.Hash) (digest.Algorithm, bool) {\n\tvar found digest.Algorithm\n\tif h == crypto.SHA256 {\n\t\tfound = digest.SHA256\n\t} else if h == crypto.SHA384 {\n'
            '\t\tfound = digest.SHA384\n\t} else if h == crypto.SHA512 {\n\t\tfound = digest.SHA512\n\t}\n\treturn found, found != ""\n}\n')
_ERRFN = ('func digestOf(h crypto.Hash) (digest.Algorithm, error) {\n\tswitch h {\n\tcase crypto.SHA256:\n\t\treturn digest.SHA256, nil\n\tcase crypto.SHA384:\n\t\treturn digest.SHA384, nil\n'
          '\tcase crypto.SHA512:\n\t\treturn digest.SHA512, nil\n\t}\n\treturn "", fmt.Errorf("unknown hashing algo %v", h)\n}\n')
_ONEFN = ('func digestOf(h crypto.Hash) digest.Algorithm {\n\tswitch h {\n\tcase crypto.SHA256:\n\t\treturn digest.SHA256\n\tcase crypto.SHA384:\n\t\treturn digest.SHA384\n'
          '\tcase crypto.SHA512:\n\t\treturn digest.SHA512\n\t}\n\treturn ""\n}\n')
_V_USE = '\tdigestAlgo, ok := algorithms[cryptoHash]\n'
_S_USE = '\tdigestAlg, ok := algorithms[ks.SignatureAlgorithm().Hash()]\n'
_S_MISS = '\tif !ok {\n\t\treturn ocispec.Descriptor{}, fmt.Errorf("unknown hashing algo %v", ks.SignatureAlgorithm().Hash())\n\t}\n'
_S_BODY = _S_USE + _S_MISS + '\treturn genDesc(digestAlg)\n'
def _V_FN(fn=None, use='\tdigestAlgo, ok := digestAlgorithm(cryptoHash)\n'):
    return [(V, _MAP, fn or _SWITCH('digestAlgorithm')), (V, _V_USE, use)]
def _S_FN(fn=_IFCHAIN, body=None):
    return [(SP, _MAP, fn), (S, _S_BODY, body or _S_BODY.replace('algorithms[ks.SignatureAlgorithm().Hash()]', 'digestOf(ks.SignatureAlgorithm().Hash())'))]
_S_ERR_BODY = '\tdigestAlg, err := digestOf(ks.SignatureAlgorithm().Hash())\n\tif err != nil {\n\t\treturn ocispec.Descriptor{}, err\n\t}\n\treturn genDesc(digestAlg)\n'
_S_ONE_BODY = '\tdigestAlg := digestOf(ks.SignatureAlgorithm().Hash())\n\tif digestAlg == "" {\n\t\treturn ocispec.Descriptor{}, fmt.Errorf("unknown hashing algo %v", ks.SignatureAlgorithm().Hash())\n\t}\n\treturn genDesc(digestAlg)\n'
_WRAP = _MAP + '\nfunc lookupDigest(h crypto.Hash) (digest.Algorithm, bool) {\n\ta, known := algorithms[h]\n\treturn a, known\n}\n'
# the lookup moved into a helper that is handed the key spec (extraction at another boundary)
_KS_HELPER = ('func digestAlgorithmFor(ks signature.KeySpec) (digest.Algorithm, error) {\n\thash := ks.SignatureAlgorithm().Hash()\n\talg, ok := algorithms[hash]\n\tif !ok {\n'
              '\t\treturn "", fmt.Errorf("unknown hashing algo %v", hash)\n\t}\n\treturn alg, nil\n}\n\n')
_KS_BODY = '\tdigestAlg, err := digestAlgorithmFor(ks)\n\tif err != nil {\n\t\treturn ocispec.Descriptor{}, err\n\t}\n\treturn genDesc(digestAlg)\n'
def _KS(helper=_KS_HELPER, body=_KS_BODY):
    return [(SP, _MAP, _MAP + '\n' + helper), (S, _S_BODY, body)]
# one exported function in internal/envelope serves both packages
_SHARED = [
 (ENVF, 'import (\n\t"errors"\n', 'import (\n\t"crypto"\n\t"errors"\n'),
 (ENVF, '\tocispec "github.com/opencontainers/image-spec/specs-go/v1"\n)\n', '\tocispec "github.com/opencontainers/image-spec/specs-go/v1"\n\t"github.com/opencontainers/go-digest"\n)\n\n' + _SWITCH('DigestAlgorithm').replace('%', '%%')),
 (SP, _MAP, 'var _ = crypto.SHA256\nvar _ = digest.SHA256\n'),
 (V, _MAP, 'var _ = crypto.SHA256\nvar _ = digest.SHA256\n'),
 (S, _S_USE, '\tdigestAlg, ok := envelope.DigestAlgorithm(ks.SignatureAlgorithm().Hash())\n'),
 (V, _V_USE, '\tdigestAlgo, ok := envelope.DigestAlgorithm(cryptoHash)\n'),
]
_TABLE_VARIANTS = [
 dict(name='benign-verifier-table-switch-function', expect='silent', edits=_V_FN()),
 dict(name='benign-both-tables-functions', expect='silent', edits=_V_FN() + _S_FN()),
 dict(name='benign-signer-table-function-error', expect='silent', edits=_S_FN(fn=_ERRFN, body=_S_ERR_BODY)),
 dict(name='benign-signer-table-function-single-result', expect='silent', edits=_S_FN(fn=_ONEFN, body=_S_ONE_BODY)),
 dict(name='benign-verifier-table-wrapper-over-map', expect='silent', edits=[(V, _MAP, _WRAP), (V, _V_USE, '\tdigestAlgo, ok := lookupDigest(cryptoHash)\n')]),
 dict(name='benign-signer-lookup-in-keyspec-helper', expect='silent', edits=_KS()),
 dict(name='benign-signer-keyspec-helper-over-function', expect='silent', edits=[(SP, _MAP, _IFCHAIN + '\n' + _KS_HELPER.replace('algorithms[hash]', 'digestOf(hash)')), (S, _S_BODY, _KS_BODY)]),
 dict(name='benign-table-shared-function', expect='silent', edits=_SHARED),
 # the same shapes with the property broken
 dict(name='verifier-table-function-384-is-512', expect='flagged(tables/hash-to-digest-algorithm)', edits=_V_FN(fn=_SWITCH('digestAlgorithm', c384='digest.SHA512'))),
 dict(name='verifier-table-function-missing-512', expect='flagged(tables/)', edits=_V_FN(fn=_SWITCH('digestAlgorithm', c512=''))),
 dict(name='verifier-table-function-unknown-hash-found', expect='flagged(tables/hash-to-digest-algorithm)', edits=_V_FN(fn=_SWITCH('digestAlgorithm', tail='\treturn digest.SHA256, true\n'))),
 dict(name='verifier-table-function-miss-yields-sha256', expect='flagged(tables/hash-to-digest-algorithm)', edits=_V_FN(fn=_SWITCH('digestAlgorithm', tail='\treturn digest.SHA256, false\n'))),
 dict(name='verifier-table-function-depends-on-more', expect='flagged(tables/)', edits=_V_FN(
      fn=_SWITCH('digestAlgorithm').replace('\tswitch hash {\n', '\tif hash == crypto.SHA384 && time.Now().Unix()%2 == 0 {\n\t\treturn digest.SHA512, true\n\t}\n\tswitch hash {\n'))),
 dict(name='verifier-table-function-constant-key', expect='flagged(blob-descriptor/generator-call)', edits=_V_FN(
      use='\tdigestAlgo, ok := digestAlgorithm(crypto.SHA256)\n')),
 dict(name='verifier-generator-gets-other-function', expect='flagged(blob-descriptor/generator-call)', edits=_V_FN(
      fn=_SWITCH('digestAlgorithm') + '\nfunc preferred(alg digest.Algorithm) digest.Algorithm {\n\tif alg == digest.SHA384 {\n\t\treturn digest.SHA512\n\t}\n\treturn alg\n}\n') + [
      (V, '\tdesc, err := descGenFunc(digestAlgo)\n', '\tdesc, err := descGenFunc(preferred(digestAlgo))\n')]),
 dict(name='signer-table-function-answer-ignored', expect='flagged(payload/blob-digest-algorithm/lookup)', edits=_S_FN(
      body='\tdigestAlg, _ := digestOf(ks.SignatureAlgorithm().Hash())\n\treturn genDesc(digestAlg)\n')),
 dict(name='signer-table-function-error-ignored', expect='flagged(payload/blob-digest-algorithm/lookup)', edits=_S_FN(fn=_ERRFN,
      body='\tdigestAlg, err := digestOf(ks.SignatureAlgorithm().Hash())\n\tif err != nil {\n\t\tdigestAlg, _ = digestOf(crypto.SHA256)\n\t}\n\treturn genDesc(digestAlg)\n')),
 dict(name='signer-table-function-zero-not-tested', expect='flagged(payload/blob-digest-algorithm/lookup)', edits=_S_FN(fn=_ONEFN,
      body='\tdigestAlg := digestOf(ks.SignatureAlgorithm().Hash())\n\treturn genDesc(digestAlg)\n')),
 dict(name='signer-table-function-sha256-always', expect='flagged(payload/blob-digest-algorithm/lookup)', edits=_S_FN(
      body=_S_BODY.replace('algorithms[ks.SignatureAlgorithm().Hash()]', 'digestOf(crypto.SHA256)'))),
 dict(name='signer-two-tables-disagree', expect='flagged(tables/)', edits=_S_FN(
      fn=_IFCHAIN + '\nfunc legacyDigestOf(h crypto.Hash) (digest.Algorithm, bool) {\n\treturn digest.SHA256, h == crypto.SHA256 || h == crypto.SHA384 || h == crypto.SHA512\n}\n',
      body=_S_BODY.replace('algorithms[ks.SignatureAlgorithm().Hash()]', 'legacyDigestOf(ks.SignatureAlgorithm().Hash())'))),
 dict(name='verifier-wrapper-map-rewritten-at-init', expect='flagged(tables/)', edits=[
      (V, _MAP, _WRAP + '\nfunc init() {\n\talgorithms[crypto.SHA384] = digest.SHA512\n}\n'), (V, _V_USE, '\tdigestAlgo, ok := lookupDigest(cryptoHash)\n')]),
 dict(name='verifier-wrapper-defaults-on-miss', expect='flagged(tables/)', edits=[
      (V, _MAP, _WRAP.replace('\treturn a, known\n', '\tif !known {\n\t\treturn digest.SHA256, true\n\t}\n\treturn a, known\n')), (V, _V_USE, '\tdigestAlgo, ok := lookupDigest(cryptoHash)\n')]),
 dict(name='signer-keyspec-helper-miss-passes', expect='flagged(payload/blob-digest-algorithm/lookup)', edits=_KS(
      helper=_KS_HELPER.replace('\tif !ok {\n\t\treturn "", fmt.Errorf("unknown hashing algo %v", hash)\n\t}\n', '\t_ = ok\n'))),
 dict(name='signer-keyspec-helper-error-ignored', expect='flagged(payload/blob-digest-algorithm/lookup)', edits=_KS(
      body='\tdigestAlg, _ := digestAlgorithmFor(ks)\n\treturn genDesc(digestAlg)\n')),
 dict(name='signer-keyspec-helper-fixed-hash', expect='flagged(payload/blob-digest-algorithm/lookup)', edits=_KS(
      helper=_KS_HELPER.replace('hash := ks.SignatureAlgorithm().Hash()', 'hash := crypto.SHA256'))),
 dict(name='signer-keyspec-helper-generator-skipped', expect='flagged(payload/blob-digest-algorithm)', edits=_KS(
      body='\tdigestAlg, err := digestAlgorithmFor(ks)\n\tif err != nil {\n\t\treturn ocispec.Descriptor{}, err\n\t}\n\tif digestAlg == "sha512" {\n\t\treturn ocispec.Descriptor{}, nil\n\t}\n\treturn genDesc(digestAlg)\n')),
 dict(name='shared-function-384-is-256', expect='flagged(tables/hash-to-digest-algorithm-total)', edits=[
      (e[0], e[1], e[2].replace('return digest.SHA384, true', 'return digest.SHA256, true')) for e in _SHARED]),
 dict(name='map-table-rewritten-at-init', file=SP, expect='flagged(tables/)', find=_MAP, replace=_MAP + '\nfunc init() {\n\talgorithms[crypto.SHA384] = digest.SHA512\n}\n'),
]
# the verifier's lookup extracted into a helper that is handed the envelope content
_V_BLOCK = ('\tcryptoHash := outcome.EnvelopeContent.SignerInfo.SignatureAlgorithm.Hash()\n\tdigestAlgo, ok := algorithms[cryptoHash]\n\tif !ok {\n\t\tlogger.Error("Unsupported hashing algorithm: %v", cryptoHash)\n'
            '\t\terr := fmt.Errorf("unsupported hashing algorithm: %v", cryptoHash)\n\t\toutcome.Error = err\n\t\treturn outcome, err\n\t}\n')
_V_BLOCK_HELPER = ('\tdigestAlgo, err := digestAlgorithmOf(outcome.EnvelopeContent)\n\tif err != nil {\n\t\tlogger.Error("Unsupported hashing algorithm: %v", outcome.EnvelopeContent.SignerInfo.SignatureAlgorithm.Hash())\n'
                   '\t\toutcome.Error = err\n\t\treturn outcome, err\n\t}\n')
_V_HELPER = ('\nfunc digestAlgorithmOf(content *signature.EnvelopeContent) (digest.Algorithm, error) {\n\tcryptoHash := content.SignerInfo.SignatureAlgorithm.Hash()\n\tif alg, ok := algorithms[cryptoHash]; ok {\n'
             '\t\treturn alg, nil\n\t}\n\treturn "", fmt.Errorf("unsupported hashing algorithm: %v", cryptoHash)\n}\n')
_TABLE_VARIANTS += [
 dict(name='benign-verifier-lookup-in-content-helper', expect='silent', edits=[(V, _MAP, _MAP + _V_HELPER), (V, _V_BLOCK, _V_BLOCK_HELPER)]),
 dict(name='benign-verifier-content-helper-over-switch-function', expect='silent', edits=[
      (V, _MAP, _SWITCH('digestAlgorithm') + _V_HELPER.replace('algorithms[cryptoHash]', 'digestAlgorithm(cryptoHash)')), (V, _V_BLOCK, _V_BLOCK_HELPER)]),
 dict(name='verifier-content-helper-defaults-on-miss', expect='flagged(blob-descriptor/generator-call)', edits=[
      (V, _MAP, _MAP + _V_HELPER.replace('\treturn "", fmt.Errorf("unsupported hashing algorithm: %v", cryptoHash)\n', '\treturn digest.SHA256, nil\n')), (V, _V_BLOCK, _V_BLOCK_HELPER)]),
 dict(name='verifier-content-helper-fixed-hash', expect='flagged(blob-descriptor/generator-call)', edits=[
      (V, _MAP, _MAP + _V_HELPER.replace('content.SignerInfo.SignatureAlgorithm.Hash()', 'crypto.SHA256; _ = content')), (V, _V_BLOCK, _V_BLOCK_HELPER)]),
]
# getDescriptor written out in GenericSigner.SignBlob (the function obtains the key spec itself instead of being handed it)
_G_CALL = '\tdesc, err := getDescriptor(ks, genDesc)\n'
def _G_INLINE(use=_S_USE, miss='\tif !ok {\n\t\treturn nil, nil, fmt.Errorf("unknown hashing algo %v", ks.SignatureAlgorithm().Hash())\n\t}\n'):
    return use + miss + '\tdesc, err := genDesc(digestAlg)\n'
_TABLE_VARIANTS += [
 dict(name='benign-getdescriptor-inlined', file=S, expect='silent', find=_G_CALL, replace=_G_INLINE()),
 dict(name='benign-getdescriptor-inlined-switch-function', expect='silent', edits=_S_FN() + [
      (S, _G_CALL, _G_INLINE(use='\tdigestAlg, ok := digestOf(ks.SignatureAlgorithm().Hash())\n'))]),
 dict(name='getdescriptor-inlined-miss-ignored', file=S, expect='flagged(payload/blob-digest-algorithm/lookup)', find=_G_CALL, replace=_G_INLINE(miss='\t_ = ok\n')),
 dict(name='getdescriptor-inlined-literal-keyspec', file=S, expect='flagged(payload/blob-digest-algorithm/lookup)', find=_G_CALL,
      replace='\tks = signature.KeySpec{Type: signature.KeyTypeRSA, Size: 2048}\n' + _G_INLINE()),
 dict(name='getdescriptor-inlined-fixed-hash', file=S, expect='flagged(payload/blob-digest-algorithm/lookup)', find=_G_CALL,
      replace=_G_INLINE(use='\tdigestAlg, ok := algorithms[crypto.SHA256]\n')),
 dict(name='getdescriptor-inlined-keyspec-error-ignored', file=S, expect='flagged(payload/blob-digest-algorithm/lookup)',
      find='\tks, err := s.signer.KeySpec()\n\tif err != nil {\n\t\treturn nil, nil, err\n\t}\n' + _G_CALL,
      replace='\tks, _ := s.signer.KeySpec()\n' + _G_INLINE()),
]

# ======== fourth pass ========
# (10) CLASS "unexported helper cut at another boundary, the rest inlined into its callers": the three steps of the blob
#      digest clause (obtain the key spec, hash of its signature algorithm, apply the table) and the invocation of the
#      generator are distributed differently over SignBlob and its helpers: getDescriptor is replaced by a helper that only
#      maps key spec -> digest algorithm (or signature algorithm -> digest algorithm, or signer -> digest algorithm, asking
#      for the key spec itself) and both SignBlob functions invoke the generator themselves.
_GD_FN = 'func getDescriptor(ks signature.KeySpec, genDesc notation.BlobDescriptorGenerator) (ocispec.Descriptor, error) {\n' + _S_BODY + '}\n'
_P_CALL = '\tdesc, err := getDescriptor(ks, descGenFunc)\n'
_G_KS = '\tks, err := s.signer.KeySpec()\n\tif err != nil {\n\t\treturn nil, nil, err\n\t}\n'
_P_KS = '\tks, err := s.getKeySpec(ctx, mergedConfig)\n\tif err != nil {\n\t\treturn nil, nil, err\n\t}\n\n\t// get descriptor to sign\n'
def _CALLER(gen, arg='ks', helper='digestAlgorithmFor', onerr='\tif err != nil {\n\t\treturn nil, nil, err\n\t}\n'):
    return '\tdigestAlg, err := %s(%s)\n%s\tdesc, err := %s(digestAlg)\n' % (helper, arg, onerr, gen)
def _CUT(helper=_KS_HELPER, g=None, p=None, more=()):
    return [(SP, _MAP, _MAP + '\n' + helper), (S, _GD_FN, ''),
            (S, _G_CALL, g or _CALLER('genDesc')), (SP, _P_CALL, p or _CALLER('descGenFunc'))] + list(more)
_SIGALG_HELPER = ('func digestAlgorithmFor(sigAlg signature.Algorithm) (digest.Algorithm, error) {\n\tif alg, ok := algorithms[sigAlg.Hash()]; ok {\n\t\treturn alg, nil\n\t}\n'
                  '\treturn "", fmt.Errorf("unknown hashing algo %v", sigAlg.Hash())\n}\n\n')
_SIGNER_HELPER = _KS_HELPER + ('func signerDigestAlgorithm(sg signature.Signer) (digest.Algorithm, error) {\n\tks, err := sg.KeySpec()\n\tif err != nil {\n\t\treturn "", err\n\t}\n'
                               '\treturn digestAlgorithmFor(ks)\n}\n\n')
_G_TAIL = '\tif err != nil {\n\t\treturn nil, nil, err\n\t}\n\treturn s.Sign(ctx, desc, opts)\n'
_G_NESTED = ('\tvar digestAlg digest.Algorithm\n\tif digestAlg, err = digestAlgorithmFor(ks); err == nil {\n\t\tvar desc ocispec.Descriptor\n\t\tif desc, err = genDesc(digestAlg); err == nil {\n'
             '\t\t\treturn s.Sign(ctx, desc, opts)\n\t\t}\n\t}\n\treturn nil, nil, err\n')
def _NESTED(body=None):
    return [(SP, _MAP, _MAP + '\n' + _KS_HELPER), (S, _GD_FN, ''),
            (S, _G_CALL + _G_TAIL, body or _G_NESTED), (SP, _P_CALL, _CALLER('descGenFunc')), _DIGEST_IMPORT]
_DIGEST_IMPORT = (S, '\tocispec "github.com/opencontainers/image-spec/specs-go/v1"\n)\n', '\t"github.com/opencontainers/go-digest"\n\tocispec "github.com/opencontainers/image-spec/specs-go/v1"\n)\n')
_CUT_VARIANTS = [
 dict(name='benign-keyspec-helper-callers-invoke-generator', expect='silent', edits=_CUT()),
 dict(name='benign-keyspec-helper-over-function-callers-invoke', expect='silent', edits=[
      (SP, _MAP, _IFCHAIN + '\n' + _KS_HELPER.replace('algorithms[hash]', 'digestOf(hash)')), (S, _GD_FN, ''), (S, _G_CALL, _CALLER('genDesc')), (SP, _P_CALL, _CALLER('descGenFunc'))]),
 dict(name='benign-sigalg-helper-callers-invoke-generator', expect='silent', edits=_CUT(helper=_SIGALG_HELPER,
      g=_CALLER('genDesc', arg='ks.SignatureAlgorithm()'), p=_CALLER('descGenFunc', arg='ks.SignatureAlgorithm()'))),
 dict(name='benign-signer-helper-obtains-keyspec-itself', expect='silent', edits=_CUT(helper=_SIGNER_HELPER,
      more=[(S, _G_KS + _CALLER('genDesc'), _CALLER('genDesc', arg='s.signer', helper='signerDigestAlgorithm'))])),
 dict(name='benign-keyspec-helper-callers-nested-guards', expect='silent', edits=_NESTED()),
 # the same cuts with the property broken
 dict(name='cut-nested-generator-error-ignored', expect='flagged(payload/blob-digest-algorithm)', edits=_NESTED(
      _G_NESTED.replace('\t\tvar desc ocispec.Descriptor\n\t\tif desc, err = genDesc(digestAlg); err == nil {\n\t\t\treturn s.Sign(ctx, desc, opts)\n\t\t}\n', '\t\tdesc, _ := genDesc(digestAlg)\n\t\treturn s.Sign(ctx, desc, opts)\n'))),
 dict(name='cut-nested-generator-error-swallowed-at-shared-return', expect='flagged(payload/blob-digest-algorithm)', edits=_NESTED(
      _G_NESTED.replace('\t\tif desc, err = genDesc(digestAlg); err == nil {\n', '\t\tvar genErr error\n\t\tif desc, genErr = genDesc(digestAlg); genErr == nil {\n'))),
 dict(name='cut-keyspec-error-ignored-by-caller', expect='flagged(payload/blob-digest-algorithm/lookup)', edits=_CUT(
      more=[(S, _G_KS, '\tks, _ := s.signer.KeySpec()\n')])),
 dict(name='cut-plugin-keyspec-error-ignored-by-caller', expect='flagged(payload/blob-digest-algorithm/lookup)', edits=_CUT(
      p=_CALLER('descGenFunc', arg='ks2'), more=[(SP, _P_KS, _P_KS + '\tks2, _ := s.getKeySpec(ctx, opts.PluginConfig)\n')])),
 dict(name='cut-caller-decodes-keyspec-from-constant', expect='flagged(payload/blob-digest-algorithm/lookup)', edits=_CUT(
      p=_CALLER('descGenFunc', arg='ks2'), more=[(SP, _P_KS, _P_KS + '\tks2, err := proto.DecodeKeySpec(plugin.KeySpecRSA2048)\n\tif err != nil {\n\t\treturn nil, nil, err\n\t}\n')])),
 dict(name='cut-caller-passes-literal-keyspec', expect='flagged(payload/blob-digest-algorithm/lookup)', edits=_CUT(
      g=_CALLER('genDesc', arg='signature.KeySpec{Type: signature.KeyTypeRSA, Size: 2048}'), more=[(S, _G_KS, _G_KS + '\t_ = ks\n')])),
 dict(name='cut-helper-miss-passes', expect='flagged(payload/blob-digest-algorithm/lookup)', edits=_CUT(
      helper=_KS_HELPER.replace('\tif !ok {\n\t\treturn "", fmt.Errorf("unknown hashing algo %v", hash)\n\t}\n', '\t_ = ok\n'))),
 dict(name='cut-helper-fixed-hash', expect='flagged(payload/blob-digest-algorithm/lookup)', edits=_CUT(
      helper=_KS_HELPER.replace('hash := ks.SignatureAlgorithm().Hash()', 'hash := crypto.SHA256'))),
 dict(name='cut-caller-falls-back-on-helper-error', expect='flagged(payload/blob-digest-algorithm/lookup)', edits=_CUT(
      p=_CALLER('descGenFunc', onerr='\tif err != nil {\n\t\tdigestAlg = digest.SHA256\n\t}\n'))),
 dict(name='cut-sigalg-helper-constant-algorithm', expect='flagged(payload/blob-digest-algorithm/lookup)', edits=_CUT(helper=_SIGALG_HELPER,
      g=_CALLER('genDesc', arg='ks.SignatureAlgorithm()'), p=_CALLER('descGenFunc', arg='signature.AlgorithmPS256'))),
 dict(name='cut-signer-helper-ignores-keyspec-error', expect='flagged(payload/blob-digest-algorithm/lookup)', edits=_CUT(
      helper=_SIGNER_HELPER.replace('\tks, err := sg.KeySpec()\n\tif err != nil {\n\t\treturn "", err\n\t}\n', '\tks, _ := sg.KeySpec()\n'),
      more=[(S, _G_KS + _CALLER('genDesc'), _CALLER('genDesc', arg='s.signer', helper='signerDigestAlgorithm'))])),
 dict(name='cut-signer-helper-asks-another-signer', expect='flagged(payload/blob-digest-algorithm/lookup)', edits=_CUT(
      helper=_SIGNER_HELPER.replace('\treturn digestAlgorithmFor(ks)\n', '\tif ks.Size > 3072 {\n\t\tks = signature.KeySpec{Type: ks.Type, Size: 3072}\n\t}\n\treturn digestAlgorithmFor(ks)\n'),
      more=[(S, _G_KS + _CALLER('genDesc'), _CALLER('genDesc', arg='s.signer', helper='signerDigestAlgorithm'))])),
 dict(name='cut-caller-generator-error-ignored', expect='flagged(payload/blob-digest-algorithm)', edits=_CUT(
      g=_CALLER('genDesc').replace('\tdesc, err := genDesc(digestAlg)\n', '\tdesc, _ := genDesc(digestAlg)\n'))),
]

# ---- (11) CLASS "the descriptor generator is evaluated at most once on every path" (it drains the caller's io.Reader) ----
V = 'verifier/verifier.go'
_P_SIGN_CALL = '\t\tsig, signerInfo, err := s.generateSignature(ctx, desc, opts, ks, metadata, mergedConfig)\n'
_P_BLOB_CALL = '\t\treturn s.generateSignature(ctx, desc, opts, ks, metadata, mergedConfig)\n'
_P_ENV_CALL = '\t\treturn s.generateSignatureEnvelope(ctx, desc, opts)\n'
_P_EVAL = '\t// get descriptor to sign\n\tdesc, err := getDescriptor(ks, descGenFunc)\n\tif err != nil {\n\t\treturn nil, nil, err\n\t}\n'
_P_LOG = '\tlogger.Debugf("Using plugin %v with capabilities %v to sign blob using descriptor %+v", metadata.Name, metadata.Capabilities, desc)\n'
_P_LOG_NODESC = '\tlogger.Debugf("Using plugin %v with capabilities %v to sign blob", metadata.Name, metadata.Capabilities)\n'
_P_HELPER_HEAD = 'func (s *PluginSigner) generateSignature(ctx context.Context, desc ocispec.Descriptor, opts notation.SignerSignOptions, ks signature.KeySpec, metadata *plugin.GetMetadataResponse, pluginConfig map[string]string) ([]byte, *signature.SignerInfo, error) {\n\tlogger := log.GetLogger(ctx)\n\tlogger.Debug("Generating signature by plugin")\n\tgenericSigner := GenericSigner{\n'
_P_HELPER_TAIL = '\t\t\tkeySpec:      ks,\n\t\t},\n\t}\n\topts.SigningAgent = fmt.Sprintf("%s %s/%s", signingAgent, metadata.Name, metadata.Version)\n\treturn genericSigner.Sign(ctx, desc, opts)\n}\n'
# the refactoring of seed C07-6: generateSignature split into genericSigner() + withPluginAgent(); each public method calls
# the GenericSigner method of its own kind
_SPLIT = [
 (SP, _P_SIGN_CALL, '\t\tlogger.Debug("Generating signature by plugin")\n\t\tsig, signerInfo, err := s.genericSigner(ctx, ks, mergedConfig).Sign(ctx, desc, withPluginAgent(opts, metadata))\n'),
 (SP, _P_BLOB_CALL, '\t\tlogger.Debug("Generating signature by plugin")\n\t\treturn s.genericSigner(ctx, ks, mergedConfig).SignBlob(ctx, descGenFunc, withPluginAgent(opts, metadata))\n'),
 (SP, _P_HELPER_HEAD, 'func (s *PluginSigner) genericSigner(ctx context.Context, ks signature.KeySpec, pluginConfig map[string]string) *GenericSigner {\n\treturn &GenericSigner{\n'),
 (SP, _P_HELPER_TAIL, '\t\t\tkeySpec:      ks,\n\t\t},\n\t}\n}\n\nfunc withPluginAgent(opts notation.SignerSignOptions, metadata *plugin.GetMetadataResponse) notation.SignerSignOptions {\n\topts.SigningAgent = fmt.Sprintf("%s %s/%s", signingAgent, metadata.Name, metadata.Version)\n\treturn opts\n}\n'),
]
# ... without the slip: the generator is evaluated by the branch that needs the descriptor only
_EVAL_IN_ENVELOPE_BRANCH = [
 (SP, _P_EVAL, ''), (SP, _P_LOG, _P_LOG_NODESC),
 (SP, _P_ENV_CALL, '\t\tdesc, err := getDescriptor(ks, descGenFunc)\n\t\tif err != nil {\n\t\t\treturn nil, nil, err\n\t\t}\n\t\treturn s.generateSignatureEnvelope(ctx, desc, opts)\n'),
]
_INLINE_GENERIC = ('\t\tgenericSigner := GenericSigner{signer: &pluginPrimitiveSigner{ctx: ctx, plugin: s.plugin, keyID: s.keyID, pluginConfig: mergedConfig, keySpec: ks}}\n'
                   '\t\topts.SigningAgent = fmt.Sprintf("%s %s/%s", signingAgent, metadata.Name, metadata.Version)\n'
                   '\t\treturn genericSigner.SignBlob(ctx, descGenFunc, opts)\n')
_G_EVAL = '\tdesc, err := getDescriptor(ks, genDesc)\n\tif err != nil {\n\t\treturn nil, nil, err\n\t}\n\treturn s.Sign(ctx, desc, opts)\n'
_G_RET = '\treturn genDesc(digestAlg)\n}\n'
_JOB = ('type blobJob struct {\n\tks  signature.KeySpec\n\tgen notation.BlobDescriptorGenerator\n}\n\n'
        'func (j *blobJob) describe() (ocispec.Descriptor, error) {\n\treturn getDescriptor(j.ks, j.gen)\n}\n\n')
_V_EVAL = '\tdesc, err := descGenFunc(digestAlgo)\n'
_N_MAKE = '\tgetDescFunc := getDescriptorFunc(ctx, blobReader, signBlobOpts.ContentMediaType, signBlobOpts.UserMetadata)\n'
_ONCE_VARIANTS = [
 # the slip of seed C07-6 in its own shape, and its benign twin
 dict(name='plugin-signblob-split-helpers-evaluates-then-delegates', expect='flagged(blob-descriptor/generator-called-once)', edits=_SPLIT),
 dict(name='benign-plugin-signblob-split-helpers-delegates', expect='silent', edits=_SPLIT + _EVAL_IN_ENVELOPE_BRANCH),
 # the same slip in the base tree's shape (generateSignature kept for Sign)
 dict(name='plugin-signblob-evaluates-then-delegates-to-generic-signblob', file=SP, expect='flagged(blob-descriptor/generator-called-once)',
      find=_P_BLOB_CALL, replace=_INLINE_GENERIC),
 dict(name='benign-plugin-signblob-delegates-to-generic-signblob', expect='silent', edits=[(SP, _P_BLOB_CALL, _INLINE_GENERIC)] + _EVAL_IN_ENVELOPE_BRANCH),
 # other shapes of a second evaluation
 dict(name='generic-signblob-evaluates-for-the-log-first', file=S, expect='flagged(blob-descriptor/generator-called-once)', find=_G_EVAL,
      replace='\tif d, derr := getDescriptor(ks, genDesc); derr == nil {\n\t\tlogger.Debugf("Signing blob %v", d.Digest)\n\t}\n' + _G_EVAL),
 dict(name='generic-signblob-retries-in-a-loop', file=S, expect='flagged(blob-descriptor/generator-called-once)', find=_G_EVAL,
      replace='\tvar desc ocispec.Descriptor\n\tfor attempt := 0; attempt < 2; attempt++ {\n\t\tif desc, err = getDescriptor(ks, genDesc); err == nil {\n\t\t\tbreak\n\t\t}\n\t}\n\tif err != nil {\n\t\treturn nil, nil, err\n\t}\n\treturn s.Sign(ctx, desc, opts)\n'),
 dict(name='getdescriptor-retries-on-error', file=S, expect='flagged(blob-descriptor/generator-called-once)', find=_G_RET,
      replace='\tdesc, err := genDesc(digestAlg)\n\tif err != nil {\n\t\tdesc, err = genDesc(digestAlg)\n\t}\n\treturn desc, err\n}\n'),
 dict(name='verifier-evaluates-through-closure-twice', file=V, expect='flagged(blob-descriptor/generator-called-once)', find=_V_EVAL,
      replace='\tdescribe := func() (ocispec.Descriptor, error) { return descGenFunc(digestAlgo) }\n\tif d, derr := describe(); derr == nil {\n\t\tlogger.Debugf("Blob digest: %v", d.Digest)\n\t}\n\tdesc, err := describe()\n'),
 dict(name='wrapper-probes-the-reader-before-handing-on', file=N, expect='flagged(blob-descriptor/generator-called-once)', find=_N_MAKE,
      replace=_N_MAKE + '\tif _, err := getDescFunc(digest.Canonical); err != nil {\n\t\treturn nil, nil, err\n\t}\n'),
 dict(name='generic-signblob-object-holding-generator-described-twice', expect='flagged(blob-descriptor/generator-called-once)', edits=[
      (S, _G_EVAL, '\tjob := &blobJob{ks: ks, gen: genDesc}\n\tif _, err := job.describe(); err != nil {\n\t\treturn nil, nil, err\n\t}\n\tdesc, err := job.describe()\n\tif err != nil {\n\t\treturn nil, nil, err\n\t}\n\treturn s.Sign(ctx, desc, opts)\n'),
      (S, _GETDESC, _JOB + _GETDESC)]),
 # behaviour-preserving shapes around the single evaluation
 dict(name='benign-generic-signblob-evaluates-through-closure-once', file=S, expect='silent', find=_G_EVAL,
      replace='\tdescribe := func() (ocispec.Descriptor, error) { return getDescriptor(ks, genDesc) }\n\tdesc, err := describe()\n\tif err != nil {\n\t\treturn nil, nil, err\n\t}\n\treturn s.Sign(ctx, desc, opts)\n'),
 dict(name='benign-generic-signblob-two-helpers-deep', expect='silent', edits=[
      (S, _G_EVAL, _G_EVAL.replace('getDescriptor(ks, genDesc)', 'describeBlob(genDesc, ks)')),
      (S, _GETDESC, 'func describeBlob(gen notation.BlobDescriptorGenerator, ks signature.KeySpec) (ocispec.Descriptor, error) {\n\tdesc, err := getDescriptor(ks, gen)\n\tif err != nil {\n\t\treturn ocispec.Descriptor{}, err\n\t}\n\treturn desc, nil\n}\n\n' + _GETDESC)]),
 dict(name='benign-wrapper-loop-one-generator-per-blob', file=N, expect='silent', find='func validateSignArguments(',
      replace='func signBlobs(ctx context.Context, signer BlobSigner, blobReaders []io.Reader, signBlobOpts SignBlobOptions) error {\n\tfor _, blobReader := range blobReaders {\n\t\tgetDescFunc := getDescriptorFunc(ctx, blobReader, signBlobOpts.ContentMediaType, signBlobOpts.UserMetadata)\n\t\tif _, _, err := signer.SignBlob(ctx, getDescFunc, signBlobOpts.SignerSignOptions); err != nil {\n\t\t\treturn err\n\t\t}\n\t}\n\treturn nil\n}\n\nfunc validateSignArguments('),
 dict(name='wrapper-loop-one-generator-for-all-signers', file=N, expect='flagged(blob-descriptor/generator-called-once)', find='func validateSignArguments(',
      replace='func signBlobWithAll(ctx context.Context, signers []BlobSigner, blobReader io.Reader, signBlobOpts SignBlobOptions) error {\n\tgetDescFunc := getDescriptorFunc(ctx, blobReader, signBlobOpts.ContentMediaType, signBlobOpts.UserMetadata)\n\tfor _, signer := range signers {\n\t\tif _, _, err := signer.SignBlob(ctx, getDescFunc, signBlobOpts.SignerSignOptions); err != nil {\n\t\t\treturn err\n\t\t}\n\t}\n\treturn nil\n}\n\nfunc validateSignArguments('),
 dict(name='benign-generic-signblob-evaluates-in-either-branch', file=S, expect='silent', find=_G_EVAL,
      replace='\tvar desc ocispec.Descriptor\n\tif opts.SignatureMediaType == "" {\n\t\tdesc, err = getDescriptor(ks, genDesc)\n\t\tlogger.Debug("No signature media type requested")\n\t} else {\n\t\tdesc, err = getDescriptor(ks, genDesc)\n\t}\n\tif err != nil {\n\t\treturn nil, nil, err\n\t}\n\treturn s.Sign(ctx, desc, opts)\n'),
 dict(name='benign-generic-signblob-object-holding-generator-described-once', expect='silent', edits=[
      (S, _G_EVAL, '\tjob := &blobJob{ks: ks, gen: genDesc}\n\tdesc, err := job.describe()\n\tif err != nil {\n\t\treturn nil, nil, err\n\t}\n\treturn s.Sign(ctx, desc, opts)\n'),
      (S, _GETDESC, _JOB + _GETDESC)]),
]
# ---- sixth pass. CLASS "the evaluation of the generator stands in a closure / an unexported helper that is handed the algorithm":
#      the algorithm argument of the generator call is a captured variable or a parameter; what it is, is decided where the
#      closure is called / at the helper's (closed list of) call sites
_DESCRIBE_FN = '\nfunc describeBlob(gen notation.BlobDescriptorGenerator, alg digest.Algorithm) (ocispec.Descriptor, error) {\n\treturn gen(alg)\n}\n'
_DESCRIBE_FN_WRAPS = ('\nfunc describeBlob(gen notation.BlobDescriptorGenerator, alg digest.Algorithm) (ocispec.Descriptor, error) {\n\tdesc, err := gen(alg)\n\tif err != nil {\n'
                      '\t\treturn ocispec.Descriptor{}, fmt.Errorf("failed to describe the blob with %v: %w", alg, err)\n\t}\n\treturn desc, nil\n}\n')
_DESCRIBE_2 = ('\nfunc describeBlob(gen notation.BlobDescriptorGenerator, alg digest.Algorithm) (ocispec.Descriptor, error) {\n\treturn evaluate(alg, gen)\n}\n'
               '\nfunc evaluate(a digest.Algorithm, g notation.BlobDescriptorGenerator) (ocispec.Descriptor, error) {\n\treturn g(a)\n}\n')
_V_CLOSURE = '\tdescribe := func() (ocispec.Descriptor, error) { return descGenFunc(digestAlgo) }\n\tdesc, err := describe()\n'
_V_CLOSURE_PARAM = '\tdescribe := func(alg digest.Algorithm) (ocispec.Descriptor, error) { return descGenFunc(alg) }\n\tdesc, err := describe(digestAlgo)\n'
_V_HELPER_CALL = '\tdesc, err := describeBlob(descGenFunc, digestAlgo)\n'
_S_HELPER_RET = '\treturn describeBlob(genDesc, digestAlg)\n}\n'
_S_CLOSURE_RET = '\tdescribe := func() (ocispec.Descriptor, error) { return genDesc(digestAlg) }\n\treturn describe()\n}\n'
_V_TWO_SITES = ('\tvar desc ocispec.Descriptor\n\tif len(opts.UserMetadata) > 0 {\n\t\tlogger.Debug("Describing the blob together with its user metadata")\n\t\tdesc, err = describeBlob(descGenFunc, %s)\n'
                '\t} else {\n\t\tdesc, err = describeBlob(descGenFunc, digestAlgo)\n\t}\n')
_DESCRIBE_HASH = ('\nfunc describeWith(hash crypto.Hash, gen notation.BlobDescriptorGenerator) (ocispec.Descriptor, error) {\n\talg, ok := algorithms[hash]\n\tif !ok {\n'
                  '\t\treturn ocispec.Descriptor{}, fmt.Errorf("unknown hashing algo %v", hash)\n\t}\n\treturn gen(alg)\n}\n')
_V_HASH_ONLY = '\tcryptoHash := outcome.EnvelopeContent.SignerInfo.SignatureAlgorithm.Hash()\n'
_ARG_VARIANTS = [
 # (a) the verifier evaluates the generator inside a local closure that captures the digest algorithm
 dict(name='benign-verifier-generator-in-closure-capturing-algorithm', file=V, expect='silent', find=_V_EVAL, replace=_V_CLOSURE),
 dict(name='benign-verifier-generator-in-closure-taking-algorithm', file=V, expect='silent', find=_V_EVAL, replace=_V_CLOSURE_PARAM),
 # (b) the evaluation moved into an unexported helper that takes the algorithm as a parameter
 dict(name='benign-verifier-generator-in-algorithm-helper', expect='silent', edits=[(V, _MAP, _MAP + _DESCRIBE_FN), (V, _V_EVAL, _V_HELPER_CALL)]),
 dict(name='benign-signer-generator-in-algorithm-helper', expect='silent', edits=[(SP, _MAP, _MAP + _DESCRIBE_FN), (S, _G_RET, _S_HELPER_RET)]),
 dict(name='benign-both-generator-in-algorithm-helper', expect='silent', edits=[
      (V, _MAP, _MAP + _DESCRIBE_FN), (V, _V_EVAL, _V_HELPER_CALL), (SP, _MAP, _MAP + _DESCRIBE_FN), (S, _G_RET, _S_HELPER_RET)]),
 # further members of the class
 dict(name='benign-signer-generator-in-closure-capturing-algorithm', file=S, expect='silent', find=_G_RET, replace=_S_CLOSURE_RET),
 dict(name='benign-verifier-algorithm-helper-wraps-error', expect='silent', edits=[(V, _MAP, _MAP + _DESCRIBE_FN_WRAPS), (V, _V_EVAL, _V_HELPER_CALL)]),
 dict(name='benign-signer-algorithm-helper-wraps-error', expect='silent', edits=[(SP, _MAP, _MAP + _DESCRIBE_FN_WRAPS), (S, _G_RET, _S_HELPER_RET)]),
 dict(name='benign-verifier-algorithm-helper-two-deep', expect='silent', edits=[(V, _MAP, _MAP + _DESCRIBE_2), (V, _V_EVAL, _V_HELPER_CALL)]),
 dict(name='benign-signer-algorithm-helper-two-deep', expect='silent', edits=[(SP, _MAP, _MAP + _DESCRIBE_2), (S, _G_RET, _S_HELPER_RET)]),
 dict(name='benign-verifier-algorithm-helper-two-call-sites', expect='silent', edits=[(V, _MAP, _MAP + _DESCRIBE_FN), (V, _V_EVAL, _V_TWO_SITES % 'digestAlgo')]),
 # the helper cut at the other boundary: it is handed the hash and looks the algorithm up itself (the key is the parameter)
 dict(name='benign-signer-helper-handed-hash', expect='silent', edits=[(SP, _MAP, _MAP + _DESCRIBE_HASH), (S, _S_BODY, '\treturn describeWith(ks.SignatureAlgorithm().Hash(), genDesc)\n')]),
 dict(name='benign-verifier-helper-handed-hash', expect='silent', edits=[(V, _MAP, _MAP + _DESCRIBE_HASH), (V, _V_BLOCK, _V_HASH_ONLY), (V, _V_EVAL, '\tdesc, err := describeWith(cryptoHash, descGenFunc)\n')]),
 # ---- the same shapes with the property broken ----
 dict(name='verifier-algorithm-helper-called-with-constant', expect='flagged(blob-descriptor/generator-call)', edits=[
      (V, _MAP, _MAP + _DESCRIBE_FN), (V, _V_EVAL, '\t_ = digestAlgo\n\tdesc, err := describeBlob(descGenFunc, digest.SHA256)\n')]),
 dict(name='signer-algorithm-helper-called-with-constant', expect='flagged(payload/blob-digest-algorithm/lookup)', edits=[
      (SP, _MAP, _MAP + _DESCRIBE_FN), (S, _G_RET, '\t_ = digestAlg\n\treturn describeBlob(genDesc, digest.SHA256)\n}\n'),
      (S, '\t"github.com/notaryproject/notation-go/log"\n', '\t"github.com/notaryproject/notation-go/log"\n\t"github.com/opencontainers/go-digest"\n')]),
 dict(name='signer-algorithm-helper-called-with-constant-generator-call', expect='flagged(blob-descriptor/generator-call)', edits=[
      (SP, _MAP, _MAP + _DESCRIBE_FN + '\nconst preferredAlgorithm = digest.SHA256\n'), (S, _G_RET, '\t_ = digestAlg\n\treturn describeBlob(genDesc, preferredAlgorithm)\n}\n')]),
 dict(name='signer-algorithm-helper-miss-not-tested', expect='flagged(payload/blob-digest-algorithm/lookup)', edits=[
      (SP, _MAP, _MAP + _DESCRIBE_FN), (S, _S_BODY, '\tdigestAlg := algorithms[ks.SignatureAlgorithm().Hash()]\n\treturn describeBlob(genDesc, digestAlg)\n')]),
 dict(name='signer-algorithm-helper-swallows-generator-error', expect='flagged(payload/blob-digest-algorithm)', edits=[
      (SP, _MAP, _MAP + _DESCRIBE_FN.replace('\treturn gen(alg)\n', '\tdesc, _ := gen(alg)\n\treturn desc, nil\n')), (S, _G_RET, _S_HELPER_RET)]),
 dict(name='algorithm-helper-ignores-its-parameter', expect='flagged(blob-descriptor/generator-call)', edits=[
      (V, _MAP, _MAP + _DESCRIBE_FN.replace('\treturn gen(alg)\n', '\t_ = alg\n\treturn gen(digest.SHA256)\n')), (V, _V_EVAL, _V_HELPER_CALL)]),
 dict(name='verifier-algorithm-helper-one-site-passes-other-algorithm', expect='flagged(blob-descriptor/generator-call)', edits=[
      (V, _MAP, _MAP + _DESCRIBE_FN), (V, _V_EVAL, _V_TWO_SITES % 'digest.Canonical')]),
 dict(name='verifier-algorithm-helper-two-deep-inner-called-with-constant', expect='flagged(blob-descriptor/generator-call)', edits=[
      (V, _MAP, _MAP + _DESCRIBE_2.replace('evaluate(alg, gen)', 'evaluate(digest.SHA512, gen)')), (V, _V_EVAL, _V_HELPER_CALL)]),
 dict(name='verifier-algorithm-helper-also-reached-as-a-value', expect='flagged(blob-descriptor/generator-call)', edits=[
      (V, _MAP, _MAP + _DESCRIBE_FN + '\nvar describeWith = describeBlob\n'),
      (V, _V_EVAL, (_V_TWO_SITES % 'digest.Canonical').replace('describeBlob(descGenFunc, digest.Canonical)', 'describeWith(descGenFunc, digest.Canonical)'))]),
 dict(name='verifier-closure-captures-algorithm-of-the-payload-digest', file=V, expect='flagged(blob-descriptor/generator-call)', find=_V_EVAL,
      replace='\tpayloadAlgo := payload.TargetArtifact.Digest.Algorithm()\n\t_ = digestAlgo\n' + _V_CLOSURE.replace('descGenFunc(digestAlgo)', 'descGenFunc(payloadAlgo)')),
 dict(name='verifier-closure-captured-algorithm-reassigned-before-the-call', file=V, expect='flagged(blob-descriptor/generator-call)', find=_V_EVAL,
      replace=_V_CLOSURE.replace('\tdesc, err := describe()\n', '\tif len(opts.UserMetadata) == 0 {\n\t\tdigestAlgo = digest.Canonical\n\t}\n\tdesc, err := describe()\n')),
 dict(name='verifier-closure-called-before-the-algorithm-is-looked-up', expect='flagged(blob-descriptor/generator-call)', edits=[
      (V, _V_USE, '\tvar digestAlgo digest.Algorithm\n' + _V_CLOSURE + _V_USE), (V, _V_EVAL, '')]),
 dict(name='verifier-closure-taking-algorithm-called-with-constant', file=V, expect='flagged(blob-descriptor/generator-call)', find=_V_EVAL,
      replace='\t_ = digestAlgo\n' + _V_CLOSURE_PARAM.replace('describe(digestAlgo)', 'describe(digest.SHA256)')),
 dict(name='verifier-closure-escapes-and-is-called', file=V, expect='flagged(blob-descriptor/generator-call)', find=_V_EVAL,
      replace=_V_CLOSURE_PARAM.replace('\tdesc, err := describe(digestAlgo)\n', '\t_ = digestAlgo\n\tdescribers := []func(digest.Algorithm) (ocispec.Descriptor, error){describe}\n\tdesc, err := describers[0](digest.Canonical)\n')),
 dict(name='signer-closure-captures-constant-algorithm', file=S, expect='flagged(payload/blob-digest-algorithm/lookup)', find=_G_RET,
      replace='\tfallback := algorithms[crypto.SHA256]\n\t_ = digestAlg\n' + _S_CLOSURE_RET.replace('genDesc(digestAlg)', 'genDesc(fallback)')),
 dict(name='signer-closure-swallows-generator-error', file=S, expect='flagged(payload/blob-digest-algorithm)', find=_G_RET,
      replace=_S_CLOSURE_RET.replace('{ return genDesc(digestAlg) }', '{\n\t\tdesc, _ := genDesc(digestAlg)\n\t\treturn desc, nil\n\t}')),
 dict(name='signer-helper-handed-constant-hash', expect='flagged(payload/blob-digest-algorithm/lookup)', edits=[
      (SP, _MAP, _MAP + _DESCRIBE_HASH), (S, _S_BODY, '\treturn describeWith(crypto.SHA256, genDesc)\n')]),
 dict(name='verifier-helper-handed-constant-hash', expect='flagged(blob-descriptor/generator-call)', edits=[
      (V, _MAP, _MAP + _DESCRIBE_HASH), (V, _V_BLOCK, _V_HASH_ONLY), (V, _V_EVAL, '\t_ = cryptoHash\n\tdesc, err := describeWith(crypto.SHA256, descGenFunc)\n')]),
 dict(name='signer-helper-handed-hash-miss-passes', expect='flagged(payload/blob-digest-algorithm/lookup)', edits=[
      (SP, _MAP, _MAP + _DESCRIBE_HASH.replace('\tif !ok {\n\t\treturn ocispec.Descriptor{}, fmt.Errorf("unknown hashing algo %v", hash)\n\t}\n', '\t_ = ok\n')),
      (S, _S_BODY, '\treturn describeWith(ks.SignatureAlgorithm().Hash(), genDesc)\n')]),
]

# ---- fallible steps of the signing call tree (signing/step-succeeded): the nil-error edge of every step whose result is
#      consumed is must-pass for the success-capable exits behind the consumption ----
_G_DESC = '\tdesc, err := getDescriptor(ks, genDesc)\n\tif err != nil {\n\t\treturn nil, nil, err\n\t}\n'
_G_KS = '\tks, err := s.signer.KeySpec()\n\tif err != nil {\n\t\treturn nil, nil, err\n\t}\n'
_G_BLOB = _G_KS + _G_DESC + '\treturn s.Sign(ctx, desc, opts)\n'
_G_MARSHAL_S = 'payloadBytes, err := json.Marshal(payload)\n\tif err != nil {\n\t\treturn nil, nil, fmt.Errorf("envelope payload can\'t be marshalled: %w", err)\n\t}\n\tvar signingAgentId string'
_G_NEWENV = '\tsigEnv, err := signature.NewEnvelope(opts.SignatureMediaType)\n\tif err != nil {\n\t\treturn nil, nil, err\n\t}\n'
_G_COPY = '\t\tbytes, err := io.Copy(digester.Hash(), reader)\n\t\tif err != nil {\n\t\t\treturn ocispec.Descriptor{}, err\n\t\t}\n'
_P_DESC = '\tdesc, err := getDescriptor(ks, descGenFunc)\n\tif err != nil {\n\t\treturn nil, nil, err\n\t}\n'
_FAILED_FN = 'func failed(err error) bool { return err != nil }\n\n'
def _cond(block, new, old='if err != nil {'):
    assert block.count(old) == 1
    return block.replace(old, new)
_STEP = 'flagged(signing/step-succeeded)'
_STEP_VARIANTS = [
 # the guard weakened: `false && (C)` and a conjunct built from something in scope
 dict(name='step-blob-descriptor-guard-false', file=S, expect=_STEP, find=_G_DESC, replace=_cond(_G_DESC, 'if false && (err != nil) {')),
 dict(name='step-blob-descriptor-guard-extra-conjunct', file=S, expect=_STEP, find=_G_DESC, replace=_cond(_G_DESC, 'if opts.SigningAgent != "" && err != nil {')),
 dict(name='step-keyspec-guard-false', file=S, expect=_STEP, find=_G_KS, replace=_cond(_G_KS, 'if false && (err != nil) {')),
 dict(name='step-keyspec-guard-extra-conjunct', file=S, expect=_STEP, find=_G_KS, replace=_cond(_G_KS, 'if opts.ExpiryDuration != 0 && err != nil {')),
 dict(name='step-marshal-guard-false', file=S, expect=_STEP, find=_G_MARSHAL_S, replace=_cond(_G_MARSHAL_S, 'if false && (err != nil) {')),
 dict(name='step-marshal-guard-extra-conjunct', file=S, expect=_STEP, find=_G_MARSHAL_S, replace=_cond(_G_MARSHAL_S, 'if len(desc.Annotations) > 0 && err != nil {')),
 dict(name='step-new-envelope-guard-false', file=S, expect=_STEP, find=_G_NEWENV, replace=_cond(_G_NEWENV, 'if false && (err != nil) {')),
 dict(name='step-new-envelope-guard-extra-conjunct', file=S, expect=_STEP, find=_G_NEWENV, replace=_cond(_G_NEWENV, 'if opts.Timestamper != nil && err != nil {')),
 dict(name='step-blob-read-guard-false', file=N, expect=_STEP, find=_G_COPY, replace=_cond(_G_COPY, 'if false && (err != nil) {')),
 dict(name='step-blob-read-guard-only-when-nothing-read', file=N, expect=_STEP, find=_G_COPY, replace=_cond(_G_COPY, 'if bytes == 0 && err != nil {')),
 dict(name='step-plugin-blob-descriptor-guard-false', file=SP, expect=_STEP, find=_P_DESC, replace=_cond(_P_DESC, 'if false && (err != nil) {')),
 dict(name='step-plugin-blob-descriptor-guard-extra-conjunct', file=SP, expect=_STEP, find=_P_DESC, replace=_cond(_P_DESC, 'if len(mergedConfig) > 0 && err != nil {')),
 # other ways to get past a failed step
 dict(name='step-blob-descriptor-error-dropped', file=S, expect=_STEP, find=_G_DESC, replace='\tdesc, _ := getDescriptor(ks, genDesc)\n'),
 dict(name='step-blob-descriptor-error-only-logged', file=S, expect=_STEP, find=_G_DESC,
      replace='\tdesc, err := getDescriptor(ks, genDesc)\n\tif err != nil {\n\t\tlogger.Debugf("describing the blob failed: %v", err)\n\t}\n'),
 dict(name='step-blob-descriptor-other-error-tested', file=S, expect=_STEP, find=_G_BLOB,
      replace=_G_KS.replace('ks, err :=', 'ks, ksErr :=').replace('if err != nil {\n\t\treturn nil, nil, err', 'if ksErr != nil {\n\t\treturn nil, nil, ksErr') +
              '\tdesc, err := getDescriptor(ks, genDesc)\n\tif ksErr != nil {\n\t\treturn nil, nil, err\n\t}\n\treturn s.Sign(ctx, desc, opts)\n'),
 dict(name='step-single-exit-descriptor-used-after-failed-keyspec', file=S, expect=_STEP, find=_G_BLOB,
      replace='\tks, err := s.signer.KeySpec()\n\tdesc, descErr := getDescriptor(ks, genDesc)\n\tif descErr != nil {\n\t\treturn nil, nil, descErr\n\t}\n\t_ = err\n\treturn s.Sign(ctx, desc, opts)\n'),
 # the same guard spelled differently: silent
 dict(name='benign-step-guard-operands-swapped', file=S, expect='silent', find=_G_DESC, replace=_cond(_G_DESC, 'if nil != err {')),
 dict(name='benign-step-guard-switch', file=S, expect='silent', find=_G_DESC,
      replace='\tdesc, err := getDescriptor(ks, genDesc)\n\tswitch {\n\tcase err != nil:\n\t\treturn nil, nil, err\n\t}\n'),
 dict(name='benign-step-guard-in-predicate-helper', expect='silent', edits=[
      (S, _G_DESC, _cond(_G_DESC, 'if failed(err) {')), (S, _G_MARSHAL_S, _cond(_G_MARSHAL_S, 'if failed(err) {')), (S, _GETDESC, _FAILED_FN + _GETDESC)]),
 dict(name='benign-step-success-nested', file=S, expect='silent', find=_G_DESC + '\treturn s.Sign(ctx, desc, opts)\n',
      replace='\tdesc, err := getDescriptor(ks, genDesc)\n\tif err == nil {\n\t\treturn s.Sign(ctx, desc, opts)\n\t}\n\treturn nil, nil, err\n'),
 dict(name='benign-step-errors-merged-one-test', file=S, expect='silent', find=_G_BLOB,
      replace='\tvar desc ocispec.Descriptor\n\tks, err := s.signer.KeySpec()\n\tif err == nil {\n\t\tdesc, err = getDescriptor(ks, genDesc)\n\t}\n\tif err != nil {\n\t\treturn nil, nil, err\n\t}\n\treturn s.Sign(ctx, desc, opts)\n'),
 dict(name='benign-step-result-logged-ahead-of-the-test', file=S, expect='silent', find=_G_DESC,
      replace='\tdesc, err := getDescriptor(ks, genDesc)\n\tlogger.Debugf("descriptor to sign: %+v", desc)\n\tif err != nil {\n\t\treturn nil, nil, err\n\t}\n'),
 dict(name='benign-step-single-exit', file=S, expect='silent', find=_G_BLOB,
      replace='\tvar sig []byte\n\tvar info *signature.SignerInfo\n\tks, err := s.signer.KeySpec()\n\tif err == nil {\n\t\tvar desc ocispec.Descriptor\n\t\tif desc, err = getDescriptor(ks, genDesc); err == nil {\n\t\t\tsig, info, err = s.Sign(ctx, desc, opts)\n\t\t}\n\t}\n\treturn sig, info, err\n'),
 dict(name='benign-step-blob-read-guard-switch', file=N, expect='silent', find=_G_COPY,
      replace='\t\tbytes, err := io.Copy(digester.Hash(), reader)\n\t\tswitch {\n\t\tcase nil != err:\n\t\t\treturn ocispec.Descriptor{}, err\n\t\t}\n'),
 dict(name='benign-step-marshal-result-stored-ahead-of-the-test', file=S, expect='silent', find=_G_MARSHAL_S,
      replace='payloadBytes, err := json.Marshal(payload)\n\tsignedPayload := signature.Payload{ContentType: envelope.MediaTypePayloadV1, Content: payloadBytes}\n\tif err != nil {\n\t\treturn nil, nil, fmt.Errorf("envelope payload can\'t be marshalled: %w", err)\n\t}\n\t_ = signedPayload\n\tvar signingAgentId string'),
]

# ---- expiry whenever requested (checker/expiry.go) ----
_WH = 'flagged(payload/expiry-whenever-requested)'
_PLUGIN_EXP = '\t\tExpiryDurationInSeconds: uint64(opts.ExpiryDuration / time.Second),\n'
_PLUGIN_CALL = '\tresp, err := s.plugin.GenerateEnvelope(ctx, req)\n'
_WHENEVER_VARIANTS = [
 dict(name='expiry-dropped-when-timestamping', expect=_WH, edits=[(S, 'if opts.ExpiryDuration != 0 {\n\t\tsignReq.Expiry', 'if opts.ExpiryDuration != 0 && opts.Timestamper == nil {\n\t\tsignReq.Expiry')]),
 dict(name='expiry-dropped-false-conjunct', expect=_WH, edits=[(S, 'if opts.ExpiryDuration != 0 {\n\t\tsignReq.Expiry', 'if false && (opts.ExpiryDuration != 0) {\n\t\tsignReq.Expiry')]),
 dict(name='expiry-dropped-nested-extra-test', expect=_WH, edits=[(S, _PATCH_EXPIRY, '\tif opts.ExpiryDuration != 0 {\n\t\tif len(opts.SigningAgent) == 0 {\n\t\t\tsignReq.Expiry = signReq.SigningTime.Add(opts.ExpiryDuration)\n\t\t}\n\t}\n')]),
 dict(name='expiry-ahead-dropped-extra-conjunct', expect=_WH, edits=[(S, _REQ, _AHEAD.replace('opts.ExpiryDuration != 0 {', 'opts.ExpiryDuration != 0 && opts.TSARootCAs == nil {') + _REQ), (S, _NOW, _NOW_LOCALS), (S, _PATCH_EXPIRY, '')]),
 dict(name='expiry-setter-extra-test', expect=_WH, edits=_EXPIRY_PATCH('\tsetExpiry(signReq, opts.ExpiryDuration)\n', _SETTER.replace('if d != 0 {', 'if d != 0 && req.Timestamper == nil {'))),
 dict(name='expiry-setter-called-under-other-test', expect=_WH, edits=_EXPIRY_PATCH('\tif opts.ExpiryDuration != 0 && opts.Timestamper == nil {\n\t\tsetExpiry(signReq, opts.ExpiryDuration)\n\t}\n', _SETTER_BARE)),
 dict(name='expiry-helper-zero-on-other-test', expect=_WH, edits=_EXPIRY_HELPER(
      helper='func expiryOf(signingTime time.Time, o notation.SignerSignOptions) time.Time {\n\tif o.ExpiryDuration == 0 || o.Timestamper != nil {\n\t\treturn time.Time{}\n\t}\n\treturn signingTime.Add(o.ExpiryDuration)\n}\n\n',
      call='expiryOf(signingTime, opts)')),
 dict(name='expiry-patched-after-signing', expect=_WH, edits=[(S, _PATCH_EXPIRY, ''), (S, '\t// Add ctx to the SignRequest\n', _PATCH_EXPIRY + '\t// Add ctx to the SignRequest\n')]) if False else None,
 dict(name='expiry-plugin-conditional-on-other', expect=_WH, edits=[(SP, _PLUGIN_EXP, ''), (SP, _PLUGIN_CALL, '\tif opts.SignatureMediaType != "" {\n\t\treq.ExpiryDurationInSeconds = uint64(opts.ExpiryDuration / time.Second)\n\t}\n' + _PLUGIN_CALL)]),
 dict(name='benign-expiry-plugin-patched-unconditionally', expect='silent', edits=[(SP, _PLUGIN_EXP, ''), (SP, _PLUGIN_CALL, '\treq.ExpiryDurationInSeconds = uint64(opts.ExpiryDuration / time.Second)\n' + _PLUGIN_CALL)]),
 dict(name='benign-expiry-plugin-patched-when-nonzero', expect='silent', edits=[(SP, _PLUGIN_EXP, ''), (SP, _PLUGIN_CALL, '\tif opts.ExpiryDuration != 0 {\n\t\treq.ExpiryDurationInSeconds = uint64(opts.ExpiryDuration / time.Second)\n\t}\n' + _PLUGIN_CALL)]),
 dict(name='benign-expiry-test-reversed-with-else', expect='silent', edits=[(S, _PATCH_EXPIRY, '\tif opts.ExpiryDuration == 0 {\n\t\tlogger.Debug("no expiry requested")\n\t} else {\n\t\tsignReq.Expiry = signReq.SigningTime.Add(opts.ExpiryDuration)\n\t}\n')]),
 dict(name='benign-expiry-zero-constant-left', expect='silent', edits=[(S, 'if opts.ExpiryDuration != 0 {\n\t\tsignReq.Expiry', 'if 0 != opts.ExpiryDuration {\n\t\tsignReq.Expiry')]),
 dict(name='benign-expiry-duration-in-local', expect='silent', edits=[(S, _PATCH_EXPIRY, '\tif d := opts.ExpiryDuration; d != 0 {\n\t\tsignReq.Expiry = signReq.SigningTime.Add(d)\n\t}\n')]),
]
_WHENEVER_VARIANTS = [v for v in _WHENEVER_VARIANTS if v]

VARIANTS = [
 dict(name='F11-reintroduced', file=N, expect='flagged(reader/)',
      find='''	var payload envelope.Payload
	if err = json.Unmarshal(vo.EnvelopeContent.Payload.Content, &payload); err != nil {
		return ocispec.Descriptor{}, nil, err
	}
	return payload.TargetArtifact, vo, nil''', replace='''	var desc ocispec.Descriptor
	if err = json.Unmarshal(vo.EnvelopeContent.Payload.Content, &desc); err != nil {
		return ocispec.Descriptor{}, nil, err
	}
	return desc, vo, nil'''),
 dict(name='verifyblob-returns-empty', file=N, expect='flagged(returns/VerifyBlob)',
      find='\treturn payload.TargetArtifact, vo, nil', replace='\treturn ocispec.Descriptor{MediaType: payload.TargetArtifact.MediaType}, vo, nil'),
 dict(name='usermetadata-from-elsewhere', file=N, expect='flagged(returns/UserMetadata)',
      find='\treturn payload.TargetArtifact.Annotations, nil\n}', replace='\treturn map[string]string{}, nil\n}'),
 dict(name='signer-table-changed', file=SP, expect='flagged(tables/hash-to-digest-algorithm)',
      find='\tcrypto.SHA384: digest.SHA384,\n', replace='\tcrypto.SHA384: digest.SHA512,\n'),
 dict(name='verifier-table-missing-512', file='verifier/verifier.go', expect='flagged(tables/)',
      find='\tcrypto.SHA512: digest.SHA512,\n', replace=''),
 dict(name='proto-hash-ec521', file=A, expect='flagged(tables/hash-of-keyspec/EC-521)',
      find='\t\tcase 521:\n\t\t\treturn plugin.HashAlgorithmSHA512, nil', replace='\t\tcase 521:\n\t\t\treturn plugin.HashAlgorithmSHA384, nil'),
 dict(name='decode-rsa3072-size', file=A, expect='flagged(tables/keyspec-codec/RSA-3072)',
      find='\tcase plugin.KeySpecRSA3072:\n\t\tkeySpec.Size = 3072', replace='\tcase plugin.KeySpecRSA3072:\n\t\tkeySpec.Size = 4096'),
 dict(name='encode-ec384', file=A, expect='flagged(tables/keyspec-codec/EC-384)',
      find='\t\tcase 384:\n\t\t\treturn plugin.KeySpecEC384, nil', replace='\t\tcase 384:\n\t\t\treturn plugin.KeySpecEC256, nil'),
 dict(name='sanitize-drops-annotations', file='internal/envelope/envelope.go', expect='flagged(payload/sanitize)',
      find='\t\tAnnotations: targetArtifact.Annotations,\n', replace=''),
 dict(name='sanitize-keeps-urls', file='internal/envelope/envelope.go', expect='flagged(payload/sanitize)',
      find='\t\tAnnotations: targetArtifact.Annotations,\n', replace='\t\tAnnotations: targetArtifact.Annotations,\n\t\tURLs:        targetArtifact.URLs,\n'),
 dict(name='expiry-from-now', file=S, expect='flagged(payload/expiry)',
      find='signReq.Expiry = signReq.SigningTime.Add(opts.ExpiryDuration)', replace='signReq.Expiry = time.Now().Add(opts.ExpiryDuration)'),
 dict(name='expiry-always-set', file=S, expect='flagged(payload/expiry)',
      find='\tif opts.ExpiryDuration != 0 {\n\t\tsignReq.Expiry = signReq.SigningTime.Add(opts.ExpiryDuration)\n\t}', replace='\tsignReq.Expiry = signReq.SigningTime.Add(opts.ExpiryDuration)'),
 dict(name='plugin-expiry-minutes', file=SP, expect='flagged(payload/expiry-plugin)',
      find='ExpiryDurationInSeconds: uint64(opts.ExpiryDuration / time.Second),', replace='ExpiryDurationInSeconds: uint64(opts.ExpiryDuration / time.Millisecond),'),
 dict(name='payload-type-differs', file=S, expect='flagged(payload/content-type-written)',
      find='\t\t\tContentType: envelope.MediaTypePayloadV1,\n', replace='\t\t\tContentType: "application/vnd.cncf.notary.payload.v2+json",\n'),
 dict(name='unsanitized-payload', file=SP, expect='flagged(payload/signed-descriptor)',
      find='payload := envelope.Payload{TargetArtifact: envelope.SanitizeTargetArtifact(desc)}\n\tpayloadBytes, err := json.Marshal(payload)\n\tif err != nil {\n\t\treturn nil, nil, fmt.Errorf("envelope payload can\'t be marshalled: %w", err)\n\t}\n\n\t// Execute plugin sign command.',
      replace='payload := envelope.Payload{TargetArtifact: desc}\n\tpayloadBytes, err := json.Marshal(payload)\n\tif err != nil {\n\t\treturn nil, nil, fmt.Errorf("envelope payload can\'t be marshalled: %w", err)\n\t}\n\n\t// Execute plugin sign command.'),
 dict(name='blob-digest-sha256-always', file=S, expect='flagged(payload/blob-digest-algorithm)',
      find='\treturn genDesc(digestAlg)', replace='\t_ = digestAlg\n\treturn genDesc(algorithms[crypto.SHA256])'),
 # benign
 dict(name='benign-pointer-payload', file=N, expect='silent',
      find='''	var payload envelope.Payload
	if err = json.Unmarshal(vo.EnvelopeContent.Payload.Content, &payload); err != nil {
		return ocispec.Descriptor{}, nil, err
	}
	return payload.TargetArtifact, vo, nil''', replace='''	payload := &envelope.Payload{}
	if err = json.Unmarshal(vo.EnvelopeContent.Payload.Content, payload); err != nil {
		return ocispec.Descriptor{}, nil, err
	}
	return payload.TargetArtifact, vo, nil'''),
 dict(name='benign-hash-switch-reordered', file=A, expect='silent',
      find='''	switch k.Type {
	case signature.KeyTypeEC:
		switch k.Size {
		case 256:
			return plugin.HashAlgorithmSHA256, nil
		case 384:
			return plugin.HashAlgorithmSHA384, nil
		case 521:
			return plugin.HashAlgorithmSHA512, nil
		}
	case signature.KeyTypeRSA:
		switch k.Size {
		case 2048:
			return plugin.HashAlgorithmSHA256, nil
		case 3072:
			return plugin.HashAlgorithmSHA384, nil
		case 4096:
			return plugin.HashAlgorithmSHA512, nil
		}
	}
	return "", fmt.Errorf("invalid KeySpec %q", k)
}

// SignatureAlgorithm is''', replace='''	if k.Type == signature.KeyTypeRSA {
		if k.Size == 4096 {
			return plugin.HashAlgorithmSHA512, nil
		} else if k.Size == 3072 {
			return plugin.HashAlgorithmSHA384, nil
		} else if k.Size == 2048 {
			return plugin.HashAlgorithmSHA256, nil
		}
	} else if k.Type == signature.KeyTypeEC {
		switch k.Size {
		case 521:
			return plugin.HashAlgorithmSHA512, nil
		case 384:
			return plugin.HashAlgorithmSHA384, nil
		case 256:
			return plugin.HashAlgorithmSHA256, nil
		}
	}
	return "", fmt.Errorf("invalid KeySpec %q", k)
}

// SignatureAlgorithm is'''),

 # ---- shapes accepted since the rules follow values / helpers instead of one body's printed form ----
 # (1) expiry computed ahead of the request (local signing time + local expiry, both put into the literal)
 dict(name='benign-expiry-computed-ahead', expect='silent', edits=[
      (S, _REQ, _AHEAD + _REQ), (S, _NOW, _NOW_LOCALS), (S, _PATCH_EXPIRY, '')]),
 dict(name='expiry-ahead-other-clock', expect='flagged(payload/expiry)', edits=[
      (S, _REQ, _AHEAD.replace('expiry = signingTime.Add(', 'expiry = time.Now().Add(') + _REQ), (S, _NOW, _NOW_LOCALS), (S, _PATCH_EXPIRY, '')]),
 dict(name='expiry-ahead-unguarded', expect='flagged(payload/expiry)', edits=[
      (S, _REQ, '\tsigningTime := time.Now()\n\texpiry := signingTime.Add(opts.ExpiryDuration)\n' + _REQ), (S, _NOW, _NOW_LOCALS), (S, _PATCH_EXPIRY, '')]),
 dict(name='expiry-ahead-request-reads-clock-again', expect='flagged(payload/expiry)', edits=[
      (S, _REQ, _AHEAD + _REQ), (S, _NOW, '\t\tSigningTime:            time.Now(),\n\t\tExpiry:                 expiry,\n'), (S, _PATCH_EXPIRY, '')]),
 dict(name='expiry-ahead-default-when-none-requested', expect='flagged(payload/expiry)', edits=[
      (S, _REQ, _AHEAD.replace('var expiry time.Time\n', 'expiry := signingTime.Add(24 * time.Hour)\n') + _REQ), (S, _NOW, _NOW_LOCALS), (S, _PATCH_EXPIRY, '')]),
 dict(name='expiry-ahead-never-set', expect='flagged(payload/expiry)', edits=[
      (S, _REQ, '\tsigningTime := time.Now()\n\tvar expiry time.Time\n' + _REQ), (S, _NOW, _NOW_LOCALS), (S, _PATCH_EXPIRY, '')]),
 dict(name='expiry-never-set', file=S, expect='flagged(payload/expiry)', find=_PATCH_EXPIRY, replace=''),
 dict(name='plugin-expiry-dropped', expect='flagged(payload/expiry-plugin)', edits=[
      (SP, '\t\tExpiryDurationInSeconds: uint64(opts.ExpiryDuration / time.Second),\n', ''),
      (SP, '\treq := &plugin.GenerateEnvelopeRequest{\n', '\t_ = time.Second\n\treq := &plugin.GenerateEnvelopeRequest{\n')]),
 # (2) the key spec is not the first parameter of the digest-algorithm lookup
 dict(name='benign-getdescriptor-params-swapped', expect='silent', edits=_SWAP),
 dict(name='getdescriptor-swapped-sha256-always', expect='flagged(payload/blob-digest-algorithm)', edits=_SWAP + [
      (S, '\treturn genDesc(digestAlg)', '\t_ = digestAlg\n\treturn genDesc(algorithms[crypto.SHA256])')]),
 dict(name='getdescriptor-swapped-miss-falls-back', expect='flagged(payload/blob-digest-algorithm)', edits=_SWAP + [
      (S, '\tif !ok {\n\t\treturn ocispec.Descriptor{}, fmt.Errorf("unknown hashing algo %v", ks.SignatureAlgorithm().Hash())\n\t}\n', '\tif !ok {\n\t\tdigestAlg = algorithms[crypto.SHA256]\n\t}\n')]),
 # (3) one marshalling helper shared by both signers
 dict(name='benign-marshal-helper', expect='silent', edits=_HELPER()),
 dict(name='marshal-helper-unsanitized', expect='flagged(payload/signed-descriptor)', edits=_HELPER(
      helper=_HELPER_FN.replace('envelope.SanitizeTargetArtifact(desc)', 'desc'))),
 dict(name='marshal-helper-caller-passes-other-descriptor', expect='flagged(payload/signed-descriptor/(*ngo/signer.PluginSigner).generateSignatureEnvelope)', edits=_HELPER(
      plugin_call='marshalPayload(ocispec.Descriptor{Digest: desc.Digest, Size: desc.Size})')),
 dict(name='marshal-helper-returns-other-bytes', expect='flagged(payload/bytes-signed)', edits=_HELPER(
      helper=_HELPER_FN.replace('\treturn payloadBytes, nil\n', '\tdescBytes, _ := json.Marshal(payload.TargetArtifact)\n\t_ = payloadBytes\n\treturn descBytes, nil\n'))),
 dict(name='marshal-helper-payload-type-differs', expect='flagged(payload/content-type-written/(*ngo/signer.GenericSigner).Sign)', edits=_HELPER() + [
      (S, '\t\t\tContentType: envelope.MediaTypePayloadV1,\n', '\t\t\tContentType: "application/vnd.cncf.notary.payload.v2+json",\n')]),
 dict(name='marshal-helper-one-signer-only', expect='flagged(payload/signers#count)', edits=_HELPER(
      plugin_call='json.Marshal(desc)')),
 dict(name='generator-size-of-other-reader', file=N, expect='flagged(blob-descriptor/generator-body)',
      find='bytes, err := io.Copy(digester.Hash(), reader)', replace='bytes, err := io.Copy(digester.Hash(), io.LimitReader(reader, 1<<20))'),
 # (4) the descriptor generator is a bound method of an object filled by the builder
 dict(name='benign-generator-bound-method', file=N, expect='silent', find=_GEN, replace=_GEN_METHOD),
 dict(name='generator-method-fixed-media-type', file=N, expect='flagged(blob-descriptor/generator-body)', find=_GEN,
      replace=_GEN_METHOD.replace('MediaType: b.contentMediaType,', 'MediaType: "application/octet-stream",')),
 dict(name='generator-method-builder-alters-media-type', file=N, expect='flagged(blob-descriptor/generator-body)', find=_GEN,
      replace=_GEN_METHOD.replace('contentMediaType: contentMediaType,', 'contentMediaType: strings.ToLower(contentMediaType),')),
 dict(name='generator-method-field-rewritten', file=N, expect='flagged(blob-descriptor/generator-body)', find=_GEN,
      replace=_GEN_METHOD.replace('\tdigester := hashAlgo.Digester()\n', '\tdigester := hashAlgo.Digester()\n\tb.contentMediaType, _, _ = strings.Cut(b.contentMediaType, ";")\n')),
 dict(name='generator-method-fixed-algorithm', file=N, expect='flagged(blob-descriptor/generator-algorithm)', find=_GEN,
      replace=_GEN_METHOD.replace('hashAlgo.Digester()', 'digest.SHA256.Digester()')),
 dict(name='generator-method-not-returned', file=N, expect='flagged(blob-descriptor/generator-body)', find=_GEN,
      replace=_GEN_METHOD.replace('\treturn describer.describe\n', '\t_ = describer.describe\n\treturn func(digest.Algorithm) (ocispec.Descriptor, error) { return ocispec.Descriptor{MediaType: contentMediaType}, nil }\n')),
 dict(name='generator-method-size-of-other-reader', file=N, expect='flagged(blob-descriptor/generator-body)', find=_GEN,
      replace=_GEN_METHOD.replace('io.Copy(digester.Hash(), b.reader)', 'io.Copy(digester.Hash(), io.LimitReader(b.reader, 1<<20))')),
 # ======== second pass: classes of rewrites rather than single shapes ========
 # (5) CLASS "value computed by a module helper / parameter narrowed or widened": the expiry is the result of a helper that is
 #     handed the signing time and the duration (or the options, or the request), or a helper stores it into the request
] + _EXPIRY_VARIANTS + _RETURN_VARIANTS + _OBJECT_VARIANTS + _CTOR_VARIANTS + _TABLE_VARIANTS + _CUT_VARIANTS + _ONCE_VARIANTS + _ARG_VARIANTS + _STEP_VARIANTS + _WHENEVER_VARIANTS
