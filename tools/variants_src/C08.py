O = 'verifier/trustpolicy/oci.go'
B = 'verifier/trustpolicy/blob.go'
T = 'verifier/trustpolicy/trustpolicy.go'
V = 'verifier/verifier.go'
VARIANTS = [
 dict(name='F2-reintroduced-oci', file=O, expect='flagged(clone/)',
      find='SignatureVerification: t.SignatureVerification.clone(),', replace='SignatureVerification: t.SignatureVerification,'),
 dict(name='F2-reintroduced-blob', file=B, expect='flagged(clone/)',
      find='SignatureVerification: t.SignatureVerification.clone(),', replace='SignatureVerification: t.SignatureVerification,'),
 dict(name='override-clone-shallow', file=T, expect='flagged(clone/)',
      find='''		override := make(map[ValidationType]ValidationAction, len(signatureVerification.Override))
		for k, v := range signatureVerification.Override {
			override[k] = v
		}
		signatureVerification.Override = override''', replace='''		override := signatureVerification.Override
		signatureVerification.Override = override'''),
 dict(name='clone-aliases-stores', file=O, expect='flagged(clone/)',
      find='TrustStores:           append([]string(nil), t.TrustStores...),\n\t\tRegistryScopes', replace='TrustStores:           t.TrustStores,\n\t\tRegistryScopes'),
 dict(name='clone-swaps-fields', file=O, expect='flagged(clone-complete)',
      find='TrustedIdentities:     append([]string(nil), t.TrustedIdentities...),\n\t\tTrustStores:           append([]string(nil), t.TrustStores...),\n\t\tRegistryScopes',
      replace='TrustedIdentities:     append([]string(nil), t.TrustStores...),\n\t\tTrustStores:           append([]string(nil), t.TrustedIdentities...),\n\t\tRegistryScopes'),
 dict(name='returns-document-pointer', file=B, expect='flagged(returns-clone)',
      find='\t\tif policyStatement.GlobalPolicy {\n\t\t\treturn (&policyStatement).clone(), nil\n\t\t}', replace='\t\tif policyStatement.GlobalPolicy {\n\t\t\treturn &policyStatement, nil\n\t\t}'),
 dict(name='prefix-match', file=O, expect='flagged(oci/selection-predicate)',
      find='} else if slices.Contains(policyStatement.RegistryScopes, artifactPath) {', replace='} else if hasPrefixScope(policyStatement.RegistryScopes, artifactPath) {',
      edits=[(O, '// clone returns a pointer to the deep copied [OCITrustPolicy]', 'func hasPrefixScope(scopes []string, p string) bool {\n\tfor _, s := range scopes {\n\t\tif strings.HasPrefix(p, s) {\n\t\t\treturn true\n\t\t}\n\t}\n\treturn false\n}\n\n// clone returns a pointer to the deep copied [OCITrustPolicy]')]),
 dict(name='wildcard-preferred', file=O, expect='flagged(oci/precedence)',
      find='''	if applicablePolicy != nil {
		// a policy with exact match for registry scope takes precedence over
		// a wildcard (*) policy.
		return applicablePolicy, nil
	} else if wildcardPolicy != nil {
		return wildcardPolicy, nil
	} else {''', replace='''	if wildcardPolicy != nil {
		return wildcardPolicy, nil
	} else if applicablePolicy != nil {
		return applicablePolicy, nil
	} else {'''),
 dict(name='no-match-returns-first', file=O, expect='flagged(oci/precedence)',
      find='\t} else {\n\t\treturn nil, fmt.Errorf("artifact %q has no applicable oci trust policy statement.', replace='\t} else if len(policyDoc.TrustPolicies) == 1 {\n\t\treturn (&policyDoc.TrustPolicies[0]).clone(), nil\n\t} else {\n\t\treturn nil, fmt.Errorf("artifact %q has no applicable oci trust policy statement.'),
 dict(name='break-on-wildcard', file=O, expect='flagged(oci/no-early-exit)',
      find='\t\t\twildcardPolicy = (&policyStatement).clone()\n', replace='\t\t\twildcardPolicy = (&policyStatement).clone()\n\t\t\tbreak\n'),
 dict(name='path-first-at', file=O, expect='flagged(oci/path)',
      find='i := strings.LastIndex(artifactReference, "@")', replace='i := strings.Index(artifactReference, "@")'),
 dict(name='path-not-validated', file=O, expect='flagged(oci/path/format-validated)',
      find='\tif err := validateRegistryScopeFormat(artifactPath); err != nil {\n\t\treturn "", err\n\t}\n\treturn artifactPath, nil', replace='\treturn artifactPath, nil'),
 dict(name='blob-name-fold', file=B, expect='flagged(blob/by-name)',
      find='\t\tif policyStatement.Name == policyName {', replace='\t\tif strings.EqualFold(policyStatement.Name, policyName) {'),
 dict(name='blob-global-any', file=B, expect='flagged(blob/global)',
      find='\t\tif policyStatement.GlobalPolicy {\n\t\t\treturn (&policyStatement).clone(), nil', replace='\t\tif policyStatement.GlobalPolicy || len(policyDoc.TrustPolicies) == 1 {\n\t\t\treturn (&policyStatement).clone(), nil'),
 dict(name='blob-not-found-global', file=B, expect='flagged(blob/not-found)',
      find='\treturn nil, fmt.Errorf("no applicable blob trust policy with name %q", policyName)', replace='\treturn policyDoc.GetGlobalTrustPolicy()'),
 dict(name='named-falls-back-to-global', file=V, expect='flagged(callsite/global-iff-no-name)',
      find='\tif opts.TrustPolicyName == "" {\n\t\ttrustPolicy, err = v.blobTrustPolicyDoc.GetGlobalTrustPolicy()\n\t} else {\n\t\ttrustPolicy, err = v.blobTrustPolicyDoc.GetApplicableTrustPolicy(opts.TrustPolicyName)\n\t}',
      replace='\tif opts.TrustPolicyName == "" {\n\t\ttrustPolicy, err = v.blobTrustPolicyDoc.GetGlobalTrustPolicy()\n\t} else {\n\t\ttrustPolicy, err = v.blobTrustPolicyDoc.GetApplicableTrustPolicy(opts.TrustPolicyName)\n\t\tif err != nil {\n\t\t\ttrustPolicy, err = v.blobTrustPolicyDoc.GetGlobalTrustPolicy()\n\t\t}\n\t}'),
 # benign
 dict(name='benign-clone-by-copy', file=B, expect='silent',
      find='''	return &BlobTrustPolicy{
		Name:                  t.Name,
		SignatureVerification: t.SignatureVerification.clone(),
		TrustedIdentities:     append([]string(nil), t.TrustedIdentities...),
		TrustStores:           append([]string(nil), t.TrustStores...),
		GlobalPolicy:          t.GlobalPolicy,
	}''', replace='''	cloned := *t
	cloned.SignatureVerification = t.SignatureVerification.clone()
	cloned.TrustedIdentities = append([]string(nil), t.TrustedIdentities...)
	cloned.TrustStores = append([]string(nil), t.TrustStores...)
	return &cloned'''),
 dict(name='benign-precedence-switch', file=O, expect='silent',
      find='''	if applicablePolicy != nil {
		// a policy with exact match for registry scope takes precedence over
		// a wildcard (*) policy.
		return applicablePolicy, nil
	} else if wildcardPolicy != nil {
		return wildcardPolicy, nil
	} else {
		return nil, fmt.Errorf(''', replace='''	switch {
	case applicablePolicy != nil:
		return applicablePolicy, nil
	case wildcardPolicy != nil:
		return wildcardPolicy, nil
	default:
		return nil, fmt.Errorf('''),
 dict(name='benign-exact-first', file=O, expect='silent',
      find='''		if slices.Contains(policyStatement.RegistryScopes, trustpolicy.Wildcard) {
			// we need to deep copy because we can't use the loop variable
			// address. see https://stackoverflow.com/a/45967429
			wildcardPolicy = (&policyStatement).clone()
		} else if slices.Contains(policyStatement.RegistryScopes, artifactPath) {
			applicablePolicy = (&policyStatement).clone()
		}''', replace='''		if slices.Contains(policyStatement.RegistryScopes, artifactPath) {
			applicablePolicy = (&policyStatement).clone()
		} else if slices.Contains(policyStatement.RegistryScopes, trustpolicy.Wildcard) {
			wildcardPolicy = (&policyStatement).clone()
		}'''),
]

# ---------------------------------------------------------------------------------------------------------------------
# Shapes accepted after the generalisation of the rule set (statements followed by role/dataflow). For every shape: one
# `silent` rewrite of the base tree into the shape, and the same shape with the property broken (`flagged`).
# ---------------------------------------------------------------------------------------------------------------------
ERR = 'fmt.Errorf("artifact %q has no applicable oci trust policy statement. Trust policy applicability for a given artifact is determined by registryScopes. To create a trust policy, see: %s", artifactReference, trustPolicyLink)'
OCI_BODY = '''	var wildcardPolicy *OCITrustPolicy
	var applicablePolicy *OCITrustPolicy
	for _, policyStatement := range policyDoc.TrustPolicies {
		if slices.Contains(policyStatement.RegistryScopes, trustpolicy.Wildcard) {
			// we need to deep copy because we can't use the loop variable
			// address. see https://stackoverflow.com/a/45967429
			wildcardPolicy = (&policyStatement).clone()
		} else if slices.Contains(policyStatement.RegistryScopes, artifactPath) {
			applicablePolicy = (&policyStatement).clone()
		}
	}
	if applicablePolicy != nil {
		// a policy with exact match for registry scope takes precedence over
		// a wildcard (*) policy.
		return applicablePolicy, nil
	} else if wildcardPolicy != nil {
		return wildcardPolicy, nil
	} else {
		return nil, ''' + ERR + '''
	}
}
'''
PREFIX_HELPER = (O, '// clone returns a pointer to the deep copied [OCITrustPolicy]',
                 'func hasPrefixScope(scopes []string, p string) bool {\n\tfor _, s := range scopes {\n\t\tif strings.HasPrefix(p, s) {\n\t\t\treturn true\n\t\t}\n\t}\n\treturn false\n}\n\n// clone returns a pointer to the deep copied [OCITrustPolicy]')

# --- shape A: index loop, pointers into the document remembered, `continue` instead of `else`, clone once at the exit, switch
OCI_DEFER = '''	var wildcardPolicy, applicablePolicy *OCITrustPolicy
	for i := range policyDoc.TrustPolicies {
		policyStatement := &policyDoc.TrustPolicies[i]
		if slices.Contains(policyStatement.RegistryScopes, trustpolicy.Wildcard) {
			wildcardPolicy = policyStatement
			continue
		}
		if slices.Contains(policyStatement.RegistryScopes, artifactPath) {
			applicablePolicy = policyStatement
		}
	}

	switch {
	case applicablePolicy != nil:
		return applicablePolicy.clone(), nil
	case wildcardPolicy != nil:
		return wildcardPolicy.clone(), nil
	}
	return nil, ''' + ERR + '''
}
'''
def A(name, expect, frm=None, to=None, extra=()):
    body = OCI_DEFER
    if frm is not None:
        assert body.count(frm) == 1, name
        body = body.replace(frm, to)
    return dict(name=name, expect=expect, edits=[(O, OCI_BODY, body)] + list(extra))
VARIANTS += [
 A('benign-deferred-clone', 'silent'),
 A('deferred-clone-prefix-match', 'flagged(oci/selection-predicate)',
   'if slices.Contains(policyStatement.RegistryScopes, artifactPath) {', 'if hasPrefixScope(policyStatement.RegistryScopes, artifactPath) {', [PREFIX_HELPER]),
 A('deferred-clone-returns-document-pointer', 'flagged(returns-clone)', 'return applicablePolicy.clone(), nil', 'return applicablePolicy, nil'),
 A('deferred-clone-wildcard-first', 'flagged(oci/precedence)',
   '\tcase applicablePolicy != nil:\n\t\treturn applicablePolicy.clone(), nil\n\tcase wildcardPolicy != nil:\n\t\treturn wildcardPolicy.clone(), nil\n',
   '\tcase wildcardPolicy != nil:\n\t\treturn wildcardPolicy.clone(), nil\n\tcase applicablePolicy != nil:\n\t\treturn applicablePolicy.clone(), nil\n'),
 A('deferred-clone-remembers-first-statement', 'flagged(oci/selection-predicate)', '\t\t\tapplicablePolicy = policyStatement\n', '\t\t\tapplicablePolicy = &policyDoc.TrustPolicies[0]\n'),
 A('deferred-clone-tests-first-statement', 'flagged(oci/selection-predicate)',
   'if slices.Contains(policyStatement.RegistryScopes, artifactPath) {', 'if slices.Contains(policyDoc.TrustPolicies[0].RegistryScopes, artifactPath) {'),
 A('deferred-clone-break-on-wildcard', 'flagged(oci/no-early-exit)', '\t\t\twildcardPolicy = policyStatement\n\t\t\tcontinue\n', '\t\t\twildcardPolicy = policyStatement\n\t\t\tbreak\n'),
 A('deferred-clone-exact-reset', 'flagged(oci/selection-predicate)',
   '\t\t\tapplicablePolicy = policyStatement\n\t\t}\n', '\t\t\tapplicablePolicy = policyStatement\n\t\t} else {\n\t\t\tapplicablePolicy = nil\n\t\t}\n'),
]

# --- shape B: blob search by index, inverted guard + continue, clone of the slice element
BLOB_NAME_BASE = '''	for _, policyStatement := range policyDoc.TrustPolicies {
		// exact match
		if policyStatement.Name == policyName {
			return (&policyStatement).clone(), nil
		}
	}
'''
BLOB_GLOBAL_BASE = '''	for _, policyStatement := range policyDoc.TrustPolicies {
		if policyStatement.GlobalPolicy {
			return (&policyStatement).clone(), nil
		}
	}
'''
BLOB_NAME_IDX = '''	for i := range policyDoc.TrustPolicies {
		if policyDoc.TrustPolicies[i].Name != policyName {
			continue
		}
		return policyDoc.TrustPolicies[i].clone(), nil
	}
'''
BLOB_GLOBAL_IDX = '''	for i := range policyDoc.TrustPolicies {
		if !policyDoc.TrustPolicies[i].GlobalPolicy {
			continue
		}
		return policyDoc.TrustPolicies[i].clone(), nil
	}
'''
VARIANTS += [
 dict(name='benign-blob-index-loops', expect='silent', edits=[(B, BLOB_NAME_BASE, BLOB_NAME_IDX), (B, BLOB_GLOBAL_BASE, BLOB_GLOBAL_IDX)]),
 dict(name='blob-index-clones-other-element', expect='flagged(blob/by-name)',
      edits=[(B, BLOB_NAME_BASE, BLOB_NAME_IDX.replace('return policyDoc.TrustPolicies[i].clone(), nil', 'return policyDoc.TrustPolicies[0].clone(), nil'))]),
 dict(name='blob-index-guard-polarity', expect='flagged(blob/by-name)',
      edits=[(B, BLOB_NAME_BASE, BLOB_NAME_IDX.replace('.Name != policyName', '.Name == policyName'))]),
 dict(name='blob-index-global-polarity', expect='flagged(blob/global)',
      edits=[(B, BLOB_GLOBAL_BASE, BLOB_GLOBAL_IDX.replace('if !policyDoc', 'if policyDoc'))]),
 dict(name='blob-index-clones-next-element', expect='flagged(blob/global)',
      edits=[(B, BLOB_GLOBAL_BASE, BLOB_GLOBAL_IDX.replace('return policyDoc.TrustPolicies[i].clone(), nil', 'return policyDoc.TrustPolicies[(i+1)%len(policyDoc.TrustPolicies)].clone(), nil'))]),
]

# --- shape C: the scan extracted into a helper method without error result; the two membership tests in a classifier
#     that answers with an enumeration constant; the selection method turns nil into the error
OCI_HELPER = '''	if policy := policyDoc.selectStatement(artifactPath); policy != nil {
		return policy, nil
	}
	return nil, ''' + ERR + '''
}

type scopeMatch int

const (
	scopeMatchNone scopeMatch = iota
	scopeMatchWildcard
	scopeMatchExact
)

func matchRegistryScopes(registryScopes []string, artifactPath string) scopeMatch {
	if slices.Contains(registryScopes, trustpolicy.Wildcard) {
		return scopeMatchWildcard
	}
	if slices.Contains(registryScopes, artifactPath) {
		return scopeMatchExact
	}
	return scopeMatchNone
}

func (policyDoc *OCIDocument) selectStatement(artifactPath string) *OCITrustPolicy {
	var wildcardPolicy *OCITrustPolicy
	var applicablePolicy *OCITrustPolicy
	for _, policyStatement := range policyDoc.TrustPolicies {
		switch matchRegistryScopes(policyStatement.RegistryScopes, artifactPath) {
		case scopeMatchWildcard:
			wildcardPolicy = (&policyStatement).clone()
		case scopeMatchExact:
			applicablePolicy = (&policyStatement).clone()
		}
	}
	if applicablePolicy != nil {
		return applicablePolicy
	}
	return wildcardPolicy
}
'''
def C(name, expect, frm=None, to=None, extra=()):
    body = OCI_HELPER
    if frm is not None:
        assert body.count(frm) == 1, name
        body = body.replace(frm, to)
    return dict(name=name, expect=expect, edits=[(O, OCI_BODY, body)] + list(extra))
VARIANTS += [
 C('benign-scan-helper-enum-classifier', 'silent'),
 C('scan-helper-classifier-prefix', 'flagged(oci/selection-predicate)',
   '\tif slices.Contains(registryScopes, artifactPath) {', '\tif hasPrefixScope(registryScopes, artifactPath) {', [PREFIX_HELPER]),
 C('scan-helper-classifier-default-exact', 'flagged(oci/selection-predicate)', '\treturn scopeMatchNone\n', '\treturn scopeMatchExact\n'),
 C('scan-helper-classifier-swapped', 'flagged(oci/precedence)',
   '\t\treturn scopeMatchWildcard\n\t}\n\tif slices.Contains(registryScopes, artifactPath) {\n\t\treturn scopeMatchExact\n',
   '\t\treturn scopeMatchExact\n\t}\n\tif slices.Contains(registryScopes, artifactPath) {\n\t\treturn scopeMatchWildcard\n'),
 C('scan-helper-classifies-first-statement', 'flagged(oci/selection-predicate)',
   'switch matchRegistryScopes(policyStatement.RegistryScopes, artifactPath) {', 'switch matchRegistryScopes(policyDoc.TrustPolicies[0].RegistryScopes, artifactPath) {'),
 C('scan-helper-wildcard-first', 'flagged(oci/precedence)',
   '\tif applicablePolicy != nil {\n\t\treturn applicablePolicy\n\t}\n\treturn wildcardPolicy\n', '\tif wildcardPolicy != nil {\n\t\treturn wildcardPolicy\n\t}\n\treturn applicablePolicy\n'),
 C('scan-helper-nil-not-refused', 'flagged(oci/precedence)',
   '\tif policy := policyDoc.selectStatement(artifactPath); policy != nil {\n\t\treturn policy, nil\n\t}\n\treturn nil, ' + ERR + '\n',
   '\treturn policyDoc.selectStatement(artifactPath), nil\n'),
 C('scan-helper-gets-path-with-separator', 'flagged(oci/path/value)', 'policyDoc.selectStatement(artifactPath); policy != nil', 'policyDoc.selectStatement(artifactReference[:len(artifactPath)+1]); policy != nil'),
 C('scan-helper-returns-loop-variable', 'flagged(returns-clone)', '\t\t\tapplicablePolicy = (&policyStatement).clone()\n', '\t\t\tapplicablePolicy = &policyStatement\n'),
 C('scan-helper-break-on-exact', 'flagged(oci/no-early-exit)', '\t\t\tapplicablePolicy = (&policyStatement).clone()\n', '\t\t\tapplicablePolicy = (&policyStatement).clone()\n\t\t\treturn applicablePolicy\n'),
]

# --- shape D: blob search in a helper that takes the condition as a predicate; the two methods pass closures
BLOB_CLONE_DOC = '// clone returns a pointer to the deep copied [BlobTrustPolicy]'
BLOB_FIRST = '''func (policyDoc *BlobDocument) firstStatement(match func(statement *BlobTrustPolicy) bool) *BlobTrustPolicy {
	for _, policyStatement := range policyDoc.TrustPolicies {
		if match(&policyStatement) {
			return (&policyStatement).clone()
		}
	}
	return nil
}

'''
BLOB_NAME_PRED = '''	hasName := func(statement *BlobTrustPolicy) bool {
		return statement.Name == policyName
	}
	if policy := policyDoc.firstStatement(hasName); policy != nil {
		return policy, nil
	}
'''
BLOB_GLOBAL_PRED = '''	isGlobal := func(statement *BlobTrustPolicy) bool {
		return statement.GlobalPolicy
	}
	if policy := policyDoc.firstStatement(isGlobal); policy != nil {
		return policy, nil
	}
'''
def D(name, expect, what=None, frm=None, to=None):
    parts = dict(first=BLOB_FIRST, name=BLOB_NAME_PRED, glob=BLOB_GLOBAL_PRED)
    if what is not None:
        assert parts[what].count(frm) == 1, name
        parts[what] = parts[what].replace(frm, to)
    return dict(name=name, expect=expect, edits=[(B, BLOB_NAME_BASE, parts['name']), (B, BLOB_GLOBAL_BASE, parts['glob']), (B, BLOB_CLONE_DOC, parts['first'] + BLOB_CLONE_DOC)])
VARIANTS += [
 D('benign-blob-predicate-helper', 'silent'),
 D('blob-predicate-name-fold', 'flagged(blob/by-name)', 'name', 'return statement.Name == policyName', 'return strings.EqualFold(statement.Name, policyName)'),
 D('blob-predicate-ignores-name', 'flagged(blob/by-name)', 'name', 'return statement.Name == policyName', 'return statement.GlobalPolicy'),
 D('blob-predicate-captured-name-changed', 'flagged(blob/by-name)', 'name',
   '\tif policy := policyDoc.firstStatement(hasName); policy != nil {', '\tpolicyName = strings.ToLower(policyName)\n\tif policy := policyDoc.firstStatement(hasName); policy != nil {'),
 D('blob-predicate-nil-not-refused', 'flagged(blob/not-found)', 'name',
   '\tif policy := policyDoc.firstStatement(hasName); policy != nil {\n\t\treturn policy, nil\n\t}\n', '\tif policy := policyDoc.firstStatement(hasName); policy != nil || len(policyDoc.TrustPolicies) == 0 {\n\t\treturn policy, nil\n\t}\n'),
 D('blob-predicate-helper-clones-other', 'flagged(blob/global)', 'first', 'return (&policyStatement).clone()', 'return policyDoc.TrustPolicies[0].clone()'),
 D('blob-predicate-helper-inverted', 'flagged(blob/by-name)', 'first', 'if match(&policyStatement) {', 'if !match(&policyStatement) {'),
 D('blob-predicate-helper-fallback-first', 'flagged(blob/not-found)', 'first',
   '\t}\n\treturn nil\n}', '\t}\n\tif len(policyDoc.TrustPolicies) > 0 {\n\t\treturn policyDoc.TrustPolicies[0].clone()\n\t}\n\treturn nil\n}'),
 D('blob-predicate-helper-returns-loop-variable', 'flagged(returns-clone)', 'first', 'return (&policyStatement).clone()', 'return &policyStatement'),
]

# --- shape E: blob search with the standard library's slices.IndexFunc; the element at the index found is cloned
STD_SLICES = [(B, '\t"strings"\n', '\t"slices"\n\t"strings"\n'), (B, '\t"github.com/notaryproject/notation-go/internal/slices"\n', '')]
BLOB_NAME_END = BLOB_NAME_BASE + '\treturn nil, fmt.Errorf("no applicable blob trust policy with name %q", policyName)\n'
BLOB_NAME_IDXFUNC = '''	i := slices.IndexFunc(policyDoc.TrustPolicies, func(policyStatement BlobTrustPolicy) bool {
		return policyStatement.Name == policyName
	})
	if i < 0 {
		return nil, fmt.Errorf("no applicable blob trust policy with name %q", policyName)
	}
	return policyDoc.TrustPolicies[i].clone(), nil
'''
BLOB_GLOBAL_IDXFUNC = '''	if i := slices.IndexFunc(policyDoc.TrustPolicies, func(policyStatement BlobTrustPolicy) bool {
		return policyStatement.GlobalPolicy
	}); i >= 0 {
		return policyDoc.TrustPolicies[i].clone(), nil
	}
'''
def E(name, expect, what=None, frm=None, to=None):
    parts = dict(name=BLOB_NAME_IDXFUNC, glob=BLOB_GLOBAL_IDXFUNC)
    if what is not None:
        assert parts[what].count(frm) == 1, name
        parts[what] = parts[what].replace(frm, to)
    return dict(name=name, expect=expect, edits=STD_SLICES + [(B, BLOB_NAME_END, parts['name']), (B, BLOB_GLOBAL_BASE, parts['glob'])])
VARIANTS += [
 E('benign-blob-indexfunc', 'silent'),
 E('blob-indexfunc-clones-other-element', 'flagged(blob/by-name)', 'name', 'return policyDoc.TrustPolicies[i].clone(), nil', 'return policyDoc.TrustPolicies[0].clone(), nil'),
 E('blob-indexfunc-prefix-predicate', 'flagged(blob/by-name)', 'name', 'return policyStatement.Name == policyName', 'return strings.HasPrefix(policyStatement.Name, policyName)'),
 E('blob-indexfunc-fallback-first', 'flagged(blob/by-name)', 'name',
   '\tif i < 0 {\n', '\tif i < 0 && len(policyDoc.TrustPolicies) > 0 {\n\t\ti = 0\n\t}\n\tif i < 0 {\n'),
 E('blob-indexfunc-negated-predicate', 'flagged(blob/global)', 'glob', 'return policyStatement.GlobalPolicy', 'return !policyStatement.GlobalPolicy'),
 E('blob-indexfunc-found-not-checked', 'flagged(blob/global)', 'glob', '}); i >= 0 {', '}); i >= -1 && len(policyDoc.TrustPolicies) > 0 {\n\t\tif i < 0 {\n\t\t\ti = 0\n\t\t}'),
]

# --- shape F: byte-oriented spelling of the separator search
VARIANTS += [
 dict(name='benign-lastindexbyte', file=O, expect='silent',
      find='i := strings.LastIndex(artifactReference, "@")', replace="i := strings.LastIndexByte(artifactReference, '@')"),
 dict(name='path-indexbyte-first-at', file=O, expect='flagged(oci/path)',
      find='i := strings.LastIndex(artifactReference, "@")', replace="i := strings.IndexByte(artifactReference, '@')"),
 dict(name='path-lastindexbyte-colon', file=O, expect='flagged(oci/path)',
      find='i := strings.LastIndex(artifactReference, "@")', replace="i := strings.LastIndexByte(artifactReference, ':')"),
]

# --- shape G: the path extraction inlined into the selection method
PATH_CALL = '''	artifactPath, err := getArtifactPathFromReference(artifactReference)
	if err != nil {
		return nil, err
	}
'''
PATH_INLINE = '''	digestSeparator := strings.LastIndex(artifactReference, "@")
	if digestSeparator < 0 {
		return nil, fmt.Errorf("artifact URI %q could not be parsed, make sure it is the fully qualified oci artifact URI without the scheme/protocol. e.g domain.com:80/my/repository@sha256:digest", artifactReference)
	}
	artifactPath := artifactReference[:digestSeparator]
	if err := validateRegistryScopeFormat(artifactPath); err != nil {
		return nil, err
	}
'''
def G(name, expect, frm=None, to=None):
    body = PATH_INLINE
    if frm is not None:
        assert body.count(frm) == 1, name
        body = body.replace(frm, to)
    return dict(name=name, expect=expect, edits=[(O, PATH_CALL, body)])
VARIANTS += [
 G('benign-path-inlined', 'silent'),
 G('inlined-path-not-validated', 'flagged(oci/path/format-validated)', '\tif err := validateRegistryScopeFormat(artifactPath); err != nil {\n\t\treturn nil, err\n\t}\n', ''),
 G('inlined-path-first-at', 'flagged(oci/path)', 'strings.LastIndex(artifactReference, "@")', 'strings.Index(artifactReference, "@")'),
 G('inlined-path-keeps-separator', 'flagged(oci/path/value)', 'artifactPath := artifactReference[:digestSeparator]', 'artifactPath := artifactReference[:digestSeparator+1]'),
 G('inlined-path-validates-other-value', 'flagged(oci/path/format-validated)', 'validateRegistryScopeFormat(artifactPath)', 'validateRegistryScopeFormat(artifactReference[digestSeparator+1:] + "/x")'),
 G('inlined-path-lowercased', 'flagged(oci/path/value)', 'artifactPath := artifactReference[:digestSeparator]', 'artifactPath := strings.ToLower(artifactReference[:digestSeparator])'),
]

# --- shape H: clone with a value receiver: the receiver is already a shallow copy, its reference-typed fields are replaced
CLONE_OCI_BASE = '''func (t *OCITrustPolicy) clone() *OCITrustPolicy {
	return &OCITrustPolicy{
		Name:                  t.Name,
		SignatureVerification: t.SignatureVerification.clone(),
		TrustedIdentities:     append([]string(nil), t.TrustedIdentities...),
		TrustStores:           append([]string(nil), t.TrustStores...),
		RegistryScopes:        append([]string(nil), t.RegistryScopes...),
	}
}
'''
CLONE_OCI_VALUE = '''func (t OCITrustPolicy) clone() *OCITrustPolicy {
	t.SignatureVerification = t.SignatureVerification.clone()
	t.TrustedIdentities = append([]string(nil), t.TrustedIdentities...)
	t.TrustStores = append([]string(nil), t.TrustStores...)
	t.RegistryScopes = append([]string(nil), t.RegistryScopes...)
	return &t
}
'''
CLONE_BLOB_BASE = '''func (t *BlobTrustPolicy) clone() *BlobTrustPolicy {
	return &BlobTrustPolicy{
		Name:                  t.Name,
		SignatureVerification: t.SignatureVerification.clone(),
		TrustedIdentities:     append([]string(nil), t.TrustedIdentities...),
		TrustStores:           append([]string(nil), t.TrustStores...),
		GlobalPolicy:          t.GlobalPolicy,
	}
}
'''
CLONE_BLOB_VALUE = '''func (t BlobTrustPolicy) clone() *BlobTrustPolicy {
	t.SignatureVerification = t.SignatureVerification.clone()
	t.TrustedIdentities = append([]string(nil), t.TrustedIdentities...)
	t.TrustStores = append([]string(nil), t.TrustStores...)
	return &t
}
'''
def H(name, expect, frm=None, to=None):
    body = CLONE_OCI_VALUE
    if frm is not None:
        assert body.count(frm) == 1, name
        body = body.replace(frm, to)
    return dict(name=name, expect=expect, edits=[(O, CLONE_OCI_BASE, body), (B, CLONE_BLOB_BASE, CLONE_BLOB_VALUE)])
VARIANTS += [
 H('benign-value-receiver-clone', 'silent'),
 H('value-clone-forgets-scopes', 'flagged(clone/)', '\tt.RegistryScopes = append([]string(nil), t.RegistryScopes...)\n', ''),
 H('value-clone-shallow-verification', 'flagged(clone/)', '\tt.SignatureVerification = t.SignatureVerification.clone()\n', ''),
 H('value-clone-append-in-place', 'flagged(clone/)', 'append([]string(nil), t.TrustStores...)', 'append(t.TrustStores[:0], t.TrustStores...)'),
 H('value-clone-returns-receiver-pointer', 'flagged(clone/)', CLONE_OCI_VALUE, CLONE_OCI_VALUE.replace('func (t OCITrustPolicy) clone()', 'func (t *OCITrustPolicy) clone()').replace('return &t', 'return t')),
]

# --- attribution of facts: by SSA identity of the statement, not by how a variable is called; captured variables by their only value
VARIANTS += [
 D('blob-predicate-captured-name-set-late', 'flagged(blob/by-name)', 'name', BLOB_NAME_PRED, '''	var wanted string
	hasName := func(statement *BlobTrustPolicy) bool {
		return statement.Name == wanted
	}
	policy := policyDoc.firstStatement(hasName)
	wanted = policyName
	if policy != nil {
		return policy, nil
	}
'''),
 dict(name='blob-shadowed-loop-variable', expect='flagged(blob/by-name)', edits=[(B, BLOB_NAME_BASE, '''	for _, policyStatement := range policyDoc.TrustPolicies {
		outer := &policyStatement
		for _, policyStatement := range policyDoc.TrustPolicies {
			if policyStatement.Name == policyName {
				return outer.clone(), nil
			}
		}
	}
''')]),
 dict(name='oci-shadowed-loop-variable', expect='flagged(oci/selection-predicate)', edits=[(O, '''		} else if slices.Contains(policyStatement.RegistryScopes, artifactPath) {
			applicablePolicy = (&policyStatement).clone()
		}
''', '''		} else {
			outer := &policyStatement
			for _, policyStatement := range policyDoc.TrustPolicies {
				if slices.Contains(policyStatement.RegistryScopes, artifactPath) {
					applicablePolicy = outer.clone()
				}
			}
		}
''')]),
]
VARIANTS += [
 dict(name='blob-shadowed-loop-variable-addressed', expect='flagged(blob/by-name)', edits=[(B, BLOB_NAME_BASE, '''	for _, policyStatement := range policyDoc.TrustPolicies {
		outer := &policyStatement
		for _, policyStatement := range policyDoc.TrustPolicies {
			if blobNamed(&policyStatement, policyName) {
				return outer.clone(), nil
			}
		}
	}
'''), (B, BLOB_CLONE_DOC, 'func blobNamed(s *BlobTrustPolicy, n string) bool { return s.Name == n }\n\n' + BLOB_CLONE_DOC)]),
]

# --- a success exit that bypasses the selection (base shape and scan-helper shape)
BYPASS = '''	if len(policyDoc.TrustPolicies) == 1 {
		return (&policyDoc.TrustPolicies[0]).clone(), nil
	}
'''
VARIANTS += [
 dict(name='oci-single-statement-shortcut', expect='flagged(oci/selected-only)', edits=[(O, '\tvar wildcardPolicy *OCITrustPolicy\n\tvar applicablePolicy *OCITrustPolicy\n\tfor _, policyStatement', BYPASS + '\tvar wildcardPolicy *OCITrustPolicy\n\tvar applicablePolicy *OCITrustPolicy\n\tfor _, policyStatement')]),
 C('scan-helper-single-statement-shortcut', 'flagged(oci/selected-only)',
   '\tif policy := policyDoc.selectStatement(artifactPath); policy != nil {', BYPASS + '\tif policy := policyDoc.selectStatement(artifactPath); policy != nil {'),
]

# =====================================================================================================================
# Second pass: rewrite CLASSES (held-out refactorings). For each class a few members (`silent`) and the same shapes with
# the property broken (`flagged`).
# =====================================================================================================================

# --- class I: candidates remembered by POSITION (integer variables, "none" = negative constant), element cloned once at the exit
OCI_BYINDEX = '''	const notFound = -1
	wildcardIndex, applicableIndex := notFound, notFound
	for i := range policyDoc.TrustPolicies {
		registryScopes := policyDoc.TrustPolicies[i].RegistryScopes
		if slices.Contains(registryScopes, trustpolicy.Wildcard) {
			wildcardIndex = i
			continue
		}
		if slices.Contains(registryScopes, artifactPath) {
			applicableIndex = i
		}
	}

	switch {
	case applicableIndex != notFound:
		return policyDoc.TrustPolicies[applicableIndex].clone(), nil
	case wildcardIndex != notFound:
		return policyDoc.TrustPolicies[wildcardIndex].clone(), nil
	default:
		return nil, ''' + ERR + '''
	}
}
'''
# member 2: classic for loop, if/else chain, >= 0 tests, the selected element copied into a local before it is cloned
OCI_BYINDEX2 = '''	exactAt, wildcardAt := -1, -1
	for n := 0; n < len(policyDoc.TrustPolicies); n++ {
		if slices.Contains(policyDoc.TrustPolicies[n].RegistryScopes, artifactPath) && !slices.Contains(policyDoc.TrustPolicies[n].RegistryScopes, trustpolicy.Wildcard) {
			exactAt = n
		} else if slices.Contains(policyDoc.TrustPolicies[n].RegistryScopes, trustpolicy.Wildcard) {
			wildcardAt = n
		}
	}
	if exactAt >= 0 {
		statement := policyDoc.TrustPolicies[exactAt]
		return statement.clone(), nil
	}
	if wildcardAt < 0 {
		return nil, ''' + ERR + '''
	}
	statement := policyDoc.TrustPolicies[wildcardAt]
	return statement.clone(), nil
}
'''
# member 3: one "selected" position merged from the two, single success exit
OCI_BYINDEX3 = '''	wildcardIndex, applicableIndex := -1, -1
	for i := range policyDoc.TrustPolicies {
		statement := &policyDoc.TrustPolicies[i]
		if slices.Contains(statement.RegistryScopes, trustpolicy.Wildcard) {
			wildcardIndex = i
		} else if slices.Contains(statement.RegistryScopes, artifactPath) {
			applicableIndex = i
		}
	}
	selected := applicableIndex
	if selected < 0 {
		selected = wildcardIndex
	}
	if selected < 0 {
		return nil, ''' + ERR + '''
	}
	return policyDoc.TrustPolicies[selected].clone(), nil
}
'''
def I(name, expect, frm=None, to=None, extra=(), body=OCI_BYINDEX):
    if frm is not None:
        assert body.count(frm) == 1, name
        body = body.replace(frm, to)
    return dict(name=name, expect=expect, edits=[(O, OCI_BODY, body)] + list(extra))
VARIANTS += [
 I('benign-index-candidates', 'silent'),
 I('benign-index-candidates-for-loop-local-copy', 'silent', body=OCI_BYINDEX2),
 I('benign-index-candidates-merged-position', 'silent', body=OCI_BYINDEX3),
 dict(name='benign-index-candidates-path-inlined', expect='silent', edits=[(O, OCI_BODY, OCI_BYINDEX), (O, PATH_CALL, PATH_INLINE)]),
 I('index-candidates-wildcard-first', 'flagged(oci/precedence)',
   '\tcase applicableIndex != notFound:\n\t\treturn policyDoc.TrustPolicies[applicableIndex].clone(), nil\n\tcase wildcardIndex != notFound:\n\t\treturn policyDoc.TrustPolicies[wildcardIndex].clone(), nil\n',
   '\tcase wildcardIndex != notFound:\n\t\treturn policyDoc.TrustPolicies[wildcardIndex].clone(), nil\n\tcase applicableIndex != notFound:\n\t\treturn policyDoc.TrustPolicies[applicableIndex].clone(), nil\n'),
 I('index-candidates-prefix-match', 'flagged(oci/selection-predicate)', 'if slices.Contains(registryScopes, artifactPath) {', 'if hasPrefixScope(registryScopes, artifactPath) {', [PREFIX_HELPER]),
 I('index-candidates-remembers-neighbour', 'flagged(oci/selection-predicate)', '\t\t\tapplicableIndex = i\n', '\t\t\tapplicableIndex = (i + 1) % len(policyDoc.TrustPolicies)\n'),
 I('index-candidates-remembers-first', 'flagged(oci/selection-predicate)', '\t\t\tapplicableIndex = i\n', '\t\t\tapplicableIndex = 0\n'),
 I('index-candidates-tests-other-statement', 'flagged(oci/selection-predicate)',
   'registryScopes := policyDoc.TrustPolicies[i].RegistryScopes', 'registryScopes := policyDoc.TrustPolicies[len(policyDoc.TrustPolicies)-1-i].RegistryScopes'),
 I('index-candidates-break-on-wildcard', 'flagged(oci/no-early-exit)', '\t\t\twildcardIndex = i\n\t\t\tcontinue\n', '\t\t\twildcardIndex = i\n\t\t\tbreak\n'),
 I('index-candidates-positive-test', 'flagged(oci/precedence)', '\tcase applicableIndex != notFound:', '\tcase applicableIndex > 0:'),
 I('index-candidates-zero-means-none', 'flagged(oci/precedence)',
   '\tconst notFound = -1\n', '\tconst notFound = 0\n'),
 I('index-candidates-exit-uses-other-position', 'flagged(oci/precedence)',
   '\tcase applicableIndex != notFound:\n\t\treturn policyDoc.TrustPolicies[applicableIndex].clone(), nil', '\tcase applicableIndex != notFound:\n\t\treturn policyDoc.TrustPolicies[wildcardIndex+1].clone(), nil'),
 I('index-candidates-list-resliced-before-use', 'flagged(oci/selected-only)',
   '\n\tswitch {\n', '\n\tpolicyDoc.TrustPolicies = policyDoc.TrustPolicies[1:]\n\tswitch {\n'),
 I('index-candidates-returns-element-pointer', 'flagged(returns-clone)',
   'return policyDoc.TrustPolicies[applicableIndex].clone(), nil', 'return &policyDoc.TrustPolicies[applicableIndex], nil'),
 I('index-candidates-merged-position-wildcard-first', 'flagged(oci/precedence)',
   '\tselected := applicableIndex\n\tif selected < 0 {\n\t\tselected = wildcardIndex\n\t}\n', '\tselected := wildcardIndex\n\tif selected < 0 {\n\t\tselected = applicableIndex\n\t}\n', body=OCI_BYINDEX3),
 I('index-candidates-merged-position-none-not-refused', 'flagged(oci/precedence)',
   '\tif selected < 0 {\n\t\treturn nil, ' + ERR + '\n\t}\n', '\tif selected < 0 {\n\t\tselected = 0\n\t}\n\tif len(policyDoc.TrustPolicies) == 0 {\n\t\treturn nil, ' + ERR + '\n\t}\n', body=OCI_BYINDEX3),
]

# --- class II: the scan extracted at other boundaries: a helper that returns BOTH candidates (pointers into the document),
#     the membership test as a method of the statement, one `selected` local with guard clauses, clone at the single success exit
OCI_TWO = '''	scopedPolicy, wildcardPolicy := policyDoc.findStatements(artifactPath)
	selectedPolicy := scopedPolicy
	if selectedPolicy == nil {
		selectedPolicy = wildcardPolicy
	}
	if selectedPolicy == nil {
		return nil, ''' + ERR + '''
	}
	return selectedPolicy.clone(), nil
}

func (policyDoc *OCIDocument) findStatements(artifactPath string) (scoped, wildcard *OCITrustPolicy) {
	for i := range policyDoc.TrustPolicies {
		statement := &policyDoc.TrustPolicies[i]
		if statement.hasRegistryScope(trustpolicy.Wildcard) {
			wildcard = statement
		} else if statement.hasRegistryScope(artifactPath) {
			scoped = statement
		}
	}
	return scoped, wildcard
}

func (t *OCITrustPolicy) hasRegistryScope(scope string) bool {
	return slices.Contains(t.RegistryScopes, scope)
}
'''
# member 2: the helper holds scan, precedence and error; the method forwards its results
OCI_SCANERR = '''	return policyDoc.selectStatement(artifactPath, artifactReference)
}

func (policyDoc *OCIDocument) selectStatement(artifactPath, artifactReference string) (*OCITrustPolicy, error) {
	var wildcardPolicy, applicablePolicy *OCITrustPolicy
	for i := range policyDoc.TrustPolicies {
		if slices.Contains(policyDoc.TrustPolicies[i].RegistryScopes, trustpolicy.Wildcard) {
			wildcardPolicy = &policyDoc.TrustPolicies[i]
		} else if slices.Contains(policyDoc.TrustPolicies[i].RegistryScopes, artifactPath) {
			applicablePolicy = &policyDoc.TrustPolicies[i]
		}
	}
	if applicablePolicy != nil {
		return applicablePolicy.clone(), nil
	}
	if wildcardPolicy != nil {
		return wildcardPolicy.clone(), nil
	}
	return nil, ''' + ERR + '''
}
'''
# member 3: scan helper returns both candidates, a second helper picks, the method refuses nil and clones
OCI_PICK = '''	selectedPolicy := preferScoped(policyDoc.findStatements(artifactPath))
	if selectedPolicy == nil {
		return nil, ''' + ERR + '''
	}
	return selectedPolicy.clone(), nil
}

func preferScoped(scoped, wildcard *OCITrustPolicy) *OCITrustPolicy {
	if scoped != nil {
		return scoped
	}
	return wildcard
}

func (policyDoc *OCIDocument) findStatements(artifactPath string) (scoped, wildcard *OCITrustPolicy) {
	for i := range policyDoc.TrustPolicies {
		statement := &policyDoc.TrustPolicies[i]
		if slices.Contains(statement.RegistryScopes, trustpolicy.Wildcard) {
			wildcard = statement
		} else if slices.Contains(statement.RegistryScopes, artifactPath) {
			scoped = statement
		}
	}
	return scoped, wildcard
}
'''
# member 4: base loop, single exit with a result local and an error local
OCI_SINGLE_EXIT = OCI_BODY.replace('''	if applicablePolicy != nil {
		// a policy with exact match for registry scope takes precedence over
		// a wildcard (*) policy.
		return applicablePolicy, nil
	} else if wildcardPolicy != nil {
		return wildcardPolicy, nil
	} else {
		return nil, ''' + ERR + '''
	}
''', '''	var selected *OCITrustPolicy
	var selectErr error
	switch {
	case applicablePolicy != nil:
		selected = applicablePolicy
	case wildcardPolicy != nil:
		selected = wildcardPolicy
	default:
		selectErr = ''' + ERR + '''
	}
	return selected, selectErr
''')
assert OCI_SINGLE_EXIT != OCI_BODY
def II(name, expect, frm=None, to=None, extra=(), body=OCI_TWO):
    if frm is not None:
        assert body.count(frm) == 1, name
        body = body.replace(frm, to)
    return dict(name=name, expect=expect, edits=[(O, OCI_BODY, body)] + list(extra))
VARIANTS += [
 II('benign-scan-helper-two-candidates', 'silent'),
 II('benign-scan-helper-with-error-result', 'silent', body=OCI_SCANERR),
 II('benign-scan-helper-and-pick-helper', 'silent', body=OCI_PICK),
 II('benign-single-exit-result-and-error-locals', 'silent', body=OCI_SINGLE_EXIT),
 II('two-candidates-helper-swaps-results', 'flagged(oci/precedence)', '\treturn scoped, wildcard\n', '\treturn wildcard, scoped\n'),
 II('two-candidates-wildcard-first', 'flagged(oci/precedence)',
   '\tselectedPolicy := scopedPolicy\n\tif selectedPolicy == nil {\n\t\tselectedPolicy = wildcardPolicy\n\t}\n', '\tselectedPolicy := wildcardPolicy\n\tif selectedPolicy == nil {\n\t\tselectedPolicy = scopedPolicy\n\t}\n'),
 II('two-candidates-method-prefix-match', 'flagged(oci/selection-predicate)',
   '\treturn slices.Contains(t.RegistryScopes, scope)\n', '\treturn hasPrefixScope(t.RegistryScopes, scope)\n', [PREFIX_HELPER]),
 II('two-candidates-method-other-receiver', 'flagged(oci/selection-predicate)',
   '} else if statement.hasRegistryScope(artifactPath) {', '} else if policyDoc.TrustPolicies[0].hasRegistryScope(artifactPath) {'),
 II('two-candidates-nil-not-refused', 'flagged(oci/precedence)',
   '\tif selectedPolicy == nil {\n\t\treturn nil, ' + ERR + '\n\t}\n', '\tif selectedPolicy == nil && len(policyDoc.TrustPolicies) == 0 {\n\t\treturn nil, ' + ERR + '\n\t}\n'),
 II('two-candidates-returns-document-pointer', 'flagged(returns-clone)', '\treturn selectedPolicy.clone(), nil\n', '\treturn selectedPolicy, nil\n'),
 II('two-candidates-helper-breaks-on-wildcard', 'flagged(oci/no-early-exit)', '\t\t\twildcard = statement\n', '\t\t\twildcard = statement\n\t\t\tbreak\n'),
 II('scan-helper-with-error-wildcard-first', 'flagged(oci/precedence)',
   '\tif applicablePolicy != nil {\n\t\treturn applicablePolicy.clone(), nil\n\t}\n\tif wildcardPolicy != nil {\n\t\treturn wildcardPolicy.clone(), nil\n\t}\n',
   '\tif wildcardPolicy != nil {\n\t\treturn wildcardPolicy.clone(), nil\n\t}\n\tif applicablePolicy != nil {\n\t\treturn applicablePolicy.clone(), nil\n\t}\n', body=OCI_SCANERR),
 II('scan-helper-with-error-ignored-by-method', 'flagged(oci/precedence)',
   '\treturn policyDoc.selectStatement(artifactPath, artifactReference)\n', '\tstatement, _ := policyDoc.selectStatement(artifactPath, artifactReference)\n\treturn statement, nil\n', body=OCI_SCANERR),
 II('pick-helper-prefers-wildcard', 'flagged(oci/precedence)',
   '\tif scoped != nil {\n\t\treturn scoped\n\t}\n\treturn wildcard\n', '\tif wildcard != nil {\n\t\treturn wildcard\n\t}\n\treturn scoped\n', body=OCI_PICK),
 II('single-exit-locals-wildcard-first', 'flagged(oci/precedence)',
   '\tcase applicablePolicy != nil:\n\t\tselected = applicablePolicy\n\tcase wildcardPolicy != nil:\n\t\tselected = wildcardPolicy\n', '\tcase wildcardPolicy != nil:\n\t\tselected = wildcardPolicy\n\tcase applicablePolicy != nil:\n\t\tselected = applicablePolicy\n', body=OCI_SINGLE_EXIT),
 II('single-exit-locals-error-dropped', 'flagged(oci/precedence)', '\treturn selected, selectErr\n', '\t_ = selectErr\n\treturn selected, nil\n', body=OCI_SINGLE_EXIT),
]

# --- class III: the fresh copies of a clone made by copier helpers / standard library copies
CLONE_OCI_HELPER = CLONE_OCI_BASE.replace('append([]string(nil), t.TrustedIdentities...)', 'cloneStrings(t.TrustedIdentities)').replace('append([]string(nil), t.TrustStores...)', 'cloneStrings(t.TrustStores)').replace('append([]string(nil), t.RegistryScopes...)', 'cloneStrings(t.RegistryScopes)')
CLONE_BLOB_HELPER = CLONE_BLOB_BASE.replace('append([]string(nil), t.TrustedIdentities...)', 'cloneStrings(t.TrustedIdentities)').replace('append([]string(nil), t.TrustStores...)', 'cloneStrings(t.TrustStores)')
ERRTYPE = 'type errPolicyNotExist struct{}\n'
COPIER1 = 'func cloneStrings(s []string) []string {\n\treturn append([]string(nil), s...)\n}\n\n'
COPIER2 = 'func cloneStrings(s []string) []string {\n\tif s == nil {\n\t\treturn nil\n\t}\n\tout := make([]string, len(s))\n\tcopy(out, s)\n\treturn out\n}\n\n'
OVERRIDE_BASE = '''	if signatureVerification.Override != nil {
		override := make(map[ValidationType]ValidationAction, len(signatureVerification.Override))
		for k, v := range signatureVerification.Override {
			override[k] = v
		}
		signatureVerification.Override = override
	}
	return signatureVerification
'''
OVERRIDE_MAPSCLONE = '''	signatureVerification.Override = maps.Clone(signatureVerification.Override)
	return signatureVerification
'''
OVERRIDE_HELPER = '''	signatureVerification.Override = cloneOverride(signatureVerification.Override)
	return signatureVerification
'''
OVERRIDE_COPIER = '''func cloneOverride(m map[ValidationType]ValidationAction) map[ValidationType]ValidationAction {
	if m == nil {
		return nil
	}
	out := make(map[ValidationType]ValidationAction, len(m))
	for k, v := range m {
		out[k] = v
	}
	return out
}

'''
MAPS_IMPORT = (T, '\t"io/fs"\n', '\t"io/fs"\n\t"maps"\n')
def III(name, expect, copier=COPIER1, override=None, extra=()):
    edits = [(O, CLONE_OCI_BASE, CLONE_OCI_HELPER), (B, CLONE_BLOB_BASE, CLONE_BLOB_HELPER), (T, ERRTYPE, copier + ERRTYPE)]
    if override is not None:
        edits.append((T, OVERRIDE_BASE, override))
    return dict(name=name, expect=expect, edits=edits + list(extra))
VARIANTS += [
 III('benign-clone-copier-helper-mapsclone', 'silent', override=OVERRIDE_MAPSCLONE, extra=[MAPS_IMPORT]),
 III('benign-clone-copier-helper-make-copy', 'silent', copier=COPIER2),
 III('benign-clone-override-copier-helper', 'silent', copier=COPIER1 + OVERRIDE_COPIER, override=OVERRIDE_HELPER),
 III('clone-copier-appends-in-place', 'flagged(clone/)', copier=COPIER1.replace('append([]string(nil), s...)', 'append(s[:0], s...)')),
 III('clone-copier-returns-empty-source', 'flagged(clone/)', copier=COPIER2.replace('\tif s == nil {\n\t\treturn nil\n\t}\n', '\tif len(s) == 0 {\n\t\treturn s\n\t}\n')),
 III('clone-copier-returns-source-on-one-path', 'flagged(clone/)', copier=COPIER2.replace('\tout := make([]string, len(s))\n\tcopy(out, s)\n\treturn out\n', '\tout := make([]string, len(s))\n\tif copy(out, s) == 1 {\n\t\treturn s\n\t}\n\treturn out\n')),
 III('clone-override-copier-returns-source', 'flagged(clone/)', copier=COPIER1 + OVERRIDE_COPIER.replace('\tout := make(map[ValidationType]ValidationAction, len(m))\n\tfor k, v := range m {\n\t\tout[k] = v\n\t}\n\treturn out\n', '\tout := m\n\treturn out\n'), override=OVERRIDE_HELPER),
]

# --- class IV: blob search helper that returns a pointer INTO the document, predicate closures, clone at the callers' exits
BLOB_FIRST_PTR = '''func (policyDoc *BlobDocument) firstStatement(match func(*BlobTrustPolicy) bool) *BlobTrustPolicy {
	for i := range policyDoc.TrustPolicies {
		if statement := &policyDoc.TrustPolicies[i]; match(statement) {
			return statement
		}
	}
	return nil
}

'''
BLOB_NAME_END2 = BLOB_NAME_BASE + '\treturn nil, fmt.Errorf("no applicable blob trust policy with name %q", policyName)\n'
BLOB_GLOBAL_END2 = BLOB_GLOBAL_BASE + '\treturn nil, fmt.Errorf("no global blob trust policy")\n'
BLOB_NAME_PTR = '''	statement := policyDoc.firstStatement(func(t *BlobTrustPolicy) bool {
		return t.Name == policyName
	})
	if statement == nil {
		return nil, fmt.Errorf("no applicable blob trust policy with name %q", policyName)
	}
	return statement.clone(), nil
'''
BLOB_GLOBAL_PTR = '''	statement := policyDoc.firstStatement(func(t *BlobTrustPolicy) bool {
		return t.GlobalPolicy
	})
	if statement == nil {
		return nil, fmt.Errorf("no global blob trust policy")
	}
	return statement.clone(), nil
'''
def IV(name, expect, what=None, frm=None, to=None):
    parts = dict(first=BLOB_FIRST_PTR, name=BLOB_NAME_PTR, glob=BLOB_GLOBAL_PTR)
    if what is not None:
        assert parts[what].count(frm) == 1, name
        parts[what] = parts[what].replace(frm, to)
    return dict(name=name, expect=expect, edits=[(B, BLOB_NAME_END2, parts['name']), (B, BLOB_GLOBAL_END2, parts['glob']), (B, BLOB_CLONE_DOC, parts['first'] + BLOB_CLONE_DOC)])
VARIANTS += [
 IV('benign-blob-pointer-helper-clone-at-exit', 'silent'),
 IV('blob-pointer-helper-not-cloned', 'flagged(returns-clone)', 'glob', '\treturn statement.clone(), nil\n', '\treturn statement, nil\n'),
 IV('blob-pointer-helper-not-found-takes-first', 'flagged(blob/by-name)', 'name', '\tif statement == nil {', '\tif statement == nil && len(policyDoc.TrustPolicies) > 0 {\n\t\tstatement = &policyDoc.TrustPolicies[0]\n\t}\n\tif statement == nil {'),
 IV('blob-pointer-helper-predicate-fold', 'flagged(blob/by-name)', 'name', 'return t.Name == policyName', 'return strings.EqualFold(t.Name, policyName)'),
 IV('blob-pointer-helper-returns-previous', 'flagged(blob/global)', 'first', '\t\t\treturn statement\n', '\t\t\treturn &policyDoc.TrustPolicies[(i+len(policyDoc.TrustPolicies)-1)%len(policyDoc.TrustPolicies)]\n'),
 IV('blob-pointer-helper-last-as-fallback', 'flagged(blob/not-found)', 'first', '\t}\n\treturn nil\n}', '\t}\n\tif n := len(policyDoc.TrustPolicies); n > 0 {\n\t\treturn &policyDoc.TrustPolicies[n-1]\n\t}\n\treturn nil\n}'),
]

# --- class V: the verifier's call sites: the selection reached through a helper
BLOB_SITE = '''	var trustPolicy *trustpolicy.BlobTrustPolicy
	var err error
	if opts.TrustPolicyName == "" {
		trustPolicy, err = v.blobTrustPolicyDoc.GetGlobalTrustPolicy()
	} else {
		trustPolicy, err = v.blobTrustPolicyDoc.GetApplicableTrustPolicy(opts.TrustPolicyName)
	}
	if err != nil {
		return nil, notation.ErrorNoApplicableTrustPolicy{Msg: err.Error()}
	}
'''
BLOB_SITE_HELPER = '''	trustPolicy, err := v.selectBlobTrustPolicy(opts.TrustPolicyName)
	if err != nil {
		return nil, notation.ErrorNoApplicableTrustPolicy{Msg: err.Error()}
	}
'''
VERIFY_DOC = '// Verify verifies the signature associated to the target OCI\n'
# member 1: tail calls
SEL_HELPER1 = '''func (v *verifier) selectBlobTrustPolicy(name string) (*trustpolicy.BlobTrustPolicy, error) {
	if name == "" {
		return v.blobTrustPolicyDoc.GetGlobalTrustPolicy()
	}
	return v.blobTrustPolicyDoc.GetApplicableTrustPolicy(name)
}

'''
# member 2: single exit with result and error locals, the options struct handed on whole
SEL_HELPER2 = '''func (v *verifier) selectBlobTrustPolicy(opts notation.BlobVerifierVerifyOptions) (*trustpolicy.BlobTrustPolicy, error) {
	var statement *trustpolicy.BlobTrustPolicy
	var err error
	if opts.TrustPolicyName != "" {
		statement, err = v.blobTrustPolicyDoc.GetApplicableTrustPolicy(opts.TrustPolicyName)
	} else {
		statement, err = v.blobTrustPolicyDoc.GetGlobalTrustPolicy()
	}
	return statement, err
}

'''
# member 3: the helper converts the error, the caller returns the helper's error as it is
SEL_HELPER3 = '''func (v *verifier) selectBlobTrustPolicy(name string) (*trustpolicy.BlobTrustPolicy, error) {
	var statement *trustpolicy.BlobTrustPolicy
	var err error
	if name == "" {
		statement, err = v.blobTrustPolicyDoc.GetGlobalTrustPolicy()
	} else {
		statement, err = v.blobTrustPolicyDoc.GetApplicableTrustPolicy(name)
	}
	if err != nil {
		return nil, notation.ErrorNoApplicableTrustPolicy{Msg: err.Error()}
	}
	return statement, nil
}

'''
BLOB_SITE_PASS = '''	trustPolicy, err := v.selectBlobTrustPolicy(opts.TrustPolicyName)
	if err != nil {
		return nil, err
	}
'''
# member 4: the OCI selection of Verify and SkipVerify shared in a converting helper
OCI_SITE1 = '''	trustPolicy, err := v.ociTrustPolicyDoc.GetApplicableTrustPolicy(opts.ArtifactReference)
	if err != nil {
		return false, nil, notation.ErrorNoApplicableTrustPolicy{Msg: err.Error()}
	}
'''
OCI_SITE2 = '''	trustPolicy, err := v.ociTrustPolicyDoc.GetApplicableTrustPolicy(artifactRef)
	if err != nil {
		return nil, notation.ErrorNoApplicableTrustPolicy{Msg: err.Error()}
	}
'''
OCI_HELPER_CONV = '''func (v *verifier) applicableStatement(reference string) (*trustpolicy.OCITrustPolicy, error) {
	statement, err := v.ociTrustPolicyDoc.GetApplicableTrustPolicy(reference)
	if err != nil {
		return nil, notation.ErrorNoApplicableTrustPolicy{Msg: err.Error()}
	}
	return statement, nil
}

'''
def V_(name, expect, helper=SEL_HELPER1, site=BLOB_SITE_HELPER, frm=None, to=None, insite=False):
    if frm is not None:
        if insite:
            assert site.count(frm) == 1, name
            site = site.replace(frm, to)
        else:
            assert helper.count(frm) == 1, name
            helper = helper.replace(frm, to)
    return dict(name=name, expect=expect, edits=[(V, BLOB_SITE, site), (V, VERIFY_DOC, helper + VERIFY_DOC)])
VARIANTS += [
 V_('benign-callsite-helper-tail-calls', 'silent'),
 V_('benign-callsite-helper-single-exit-options', 'silent', helper=SEL_HELPER2, site=BLOB_SITE_HELPER.replace('(opts.TrustPolicyName)', '(opts)')),
 V_('benign-callsite-helper-converts', 'silent', helper=SEL_HELPER3, site=BLOB_SITE_PASS),
 dict(name='benign-callsite-oci-helper-converts', expect='silent', edits=[
   (V, OCI_SITE1, '\ttrustPolicy, err := v.applicableStatement(opts.ArtifactReference)\n\tif err != nil {\n\t\treturn false, nil, err\n\t}\n'),
   (V, OCI_SITE2, '\ttrustPolicy, err := v.applicableStatement(artifactRef)\n\tif err != nil {\n\t\treturn nil, err\n\t}\n'),
   (V, VERIFY_DOC, OCI_HELPER_CONV + VERIFY_DOC)]),
 V_('callsite-helper-inverted', 'flagged(callsite/global-iff-no-name)', frm='\tif name == "" {', to='\tif name != "" {'),
 V_('callsite-helper-given-constant-name', 'flagged(callsite/global-iff-no-name)', frm='v.selectBlobTrustPolicy(opts.TrustPolicyName)', to='v.selectBlobTrustPolicy("")', insite=True),
 V_('callsite-helper-given-other-name', 'flagged(callsite/global-iff-no-name)', frm='v.selectBlobTrustPolicy(opts.TrustPolicyName)', to='v.selectBlobTrustPolicy(opts.SignatureMediaType)', insite=True),
 V_('callsite-helper-named-falls-back-to-global', 'flagged(callsite/global-iff-no-name)',
    frm='\treturn v.blobTrustPolicyDoc.GetApplicableTrustPolicy(name)\n', to='\tstatement, err := v.blobTrustPolicyDoc.GetApplicableTrustPolicy(name)\n\tif err != nil {\n\t\treturn v.blobTrustPolicyDoc.GetGlobalTrustPolicy()\n\t}\n\treturn statement, nil\n'),
 V_('callsite-helper-error-ignored-by-caller', 'flagged(callsite/selection-required)',
    frm='\ttrustPolicy, err := v.selectBlobTrustPolicy(opts.TrustPolicyName)\n\tif err != nil {\n\t\treturn nil, notation.ErrorNoApplicableTrustPolicy{Msg: err.Error()}\n\t}\n',
    to='\ttrustPolicy, err := v.selectBlobTrustPolicy(opts.TrustPolicyName)\n\tif trustPolicy == nil {\n\t\ttrustPolicy = &trustpolicy.BlobTrustPolicy{}\n\t}\n', insite=True),
 V_('callsite-helper-swallows-error', 'flagged(callsite/selection-required)', helper=SEL_HELPER2,
    site=BLOB_SITE_HELPER.replace('(opts.TrustPolicyName)', '(opts)'), frm='\treturn statement, err\n', to='\tif err != nil {\n\t\treturn &trustpolicy.BlobTrustPolicy{}, nil\n\t}\n\treturn statement, nil\n'),
 V_('callsite-helper-error-not-converted-anywhere', 'flagged(callsite/no-applicable-policy)', site=BLOB_SITE_PASS),
 V_('callsite-converting-helper-caller-replaces-error', 'flagged(callsite/no-applicable-policy)', helper=SEL_HELPER3,
    site=BLOB_SITE_PASS.replace('\t\treturn nil, err\n', '\t\treturn nil, errors.New("no trust policy")\n')),
 V_('callsite-converting-helper-converts-one-branch-only', 'flagged(callsite/no-applicable-policy)', helper=SEL_HELPER3, site=BLOB_SITE_PASS,
    frm='\tif err != nil {\n\t\treturn nil, notation.ErrorNoApplicableTrustPolicy{Msg: err.Error()}\n\t}\n', to='\tif err != nil && name == "" {\n\t\treturn nil, notation.ErrorNoApplicableTrustPolicy{Msg: err.Error()}\n\t}\n\tif err != nil {\n\t\treturn nil, err\n\t}\n'),
]

# --- class VI: the membership test spelled otherwise: a hand-written search helper (element == value), slices.Index found
SCOPE_HELPER = (O, '// clone returns a pointer to the deep copied [OCITrustPolicy]',
                'func listsScope(scopes []string, wanted string) bool {\n\tfor _, scope := range scopes {\n\t\tif scope == wanted {\n\t\t\treturn true\n\t\t}\n\t}\n\treturn false\n}\n\n// clone returns a pointer to the deep copied [OCITrustPolicy]')
LOOP_CONTAINS = '''		if slices.Contains(policyStatement.RegistryScopes, trustpolicy.Wildcard) {
			// we need to deep copy because we can't use the loop variable
			// address. see https://stackoverflow.com/a/45967429
			wildcardPolicy = (&policyStatement).clone()
		} else if slices.Contains(policyStatement.RegistryScopes, artifactPath) {
			applicablePolicy = (&policyStatement).clone()
		}
'''
LOOP_HANDWRITTEN = '''		if listsScope(policyStatement.RegistryScopes, trustpolicy.Wildcard) {
			wildcardPolicy = (&policyStatement).clone()
		} else if listsScope(policyStatement.RegistryScopes, artifactPath) {
			applicablePolicy = (&policyStatement).clone()
		}
'''
STD_SLICES_O = [(O, '\t"regexp"\n', '\t"regexp"\n\t"slices"\n'), (O, '\t"github.com/notaryproject/notation-go/internal/slices"\n', '')]
LOOP_STDINDEX = '''		if slices.Index(policyStatement.RegistryScopes, trustpolicy.Wildcard) >= 0 {
			wildcardPolicy = (&policyStatement).clone()
		} else if slices.Index(policyStatement.RegistryScopes, artifactPath) != -1 {
			applicablePolicy = (&policyStatement).clone()
		}
'''
def VI(name, expect, loop, frm=None, to=None, extra=()):
    if frm is not None:
        assert loop.count(frm) == 1, name
        loop = loop.replace(frm, to)
    return dict(name=name, expect=expect, edits=[(O, LOOP_CONTAINS, loop)] + list(extra))
VARIANTS += [
 VI('benign-membership-handwritten-helper', 'silent', LOOP_HANDWRITTEN, extra=[SCOPE_HELPER]),
 VI('benign-membership-std-index', 'silent', LOOP_STDINDEX, extra=STD_SLICES_O),
 VI('membership-handwritten-helper-prefix', 'flagged(oci/selection-predicate)', LOOP_HANDWRITTEN,
    extra=[(SCOPE_HELPER[0], SCOPE_HELPER[1], SCOPE_HELPER[2].replace('if scope == wanted {', 'if scope == wanted || strings.HasPrefix(wanted, scope+"/") {'))]),
 VI('membership-handwritten-helper-fold', 'flagged(oci/selection-predicate)', LOOP_HANDWRITTEN,
    extra=[(SCOPE_HELPER[0], SCOPE_HELPER[1], SCOPE_HELPER[2].replace('if scope == wanted {', 'if strings.EqualFold(scope, wanted) {'))]),
 VI('membership-handwritten-helper-default-true', 'flagged(oci/selection-predicate)', LOOP_HANDWRITTEN,
    extra=[(SCOPE_HELPER[0], SCOPE_HELPER[1], SCOPE_HELPER[2].replace('\treturn false\n}', '\treturn len(scopes) == 1\n}'))]),
 VI('membership-std-index-not-found-accepted', 'flagged(oci/selection-predicate)', LOOP_STDINDEX, 'slices.Index(policyStatement.RegistryScopes, artifactPath) != -1', 'slices.Index(policyStatement.RegistryScopes, artifactPath) >= -1', extra=STD_SLICES_O),
 VI('membership-std-index-other-list', 'flagged(oci/selection-predicate)', LOOP_STDINDEX, 'slices.Index(policyStatement.RegistryScopes, artifactPath) != -1', 'slices.Index(policyStatement.TrustStores, artifactPath) != -1', extra=STD_SLICES_O),
]

# --- class V (continued): the error built by a constructor function; the empty name tested by its length
NOAPP = '\t\treturn nil, notation.ErrorNoApplicableTrustPolicy{Msg: err.Error()}\n'
CONSTRUCTOR = 'func noApplicablePolicy(cause error) error {\n\treturn notation.ErrorNoApplicableTrustPolicy{Msg: cause.Error()}\n}\n\n'
VARIANTS += [
 dict(name='benign-callsite-error-constructor', expect='silent', edits=[
   (V, BLOB_SITE, BLOB_SITE.replace(NOAPP, '\t\treturn nil, noApplicablePolicy(err)\n')),
   (V, OCI_SITE2, OCI_SITE2.replace(NOAPP, '\t\treturn nil, noApplicablePolicy(err)\n')),
   (V, VERIFY_DOC, CONSTRUCTOR + VERIFY_DOC)]),
 dict(name='callsite-error-constructor-other-type', expect='flagged(callsite/no-applicable-policy)', edits=[
   (V, BLOB_SITE, BLOB_SITE.replace(NOAPP, '\t\treturn nil, noApplicablePolicy(err)\n')),
   (V, VERIFY_DOC, CONSTRUCTOR.replace('notation.ErrorNoApplicableTrustPolicy{Msg: cause.Error()}', 'notation.ErrorVerificationFailed{Msg: cause.Error()}') + VERIFY_DOC)]),
 dict(name='callsite-error-constructor-sometimes-other-type', expect='flagged(callsite/no-applicable-policy)', edits=[
   (V, BLOB_SITE, BLOB_SITE.replace(NOAPP, '\t\treturn nil, noApplicablePolicy(err)\n')),
   (V, VERIFY_DOC, CONSTRUCTOR.replace('\treturn notation.ErrorNoApplicableTrustPolicy{', '\tif cause == nil {\n\t\treturn errors.New("no policy")\n\t}\n\treturn notation.ErrorNoApplicableTrustPolicy{') + VERIFY_DOC)]),
 dict(name='benign-callsite-name-tested-by-length', expect='silent', edits=[(V, '\tif opts.TrustPolicyName == "" {\n\t\ttrustPolicy, err = v.blobTrustPolicyDoc.GetGlobalTrustPolicy()', '\tif len(opts.TrustPolicyName) == 0 {\n\t\ttrustPolicy, err = v.blobTrustPolicyDoc.GetGlobalTrustPolicy()')]),
 dict(name='callsite-name-tested-by-length-inverted', expect='flagged(callsite/global-iff-no-name)', edits=[(V, '\tif opts.TrustPolicyName == "" {\n\t\ttrustPolicy, err = v.blobTrustPolicyDoc.GetGlobalTrustPolicy()', '\tif len(opts.TrustPolicyName) > 0 {\n\t\ttrustPolicy, err = v.blobTrustPolicyDoc.GetGlobalTrustPolicy()')]),
 dict(name='callsite-name-tested-by-length-one', expect='flagged(callsite/global-iff-no-name)', edits=[(V, '\tif opts.TrustPolicyName == "" {\n\t\ttrustPolicy, err = v.blobTrustPolicyDoc.GetGlobalTrustPolicy()', '\tif len(opts.TrustPolicyName) <= 1 {\n\t\ttrustPolicy, err = v.blobTrustPolicyDoc.GetGlobalTrustPolicy()')]),
]

# --- class V (continued): the error of each selection call tested in its own branch (guard clauses inside the branches)
BLOB_SITE_BRANCHES = '''	var trustPolicy *trustpolicy.BlobTrustPolicy
	if opts.TrustPolicyName == "" {
		globalPolicy, err := v.blobTrustPolicyDoc.GetGlobalTrustPolicy()
		if err != nil {
			return nil, notation.ErrorNoApplicableTrustPolicy{Msg: err.Error()}
		}
		trustPolicy = globalPolicy
	} else {
		namedPolicy, err := v.blobTrustPolicyDoc.GetApplicableTrustPolicy(opts.TrustPolicyName)
		if err != nil {
			return nil, notation.ErrorNoApplicableTrustPolicy{Msg: err.Error()}
		}
		trustPolicy = namedPolicy
	}
	var err error
'''
VARIANTS += [
 dict(name='benign-callsite-error-tested-per-branch', expect='silent', edits=[(V, BLOB_SITE, BLOB_SITE_BRANCHES)]),
 dict(name='callsite-per-branch-one-error-ignored', expect='flagged(callsite/selection-required)', edits=[(V, BLOB_SITE, BLOB_SITE_BRANCHES.replace(
   '\t\tglobalPolicy, err := v.blobTrustPolicyDoc.GetGlobalTrustPolicy()\n\t\tif err != nil {\n\t\t\treturn nil, notation.ErrorNoApplicableTrustPolicy{Msg: err.Error()}\n\t\t}\n',
   '\t\tglobalPolicy, err := v.blobTrustPolicyDoc.GetGlobalTrustPolicy()\n\t\tif err != nil {\n\t\t\tglobalPolicy = &trustpolicy.BlobTrustPolicy{}\n\t\t}\n'))]),
 dict(name='callsite-per-branch-swapped', expect='flagged(callsite/global-iff-no-name)', edits=[(V, BLOB_SITE, BLOB_SITE_BRANCHES.replace('\tif opts.TrustPolicyName == "" {', '\tif opts.TrustPolicyName != "" {'))]),
]

# --- class IV (continued): a generic search helper shared by the statement types; blob selection with result locals / single exit
GENERIC_FIRST = '''func firstMatch[T any](list []T, match func(*T) bool) *T {
	for i := range list {
		if match(&list[i]) {
			return &list[i]
		}
	}
	return nil
}

'''
BLOB_NAME_GENERIC = BLOB_NAME_PTR.replace('policyDoc.firstStatement(func', 'firstMatch(policyDoc.TrustPolicies, func')
BLOB_GLOBAL_GENERIC = BLOB_GLOBAL_PTR.replace('policyDoc.firstStatement(func', 'firstMatch(policyDoc.TrustPolicies, func')
assert BLOB_NAME_GENERIC != BLOB_NAME_PTR and BLOB_GLOBAL_GENERIC != BLOB_GLOBAL_PTR
BLOB_NAME_LOCALS = '''	var found *BlobTrustPolicy
	for i := range policyDoc.TrustPolicies {
		if policyDoc.TrustPolicies[i].Name == policyName {
			found = policyDoc.TrustPolicies[i].clone()
			break
		}
	}
	if found == nil {
		return nil, fmt.Errorf("no applicable blob trust policy with name %q", policyName)
	}
	return found, nil
'''
BLOB_GLOBAL_LOCALS = '''	var statement *BlobTrustPolicy
	err := fmt.Errorf("no global blob trust policy")
	for _, policyStatement := range policyDoc.TrustPolicies {
		if policyStatement.GlobalPolicy {
			statement, err = (&policyStatement).clone(), nil
			break
		}
	}
	return statement, err
'''
def IVb(name, expect, nm, gl, extra=()):
    return dict(name=name, expect=expect, edits=[(B, BLOB_NAME_END2, nm), (B, BLOB_GLOBAL_END2, gl)] + list(extra))
GEN = (B, BLOB_CLONE_DOC, GENERIC_FIRST + BLOB_CLONE_DOC)
VARIANTS += [
 IVb('benign-blob-generic-search-helper', 'silent', BLOB_NAME_GENERIC, BLOB_GLOBAL_GENERIC, [GEN]),
 IVb('blob-generic-search-helper-other-list', 'flagged(blob/by-name)', BLOB_NAME_GENERIC.replace('firstMatch(policyDoc.TrustPolicies, func', 'firstMatch(policyDoc.TrustPolicies[:1], func'), BLOB_GLOBAL_GENERIC, [GEN]),
 IVb('blob-generic-search-helper-returns-next', 'flagged(blob/)', BLOB_NAME_GENERIC, BLOB_GLOBAL_GENERIC, [(B, BLOB_CLONE_DOC, GENERIC_FIRST.replace('\t\t\treturn &list[i]\n', '\t\t\treturn &list[(i+1)%len(list)]\n') + BLOB_CLONE_DOC)]),
 IVb('benign-blob-result-locals-single-exit', 'silent', BLOB_NAME_LOCALS, BLOB_GLOBAL_LOCALS),
 IVb('blob-result-locals-error-cleared-early', 'flagged(blob/)', BLOB_NAME_LOCALS, BLOB_GLOBAL_LOCALS.replace('\t\t\tstatement, err = (&policyStatement).clone(), nil\n\t\t\tbreak\n\t\t}\n', '\t\t\tstatement = (&policyStatement).clone()\n\t\t\tbreak\n\t\t}\n\t\terr = nil\n')),
 IVb('blob-result-locals-break-without-match', 'flagged(blob/by-name)', BLOB_NAME_LOCALS.replace('\t\tif policyDoc.TrustPolicies[i].Name == policyName {\n\t\t\tfound = policyDoc.TrustPolicies[i].clone()\n\t\t\tbreak\n\t\t}\n', '\t\tfound = policyDoc.TrustPolicies[i].clone()\n\t\tif policyDoc.TrustPolicies[i].Name == policyName {\n\t\t\tbreak\n\t\t}\n'), BLOB_GLOBAL_LOCALS),
]
BLOB_FIRST_LOCAL = '''func (policyDoc *BlobDocument) firstStatement(match func(*BlobTrustPolicy) bool) *BlobTrustPolicy {
	var found *BlobTrustPolicy
	for i := range policyDoc.TrustPolicies {
		if match(&policyDoc.TrustPolicies[i]) {
			found = &policyDoc.TrustPolicies[i]
			break
		}
	}
	return found
}

'''
def IVc(name, expect, first):
    return dict(name=name, expect=expect, edits=[(B, BLOB_NAME_END2, BLOB_NAME_PTR), (B, BLOB_GLOBAL_END2, BLOB_GLOBAL_PTR), (B, BLOB_CLONE_DOC, first + BLOB_CLONE_DOC)])
VARIANTS += [
 IVc('benign-blob-pointer-helper-result-local-break', 'silent', BLOB_FIRST_LOCAL),
 IVc('blob-pointer-helper-result-local-fallback', 'flagged(blob/)', BLOB_FIRST_LOCAL.replace('\treturn found\n', '\tif found == nil && len(policyDoc.TrustPolicies) > 0 {\n\t\tfound = &policyDoc.TrustPolicies[0]\n\t}\n\treturn found\n')),
 IVc('blob-pointer-helper-result-local-no-break-keeps-last-tested', 'flagged(blob/)', BLOB_FIRST_LOCAL.replace('\t\tif match(&policyDoc.TrustPolicies[i]) {\n\t\t\tfound = &policyDoc.TrustPolicies[i]\n\t\t\tbreak\n\t\t}\n', '\t\tfound = &policyDoc.TrustPolicies[i]\n\t\tif match(found) {\n\t\t\tbreak\n\t\t}\n')),
]

# --- class I (continued): blob selection remembering the POSITION of the match
BLOB_NAME_POS = '''	found := -1
	for i := range policyDoc.TrustPolicies {
		if policyDoc.TrustPolicies[i].Name == policyName {
			found = i
			break
		}
	}
	if found < 0 {
		return nil, fmt.Errorf("no applicable blob trust policy with name %q", policyName)
	}
	return policyDoc.TrustPolicies[found].clone(), nil
'''
BLOB_GLOBAL_POS = '''	position := -1
	for i, policyStatement := range policyDoc.TrustPolicies {
		if policyStatement.GlobalPolicy {
			position = i
			break
		}
	}
	if position != -1 {
		return policyDoc.TrustPolicies[position].clone(), nil
	}
	return nil, fmt.Errorf("no global blob trust policy")
'''
VARIANTS += [
 IVb('benign-blob-position-remembered', 'silent', BLOB_NAME_POS, BLOB_GLOBAL_POS),
 IVb('blob-position-none-is-first', 'flagged(blob/)', BLOB_NAME_POS.replace('\tfound := -1\n', '\tfound := 0\n').replace('\tif found < 0 {', '\tif len(policyDoc.TrustPolicies) == 0 {'), BLOB_GLOBAL_POS),
 IVb('blob-position-test-admits-none', 'flagged(blob/)', BLOB_NAME_POS, BLOB_GLOBAL_POS.replace('\tif position != -1 {', '\tif position >= -1 && len(policyDoc.TrustPolicies) > 0 {\n\t\tif position < 0 {\n\t\t\tposition = 0\n\t\t}')),
 IVb('blob-position-of-neighbour', 'flagged(blob/by-name)', BLOB_NAME_POS.replace('\t\t\tfound = i\n', '\t\t\tfound = len(policyDoc.TrustPolicies) - 1 - i\n'), BLOB_GLOBAL_POS),
]

# --- classes I+II combined: the scan helper returns the two POSITIONS
OCI_POS_HELPER = '''	applicableIndex, wildcardIndex := policyDoc.findPositions(artifactPath)
	switch {
	case applicableIndex >= 0:
		return policyDoc.TrustPolicies[applicableIndex].clone(), nil
	case wildcardIndex >= 0:
		return policyDoc.TrustPolicies[wildcardIndex].clone(), nil
	}
	return nil, ''' + ERR + '''
}

func (policyDoc *OCIDocument) findPositions(artifactPath string) (exact, wildcard int) {
	exact, wildcard = -1, -1
	for i := range policyDoc.TrustPolicies {
		if slices.Contains(policyDoc.TrustPolicies[i].RegistryScopes, trustpolicy.Wildcard) {
			wildcard = i
		} else if slices.Contains(policyDoc.TrustPolicies[i].RegistryScopes, artifactPath) {
			exact = i
		}
	}
	return exact, wildcard
}
'''
VARIANTS += [
 II('benign-scan-helper-returns-positions', 'silent', body=OCI_POS_HELPER),
 II('scan-helper-positions-swapped', 'flagged(oci/precedence)', '\treturn exact, wildcard\n', '\treturn wildcard, exact\n', body=OCI_POS_HELPER),
 II('scan-helper-positions-prefix-match', 'flagged(oci/selection-predicate)', '} else if slices.Contains(policyDoc.TrustPolicies[i].RegistryScopes, artifactPath) {', '} else if hasPrefixScope(policyDoc.TrustPolicies[i].RegistryScopes, artifactPath) {', [PREFIX_HELPER], body=OCI_POS_HELPER),
 II('scan-helper-positions-applied-to-other-list', 'flagged(oci/selected-only)', '\t\treturn policyDoc.TrustPolicies[applicableIndex].clone(), nil\n', '\t\treturn policyDoc.TrustPolicies[1:][applicableIndex].clone(), nil\n', body=OCI_POS_HELPER),
 II('scan-helper-positions-shifted', 'flagged(oci/selection-predicate)', '\t\t\texact = i\n', '\t\t\texact = i / 2\n', body=OCI_POS_HELPER),
]

# --- class IV (continued): closure vs constructor of the closure: the predicates are made by functions
BLOB_PRED_MAKERS = '''func hasName(name string) func(*BlobTrustPolicy) bool {
	return func(t *BlobTrustPolicy) bool {
		return t.Name == name
	}
}

func isGlobal(t *BlobTrustPolicy) bool {
	return t.GlobalPolicy
}

'''
BLOB_NAME_MAKER = BLOB_NAME_PTR.replace('policyDoc.firstStatement(func(t *BlobTrustPolicy) bool {\n\t\treturn t.Name == policyName\n\t})', 'policyDoc.firstStatement(hasName(policyName))')
BLOB_GLOBAL_MAKER = BLOB_GLOBAL_PTR.replace('policyDoc.firstStatement(func(t *BlobTrustPolicy) bool {\n\t\treturn t.GlobalPolicy\n\t})', 'policyDoc.firstStatement(isGlobal)')
assert BLOB_NAME_MAKER != BLOB_NAME_PTR and BLOB_GLOBAL_MAKER != BLOB_GLOBAL_PTR
def IVd(name, expect, nm=BLOB_NAME_MAKER, makers=BLOB_PRED_MAKERS):
    return dict(name=name, expect=expect, edits=[(B, BLOB_NAME_END2, nm), (B, BLOB_GLOBAL_END2, BLOB_GLOBAL_MAKER), (B, BLOB_CLONE_DOC, makers + BLOB_FIRST_PTR + BLOB_CLONE_DOC)])
VARIANTS += [
 IVd('benign-blob-predicate-constructor', 'silent'),
 IVd('blob-predicate-constructor-given-other-value', 'flagged(blob/by-name)', nm=BLOB_NAME_MAKER.replace('hasName(policyName)', 'hasName(strings.TrimSpace(policyName))')),
 IVd('blob-predicate-constructor-prefix', 'flagged(blob/by-name)', makers=BLOB_PRED_MAKERS.replace('return t.Name == name', 'return strings.HasPrefix(t.Name, name)')),
 IVd('blob-predicate-constructor-rebinds-name', 'flagged(blob/by-name)', makers=BLOB_PRED_MAKERS.replace('\treturn func(t *BlobTrustPolicy) bool {\n\t\treturn t.Name == name', '\tname = strings.ToLower(name)\n\treturn func(t *BlobTrustPolicy) bool {\n\t\treturn t.Name == name')),
 IVd('blob-predicate-global-function-negated', 'flagged(blob/global)', makers=BLOB_PRED_MAKERS.replace('\treturn t.GlobalPolicy\n', '\treturn !t.GlobalPolicy\n')),
]

# --- class IV (continued): closure vs method value of a small state struct
BLOB_MATCHER = '''type nameMatcher struct{ name string }

func (m nameMatcher) matches(t *BlobTrustPolicy) bool {
	return t.Name == m.name
}

func isGlobal(t *BlobTrustPolicy) bool {
	return t.GlobalPolicy
}

'''
BLOB_NAME_MATCHER = BLOB_NAME_PTR.replace('policyDoc.firstStatement(func(t *BlobTrustPolicy) bool {\n\t\treturn t.Name == policyName\n\t})', 'policyDoc.firstStatement(nameMatcher{name: policyName}.matches)')
assert BLOB_NAME_MATCHER != BLOB_NAME_PTR
VARIANTS += [
 IVd('benign-blob-predicate-method-value', 'silent', nm=BLOB_NAME_MATCHER, makers=BLOB_MATCHER),
 IVd('blob-predicate-method-value-other-name', 'flagged(blob/by-name)', nm=BLOB_NAME_MATCHER.replace('nameMatcher{name: policyName}', 'nameMatcher{name: strings.ToUpper(policyName)}'), makers=BLOB_MATCHER),
 IVd('blob-predicate-method-value-fold', 'flagged(blob/by-name)', nm=BLOB_NAME_MATCHER, makers=BLOB_MATCHER.replace('return t.Name == m.name', 'return strings.EqualFold(t.Name, m.name)')),
]

# ---------------------------------------------------------------------------------------------------------------------
# Third pass, class V: the classification of a statement is HELD IN A VALUE before it is acted on — the two membership
# scans fused into one pass whose answer (an enumeration constant) is accumulated in a variable and returned at the end,
# returned through a result variable, handed on from another classifier, kept in flags, or computed inline in the
# selection loop (no helper at all). The constant tested in the selection loop stands for the facts that held when the
# assignment executed last gave the variable that constant.
# ---------------------------------------------------------------------------------------------------------------------
OCI_FUSED_MAIN = '''	var wildcardPolicy, applicablePolicy *OCITrustPolicy
	for _, policyStatement := range policyDoc.TrustPolicies {
		switch policyStatement.matchRegistryScope(artifactPath) {
		case scopeMatchWildcard:
			wildcardPolicy = policyStatement.clone()
		case scopeMatchExact:
			applicablePolicy = policyStatement.clone()
		}
	}
	selectedPolicy := applicablePolicy
	if selectedPolicy == nil {
		selectedPolicy = wildcardPolicy
	}
	if selectedPolicy == nil {
		return nil, ''' + ERR + '''
	}
	return selectedPolicy, nil
}

'''
ENUM_INT = '''type scopeMatch int

const (
	scopeMatchNone scopeMatch = iota
	scopeMatchWildcard
	scopeMatchExact
)

'''
ENUM_STR = '''type scopeMatch string

const (
	scopeMatchNone     scopeMatch = "none"
	scopeMatchWildcard scopeMatch = "wildcard"
	scopeMatchExact    scopeMatch = "exact"
)

'''
# the answer accumulated over the loop, the wildcard answered on the spot (the held-out refactoring)
CLS_FUSED = '''func (t *OCITrustPolicy) matchRegistryScope(artifactPath string) scopeMatch {
	match := scopeMatchNone
	for _, scope := range t.RegistryScopes {
		if scope == trustpolicy.Wildcard {
			return scopeMatchWildcard
		}
		if scope == artifactPath {
			match = scopeMatchExact
		}
	}
	return match
}
'''
# both answers accumulated, the wildcard kept once seen
CLS_BOTH = '''func (t *OCITrustPolicy) matchRegistryScope(artifactPath string) scopeMatch {
	match := scopeMatchNone
	for _, scope := range t.RegistryScopes {
		switch {
		case scope == trustpolicy.Wildcard:
			match = scopeMatchWildcard
		case scope == artifactPath && match != scopeMatchWildcard:
			match = scopeMatchExact
		}
	}
	return match
}
'''
# string-kinded enumeration, named result, bare return, index loop, inverted guards
CLS_NAMED = '''func (t *OCITrustPolicy) matchRegistryScope(artifactPath string) (match scopeMatch) {
	match = scopeMatchNone
	for i := 0; i < len(t.RegistryScopes); i++ {
		if t.RegistryScopes[i] == trustpolicy.Wildcard {
			match = scopeMatchWildcard
			return
		}
		if t.RegistryScopes[i] != artifactPath {
			continue
		}
		match = scopeMatchExact
	}
	return
}
'''
# the method hands on the answer of a function over the list of scopes
CLS_DELEGATES = '''func (t *OCITrustPolicy) matchRegistryScope(artifactPath string) scopeMatch {
	if t == nil {
		return scopeMatchNone
	}
	return classifyScopes(t.RegistryScopes, artifactPath)
}

func classifyScopes(scopes []string, artifactPath string) scopeMatch {
	match := scopeMatchNone
	for _, scope := range scopes {
		if scope == trustpolicy.Wildcard {
			return scopeMatchWildcard
		}
		if scope == artifactPath {
			match = scopeMatchExact
		}
	}
	return match
}
'''
# two flags set during the pass, the answer decided after it
CLS_FLAGS = '''func (t *OCITrustPolicy) matchRegistryScope(artifactPath string) scopeMatch {
	hasWildcard, hasPath := false, false
	for _, scope := range t.RegistryScopes {
		if scope == trustpolicy.Wildcard {
			hasWildcard = true
		} else if scope == artifactPath {
			hasPath = true
		}
	}
	switch {
	case hasWildcard:
		return scopeMatchWildcard
	case hasPath:
		return scopeMatchExact
	}
	return scopeMatchNone
}
'''
# a flag that holds the answer of a predicate on one path and false on the other
CLS_FLAG_PRED = '''func (t *OCITrustPolicy) matchRegistryScope(artifactPath string) scopeMatch {
	isWildcard := slices.Contains(t.RegistryScopes, trustpolicy.Wildcard)
	isExact := false
	if !isWildcard {
		isExact = slices.Contains(t.RegistryScopes, artifactPath)
	}
	if isExact {
		return scopeMatchExact
	}
	if isWildcard {
		return scopeMatchWildcard
	}
	return scopeMatchNone
}
'''
# no helper at all: the fused pass inline in the selection loop, the answer in a variable of the iteration
OCI_FUSED_INLINE = OCI_FUSED_MAIN.replace('''		switch policyStatement.matchRegistryScope(artifactPath) {
''', '''		match := scopeMatchNone
		for _, scope := range policyStatement.RegistryScopes {
			if scope == trustpolicy.Wildcard {
				match = scopeMatchWildcard
				break
			}
			if scope == artifactPath {
				match = scopeMatchExact
			}
		}
		switch match {
''')
assert OCI_FUSED_INLINE != OCI_FUSED_MAIN
# flags of the iteration instead of an enumeration, inline
OCI_FLAGS_INLINE = OCI_FUSED_MAIN.replace('''		switch policyStatement.matchRegistryScope(artifactPath) {
		case scopeMatchWildcard:
			wildcardPolicy = policyStatement.clone()
		case scopeMatchExact:
			applicablePolicy = policyStatement.clone()
		}
''', '''		hasWildcard, hasPath := false, false
		for _, scope := range policyStatement.RegistryScopes {
			if scope == trustpolicy.Wildcard {
				hasWildcard = true
			}
			if scope == artifactPath {
				hasPath = true
			}
		}
		if hasWildcard {
			wildcardPolicy = policyStatement.clone()
		} else if hasPath {
			applicablePolicy = policyStatement.clone()
		}
''')
assert OCI_FLAGS_INLINE != OCI_FUSED_MAIN
def V(name, expect, cls=CLS_FUSED, frm=None, to=None, enum=ENUM_INT, main=OCI_FUSED_MAIN, extra=()):
    body = main + enum + (cls or '')
    if frm is not None:
        assert body.count(frm) == 1, name
        body = body.replace(frm, to)
    return dict(name=name, expect=expect, edits=[(O, OCI_BODY, body)] + list(extra))
VARIANTS += [
 V('benign-fused-classifier-answer-accumulated', 'silent'),
 V('fused-classifier-prefix', 'flagged(oci/selection-predicate)', frm='\t\tif scope == artifactPath {\n', to='\t\tif strings.HasPrefix(artifactPath, scope) {\n'),
 V('fused-classifier-fold', 'flagged(oci/selection-predicate)', frm='\t\tif scope == artifactPath {\n', to='\t\tif strings.EqualFold(scope, artifactPath) {\n'),
 V('fused-classifier-starts-as-exact', 'flagged(oci/selection-predicate)', frm='\tmatch := scopeMatchNone\n', to='\tmatch := scopeMatchExact\n'),
 V('fused-classifier-inverted-test', 'flagged(oci/selection-predicate)', frm='\t\tif scope == artifactPath {\n', to='\t\tif scope != artifactPath {\n'),
 V('fused-classifier-exact-also-for-longer-scope', 'flagged(oci/selection-predicate)',
   frm='\t\tif scope == artifactPath {\n\t\t\tmatch = scopeMatchExact\n\t\t}\n', to='\t\tif scope == artifactPath {\n\t\t\tmatch = scopeMatchExact\n\t\t} else if len(scope) > len(artifactPath) {\n\t\t\tmatch = scopeMatchExact\n\t\t}\n'),
 V('fused-classifier-answers-swapped', 'flagged(oci/precedence)',
   frm='\t\t\treturn scopeMatchWildcard\n\t\t}\n\t\tif scope == artifactPath {\n\t\t\tmatch = scopeMatchExact\n', to='\t\t\treturn scopeMatchExact\n\t\t}\n\t\tif scope == artifactPath {\n\t\t\tmatch = scopeMatchWildcard\n'),
 V('fused-classifier-rewrites-scopes-while-scanning', 'flagged(oci/selection-predicate)',
   frm='\tfor _, scope := range t.RegistryScopes {\n\t\tif scope == trustpolicy.Wildcard {\n\t\t\treturn scopeMatchWildcard\n\t\t}\n',
   to='\tfor i, scope := range t.RegistryScopes {\n\t\tt.RegistryScopes[i] = strings.ToLower(scope)\n\t\tif scope == trustpolicy.Wildcard {\n\t\t\treturn scopeMatchWildcard\n\t\t}\n'),
 V('fused-classifier-classifies-first-statement', 'flagged(oci/selection-predicate)',
   frm='\t\tswitch policyStatement.matchRegistryScope(artifactPath) {\n', to='\t\tswitch policyDoc.TrustPolicies[0].matchRegistryScope(artifactPath) {\n'),
 V('fused-classifier-wildcard-first', 'flagged(oci/precedence)',
   frm='\tselectedPolicy := applicablePolicy\n\tif selectedPolicy == nil {\n\t\tselectedPolicy = wildcardPolicy\n\t}\n', to='\tselectedPolicy := wildcardPolicy\n\tif selectedPolicy == nil {\n\t\tselectedPolicy = applicablePolicy\n\t}\n'),
 V('benign-fused-classifier-both-accumulated', 'silent', cls=CLS_BOTH),
 V('fused-classifier-both-accumulated-exact-by-default', 'flagged(oci/selection-predicate)', cls=CLS_BOTH,
   frm='\t\tcase scope == artifactPath && match != scopeMatchWildcard:\n', to='\t\tcase scope == artifactPath || match == scopeMatchNone:\n'),
 V('benign-fused-classifier-string-enum-named-result', 'silent', cls=CLS_NAMED, enum=ENUM_STR),
 V('fused-classifier-named-result-guard-dropped', 'flagged(oci/selection-predicate)', cls=CLS_NAMED, enum=ENUM_STR,
   frm='\t\tif t.RegistryScopes[i] != artifactPath {\n\t\t\tcontinue\n\t\t}\n', to='\t\tif len(t.RegistryScopes[i]) != len(artifactPath) {\n\t\t\tcontinue\n\t\t}\n'),
 V('fused-classifier-named-result-compares-neighbour', 'flagged(oci/selection-predicate)', cls=CLS_NAMED, enum=ENUM_STR,
   frm='\t\tif t.RegistryScopes[i] != artifactPath {\n', to='\t\tif t.TrustStores[i%len(t.TrustStores)] != artifactPath {\n'),
 V('benign-fused-classifier-delegates', 'silent', cls=CLS_DELEGATES),
 V('fused-classifier-delegates-other-list', 'flagged(oci/selection-predicate)', cls=CLS_DELEGATES,
   frm='\treturn classifyScopes(t.RegistryScopes, artifactPath)\n', to='\treturn classifyScopes(t.TrustStores, artifactPath)\n'),
 V('fused-classifier-delegates-lowercased-path', 'flagged(oci/)', cls=CLS_DELEGATES,
   frm='\treturn classifyScopes(t.RegistryScopes, artifactPath)\n', to='\treturn classifyScopes(t.RegistryScopes, strings.ToLower(artifactPath))\n'),
 V('fused-classifier-delegates-nil-is-exact', 'flagged(oci/selection-predicate)', cls=CLS_DELEGATES,
   frm='\tif t == nil {\n\t\treturn scopeMatchNone\n', to='\tif t == nil {\n\t\treturn scopeMatchExact\n'),
 V('benign-fused-classifier-flags', 'silent', cls=CLS_FLAGS),
 V('fused-classifier-flags-prefix', 'flagged(oci/selection-predicate)', cls=CLS_FLAGS,
   frm='\t\t} else if scope == artifactPath {\n', to='\t\t} else if strings.HasPrefix(artifactPath, scope) {\n'),
 V('fused-classifier-flags-path-flag-starts-set', 'flagged(oci/selection-predicate)', cls=CLS_FLAGS,
   frm='\thasWildcard, hasPath := false, false\n', to='\thasWildcard, hasPath := false, len(t.RegistryScopes) == 1\n'),
 V('fused-classifier-flags-negated', 'flagged(oci/)', cls=CLS_FLAGS, frm='\tcase hasPath:\n', to='\tcase !hasPath:\n'),
 V('benign-classifier-flag-holds-predicate-answer', 'silent', cls=CLS_FLAG_PRED),
 V('classifier-flag-holds-negated-answer', 'flagged(oci/selection-predicate)', cls=CLS_FLAG_PRED,
   frm='\t\tisExact = slices.Contains(t.RegistryScopes, artifactPath)\n', to='\t\tisExact = !slices.Contains(t.RegistryScopes, artifactPath)\n'),
 V('classifier-flag-defaults-to-true', 'flagged(oci/selection-predicate)', cls=CLS_FLAG_PRED, frm='\tisExact := false\n', to='\tisExact := true\n'),
 V('benign-fused-scan-inline', 'silent', cls=None, main=OCI_FUSED_INLINE),
 V('fused-scan-inline-answer-kept-across-statements', 'flagged(oci/selection-predicate)', cls=None, main=OCI_FUSED_INLINE,
   frm='\tfor _, policyStatement := range policyDoc.TrustPolicies {\n\t\tmatch := scopeMatchNone\n', to='\tmatch := scopeMatchNone\n\tfor _, policyStatement := range policyDoc.TrustPolicies {\n'),
 V('fused-scan-inline-prefix', 'flagged(oci/selection-predicate)', cls=None, main=OCI_FUSED_INLINE,
   frm='\t\t\tif scope == artifactPath {\n', to='\t\t\tif strings.HasPrefix(artifactPath, scope) {\n'),
 V('fused-scan-inline-scans-first-statement', 'flagged(oci/selection-predicate)', cls=None, main=OCI_FUSED_INLINE,
   frm='\t\tfor _, scope := range policyStatement.RegistryScopes {\n', to='\t\tfor _, scope := range policyDoc.TrustPolicies[0].RegistryScopes {\n'),
 V('benign-flags-inline', 'silent', cls=None, enum='', main=OCI_FLAGS_INLINE),
 V('flags-inline-kept-across-statements', 'flagged(oci/selection-predicate)', cls=None, enum='', main=OCI_FLAGS_INLINE,
   frm='\tfor _, policyStatement := range policyDoc.TrustPolicies {\n\t\thasWildcard, hasPath := false, false\n', to='\thasWildcard, hasPath := false, false\n\tfor _, policyStatement := range policyDoc.TrustPolicies {\n'),
 V('flags-inline-fold', 'flagged(oci/selection-predicate)', cls=None, enum='', main=OCI_FLAGS_INLINE,
   frm='\t\t\tif scope == artifactPath {\n', to='\t\t\tif strings.EqualFold(scope, artifactPath) {\n'),
]

# --- class V (continued): the classifier answers with a PAIR OF FLAGS (several results), or is a CLOSURE of the method
CLS_PAIR = '''func (t *OCITrustPolicy) scopeFlags(artifactPath string) (wildcard, exact bool) {
	for _, scope := range t.RegistryScopes {
		if scope == trustpolicy.Wildcard {
			wildcard = true
		} else if scope == artifactPath {
			exact = true
		}
	}
	return wildcard, exact
}
'''
CLS_PAIR_PRED = '''func (t *OCITrustPolicy) scopeFlags(artifactPath string) (wildcard, exact bool) {
	return slices.Contains(t.RegistryScopes, trustpolicy.Wildcard), slices.Contains(t.RegistryScopes, artifactPath)
}
'''
OCI_PAIR_MAIN = OCI_FUSED_MAIN.replace('''		switch policyStatement.matchRegistryScope(artifactPath) {
		case scopeMatchWildcard:
			wildcardPolicy = policyStatement.clone()
		case scopeMatchExact:
			applicablePolicy = policyStatement.clone()
		}
''', '''		isWildcard, isExact := policyStatement.scopeFlags(artifactPath)
		if isWildcard {
			wildcardPolicy = policyStatement.clone()
		} else if isExact {
			applicablePolicy = policyStatement.clone()
		}
''')
assert OCI_PAIR_MAIN != OCI_FUSED_MAIN
OCI_CLOSURE_MAIN = OCI_FUSED_MAIN.replace('''	var wildcardPolicy, applicablePolicy *OCITrustPolicy
	for _, policyStatement := range policyDoc.TrustPolicies {
		switch policyStatement.matchRegistryScope(artifactPath) {
''', '''	classify := func(scopes []string) scopeMatch {
		match := scopeMatchNone
		for _, scope := range scopes {
			if scope == trustpolicy.Wildcard {
				return scopeMatchWildcard
			}
			if scope == artifactPath {
				match = scopeMatchExact
			}
		}
		return match
	}
	var wildcardPolicy, applicablePolicy *OCITrustPolicy
	for _, policyStatement := range policyDoc.TrustPolicies {
		switch classify(policyStatement.RegistryScopes) {
''')
assert OCI_CLOSURE_MAIN != OCI_FUSED_MAIN
VARIANTS += [
 V('benign-classifier-pair-of-flags', 'silent', cls=CLS_PAIR, enum='', main=OCI_PAIR_MAIN),
 V('classifier-pair-of-flags-swapped', 'flagged(oci/precedence)', cls=CLS_PAIR, enum='', main=OCI_PAIR_MAIN, frm='\treturn wildcard, exact\n', to='\treturn exact, wildcard\n'),
 V('classifier-pair-of-flags-prefix', 'flagged(oci/selection-predicate)', cls=CLS_PAIR, enum='', main=OCI_PAIR_MAIN,
   frm='\t\t} else if scope == artifactPath {\n', to='\t\t} else if strings.HasPrefix(artifactPath, scope) {\n'),
 V('classifier-pair-of-flags-exact-by-default', 'flagged(oci/selection-predicate)', cls=CLS_PAIR, enum='', main=OCI_PAIR_MAIN,
   frm='\tfor _, scope := range t.RegistryScopes {\n', to='\texact = len(t.RegistryScopes) > 1\n\tfor _, scope := range t.RegistryScopes {\n'),
 V('classifier-pair-of-flags-of-first-statement', 'flagged(oci/selection-predicate)', cls=CLS_PAIR, enum='', main=OCI_PAIR_MAIN,
   frm='policyStatement.scopeFlags(artifactPath)', to='policyDoc.TrustPolicies[0].scopeFlags(artifactPath)'),
 V('benign-classifier-pair-of-predicate-answers', 'silent', cls=CLS_PAIR_PRED, enum='', main=OCI_PAIR_MAIN),
 V('classifier-pair-of-predicate-answers-negated', 'flagged(oci/selection-predicate)', cls=CLS_PAIR_PRED, enum='', main=OCI_PAIR_MAIN,
   frm=', slices.Contains(t.RegistryScopes, artifactPath)\n', to=', !slices.Contains(t.RegistryScopes, artifactPath)\n'),
 V('benign-classifier-closure', 'silent', cls=None, main=OCI_CLOSURE_MAIN),
 V('classifier-closure-path-changed-after-capture', 'flagged(oci/)', cls=None, main=OCI_CLOSURE_MAIN,
   frm='\tvar wildcardPolicy, applicablePolicy *OCITrustPolicy\n', to='\tartifactPath = strings.ToLower(artifactPath)\n\tvar wildcardPolicy, applicablePolicy *OCITrustPolicy\n'),
 V('classifier-closure-prefix', 'flagged(oci/selection-predicate)', cls=None, main=OCI_CLOSURE_MAIN,
   frm='\t\t\tif scope == artifactPath {\n', to='\t\t\tif strings.HasPrefix(artifactPath, scope) {\n'),
 V('classifier-closure-given-other-list', 'flagged(oci/selection-predicate)', cls=None, main=OCI_CLOSURE_MAIN,
   frm='\t\tswitch classify(policyStatement.RegistryScopes) {\n', to='\t\tswitch classify(policyStatement.TrustStores) {\n'),
]

# --- class V (continued): the statement found is KEPT IN A VARIABLE declared before the loop (a copy of the loop
#     variable, resp. a pointer to the element) together with a `found` flag; the clone is made after the loop
BLOB_NAME_KEPT = '''	found := false
	var selected *BlobTrustPolicy
	for i := range policyDoc.TrustPolicies {
		if policyDoc.TrustPolicies[i].Name == policyName {
			selected = &policyDoc.TrustPolicies[i]
			found = true
			break
		}
	}
	if !found {
		return nil, fmt.Errorf("no applicable blob trust policy with name %q", policyName)
	}
	return selected.clone(), nil
'''
BLOB_GLOBAL_KEPT = '''	var selected BlobTrustPolicy
	found := false
	for _, policyStatement := range policyDoc.TrustPolicies {
		if policyStatement.GlobalPolicy {
			selected, found = policyStatement, true
			break
		}
	}
	if found {
		return selected.clone(), nil
	}
	return nil, fmt.Errorf("no global blob trust policy")
'''
VARIANTS += [
 IVb('benign-blob-statement-kept-with-found-flag', 'silent', BLOB_NAME_KEPT, BLOB_GLOBAL_KEPT),
 IVb('blob-kept-copy-of-earlier-statement', 'flagged(blob/global)', BLOB_NAME_KEPT,
     BLOB_GLOBAL_KEPT.replace('\tfor _, policyStatement := range policyDoc.TrustPolicies {\n\t\tif policyStatement.GlobalPolicy {\n\t\t\tselected, found = policyStatement, true\n',
                              '\tfor i, policyStatement := range policyDoc.TrustPolicies {\n\t\tif i == 0 {\n\t\t\tselected = policyStatement\n\t\t}\n\t\tif policyStatement.GlobalPolicy {\n\t\t\tfound = true\n')),
 IVb('blob-kept-copy-made-before-the-test', 'flagged(blob/global)', BLOB_NAME_KEPT,
     BLOB_GLOBAL_KEPT.replace('\t\tif policyStatement.GlobalPolicy {\n\t\t\tselected, found = policyStatement, true\n\t\t\tbreak\n\t\t}\n',
                              '\t\tselected, found = policyStatement, true\n\t\tif policyStatement.GlobalPolicy {\n\t\t\tbreak\n\t\t}\n')),
 IVb('blob-kept-found-flag-not-required', 'flagged(blob/)', BLOB_NAME_KEPT, BLOB_GLOBAL_KEPT.replace('\tif found {\n', '\tif found || len(policyDoc.TrustPolicies) == 1 {\n')),
 IVb('blob-kept-pointer-found-flag-starts-set', 'flagged(blob/)', BLOB_NAME_KEPT.replace('\tfound := false\n', '\tfound := len(policyDoc.TrustPolicies) > 0\n').replace('\treturn selected.clone(), nil\n', '\tif selected == nil {\n\t\tselected = &policyDoc.TrustPolicies[0]\n\t}\n\treturn selected.clone(), nil\n'), BLOB_GLOBAL_KEPT),
 IVb('blob-kept-copy-name-fold', 'flagged(blob/by-name)', BLOB_NAME_KEPT.replace('if policyDoc.TrustPolicies[i].Name == policyName {', 'if strings.EqualFold(policyDoc.TrustPolicies[i].Name, policyName) {'), BLOB_GLOBAL_KEPT),
]

# engine regression: a boolean accumulated with a short-circuit operator in a loop refers to itself through the branch that tests it
VARIANTS += [
 dict(name='benign-flag-accumulated-with-or', file='verifier/trustpolicy/oci.go', expect='silent',
      find='\tvar wildcardPolicy *OCITrustPolicy\n', replace='\tseenWildcard := false\n\tfor _, st := range policyDoc.TrustPolicies {\n\t\tseenWildcard = seenWildcard || slices.Contains(st.RegistryScopes, trustpolicy.Wildcard)\n\t}\n\t_ = seenWildcard\n\tvar wildcardPolicy *OCITrustPolicy\n'),
]

# pass 7 (guards that can be disabled): completeness of the exact selection. A test of the *selection* that got an extra
# conjunct passes the statement that lists the repository over: the wildcard statement is applied instead (the wrong
# statement, not a refusal) -> oci/selection-complete. The same weakening of a *rejecting* guard (reference format,
# precedence) was flagged already: pinned here with realistic conjuncts.
def _derive(base, name, expect, a, b):
    src = next(v for v in VARIANTS if v['name'] == base)
    d = dict(src, name=name, expect=expect)
    n = 0
    if 'edits' in src:
        ed = []
        for (f, fnd, rep) in src['edits']:
            n += rep.count(a)
            ed.append((f, fnd, rep.replace(a, b)))
        d['edits'] = ed
    if src.get('replace'):
        n += src['replace'].count(a)
        d['replace'] = src['replace'].replace(a, b)
    assert n == 1, (base, name, n)
    return d

_EX = '} else if slices.Contains(policyStatement.RegistryScopes, artifactPath) {'
VARIANTS += [
 dict(name='exact-test-disabled', file=O, expect='flagged(oci/selection-complete)',
      find=_EX, replace='} else if false && (slices.Contains(policyStatement.RegistryScopes, artifactPath)) {'),
 dict(name='exact-test-extra-conjunct-several-scopes', file=O, expect='flagged(oci/selection-complete)',
      find=_EX, replace='} else if len(policyStatement.RegistryScopes) > 1 && slices.Contains(policyStatement.RegistryScopes, artifactPath) {'),
 dict(name='exact-test-extra-conjunct-no-wildcard-yet', file=O, expect='flagged(oci/selection-complete)',
      find=_EX, replace='} else if wildcardPolicy == nil && slices.Contains(policyStatement.RegistryScopes, artifactPath) {'),
 dict(name='exact-test-extra-conjunct-other-field', file=O, expect='flagged(oci/selection-complete)',
      find=_EX, replace='} else if len(policyStatement.TrustStores) > 0 && slices.Contains(policyStatement.RegistryScopes, artifactPath) {'),
 dict(name='exact-test-nested-extra-test', file=O, expect='flagged(oci/selection-complete)',
      find=_EX + '\n\t\t\tapplicablePolicy = (&policyStatement).clone()\n',
      replace=_EX + '\n\t\t\tif len(policyStatement.RegistryScopes) > 1 {\n\t\t\t\tapplicablePolicy = (&policyStatement).clone()\n\t\t\t}\n'),
 dict(name='exact-test-skips-single-scope-statements', file=O, expect='flagged(oci/selection-complete)',
      find='\t\tif slices.Contains(policyStatement.RegistryScopes, trustpolicy.Wildcard) {\n\t\t\t// we need to deep copy',
      replace='\t\tif len(policyStatement.RegistryScopes) == 1 && policyStatement.RegistryScopes[0] != trustpolicy.Wildcard {\n\t\t\tcontinue\n\t\t}\n\t\tif slices.Contains(policyStatement.RegistryScopes, trustpolicy.Wildcard) {\n\t\t\t// we need to deep copy'),
 _derive('benign-scan-helper-enum-classifier', 'classifier-exact-answer-extra-conjunct', 'flagged(oci/selection-complete)',
         '\tif slices.Contains(registryScopes, artifactPath) {\n\t\treturn scopeMatchExact', '\tif len(registryScopes) > 1 && slices.Contains(registryScopes, artifactPath) {\n\t\treturn scopeMatchExact'),
 _derive('benign-scan-helper-enum-classifier', 'classifier-exact-case-extra-test', 'flagged(oci/selection-complete)',
         '\t\tcase scopeMatchExact:\n\t\t\tapplicablePolicy = (&policyStatement).clone()\n', '\t\tcase scopeMatchExact:\n\t\t\tif wildcardPolicy == nil {\n\t\t\t\tapplicablePolicy = (&policyStatement).clone()\n\t\t\t}\n'),
 _derive('benign-fused-classifier-answer-accumulated', 'fused-classifier-exact-extra-conjunct', 'flagged(oci/selection-complete)',
         '\t\tif scope == artifactPath {\n\t\t\tmatch = scopeMatchExact', '\t\tif len(t.TrustStores) > 0 && scope == artifactPath {\n\t\t\tmatch = scopeMatchExact'),
 _derive('benign-index-candidates', 'index-candidates-exact-extra-conjunct', 'flagged(oci/selection-complete)',
         '\t\tif slices.Contains(registryScopes, artifactPath) {\n\t\t\tapplicableIndex = i', '\t\tif len(registryScopes) > 1 && slices.Contains(registryScopes, artifactPath) {\n\t\t\tapplicableIndex = i'),
 _derive('benign-index-candidates', 'index-candidates-skip-guard-before-exact-test', 'flagged(oci/selection-complete)',
         '\t\tif slices.Contains(registryScopes, artifactPath) {\n\t\t\tapplicableIndex = i', '\t\tif wildcardIndex != notFound {\n\t\t\tcontinue\n\t\t}\n\t\tif slices.Contains(registryScopes, artifactPath) {\n\t\t\tapplicableIndex = i'),
 _derive('benign-flags-inline', 'flags-inline-exact-flag-extra-conjunct', 'flagged(oci/selection-complete)',
         '\t\t} else if hasPath {', '\t\t} else if len(policyStatement.RegistryScopes) > 1 && hasPath {'),
 _derive('benign-membership-std-index', 'std-index-exact-extra-conjunct', 'flagged(oci/selection-complete)',
         '} else if slices.Index(policyStatement.RegistryScopes, artifactPath) != -1 {', '} else if len(policyStatement.RegistryScopes) > 1 && slices.Index(policyStatement.RegistryScopes, artifactPath) != -1 {'),
 # the same guard spelled differently, and tests that are implied: silent
 dict(name='benign-exact-test-first-match-wins', file=O, expect='silent',
      find=_EX, replace='} else if applicablePolicy == nil && slices.Contains(policyStatement.RegistryScopes, artifactPath) {'),
 dict(name='benign-exact-test-negated-continue', file=O, expect='silent',
      find='\t\tif slices.Contains(policyStatement.RegistryScopes, trustpolicy.Wildcard) {\n\t\t\t// we need to deep copy because we can\'t use the loop variable\n\t\t\t// address. see https://stackoverflow.com/a/45967429\n\t\t\twildcardPolicy = (&policyStatement).clone()\n\t\t} else if slices.Contains(policyStatement.RegistryScopes, artifactPath) {\n\t\t\tapplicablePolicy = (&policyStatement).clone()\n\t\t}\n',
      replace='\t\tif slices.Contains(policyStatement.RegistryScopes, trustpolicy.Wildcard) {\n\t\t\twildcardPolicy = (&policyStatement).clone()\n\t\t\tcontinue\n\t\t}\n\t\tif !slices.Contains(policyStatement.RegistryScopes, artifactPath) {\n\t\t\tcontinue\n\t\t}\n\t\tapplicablePolicy = (&policyStatement).clone()\n'),
 dict(name='benign-exact-test-empty-scopes-shortcut', file=O, expect='silent',
      find='\t\tif slices.Contains(policyStatement.RegistryScopes, trustpolicy.Wildcard) {\n\t\t\t// we need to deep copy',
      replace='\t\tif len(policyStatement.RegistryScopes) == 0 {\n\t\t\tcontinue\n\t\t}\n\t\tif slices.Contains(policyStatement.RegistryScopes, trustpolicy.Wildcard) {\n\t\t\t// we need to deep copy'),
 dict(name='benign-exact-test-nested-not-wildcard', file=O, expect='silent',
      find='\t\tif slices.Contains(policyStatement.RegistryScopes, trustpolicy.Wildcard) {\n\t\t\t// we need to deep copy because we can\'t use the loop variable\n\t\t\t// address. see https://stackoverflow.com/a/45967429\n\t\t\twildcardPolicy = (&policyStatement).clone()\n\t\t} else if slices.Contains(policyStatement.RegistryScopes, artifactPath) {\n\t\t\tapplicablePolicy = (&policyStatement).clone()\n\t\t}\n',
      replace='\t\tlisted := slices.Contains(policyStatement.RegistryScopes, artifactPath)\n\t\tif slices.Contains(policyStatement.RegistryScopes, trustpolicy.Wildcard) {\n\t\t\twildcardPolicy = (&policyStatement).clone()\n\t\t}\n\t\tif listed {\n\t\t\tif !slices.Contains(policyStatement.RegistryScopes, trustpolicy.Wildcard) {\n\t\t\t\tapplicablePolicy = (&policyStatement).clone()\n\t\t\t}\n\t\t}\n'),
 dict(name='benign-exact-test-in-switch-with-helper', file=O, expect='silent',
      find='\t\tif slices.Contains(policyStatement.RegistryScopes, trustpolicy.Wildcard) {\n\t\t\t// we need to deep copy because we can\'t use the loop variable\n\t\t\t// address. see https://stackoverflow.com/a/45967429\n\t\t\twildcardPolicy = (&policyStatement).clone()\n\t\t} else if slices.Contains(policyStatement.RegistryScopes, artifactPath) {\n\t\t\tapplicablePolicy = (&policyStatement).clone()\n\t\t}\n',
      replace='\t\tswitch {\n\t\tcase scopeListed(&policyStatement, trustpolicy.Wildcard):\n\t\t\twildcardPolicy = (&policyStatement).clone()\n\t\tcase scopeListed(&policyStatement, artifactPath):\n\t\t\tapplicablePolicy = (&policyStatement).clone()\n\t\t}\n',
      edits=[(O, '// clone returns a pointer to the deep copied [OCITrustPolicy]', 'func scopeListed(t *OCITrustPolicy, wanted string) bool {\n\tfor i := range t.RegistryScopes {\n\t\tif wanted == t.RegistryScopes[i] {\n\t\t\treturn true\n\t\t}\n\t}\n\treturn false\n}\n\n// clone returns a pointer to the deep copied [OCITrustPolicy]')]),
 # rejecting guards of the reference / of the precedence with a realistic extra conjunct (fail-open): flagged by the must-pass rules
 dict(name='separator-guard-extra-conjunct', file=O, expect='flagged(oci/path/separator-found)',
      find='\tif i < 0 {', replace='\tif len(artifactReference) > 1 && i < 0 {'),
 dict(name='format-guard-extra-conjunct', file=O, expect='flagged(oci/path/format-validated)',
      find='\tif err := validateRegistryScopeFormat(artifactPath); err != nil {\n\t\treturn "", err', replace='\tif err := validateRegistryScopeFormat(artifactPath); i > 0 && err != nil {\n\t\treturn "", err'),
 dict(name='path-error-guard-extra-conjunct', file=O, expect='flagged(oci/path/path-error)',
      find='\tartifactPath, err := getArtifactPathFromReference(artifactReference)\n\tif err != nil {', replace='\tartifactPath, err := getArtifactPathFromReference(artifactReference)\n\tif artifactPath == "" && err != nil {'),
 dict(name='precedence-exact-guard-extra-conjunct', file=O, expect='flagged(oci/precedence)',
      find='\tif applicablePolicy != nil {\n\t\t// a policy', replace='\tif applicablePolicy != nil && wildcardPolicy == nil {\n\t\t// a policy'),
 dict(name='precedence-wildcard-guard-extra-conjunct', file=O, expect='flagged(oci/precedence)',
      find='\t} else if wildcardPolicy != nil {', replace='\t} else if len(policyDoc.TrustPolicies) > 1 && wildcardPolicy != nil {'),
]
