O = 'verifier/trustpolicy/oci.go'
B = 'verifier/trustpolicy/blob.go'
T = 'verifier/trustpolicy/trustpolicy.go'
V = 'verifier/verifier.go'
VARIANTS = [
 dict(name='F2-reintroduced-oci', file=O, expect='flagged(clone/)',
      find='SignatureVerification: t.SignatureVerification.clone(),', replace='SignatureVerification: t.SignatureVerification,'),
 dict(name='F2-reintroduced-blob', file=B, expect='flagged(clone/)',
      find='SignatureVerification: t.SignatureVerification.clone(),', replace='SignatureVerification: t.SignatureVerification,'),
 dict(name='override-clone-shallow', file=T, expect='flagged(clone/)',
      find='''		override := make(map[ValidationType]ValidationAction, len(signatureVerification.Override))
		for k, v := range signatureVerification.Override {
			override[k] = v
		}
		signatureVerification.Override = override''', replace='''		override := signatureVerification.Override
		signatureVerification.Override = override'''),
 dict(name='clone-aliases-stores', file=O, expect='flagged(clone/)',
      find='TrustStores:           append([]string(nil), t.TrustStores...),\n\t\tRegistryScopes', replace='TrustStores:           t.TrustStores,\n\t\tRegistryScopes'),
 dict(name='clone-swaps-fields', file=O, expect='flagged(clone-complete)',
      find='TrustedIdentities:     append([]string(nil), t.TrustedIdentities...),\n\t\tTrustStores:           append([]string(nil), t.TrustStores...),\n\t\tRegistryScopes',
      replace='TrustedIdentities:     append([]string(nil), t.TrustStores...),\n\t\tTrustStores:           append([]string(nil), t.TrustedIdentities...),\n\t\tRegistryScopes'),
 dict(name='returns-document-pointer', file=B, expect='flagged(returns-clone)',
      find='\t\tif policyStatement.GlobalPolicy {\n\t\t\treturn (&policyStatement).clone(), nil\n\t\t}', replace='\t\tif policyStatement.GlobalPolicy {\n\t\t\treturn &policyStatement, nil\n\t\t}'),
 dict(name='prefix-match', file=O, expect='flagged(oci/selection-predicate)',
      find='} else if slices.Contains(policyStatement.RegistryScopes, artifactPath) {', replace='} else if hasPrefixScope(policyStatement.RegistryScopes, artifactPath) {',
      edits=[(O, '// clone returns a pointer to the deep copied [OCITrustPolicy]', 'func hasPrefixScope(scopes []string, p string) bool {\n\tfor _, s := range scopes {\n\t\tif strings.HasPrefix(p, s) {\n\t\t\treturn true\n\t\t}\n\t}\n\treturn false\n}\n\n// clone returns a pointer to the deep copied [OCITrustPolicy]')]),
 dict(name='wildcard-preferred', file=O, expect='flagged(oci/precedence)',
      find='''	if applicablePolicy != nil {
		// a policy with exact match for registry scope takes precedence over
		// a wildcard (*) policy.
		return applicablePolicy, nil
	} else if wildcardPolicy != nil {
		return wildcardPolicy, nil
	} else {''', replace='''	if wildcardPolicy != nil {
		return wildcardPolicy, nil
	} else if applicablePolicy != nil {
		return applicablePolicy, nil
	} else {'''),
 dict(name='no-match-returns-first', file=O, expect='flagged(oci/precedence)',
      find='\t} else {\n\t\treturn nil, fmt.Errorf("artifact %q has no applicable oci trust policy statement.', replace='\t} else if len(policyDoc.TrustPolicies) == 1 {\n\t\treturn (&policyDoc.TrustPolicies[0]).clone(), nil\n\t} else {\n\t\treturn nil, fmt.Errorf("artifact %q has no applicable oci trust policy statement.'),
 dict(name='break-on-wildcard', file=O, expect='flagged(oci/no-early-exit)',
      find='\t\t\twildcardPolicy = (&policyStatement).clone()\n', replace='\t\t\twildcardPolicy = (&policyStatement).clone()\n\t\t\tbreak\n'),
 dict(name='path-first-at', file=O, expect='flagged(oci/path)',
      find='i := strings.LastIndex(artifactReference, "@")', replace='i := strings.Index(artifactReference, "@")'),
 dict(name='path-not-validated', file=O, expect='flagged(oci/path/format-validated)',
      find='\tif err := validateRegistryScopeFormat(artifactPath); err != nil {\n\t\treturn "", err\n\t}\n\treturn artifactPath, nil', replace='\treturn artifactPath, nil'),
 dict(name='blob-name-fold', file=B, expect='flagged(blob/by-name)',
      find='\t\tif policyStatement.Name == policyName {', replace='\t\tif strings.EqualFold(policyStatement.Name, policyName) {'),
 dict(name='blob-global-any', file=B, expect='flagged(blob/global)',
      find='\t\tif policyStatement.GlobalPolicy {\n\t\t\treturn (&policyStatement).clone(), nil', replace='\t\tif policyStatement.GlobalPolicy || len(policyDoc.TrustPolicies) == 1 {\n\t\t\treturn (&policyStatement).clone(), nil'),
 dict(name='blob-not-found-global', file=B, expect='flagged(blob/not-found)',
      find='\treturn nil, fmt.Errorf("no applicable blob trust policy with name %q", policyName)', replace='\treturn policyDoc.GetGlobalTrustPolicy()'),
 dict(name='named-falls-back-to-global', file=V, expect='flagged(callsite/global-iff-no-name)',
      find='\tif opts.TrustPolicyName == "" {\n\t\ttrustPolicy, err = v.blobTrustPolicyDoc.GetGlobalTrustPolicy()\n\t} else {\n\t\ttrustPolicy, err = v.blobTrustPolicyDoc.GetApplicableTrustPolicy(opts.TrustPolicyName)\n\t}',
      replace='\tif opts.TrustPolicyName == "" {\n\t\ttrustPolicy, err = v.blobTrustPolicyDoc.GetGlobalTrustPolicy()\n\t} else {\n\t\ttrustPolicy, err = v.blobTrustPolicyDoc.GetApplicableTrustPolicy(opts.TrustPolicyName)\n\t\tif err != nil {\n\t\t\ttrustPolicy, err = v.blobTrustPolicyDoc.GetGlobalTrustPolicy()\n\t\t}\n\t}'),
 # benign
 dict(name='benign-clone-by-copy', file=B, expect='silent',
      find='''	return &BlobTrustPolicy{
		Name:                  t.Name,
		SignatureVerification: t.SignatureVerification.clone(),
		TrustedIdentities:     append([]string(nil), t.TrustedIdentities...),
		TrustStores:           append([]string(nil), t.TrustStores...),
		GlobalPolicy:          t.GlobalPolicy,
	}''', replace='''	cloned := *t
	cloned.SignatureVerification = t.SignatureVerification.clone()
	cloned.TrustedIdentities = append([]string(nil), t.TrustedIdentities...)
	cloned.TrustStores = append([]string(nil), t.TrustStores...)
	return &cloned'''),
 dict(name='benign-precedence-switch', file=O, expect='silent',
      find='''	if applicablePolicy != nil {
		// a policy with exact match for registry scope takes precedence over
		// a wildcard (*) policy.
		return applicablePolicy, nil
	} else if wildcardPolicy != nil {
		return wildcardPolicy, nil
	} else {
		return nil, fmt.Errorf(''', replace='''	switch {
	case applicablePolicy != nil:
		return applicablePolicy, nil
	case wildcardPolicy != nil:
		return wildcardPolicy, nil
	default:
		return nil, fmt.Errorf('''),
 dict(name='benign-exact-first', file=O, expect='silent',
      find='''		if slices.Contains(policyStatement.RegistryScopes, trustpolicy.Wildcard) {
			// we need to deep copy because we can't use the loop variable
			// address. see https://stackoverflow.com/a/45967429
			wildcardPolicy = (&policyStatement).clone()
		} else if slices.Contains(policyStatement.RegistryScopes, artifactPath) {
			applicablePolicy = (&policyStatement).clone()
		}''', replace='''		if slices.Contains(policyStatement.RegistryScopes, artifactPath) {
			applicablePolicy = (&policyStatement).clone()
		} else if slices.Contains(policyStatement.RegistryScopes, trustpolicy.Wildcard) {
			wildcardPolicy = (&policyStatement).clone()
		}'''),
]

# ---------------------------------------------------------------------------------------------------------------------
# Shapes accepted after the generalisation of the rule set (statements followed by role/dataflow). For every shape: one
# `silent` rewrite of the base tree into the shape, and the same shape with the property broken (`flagged`).
# ---------------------------------------------------------------------------------------------------------------------
ERR = 'fmt.Errorf("artifact %q has no applicable oci trust policy statement. Trust policy applicability for a given artifact is determined by registryScopes. To create a trust policy, see: %s", artifactReference, trustPolicyLink)'
OCI_BODY = '''	var wildcardPolicy *OCITrustPolicy
	var applicablePolicy *OCITrustPolicy
	for _, policyStatement := range policyDoc.TrustPolicies {
		if slices.Contains(policyStatement.RegistryScopes, trustpolicy.Wildcard) {
			// we need to deep copy because we can't use the loop variable
			// address. see https://stackoverflow.com/a/45967429
			wildcardPolicy = (&policyStatement).clone()
		} else if slices.Contains(policyStatement.RegistryScopes, artifactPath) {
			applicablePolicy = (&policyStatement).clone()
		}
	}
	if applicablePolicy != nil {
		// a policy with exact match for registry scope takes precedence over
		// a wildcard (*) policy.
		return applicablePolicy, nil
	} else if wildcardPolicy != nil {
		return wildcardPolicy, nil
	} else {
		return nil, ''' + ERR + '''
	}
}
'''
PREFIX_HELPER = (O, '// clone returns a pointer to the deep copied [OCITrustPolicy]',
                 'func hasPrefixScope(scopes []string, p string) bool {\n\tfor _, s := range scopes {\n\t\tif strings.HasPrefix(p, s) {\n\t\t\treturn true\n\t\t}\n\t}\n\treturn false\n}\n\n// clone returns a pointer to the deep copied [OCITrustPolicy]')

# --- shape A: index loop, pointers into the document remembered, `continue` instead of `else`, clone once at the exit, switch
OCI_DEFER = '''	var wildcardPolicy, applicablePolicy *OCITrustPolicy
	for i := range policyDoc.TrustPolicies {
		policyStatement := &policyDoc.TrustPolicies[i]
		if slices.Contains(policyStatement.RegistryScopes, trustpolicy.Wildcard) {
			wildcardPolicy = policyStatement
			continue
		}
		if slices.Contains(policyStatement.RegistryScopes, artifactPath) {
			applicablePolicy = policyStatement
		}
	}

	switch {
	case applicablePolicy != nil:
		return applicablePolicy.clone(), nil
	case wildcardPolicy != nil:
		return wildcardPolicy.clone(), nil
	}
	return nil, ''' + ERR + '''
}
'''
def A(name, expect, frm=None, to=None, extra=()):
    body = OCI_DEFER
    if frm is not None:
        assert body.count(frm) == 1, name
        body = body.replace(frm, to)
    return dict(name=name, expect=expect, edits=[(O, OCI_BODY, body)] + list(extra))
VARIANTS += [
 A('benign-deferred-clone', 'silent'),
 A('deferred-clone-prefix-match', 'flagged(oci/selection-predicate)',
   'if slices.Contains(policyStatement.RegistryScopes, artifactPath) {', 'if hasPrefixScope(policyStatement.RegistryScopes, artifactPath) {', [PREFIX_HELPER]),
 A('deferred-clone-returns-document-pointer', 'flagged(returns-clone)', 'return applicablePolicy.clone(), nil', 'return applicablePolicy, nil'),
 A('deferred-clone-wildcard-first', 'flagged(oci/precedence)',
   '\tcase applicablePolicy != nil:\n\t\treturn applicablePolicy.clone(), nil\n\tcase wildcardPolicy != nil:\n\t\treturn wildcardPolicy.clone(), nil\n',
   '\tcase wildcardPolicy != nil:\n\t\treturn wildcardPolicy.clone(), nil\n\tcase applicablePolicy != nil:\n\t\treturn applicablePolicy.clone(), nil\n'),
 A('deferred-clone-remembers-first-statement', 'flagged(oci/selection-predicate)', '\t\t\tapplicablePolicy = policyStatement\n', '\t\t\tapplicablePolicy = &policyDoc.TrustPolicies[0]\n'),
 A('deferred-clone-tests-first-statement', 'flagged(oci/selection-predicate)',
   'if slices.Contains(policyStatement.RegistryScopes, artifactPath) {', 'if slices.Contains(policyDoc.TrustPolicies[0].RegistryScopes, artifactPath) {'),
 A('deferred-clone-break-on-wildcard', 'flagged(oci/no-early-exit)', '\t\t\twildcardPolicy = policyStatement\n\t\t\tcontinue\n', '\t\t\twildcardPolicy = policyStatement\n\t\t\tbreak\n'),
 A('deferred-clone-exact-reset', 'flagged(oci/selection-predicate)',
   '\t\t\tapplicablePolicy = policyStatement\n\t\t}\n', '\t\t\tapplicablePolicy = policyStatement\n\t\t} else {\n\t\t\tapplicablePolicy = nil\n\t\t}\n'),
]

# --- shape B: blob search by index, inverted guard + continue, clone of the slice element
BLOB_NAME_BASE = '''	for _, policyStatement := range policyDoc.TrustPolicies {
		// exact match
		if policyStatement.Name == policyName {
			return (&policyStatement).clone(), nil
		}
	}
'''
BLOB_GLOBAL_BASE = '''	for _, policyStatement := range policyDoc.TrustPolicies {
		if policyStatement.GlobalPolicy {
			return (&policyStatement).clone(), nil
		}
	}
'''
BLOB_NAME_IDX = '''	for i := range policyDoc.TrustPolicies {
		if policyDoc.TrustPolicies[i].Name != policyName {
			continue
		}
		return policyDoc.TrustPolicies[i].clone(), nil
	}
'''
BLOB_GLOBAL_IDX = '''	for i := range policyDoc.TrustPolicies {
		if !policyDoc.TrustPolicies[i].GlobalPolicy {
			continue
		}
		return policyDoc.TrustPolicies[i].clone(), nil
	}
'''
VARIANTS += [
 dict(name='benign-blob-index-loops', expect='silent', edits=[(B, BLOB_NAME_BASE, BLOB_NAME_IDX), (B, BLOB_GLOBAL_BASE, BLOB_GLOBAL_IDX)]),
 dict(name='blob-index-clones-other-element', expect='flagged(blob/by-name)',
      edits=[(B, BLOB_NAME_BASE, BLOB_NAME_IDX.replace('return policyDoc.TrustPolicies[i].clone(), nil', 'return policyDoc.TrustPolicies[0].clone(), nil'))]),
 dict(name='blob-index-guard-polarity', expect='flagged(blob/by-name)',
      edits=[(B, BLOB_NAME_BASE, BLOB_NAME_IDX.replace('.Name != policyName', '.Name == policyName'))]),
 dict(name='blob-index-global-polarity', expect='flagged(blob/global)',
      edits=[(B, BLOB_GLOBAL_BASE, BLOB_GLOBAL_IDX.replace('if !policyDoc', 'if policyDoc'))]),
 dict(name='blob-index-clones-next-element', expect='flagged(blob/global)',
      edits=[(B, BLOB_GLOBAL_BASE, BLOB_GLOBAL_IDX.replace('return policyDoc.TrustPolicies[i].clone(), nil', 'return policyDoc.TrustPolicies[(i+1)%len(policyDoc.TrustPolicies)].clone(), nil'))]),
]

# --- shape C: the scan extracted into a helper method without error result; the two membership tests in a classifier
#     that answers with an enumeration constant; the selection method turns nil into the error
OCI_HELPER = '''	if policy := policyDoc.selectStatement(artifactPath); policy != nil {
		return policy, nil
	}
	return nil, ''' + ERR + '''
}

type scopeMatch int

const (
	scopeMatchNone scopeMatch = iota
	scopeMatchWildcard
	scopeMatchExact
)

func matchRegistryScopes(registryScopes []string, artifactPath string) scopeMatch {
	if slices.Contains(registryScopes, trustpolicy.Wildcard) {
		return scopeMatchWildcard
	}
	if slices.Contains(registryScopes, artifactPath) {
		return scopeMatchExact
	}
	return scopeMatchNone
}

func (policyDoc *OCIDocument) selectStatement(artifactPath string) *OCITrustPolicy {
	var wildcardPolicy *OCITrustPolicy
	var applicablePolicy *OCITrustPolicy
	for _, policyStatement := range policyDoc.TrustPolicies {
		switch matchRegistryScopes(policyStatement.RegistryScopes, artifactPath) {
		case scopeMatchWildcard:
			wildcardPolicy = (&policyStatement).clone()
		case scopeMatchExact:
			applicablePolicy = (&policyStatement).clone()
		}
	}
	if applicablePolicy != nil {
		return applicablePolicy
	}
	return wildcardPolicy
}
'''
def C(name, expect, frm=None, to=None, extra=()):
    body = OCI_HELPER
    if frm is not None:
        assert body.count(frm) == 1, name
        body = body.replace(frm, to)
    return dict(name=name, expect=expect, edits=[(O, OCI_BODY, body)] + list(extra))
VARIANTS += [
 C('benign-scan-helper-enum-classifier', 'silent'),
 C('scan-helper-classifier-prefix', 'flagged(oci/selection-predicate)',
   '\tif slices.Contains(registryScopes, artifactPath) {', '\tif hasPrefixScope(registryScopes, artifactPath) {', [PREFIX_HELPER]),
 C('scan-helper-classifier-default-exact', 'flagged(oci/selection-predicate)', '\treturn scopeMatchNone\n', '\treturn scopeMatchExact\n'),
 C('scan-helper-classifier-swapped', 'flagged(oci/precedence)',
   '\t\treturn scopeMatchWildcard\n\t}\n\tif slices.Contains(registryScopes, artifactPath) {\n\t\treturn scopeMatchExact\n',
   '\t\treturn scopeMatchExact\n\t}\n\tif slices.Contains(registryScopes, artifactPath) {\n\t\treturn scopeMatchWildcard\n'),
 C('scan-helper-classifies-first-statement', 'flagged(oci/selection-predicate)',
   'switch matchRegistryScopes(policyStatement.RegistryScopes, artifactPath) {', 'switch matchRegistryScopes(policyDoc.TrustPolicies[0].RegistryScopes, artifactPath) {'),
 C('scan-helper-wildcard-first', 'flagged(oci/precedence)',
   '\tif applicablePolicy != nil {\n\t\treturn applicablePolicy\n\t}\n\treturn wildcardPolicy\n', '\tif wildcardPolicy != nil {\n\t\treturn wildcardPolicy\n\t}\n\treturn applicablePolicy\n'),
 C('scan-helper-nil-not-refused', 'flagged(oci/precedence)',
   '\tif policy := policyDoc.selectStatement(artifactPath); policy != nil {\n\t\treturn policy, nil\n\t}\n\treturn nil, ' + ERR + '\n',
   '\treturn policyDoc.selectStatement(artifactPath), nil\n'),
 C('scan-helper-gets-path-with-separator', 'flagged(oci/path/value)', 'policyDoc.selectStatement(artifactPath); policy != nil', 'policyDoc.selectStatement(artifactReference[:len(artifactPath)+1]); policy != nil'),
 C('scan-helper-returns-loop-variable', 'flagged(returns-clone)', '\t\t\tapplicablePolicy = (&policyStatement).clone()\n', '\t\t\tapplicablePolicy = &policyStatement\n'),
 C('scan-helper-break-on-exact', 'flagged(oci/no-early-exit)', '\t\t\tapplicablePolicy = (&policyStatement).clone()\n', '\t\t\tapplicablePolicy = (&policyStatement).clone()\n\t\t\treturn applicablePolicy\n'),
]

# --- shape D: blob search in a helper that takes the condition as a predicate; the two methods pass closures
BLOB_CLONE_DOC = '// clone returns a pointer to the deep copied [BlobTrustPolicy]'
BLOB_FIRST = '''func (policyDoc *BlobDocument) firstStatement(match func(statement *BlobTrustPolicy) bool) *BlobTrustPolicy {
	for _, policyStatement := range policyDoc.TrustPolicies {
		if match(&policyStatement) {
			return (&policyStatement).clone()
		}
	}
	return nil
}

'''
BLOB_NAME_PRED = '''	hasName := func(statement *BlobTrustPolicy) bool {
		return statement.Name == policyName
	}
	if policy := policyDoc.firstStatement(hasName); policy != nil {
		return policy, nil
	}
'''
BLOB_GLOBAL_PRED = '''	isGlobal := func(statement *BlobTrustPolicy) bool {
		return statement.GlobalPolicy
	}
	if policy := policyDoc.firstStatement(isGlobal); policy != nil {
		return policy, nil
	}
'''
def D(name, expect, what=None, frm=None, to=None):
    parts = dict(first=BLOB_FIRST, name=BLOB_NAME_PRED, glob=BLOB_GLOBAL_PRED)
    if what is not None:
        assert parts[what].count(frm) == 1, name
        parts[what] = parts[what].replace(frm, to)
    return dict(name=name, expect=expect, edits=[(B, BLOB_NAME_BASE, parts['name']), (B, BLOB_GLOBAL_BASE, parts['glob']), (B, BLOB_CLONE_DOC, parts['first'] + BLOB_CLONE_DOC)])
VARIANTS += [
 D('benign-blob-predicate-helper', 'silent'),
 D('blob-predicate-name-fold', 'flagged(blob/by-name)', 'name', 'return statement.Name == policyName', 'return strings.EqualFold(statement.Name, policyName)'),
 D('blob-predicate-ignores-name', 'flagged(blob/by-name)', 'name', 'return statement.Name == policyName', 'return statement.GlobalPolicy'),
 D('blob-predicate-captured-name-changed', 'flagged(blob/by-name)', 'name',
   '\tif policy := policyDoc.firstStatement(hasName); policy != nil {', '\tpolicyName = strings.ToLower(policyName)\n\tif policy := policyDoc.firstStatement(hasName); policy != nil {'),
 D('blob-predicate-nil-not-refused', 'flagged(blob/not-found)', 'name',
   '\tif policy := policyDoc.firstStatement(hasName); policy != nil {\n\t\treturn policy, nil\n\t}\n', '\tif policy := policyDoc.firstStatement(hasName); policy != nil || len(policyDoc.TrustPolicies) == 0 {\n\t\treturn policy, nil\n\t}\n'),
 D('blob-predicate-helper-clones-other', 'flagged(blob/global)', 'first', 'return (&policyStatement).clone()', 'return policyDoc.TrustPolicies[0].clone()'),
 D('blob-predicate-helper-inverted', 'flagged(blob/by-name)', 'first', 'if match(&policyStatement) {', 'if !match(&policyStatement) {'),
 D('blob-predicate-helper-fallback-first', 'flagged(blob/not-found)', 'first',
   '\t}\n\treturn nil\n}', '\t}\n\tif len(policyDoc.TrustPolicies) > 0 {\n\t\treturn policyDoc.TrustPolicies[0].clone()\n\t}\n\treturn nil\n}'),
 D('blob-predicate-helper-returns-loop-variable', 'flagged(returns-clone)', 'first', 'return (&policyStatement).clone()', 'return &policyStatement'),
]

# --- shape E: blob search with the standard library's slices.IndexFunc; the element at the index found is cloned
STD_SLICES = [(B, '\t"strings"\n', '\t"slices"\n\t"strings"\n'), (B, '\t"github.com/notaryproject/notation-go/internal/slices"\n', '')]
BLOB_NAME_END = BLOB_NAME_BASE + '\treturn nil, fmt.Errorf("no applicable blob trust policy with name %q", policyName)\n'
BLOB_NAME_IDXFUNC = '''	i := slices.IndexFunc(policyDoc.TrustPolicies, func(policyStatement BlobTrustPolicy) bool {
		return policyStatement.Name == policyName
	})
	if i < 0 {
		return nil, fmt.Errorf("no applicable blob trust policy with name %q", policyName)
	}
	return policyDoc.TrustPolicies[i].clone(), nil
'''
BLOB_GLOBAL_IDXFUNC = '''	if i := slices.IndexFunc(policyDoc.TrustPolicies, func(policyStatement BlobTrustPolicy) bool {
		return policyStatement.GlobalPolicy
	}); i >= 0 {
		return policyDoc.TrustPolicies[i].clone(), nil
	}
'''
def E(name, expect, what=None, frm=None, to=None):
    parts = dict(name=BLOB_NAME_IDXFUNC, glob=BLOB_GLOBAL_IDXFUNC)
    if what is not None:
        assert parts[what].count(frm) == 1, name
        parts[what] = parts[what].replace(frm, to)
    return dict(name=name, expect=expect, edits=STD_SLICES + [(B, BLOB_NAME_END, parts['name']), (B, BLOB_GLOBAL_BASE, parts['glob'])])
VARIANTS += [
 E('benign-blob-indexfunc', 'silent'),
 E('blob-indexfunc-clones-other-element', 'flagged(blob/by-name)', 'name', 'return policyDoc.TrustPolicies[i].clone(), nil', 'return policyDoc.TrustPolicies[0].clone(), nil'),
 E('blob-indexfunc-prefix-predicate', 'flagged(blob/by-name)', 'name', 'return policyStatement.Name == policyName', 'return strings.HasPrefix(policyStatement.Name, policyName)'),
 E('blob-indexfunc-fallback-first', 'flagged(blob/by-name)', 'name',
   '\tif i < 0 {\n', '\tif i < 0 && len(policyDoc.TrustPolicies) > 0 {\n\t\ti = 0\n\t}\n\tif i < 0 {\n'),
 E('blob-indexfunc-negated-predicate', 'flagged(blob/global)', 'glob', 'return policyStatement.GlobalPolicy', 'return !policyStatement.GlobalPolicy'),
 E('blob-indexfunc-found-not-checked', 'flagged(blob/global)', 'glob', '}); i >= 0 {', '}); i >= -1 && len(policyDoc.TrustPolicies) > 0 {\n\t\tif i < 0 {\n\t\t\ti = 0\n\t\t}'),
]

# --- shape F: byte-oriented spelling of the separator search
VARIANTS += [
 dict(name='benign-lastindexbyte', file=O, expect='silent',
      find='i := strings.LastIndex(artifactReference, "@")', replace="i := strings.LastIndexByte(artifactReference, '@')"),
 dict(name='path-indexbyte-first-at', file=O, expect='flagged(oci/path)',
      find='i := strings.LastIndex(artifactReference, "@")', replace="i := strings.IndexByte(artifactReference, '@')"),
 dict(name='path-lastindexbyte-colon', file=O, expect='flagged(oci/path)',
      find='i := strings.LastIndex(artifactReference, "@")', replace="i := strings.LastIndexByte(artifactReference, ':')"),
]

# --- shape G: the path extraction inlined into the selection method
PATH_CALL = '''	artifactPath, err := getArtifactPathFromReference(artifactReference)
	if err != nil {
		return nil, err
	}
'''
PATH_INLINE = '''	digestSeparator := strings.LastIndex(artifactReference, "@")
	if digestSeparator < 0 {
		return nil, fmt.Errorf("artifact URI %q could not be parsed, make sure it is the fully qualified oci artifact URI without the scheme/protocol. e.g domain.com:80/my/repository@sha256:digest", artifactReference)
	}
	artifactPath := artifactReference[:digestSeparator]
	if err := validateRegistryScopeFormat(artifactPath); err != nil {
		return nil, err
	}
'''
def G(name, expect, frm=None, to=None):
    body = PATH_INLINE
    if frm is not None:
        assert body.count(frm) == 1, name
        body = body.replace(frm, to)
    return dict(name=name, expect=expect, edits=[(O, PATH_CALL, body)])
VARIANTS += [
 G('benign-path-inlined', 'silent'),
 G('inlined-path-not-validated', 'flagged(oci/path/format-validated)', '\tif err := validateRegistryScopeFormat(artifactPath); err != nil {\n\t\treturn nil, err\n\t}\n', ''),
 G('inlined-path-first-at', 'flagged(oci/path)', 'strings.LastIndex(artifactReference, "@")', 'strings.Index(artifactReference, "@")'),
 G('inlined-path-keeps-separator', 'flagged(oci/path/value)', 'artifactPath := artifactReference[:digestSeparator]', 'artifactPath := artifactReference[:digestSeparator+1]'),
 G('inlined-path-validates-other-value', 'flagged(oci/path/format-validated)', 'validateRegistryScopeFormat(artifactPath)', 'validateRegistryScopeFormat(artifactReference[digestSeparator+1:] + "/x")'),
 G('inlined-path-lowercased', 'flagged(oci/path/value)', 'artifactPath := artifactReference[:digestSeparator]', 'artifactPath := strings.ToLower(artifactReference[:digestSeparator])'),
]

# --- shape H: clone with a value receiver: the receiver is already a shallow copy, its reference-typed fields are replaced
CLONE_OCI_BASE = '''func (t *OCITrustPolicy) clone() *OCITrustPolicy {
	return &OCITrustPolicy{
		Name:                  t.Name,
		SignatureVerification: t.SignatureVerification.clone(),
		TrustedIdentities:     append([]string(nil), t.TrustedIdentities...),
		TrustStores:           append([]string(nil), t.TrustStores...),
		RegistryScopes:        append([]string(nil), t.RegistryScopes...),
	}
}
'''
CLONE_OCI_VALUE = '''func (t OCITrustPolicy) clone() *OCITrustPolicy {
	t.SignatureVerification = t.SignatureVerification.clone()
	t.TrustedIdentities = append([]string(nil), t.TrustedIdentities...)
	t.TrustStores = append([]string(nil), t.TrustStores...)
	t.RegistryScopes = append([]string(nil), t.RegistryScopes...)
	return &t
}
'''
CLONE_BLOB_BASE = '''func (t *BlobTrustPolicy) clone() *BlobTrustPolicy {
	return &BlobTrustPolicy{
		Name:                  t.Name,
		SignatureVerification: t.SignatureVerification.clone(),
		TrustedIdentities:     append([]string(nil), t.TrustedIdentities...),
		TrustStores:           append([]string(nil), t.TrustStores...),
		GlobalPolicy:          t.GlobalPolicy,
	}
}
'''
CLONE_BLOB_VALUE = '''func (t BlobTrustPolicy) clone() *BlobTrustPolicy {
	t.SignatureVerification = t.SignatureVerification.clone()
	t.TrustedIdentities = append([]string(nil), t.TrustedIdentities...)
	t.TrustStores = append([]string(nil), t.TrustStores...)
	return &t
}
'''
def H(name, expect, frm=None, to=None):
    body = CLONE_OCI_VALUE
    if frm is not None:
        assert body.count(frm) == 1, name
        body = body.replace(frm, to)
    return dict(name=name, expect=expect, edits=[(O, CLONE_OCI_BASE, body), (B, CLONE_BLOB_BASE, CLONE_BLOB_VALUE)])
VARIANTS += [
 H('benign-value-receiver-clone', 'silent'),
 H('value-clone-forgets-scopes', 'flagged(clone/)', '\tt.RegistryScopes = append([]string(nil), t.RegistryScopes...)\n', ''),
 H('value-clone-shallow-verification', 'flagged(clone/)', '\tt.SignatureVerification = t.SignatureVerification.clone()\n', ''),
 H('value-clone-append-in-place', 'flagged(clone/)', 'append([]string(nil), t.TrustStores...)', 'append(t.TrustStores[:0], t.TrustStores...)'),
 H('value-clone-returns-receiver-pointer', 'flagged(clone/)', CLONE_OCI_VALUE, CLONE_OCI_VALUE.replace('func (t OCITrustPolicy) clone()', 'func (t *OCITrustPolicy) clone()').replace('return &t', 'return t')),
]

# --- attribution of facts: by SSA identity of the statement, not by how a variable is called; captured variables by their only value
VARIANTS += [
 D('blob-predicate-captured-name-set-late', 'flagged(blob/by-name)', 'name', BLOB_NAME_PRED, '''	var wanted string
	hasName := func(statement *BlobTrustPolicy) bool {
		return statement.Name == wanted
	}
	policy := policyDoc.firstStatement(hasName)
	wanted = policyName
	if policy != nil {
		return policy, nil
	}
'''),
 dict(name='blob-shadowed-loop-variable', expect='flagged(blob/by-name)', edits=[(B, BLOB_NAME_BASE, '''	for _, policyStatement := range policyDoc.TrustPolicies {
		outer := &policyStatement
		for _, policyStatement := range policyDoc.TrustPolicies {
			if policyStatement.Name == policyName {
				return outer.clone(), nil
			}
		}
	}
''')]),
 dict(name='oci-shadowed-loop-variable', expect='flagged(oci/selection-predicate)', edits=[(O, '''		} else if slices.Contains(policyStatement.RegistryScopes, artifactPath) {
			applicablePolicy = (&policyStatement).clone()
		}
''', '''		} else {
			outer := &policyStatement
			for _, policyStatement := range policyDoc.TrustPolicies {
				if slices.Contains(policyStatement.RegistryScopes, artifactPath) {
					applicablePolicy = outer.clone()
				}
			}
		}
''')]),
]
VARIANTS += [
 dict(name='blob-shadowed-loop-variable-addressed', expect='flagged(blob/by-name)', edits=[(B, BLOB_NAME_BASE, '''	for _, policyStatement := range policyDoc.TrustPolicies {
		outer := &policyStatement
		for _, policyStatement := range policyDoc.TrustPolicies {
			if blobNamed(&policyStatement, policyName) {
				return outer.clone(), nil
			}
		}
	}
'''), (B, BLOB_CLONE_DOC, 'func blobNamed(s *BlobTrustPolicy, n string) bool { return s.Name == n }\n\n' + BLOB_CLONE_DOC)]),
]

# --- a success exit that bypasses the selection (base shape and scan-helper shape)
BYPASS = '''	if len(policyDoc.TrustPolicies) == 1 {
		return (&policyDoc.TrustPolicies[0]).clone(), nil
	}
'''
VARIANTS += [
 dict(name='oci-single-statement-shortcut', expect='flagged(oci/selected-only)', edits=[(O, '\tvar wildcardPolicy *OCITrustPolicy\n\tvar applicablePolicy *OCITrustPolicy\n\tfor _, policyStatement', BYPASS + '\tvar wildcardPolicy *OCITrustPolicy\n\tvar applicablePolicy *OCITrustPolicy\n\tfor _, policyStatement')]),
 C('scan-helper-single-statement-shortcut', 'flagged(oci/selected-only)',
   '\tif policy := policyDoc.selectStatement(artifactPath); policy != nil {', BYPASS + '\tif policy := policyDoc.selectStatement(artifactPath); policy != nil {'),
]
