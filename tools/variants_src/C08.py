O = 'verifier/trustpolicy/oci.go'
B = 'verifier/trustpolicy/blob.go'
T = 'verifier/trustpolicy/trustpolicy.go'
V = 'verifier/verifier.go'
VARIANTS = [
 dict(name='F2-reintroduced-oci', file=O, expect='flagged(clone/)',
      find='SignatureVerification: t.SignatureVerification.clone(),', replace='SignatureVerification: t.SignatureVerification,'),
 dict(name='F2-reintroduced-blob', file=B, expect='flagged(clone/)',
      find='SignatureVerification: t.SignatureVerification.clone(),', replace='SignatureVerification: t.SignatureVerification,'),
 dict(name='override-clone-shallow', file=T, expect='flagged(clone/)',
      find='''		override := make(map[ValidationType]ValidationAction, len(signatureVerification.Override))
		for k, v := range signatureVerification.Override {
			override[k] = v
		}
		signatureVerification.Override = override''', replace='''		override := signatureVerification.Override
		signatureVerification.Override = override'''),
 dict(name='clone-aliases-stores', file=O, expect='flagged(clone/)',
      find='TrustStores:           append([]string(nil), t.TrustStores...),\n\t\tRegistryScopes', replace='TrustStores:           t.TrustStores,\n\t\tRegistryScopes'),
 dict(name='clone-swaps-fields', file=O, expect='flagged(clone-complete)',
      find='TrustedIdentities:     append([]string(nil), t.TrustedIdentities...),\n\t\tTrustStores:           append([]string(nil), t.TrustStores...),\n\t\tRegistryScopes',
      replace='TrustedIdentities:     append([]string(nil), t.TrustStores...),\n\t\tTrustStores:           append([]string(nil), t.TrustedIdentities...),\n\t\tRegistryScopes'),
 dict(name='returns-document-pointer', file=B, expect='flagged(returns-clone)',
      find='\t\tif policyStatement.GlobalPolicy {\n\t\t\treturn (&policyStatement).clone(), nil\n\t\t}', replace='\t\tif policyStatement.GlobalPolicy {\n\t\t\treturn &policyStatement, nil\n\t\t}'),
 dict(name='prefix-match', file=O, expect='flagged(oci/selection-predicate)',
      find='} else if slices.Contains(policyStatement.RegistryScopes, artifactPath) {', replace='} else if hasPrefixScope(policyStatement.RegistryScopes, artifactPath) {',
      edits=[(O, '// clone returns a pointer to the deep copied [OCITrustPolicy]', 'func hasPrefixScope(scopes []string, p string) bool {\n\tfor _, s := range scopes {\n\t\tif strings.HasPrefix(p, s) {\n\t\t\treturn true\n\t\t}\n\t}\n\treturn false\n}\n\n// clone returns a pointer to the deep copied [OCITrustPolicy]')]),
 dict(name='wildcard-preferred', file=O, expect='flagged(oci/precedence)',
      find='''	if applicablePolicy != nil {
		// a policy with exact match for registry scope takes precedence over
		// a wildcard (*) policy.
		return applicablePolicy, nil
	} else if wildcardPolicy != nil {
		return wildcardPolicy, nil
	} else {''', replace='''	if wildcardPolicy != nil {
		return wildcardPolicy, nil
	} else if applicablePolicy != nil {
		return applicablePolicy, nil
	} else {'''),
 dict(name='no-match-returns-first', file=O, expect='flagged(oci/precedence)',
      find='\t} else {\n\t\treturn nil, fmt.Errorf("artifact %q has no applicable oci trust policy statement.', replace='\t} else if len(policyDoc.TrustPolicies) == 1 {\n\t\treturn (&policyDoc.TrustPolicies[0]).clone(), nil\n\t} else {\n\t\treturn nil, fmt.Errorf("artifact %q has no applicable oci trust policy statement.'),
 dict(name='break-on-wildcard', file=O, expect='flagged(oci/no-early-exit)',
      find='\t\t\twildcardPolicy = (&policyStatement).clone()\n', replace='\t\t\twildcardPolicy = (&policyStatement).clone()\n\t\t\tbreak\n'),
 dict(name='path-first-at', file=O, expect='flagged(oci/path)',
      find='i := strings.LastIndex(artifactReference, "@")', replace='i := strings.Index(artifactReference, "@")'),
 dict(name='path-not-validated', file=O, expect='flagged(oci/path/format-validated)',
      find='\tif err := validateRegistryScopeFormat(artifactPath); err != nil {\n\t\treturn "", err\n\t}\n\treturn artifactPath, nil', replace='\treturn artifactPath, nil'),
 dict(name='blob-name-fold', file=B, expect='flagged(blob/by-name)',
      find='\t\tif policyStatement.Name == policyName {', replace='\t\tif strings.EqualFold(policyStatement.Name, policyName) {'),
 dict(name='blob-global-any', file=B, expect='flagged(blob/global)',
      find='\t\tif policyStatement.GlobalPolicy {\n\t\t\treturn (&policyStatement).clone(), nil', replace='\t\tif policyStatement.GlobalPolicy || len(policyDoc.TrustPolicies) == 1 {\n\t\t\treturn (&policyStatement).clone(), nil'),
 dict(name='blob-not-found-global', file=B, expect='flagged(blob/not-found)',
      find='\treturn nil, fmt.Errorf("no applicable blob trust policy with name %q", policyName)', replace='\treturn policyDoc.GetGlobalTrustPolicy()'),
 dict(name='named-falls-back-to-global', file=V, expect='flagged(callsite/global-iff-no-name)',
      find='\tif opts.TrustPolicyName == "" {\n\t\ttrustPolicy, err = v.blobTrustPolicyDoc.GetGlobalTrustPolicy()\n\t} else {\n\t\ttrustPolicy, err = v.blobTrustPolicyDoc.GetApplicableTrustPolicy(opts.TrustPolicyName)\n\t}',
      replace='\tif opts.TrustPolicyName == "" {\n\t\ttrustPolicy, err = v.blobTrustPolicyDoc.GetGlobalTrustPolicy()\n\t} else {\n\t\ttrustPolicy, err = v.blobTrustPolicyDoc.GetApplicableTrustPolicy(opts.TrustPolicyName)\n\t\tif err != nil {\n\t\t\ttrustPolicy, err = v.blobTrustPolicyDoc.GetGlobalTrustPolicy()\n\t\t}\n\t}'),
 # benign
 dict(name='benign-clone-by-copy', file=B, expect='silent',
      find='''	return &BlobTrustPolicy{
		Name:                  t.Name,
		SignatureVerification: t.SignatureVerification.clone(),
		TrustedIdentities:     append([]string(nil), t.TrustedIdentities...),
		TrustStores:           append([]string(nil), t.TrustStores...),
		GlobalPolicy:          t.GlobalPolicy,
	}''', replace='''	cloned := *t
	cloned.SignatureVerification = t.SignatureVerification.clone()
	cloned.TrustedIdentities = append([]string(nil), t.TrustedIdentities...)
	cloned.TrustStores = append([]string(nil), t.TrustStores...)
	return &cloned'''),
 dict(name='benign-precedence-switch', file=O, expect='silent',
      find='''	if applicablePolicy != nil {
		// a policy with exact match for registry scope takes precedence over
		// a wildcard (*) policy.
		return applicablePolicy, nil
	} else if wildcardPolicy != nil {
		return wildcardPolicy, nil
	} else {
		return nil, fmt.Errorf(''', replace='''	switch {
	case applicablePolicy != nil:
		return applicablePolicy, nil
	case wildcardPolicy != nil:
		return wildcardPolicy, nil
	default:
		return nil, fmt.Errorf('''),
 dict(name='benign-exact-first', file=O, expect='silent',
      find='''		if slices.Contains(policyStatement.RegistryScopes, trustpolicy.Wildcard) {
			// we need to deep copy because we can't use the loop variable
			// address. see https://stackoverflow.com/a/45967429
			wildcardPolicy = (&policyStatement).clone()
		} else if slices.Contains(policyStatement.RegistryScopes, artifactPath) {
			applicablePolicy = (&policyStatement).clone()
		}''', replace='''		if slices.Contains(policyStatement.RegistryScopes, artifactPath) {
			applicablePolicy = (&policyStatement).clone()
		} else if slices.Contains(policyStatement.RegistryScopes, trustpolicy.Wildcard) {
			wildcardPolicy = (&policyStatement).clone()
		}'''),
]
