O = 'verifier/trustpolicy/oci.go'
B = 'verifier/trustpolicy/blob.go'
T = 'verifier/trustpolicy/trustpolicy.go'
F = 'internal/file/file.go'
V = 'verifier/verifier.go'
VARIANTS = [
 dict(name='F1-reintroduced', file=B, expect='flagged(blob/document/global-rules)',
      edits=[(B, '\t"fmt"\n', '\t"fmt"\n\t"reflect"\n')],
      find='if statement.SignatureVerification.VerificationLevel == LevelSkip.Name {', replace='if reflect.DeepEqual(statement.SignatureVerification.VerificationLevel, LevelSkip) {'),
 dict(name='second-global-accepted', file=B, expect='flagged(blob/document/global-rules)',
      find='\t\t\tfoundGlobalPolicy = true\n', replace='\t\t\tfoundGlobalPolicy = false\n'),
 dict(name='blob-version-unchecked', file=B, expect='flagged(blob/document/unsupported-version)',
      find='\tif !slices.Contains(supportedBlobPolicyVersions, policyDoc.Version) {', replace='\tif !slices.Contains(supportedBlobPolicyVersions, policyDoc.Version) && len(policyDoc.Version) > 3 {'),
 dict(name='oci-empty-doc', file=O, expect='flagged(oci/document/no-statements)',
      find='\tif len(policyDoc.TrustPolicies) == 0 {\n\t\treturn errors.New("oci trust policy document can not have zero', replace='\tif policyDoc.TrustPolicies == nil {\n\t\treturn errors.New("oci trust policy document can not have zero'),
 dict(name='blob-duplicate-names', file=B, expect='flagged(blob/document/duplicate-name)',
      find='\t\tpolicyNames.Add(statement.Name)\n\t}\n\treturn nil', replace='\t\tif statement.GlobalPolicy {\n\t\t\tpolicyNames.Add(statement.Name)\n\t\t}\n\t}\n\treturn nil'),
 dict(name='oci-core-skipped-for-wildcard', file=O, expect='flagged(oci/document/core-rules)',
      find='\t\tif err := validatePolicyCore(statement.Name, statement.SignatureVerification, statement.TrustStores, statement.TrustedIdentities); err != nil {\n\t\t\treturn fmt.Errorf("oci trust policy: %w", err)',
      replace='\t\tif err := validatePolicyCore(statement.Name, statement.SignatureVerification, statement.TrustStores, statement.TrustedIdentities); err != nil && len(statement.RegistryScopes) > 0 {\n\t\t\treturn fmt.Errorf("oci trust policy: %w", err)'),
 dict(name='scope-rules-dropped', file=O, expect='flagged(oci/document/scope-rules)',
      find='\tif err := validateRegistryScopes(policyDoc); err != nil {\n\t\treturn err\n\t}\n\treturn nil', replace='\treturn nil'),
 dict(name='empty-name', file=T, expect='flagged(core/empty-name)',
      find='\tif name == "" {\n\t\treturn errors.New("a trust policy statement is missing a name', replace='\tif name == "" && len(trustStores) == 0 {\n\t\treturn errors.New("a trust policy statement is missing a name'),
 dict(name='verify-timestamp-any', file=T, expect='flagged(core/verify-timestamp-option)',
      find='\t\tsignatureVerification.VerifyTimestamp != OptionAlways &&\n', replace=''),
 dict(name='skip-with-stores', file=T, expect='flagged(core/skip-no-stores)',
      find='\t\tif len(trustStores) > 0 || len(trustedIdentities) > 0 {', replace='\t\tif len(trustStores) > 0 && len(trustedIdentities) > 0 {'),
 dict(name='non-skip-without-identities', file=T, expect='flagged(core/non-skip-identities)',
      find='\t\tif len(trustStores) == 0 || len(trustedIdentities) == 0 {', replace='\t\tif len(trustStores) == 0 {'),
 dict(name='stores-unvalidated', file=T, expect='flagged(core/store-rules)',
      find='\t\tif err := validateTrustStore(name, trustStores); err != nil {\n\t\t\treturn err\n\t\t}\n', replace=''),
 dict(name='store-type-unchecked', file=T, expect='flagged(store/known-type)',
      find='\t\tif !isValidTrustStoreType(storeType) {', replace='\t\tif !isValidTrustStoreType(storeType) && storeType == "" {'),
 dict(name='store-name-unchecked', file=T, expect='flagged(store/safe-name)',
      find='\t\tif !file.IsValidFileName(namedStore) {', replace='\t\tif namedStore == "" && file.IsValidFileName(storeType) {'),
 dict(name='F6-dots-reintroduced', file=F, expect='flagged(file-name/certified)',
      find='\tif fileName == "." || fileName == ".." {\n\t\treturn false\n\t}\n', replace=''),
 dict(name='filename-allows-slash', file=F, expect='flagged(file-name/certified)',
      find='`^[a-zA-Z0-9_.-]+$`', replace='`^[a-zA-Z0-9_./-]+$`'),
 dict(name='filename-unanchored', file=F, expect='flagged(file-name/certified)',
      find='`^[a-zA-Z0-9_.-]+$`', replace='`[a-zA-Z0-9_.-]+`'),
 dict(name='wildcard-identity-with-others', file=T, expect='flagged(identity/wildcard-alone)',
      find='\tif len(tis) > 1 && slices.Contains(tis, trustpolicy.Wildcard) {', replace='\tif len(tis) > 2 && slices.Contains(tis, trustpolicy.Wildcard) {'),
 dict(name='identity-empty-value', file=T, expect='flagged(identity/empty-value)',
      find='\t\t\t\tif identityValue == "" {\n\t\t\t\t\treturn fmt.Errorf("trust policy statement %q has trusted identity %q without an identity value", policyName, identity)\n\t\t\t\t}\n', replace=''),
 dict(name='identity-dn-error-skipped', file=T, expect='flagged(identity/dn-parses)',
      find='\t\t\t\tif err != nil {\n\t\t\t\t\treturn fmt.Errorf("trust policy statement %q has trusted identity %q with invalid identity value: %w", policyName, identity, err)\n\t\t\t\t}',
      replace='\t\t\t\tif err != nil {\n\t\t\t\t\tcontinue\n\t\t\t\t}'),
 dict(name='overlap-half-pairs', file=T, expect='flagged(identity/overlap/all-ordered-pairs)',
      find='\t\tfor j, dn2 := range parsedDNs {\n\t\t\tif i != j && pkix.IsSubsetDN(dn1.ParsedMap, dn2.ParsedMap) {', replace='\t\tfor j, dn2 := range parsedDNs {\n\t\t\tif i < j && pkix.IsSubsetDN(dn1.ParsedMap, dn2.ParsedMap) {'),
 dict(name='overlap-not-called', file=T, expect='flagged(identity/overlap)',
      find='\tif err := validateOverlappingDNs(policyName, parsedDNs); err != nil {\n\t\treturn err\n\t}', replace='\t_ = parsedDNs'),
 dict(name='scope-empty-allowed', file=O, expect='flagged(scope/present)',
      find='\t\tif len(statement.RegistryScopes) == 0 {\n\t\t\treturn fmt.Errorf("oci trust policy statement %q has zero registry scopes', replace='\t\tif statement.RegistryScopes == nil {\n\t\t\treturn fmt.Errorf("oci trust policy statement %q has zero registry scopes'),
 dict(name='scope-wildcard-with-others', file=O, expect='flagged(scope/wildcard-alone)',
      find='\t\tif len(statement.RegistryScopes) > 1 && slices.Contains(statement.RegistryScopes, trustpolicy.Wildcard) {', replace='\t\tif len(statement.RegistryScopes) > 1 && statement.RegistryScopes[0] == trustpolicy.Wildcard {'),
 dict(name='scope-duplicate-allowed', file=O, expect='flagged(scope/unique)',
      find='\t\tif registryScopeCount[key] > 1 {', replace='\t\tif registryScopeCount[key] > 2 {'),
 dict(name='scope-star-inside', file=O, expect='flagged(scope-format/no-embedded-wildcard)',
      find='\tif len(scope) > 1 && strings.Contains(scope, "*") {', replace='\tif len(scope) > 1 && strings.HasPrefix(scope, "*") {'),
 dict(name='scope-domain-unmatched', file=O, expect='flagged(scope-format/domain-pattern)',
      find='\tif domain == "" || repository == "" || !domainRegexp.MatchString(domain) || !repositoryRegexp.MatchString(repository) {', replace='\tif domain == "" || repository == "" || !repositoryRegexp.MatchString(repository) {\n\t\t_ = domainRegexp'),
 dict(name='constructor-skips-blob-validate', file=V, expect='flagged(forced/validate-blobdocument)',
      find='\tif blobTrustPolicy != nil {\n\t\tif err := blobTrustPolicy.Validate(); err != nil {\n\t\t\treturn nil, err\n\t\t}\n\t}', replace='\tif blobTrustPolicy != nil && ociTrustPolicy == nil {\n\t\tif err := blobTrustPolicy.Validate(); err != nil {\n\t\t\treturn nil, err\n\t\t}\n\t}'),
 dict(name='unknown-level-name', file=T, expect='flagged(level/known)',
      find='\tif baseLevel == nil {\n\t\treturn nil, fmt.Errorf("invalid signature verification level %q", signatureVerification.VerificationLevel)\n\t}', replace='\tif baseLevel == nil {\n\t\tbaseLevel = LevelAudit\n\t}'),
 # benign
 dict(name='benign-len-lt-1', file=O, expect='silent',
      find='\tif len(policyDoc.TrustPolicies) == 0 {\n\t\treturn errors.New("oci trust policy document can not have zero', replace='\tif len(policyDoc.TrustPolicies) < 1 {\n\t\treturn errors.New("oci trust policy document can not have zero'),
 dict(name='benign-error-texts', file=T, expect='silent',
      find='return errors.New("a trust policy statement is missing a name, every statement requires a name")', replace='return fmt.Errorf("a trust policy statement is missing a name (%d stores)", len(trustStores))'),
 dict(name='benign-wildcard-early-continue-counted', file=O, expect='silent',
      find='''			if scope != trustpolicy.Wildcard {
				if err := validateRegistryScopeFormat(scope); err != nil {
					return err
				}
			}
			registryScopeCount[scope]++''', replace='''			registryScopeCount[scope]++
			if scope == trustpolicy.Wildcard {
				continue
			}
			if err := validateRegistryScopeFormat(scope); err != nil {
				return err
			}'''),
 dict(name='benign-filename-explicit-empty', file=F, expect='silent',
      find='\tif fileName == "." || fileName == ".." {', replace='\tif fileName == "" || fileName == "." || fileName == ".." {'),
]
