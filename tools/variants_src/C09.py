O = 'verifier/trustpolicy/oci.go'
B = 'verifier/trustpolicy/blob.go'
T = 'verifier/trustpolicy/trustpolicy.go'
F = 'internal/file/file.go'
V = 'verifier/verifier.go'
VARIANTS = [
 dict(name='F1-reintroduced', file=B, expect='flagged(blob/document/global-rules)',
      edits=[(B, '\t"fmt"\n', '\t"fmt"\n\t"reflect"\n')],
      find='if statement.SignatureVerification.VerificationLevel == LevelSkip.Name {', replace='if reflect.DeepEqual(statement.SignatureVerification.VerificationLevel, LevelSkip) {'),
 dict(name='second-global-accepted', file=B, expect='flagged(blob/document/global-rules)',
      find='\t\t\tfoundGlobalPolicy = true\n', replace='\t\t\tfoundGlobalPolicy = false\n'),
 dict(name='blob-version-unchecked', file=B, expect='flagged(blob/document/unsupported-version)',
      find='\tif !slices.Contains(supportedBlobPolicyVersions, policyDoc.Version) {', replace='\tif !slices.Contains(supportedBlobPolicyVersions, policyDoc.Version) && len(policyDoc.Version) > 3 {'),
 dict(name='oci-empty-doc', file=O, expect='flagged(oci/document/no-statements)',
      find='\tif len(policyDoc.TrustPolicies) == 0 {\n\t\treturn errors.New("oci trust policy document can not have zero', replace='\tif policyDoc.TrustPolicies == nil {\n\t\treturn errors.New("oci trust policy document can not have zero'),
 dict(name='blob-duplicate-names', file=B, expect='flagged(blob/document/duplicate-name)',
      find='\t\tpolicyNames.Add(statement.Name)\n\t}\n\treturn nil', replace='\t\tif statement.GlobalPolicy {\n\t\t\tpolicyNames.Add(statement.Name)\n\t\t}\n\t}\n\treturn nil'),
 dict(name='oci-core-skipped-for-wildcard', file=O, expect='flagged(oci/document/core-rules)',
      find='\t\tif err := validatePolicyCore(statement.Name, statement.SignatureVerification, statement.TrustStores, statement.TrustedIdentities); err != nil {\n\t\t\treturn fmt.Errorf("oci trust policy: %w", err)',
      replace='\t\tif err := validatePolicyCore(statement.Name, statement.SignatureVerification, statement.TrustStores, statement.TrustedIdentities); err != nil && len(statement.RegistryScopes) > 0 {\n\t\t\treturn fmt.Errorf("oci trust policy: %w", err)'),
 dict(name='scope-rules-dropped', file=O, expect='flagged(oci/document/scope-rules)',
      find='\tif err := validateRegistryScopes(policyDoc); err != nil {\n\t\treturn err\n\t}\n\treturn nil', replace='\treturn nil'),
 dict(name='empty-name', file=T, expect='flagged(core/empty-name)',
      find='\tif name == "" {\n\t\treturn errors.New("a trust policy statement is missing a name', replace='\tif name == "" && len(trustStores) == 0 {\n\t\treturn errors.New("a trust policy statement is missing a name'),
 dict(name='verify-timestamp-any', file=T, expect='flagged(core/verify-timestamp-option)',
      find='\t\tsignatureVerification.VerifyTimestamp != OptionAlways &&\n', replace=''),
 dict(name='skip-with-stores', file=T, expect='flagged(core/skip-no-stores)',
      find='\t\tif len(trustStores) > 0 || len(trustedIdentities) > 0 {', replace='\t\tif len(trustStores) > 0 && len(trustedIdentities) > 0 {'),
 dict(name='non-skip-without-identities', file=T, expect='flagged(core/non-skip-identities)',
      find='\t\tif len(trustStores) == 0 || len(trustedIdentities) == 0 {', replace='\t\tif len(trustStores) == 0 {'),
 dict(name='stores-unvalidated', file=T, expect='flagged(core/store-rules)',
      find='\t\tif err := validateTrustStore(name, trustStores); err != nil {\n\t\t\treturn err\n\t\t}\n', replace=''),
 dict(name='store-type-unchecked', file=T, expect='flagged(store/known-type)',
      find='\t\tif !isValidTrustStoreType(storeType) {', replace='\t\tif !isValidTrustStoreType(storeType) && storeType == "" {'),
 dict(name='store-name-unchecked', file=T, expect='flagged(store/safe-name)',
      find='\t\tif !file.IsValidFileName(namedStore) {', replace='\t\tif namedStore == "" && file.IsValidFileName(storeType) {'),
 dict(name='F6-dots-reintroduced', file=F, expect='flagged(file-name/certified)',
      find='\tif fileName == "." || fileName == ".." {\n\t\treturn false\n\t}\n', replace=''),
 dict(name='filename-allows-slash', file=F, expect='flagged(file-name/certified)',
      find='`^[a-zA-Z0-9_.-]+$`', replace='`^[a-zA-Z0-9_./-]+$`'),
 dict(name='filename-unanchored', file=F, expect='flagged(file-name/certified)',
      find='`^[a-zA-Z0-9_.-]+$`', replace='`[a-zA-Z0-9_.-]+`'),
 dict(name='wildcard-identity-with-others', file=T, expect='flagged(identity/wildcard-alone)',
      find='\tif len(tis) > 1 && slices.Contains(tis, trustpolicy.Wildcard) {', replace='\tif len(tis) > 2 && slices.Contains(tis, trustpolicy.Wildcard) {'),
 dict(name='identity-empty-value', file=T, expect='flagged(identity/empty-value)',
      find='\t\t\t\tif identityValue == "" {\n\t\t\t\t\treturn fmt.Errorf("trust policy statement %q has trusted identity %q without an identity value", policyName, identity)\n\t\t\t\t}\n', replace=''),
 dict(name='identity-dn-error-skipped', file=T, expect='flagged(identity/dn-parses)',
      find='\t\t\t\tif err != nil {\n\t\t\t\t\treturn fmt.Errorf("trust policy statement %q has trusted identity %q with invalid identity value: %w", policyName, identity, err)\n\t\t\t\t}',
      replace='\t\t\t\tif err != nil {\n\t\t\t\t\tcontinue\n\t\t\t\t}'),
 dict(name='overlap-half-pairs', file=T, expect='flagged(identity/overlap/all-ordered-pairs)',
      find='\t\tfor j, dn2 := range parsedDNs {\n\t\t\tif i != j && pkix.IsSubsetDN(dn1.ParsedMap, dn2.ParsedMap) {', replace='\t\tfor j, dn2 := range parsedDNs {\n\t\t\tif i < j && pkix.IsSubsetDN(dn1.ParsedMap, dn2.ParsedMap) {'),
 dict(name='overlap-not-called', file=T, expect='flagged(identity/overlap)',
      find='\tif err := validateOverlappingDNs(policyName, parsedDNs); err != nil {\n\t\treturn err\n\t}', replace='\t_ = parsedDNs'),
 dict(name='scope-empty-allowed', file=O, expect='flagged(scope/present)',
      find='\t\tif len(statement.RegistryScopes) == 0 {\n\t\t\treturn fmt.Errorf("oci trust policy statement %q has zero registry scopes', replace='\t\tif statement.RegistryScopes == nil {\n\t\t\treturn fmt.Errorf("oci trust policy statement %q has zero registry scopes'),
 dict(name='scope-wildcard-with-others', file=O, expect='flagged(scope/wildcard-alone)',
      find='\t\tif len(statement.RegistryScopes) > 1 && slices.Contains(statement.RegistryScopes, trustpolicy.Wildcard) {', replace='\t\tif len(statement.RegistryScopes) > 1 && statement.RegistryScopes[0] == trustpolicy.Wildcard {'),
 dict(name='scope-duplicate-allowed', file=O, expect='flagged(scope/unique)',
      find='\t\tif registryScopeCount[key] > 1 {', replace='\t\tif registryScopeCount[key] > 2 {'),
 dict(name='scope-star-inside', file=O, expect='flagged(scope-format/no-embedded-wildcard)',
      find='\tif len(scope) > 1 && strings.Contains(scope, "*") {', replace='\tif len(scope) > 1 && strings.HasPrefix(scope, "*") {'),
 dict(name='scope-domain-unmatched', file=O, expect='flagged(scope-format/domain-pattern)',
      find='\tif domain == "" || repository == "" || !domainRegexp.MatchString(domain) || !repositoryRegexp.MatchString(repository) {', replace='\tif domain == "" || repository == "" || !repositoryRegexp.MatchString(repository) {\n\t\t_ = domainRegexp'),
 dict(name='constructor-skips-blob-validate', file=V, expect='flagged(forced/validate-blobdocument)',
      find='\tif blobTrustPolicy != nil {\n\t\tif err := blobTrustPolicy.Validate(); err != nil {\n\t\t\treturn nil, err\n\t\t}\n\t}', replace='\tif blobTrustPolicy != nil && ociTrustPolicy == nil {\n\t\tif err := blobTrustPolicy.Validate(); err != nil {\n\t\t\treturn nil, err\n\t\t}\n\t}'),
 dict(name='unknown-level-name', file=T, expect='flagged(level/known)',
      find='\tif baseLevel == nil {\n\t\treturn nil, fmt.Errorf("invalid signature verification level %q", signatureVerification.VerificationLevel)\n\t}', replace='\tif baseLevel == nil {\n\t\tbaseLevel = LevelAudit\n\t}'),
 # benign
 dict(name='benign-len-lt-1', file=O, expect='silent',
      find='\tif len(policyDoc.TrustPolicies) == 0 {\n\t\treturn errors.New("oci trust policy document can not have zero', replace='\tif len(policyDoc.TrustPolicies) < 1 {\n\t\treturn errors.New("oci trust policy document can not have zero'),
 dict(name='benign-error-texts', file=T, expect='silent',
      find='return errors.New("a trust policy statement is missing a name, every statement requires a name")', replace='return fmt.Errorf("a trust policy statement is missing a name (%d stores)", len(trustStores))'),
 dict(name='benign-wildcard-early-continue-counted', file=O, expect='silent',
      find='''			if scope != trustpolicy.Wildcard {
				if err := validateRegistryScopeFormat(scope); err != nil {
					return err
				}
			}
			registryScopeCount[scope]++''', replace='''			registryScopeCount[scope]++
			if scope == trustpolicy.Wildcard {
				continue
			}
			if err := validateRegistryScopeFormat(scope); err != nil {
				return err
			}'''),
 dict(name='benign-filename-explicit-empty', file=F, expect='silent',
      find='\tif fileName == "." || fileName == ".." {', replace='\tif fileName == "" || fileName == "." || fileName == ".." {'),
]

# ======================================================================================================================
# Shapes accepted after the generalisation of the rule set (behaviour-preserving refactorings out-C09/2..4, out-C08/3,
# out-C16/4) and the same shapes with the property broken.
# ======================================================================================================================
# P2/P3/P4: the refactorings /tmp/benign/out-C09/{2,3,4} as hunk-wise edits (applied in order); the mutants below put one
# property-breaking edit on top of the refactored text (edits of one variant are applied one after the other).
P2 = [('verifier/trustpolicy/blob.go',
  '// rule set.\n'
  '// If any rule is violated, returns an error.\n'
  'func (policyDoc *BlobDocument) Validate() error {\n'
  '\t// sanity check\n'
  '\tif policyDoc == nil {\n'
  '\t\treturn errors.New("blob trust policy document cannot be nil")\n'
  '\t}\n'
  '\n'
  '\t// Validate Version\n'
  '\tif policyDoc.Version == "" {\n'
  '\t\treturn errors.New("blob trust policy document has empty version, version must be specified")\n'
  '\t}\n'
  '\tif !slices.Contains(supportedBlobPolicyVersions, policyDoc.Version) {\n'
  '\t\treturn fmt.Errorf("blob trust policy document uses unsupported version %q", policyDoc.Version)\n'
  '\t}\n'
  '\n'
  '\t// Validate the policy according to 1.0 rules\n'
  '\tif len(policyDoc.TrustPolicies) == 0 {\n'
  '\t\treturn errors.New("blob trust policy document can not have zero trust policy statements")\n'
  '\t}\n'
  '\tpolicyNames := set.New[string]()\n',
  '// rule set.\n'
  '// If any rule is violated, returns an error.\n'
  'func (policyDoc *BlobDocument) Validate() error {\n'
  '\tswitch {\n'
  '\tcase policyDoc == nil:\n'
  '\t\t// sanity check\n'
  '\t\treturn errors.New("blob trust policy document cannot be nil")\n'
  '\tcase policyDoc.Version == "":\n'
  '\t\t// Validate Version\n'
  '\t\treturn errors.New("blob trust policy document has empty version, version must be specified")\n'
  '\tcase !slices.Contains(supportedBlobPolicyVersions, policyDoc.Version):\n'
  '\t\treturn fmt.Errorf("blob trust policy document uses unsupported version %q", policyDoc.Version)\n'
  '\tcase len(policyDoc.TrustPolicies) == 0:\n'
  '\t\t// Validate the policy according to 1.0 rules\n'
  '\t\treturn errors.New("blob trust policy document can not have zero trust policy statements")\n'
  '\t}\n'
  '\tpolicyNames := set.New[string]()\n'),
 ('verifier/trustpolicy/blob.go',
  '\t\tif err := validatePolicyCore(statement.Name, statement.SignatureVerification, statement.TrustStores, statement.TrustedIdentities); err != nil {\n'
  '\t\t\treturn fmt.Errorf("blob trust policy: %w", err)\n'
  '\t\t}\n'
  '\t\tif statement.GlobalPolicy {\n'
  '\t\t\tif foundGlobalPolicy {\n'
  '\t\t\t\treturn errors.New("multiple blob trust policy statements have globalPolicy set to true. Only one trust policy statement can be marked as global '
  'policy")\n'
  '\t\t\t}\n'
  '\n'
  '\t\t\t// verificationLevel is skip\n'
  '\t\t\tif statement.SignatureVerification.VerificationLevel == LevelSkip.Name {\n'
  '\t\t\t\treturn errors.New("global blob trust policy statement cannot have verification level set to skip")\n'
  '\t\t\t}\n'
  '\t\t\tfoundGlobalPolicy = true\n'
  '\t\t}\n'
  '\t\tpolicyNames.Add(statement.Name)\n'
  '\t}\n'
  '\treturn nil\n'
  '}\n',
  '\t\tif err := validatePolicyCore(statement.Name, statement.SignatureVerification, statement.TrustStores, statement.TrustedIdentities); err != nil {\n'
  '\t\t\treturn fmt.Errorf("blob trust policy: %w", err)\n'
  '\t\t}\n'
  '\t\tpolicyNames.Add(statement.Name)\n'
  '\t\tif !statement.GlobalPolicy {\n'
  '\t\t\tcontinue\n'
  '\t\t}\n'
  '\t\tswitch {\n'
  '\t\tcase foundGlobalPolicy:\n'
  '\t\t\treturn errors.New("multiple blob trust policy statements have globalPolicy set to true. Only one trust policy statement can be marked as global '
  'policy")\n'
  '\t\tcase statement.SignatureVerification.VerificationLevel == LevelSkip.Name:\n'
  '\t\t\t// verificationLevel is skip\n'
  '\t\t\treturn errors.New("global blob trust policy statement cannot have verification level set to skip")\n'
  '\t\t}\n'
  '\t\tfoundGlobalPolicy = true\n'
  '\t}\n'
  '\treturn nil\n'
  '}\n'),
 ('verifier/trustpolicy/oci.go',
  "// Validate validates a policy document according to its version's rule set.\n"
  '// if any rule is violated, returns an error\n'
  'func (policyDoc *OCIDocument) Validate() error {\n'
  '\t// sanity check\n'
  '\tif policyDoc == nil {\n'
  '\t\treturn errors.New("oci trust policy document cannot be nil")\n'
  '\t}\n'
  '\n'
  '\t// Validate Version\n'
  '\tif policyDoc.Version == "" {\n'
  '\t\treturn errors.New("oci trust policy document has empty version, version must be specified")\n'
  '\t}\n'
  '\tif !slices.Contains(supportedOCIPolicyVersions, policyDoc.Version) {\n'
  '\t\treturn fmt.Errorf("oci trust policy document uses unsupported version %q", policyDoc.Version)\n'
  '\t}\n'
  '\n'
  '\t// Validate the policy according to 1.0 rules\n'
  '\tif len(policyDoc.TrustPolicies) == 0 {\n'
  '\t\treturn errors.New("oci trust policy document can not have zero trust policy statements")\n'
  '\t}\n'
  '\tpolicyNames := set.New[string]()\n',
  "// Validate validates a policy document according to its version's rule set.\n"
  '// if any rule is violated, returns an error\n'
  'func (policyDoc *OCIDocument) Validate() error {\n'
  '\tswitch {\n'
  '\tcase policyDoc == nil:\n'
  '\t\t// sanity check\n'
  '\t\treturn errors.New("oci trust policy document cannot be nil")\n'
  '\tcase policyDoc.Version == "":\n'
  '\t\t// Validate Version\n'
  '\t\treturn errors.New("oci trust policy document has empty version, version must be specified")\n'
  '\tcase !slices.Contains(supportedOCIPolicyVersions, policyDoc.Version):\n'
  '\t\treturn fmt.Errorf("oci trust policy document uses unsupported version %q", policyDoc.Version)\n'
  '\tcase len(policyDoc.TrustPolicies) == 0:\n'
  '\t\t// Validate the policy according to 1.0 rules\n'
  '\t\treturn errors.New("oci trust policy document can not have zero trust policy statements")\n'
  '\t}\n'
  '\tpolicyNames := set.New[string]()\n'),
 ('verifier/trustpolicy/oci.go',
  '\t}\n'
  '\n'
  '\t// Verify registry scopes are valid\n'
  '\tif err := validateRegistryScopes(policyDoc); err != nil {\n'
  '\t\treturn err\n'
  '\t}\n'
  '\treturn nil\n'
  '}\n'
  '\n'
  '// GetApplicableTrustPolicy returns a pointer to the deep copied [OCITrustPolicy]\n',
  '\t}\n'
  '\n'
  '\t// Verify registry scopes are valid\n'
  '\treturn validateRegistryScopes(policyDoc)\n'
  '}\n'
  '\n'
  '// GetApplicableTrustPolicy returns a pointer to the deep copied [OCITrustPolicy]\n'),
 ('verifier/trustpolicy/oci.go',
  '\tregistryScopeCount := make(map[string]int)\n'
  '\tfor _, statement := range policyDoc.TrustPolicies {\n'
  '\t\t// Verify registry scopes are valid\n'
  '\t\tif len(statement.RegistryScopes) == 0 {\n'
  '\t\t\treturn fmt.Errorf("oci trust policy statement %q has zero registry scopes, it must specify registry scopes with at least one value", statement.Name)\n'
  '\t\t}\n'
  '\t\tif len(statement.RegistryScopes) > 1 && slices.Contains(statement.RegistryScopes, trustpolicy.Wildcard) {\n'
  '\t\t\treturn fmt.Errorf("oci trust policy statement %q uses wildcard registry scope \'*\', a wildcard scope cannot be used in conjunction with other scope '
  'values", statement.Name)\n'
  '\t\t}\n'
  '\t\tfor _, scope := range statement.RegistryScopes {\n',
  '\tregistryScopeCount := make(map[string]int)\n'
  '\tfor _, statement := range policyDoc.TrustPolicies {\n'
  '\t\t// Verify registry scopes are valid\n'
  '\t\tswitch n := len(statement.RegistryScopes); {\n'
  '\t\tcase n == 0:\n'
  '\t\t\treturn fmt.Errorf("oci trust policy statement %q has zero registry scopes, it must specify registry scopes with at least one value", statement.Name)\n'
  '\t\tcase n > 1 && slices.Contains(statement.RegistryScopes, trustpolicy.Wildcard):\n'
  '\t\t\treturn fmt.Errorf("oci trust policy statement %q uses wildcard registry scope \'*\', a wildcard scope cannot be used in conjunction with other scope '
  'values", statement.Name)\n'
  '\t\t}\n'
  '\t\tfor _, scope := range statement.RegistryScopes {\n'),
 ('verifier/trustpolicy/oci.go',
  '\t}\n'
  '\n'
  '\t// Verify one policy statement per registry scope\n'
  '\tfor key := range registryScopeCount {\n'
  '\t\tif registryScopeCount[key] > 1 {\n'
  '\t\t\treturn fmt.Errorf("registry scope %q is present in multiple oci trust policy statements, one registry scope value can only be associated with one '
  'statement", key)\n'
  '\t\t}\n'
  '\t}\n'
  '\n',
  '\t}\n'
  '\n'
  '\t// Verify one policy statement per registry scope\n'
  '\tfor scope, count := range registryScopeCount {\n'
  '\t\tif count > 1 {\n'
  '\t\t\treturn fmt.Errorf("registry scope %q is present in multiple oci trust policy statements, one registry scope value can only be associated with one '
  'statement", scope)\n'
  '\t\t}\n'
  '\t}\n'
  '\n'),
 ('verifier/trustpolicy/oci.go',
  '\t\treturn fmt.Errorf(errorWildCardMessage, scope)\n'
  '\t}\n'
  '\tdomain, repository, found := strings.Cut(scope, "/")\n'
  '\tif !found {\n'
  '\t\treturn fmt.Errorf(errorMessage, scope)\n'
  '\t}\n'
  '\tif domain == "" || repository == "" || !domainRegexp.MatchString(domain) || !repositoryRegexp.MatchString(repository) {\n'
  '\t\treturn fmt.Errorf(errorMessage, scope)\n'
  '\t}\n'
  '\n',
  '\t\treturn fmt.Errorf(errorWildCardMessage, scope)\n'
  '\t}\n'
  '\tdomain, repository, found := strings.Cut(scope, "/")\n'
  '\tif !found || domain == "" || repository == "" || !domainRegexp.MatchString(domain) || !repositoryRegexp.MatchString(repository) {\n'
  '\t\treturn fmt.Errorf(errorMessage, scope)\n'
  '\t}\n'
  '\n'),
 ('verifier/trustpolicy/trustpolicy.go',
  '\t\tif validationAction == "" {\n'
  '\t\t\treturn nil, fmt.Errorf("verification action %q in custom signature verification is not supported, supported values are %q", value, '
  'ValidationActions)\n'
  '\t\t}\n'
  '\t\tif validationType == TypeIntegrity {\n'
  '\t\t\treturn nil, fmt.Errorf("%q verification can not be overridden in custom signature verification", key)\n'
  '\t\t} else if validationType != TypeRevocation && validationAction == ActionSkip {\n'
  '\t\t\treturn nil, fmt.Errorf("%q verification can not be skipped in custom signature verification", key)\n'
  '\t\t}\n'
  '\t\tcustomVerificationLevel.Enforcement[validationType] = validationAction\n',
  '\t\tif validationAction == "" {\n'
  '\t\t\treturn nil, fmt.Errorf("verification action %q in custom signature verification is not supported, supported values are %q", value, '
  'ValidationActions)\n'
  '\t\t}\n'
  '\t\tswitch {\n'
  '\t\tcase validationType == TypeIntegrity:\n'
  '\t\t\treturn nil, fmt.Errorf("%q verification can not be overridden in custom signature verification", key)\n'
  '\t\tcase validationAction == ActionSkip && validationType != TypeRevocation:\n'
  '\t\t\treturn nil, fmt.Errorf("%q verification can not be skipped in custom signature verification", key)\n'
  '\t\t}\n'
  '\t\tcustomVerificationLevel.Enforcement[validationType] = validationAction\n'),
 ('verifier/trustpolicy/trustpolicy.go',
  '\tif err != nil {\n'
  '\t\treturn fmt.Errorf("trust policy statement %q has invalid signatureVerification: %w", name, err)\n'
  '\t}\n'
  '\tif signatureVerification.VerifyTimestamp != "" &&\n'
  '\t\tsignatureVerification.VerifyTimestamp != OptionAlways &&\n'
  '\t\tsignatureVerification.VerifyTimestamp != OptionAfterCertExpiry {\n'
  '\t\treturn fmt.Errorf("trust policy statement %q has invalid signatureVerification: verifyTimestamp must be %q or %q, but got %q", name, OptionAlways, '
  'OptionAfterCertExpiry, signatureVerification.VerifyTimestamp)\n'
  '\t}\n'
  '\n'
  '\t// Any signature verification other than "skip" needs a trust store and\n'
  '\t// trusted identities\n'
  '\tif verificationLevel.Name == "skip" {\n'
  '\t\tif len(trustStores) > 0 || len(trustedIdentities) > 0 {\n'
  '\t\t\treturn fmt.Errorf("trust policy statement %q is set to skip signature verification but configured with trust stores and/or trusted identities, remove '
  'them if signature verification needs to be skipped", name)\n'
  '\t\t}\n'
  '\t} else {\n'
  '\t\tif len(trustStores) == 0 || len(trustedIdentities) == 0 {\n'
  '\t\t\treturn fmt.Errorf("trust policy statement %q is either missing trust stores or trusted identities, both must be specified", name)\n'
  '\t\t}\n'
  '\n'
  '\t\t// Verify Trust Store is valid\n'
  '\t\tif err := validateTrustStore(name, trustStores); err != nil {\n'
  '\t\t\treturn err\n'
  '\t\t}\n'
  '\n'
  '\t\t// Verify Trusted Identities are valid\n'
  '\t\tif err := validateTrustedIdentities(name, trustedIdentities); err != nil {\n'
  '\t\t\treturn err\n'
  '\t\t}\n'
  '\t}\n'
  '\treturn nil\n'
  '}\n'
  '\n'
  '// validateTrustStore validates if the policy statement is following the\n',
  '\tif err != nil {\n'
  '\t\treturn fmt.Errorf("trust policy statement %q has invalid signatureVerification: %w", name, err)\n'
  '\t}\n'
  '\tswitch signatureVerification.VerifyTimestamp {\n'
  '\tcase "", OptionAlways, OptionAfterCertExpiry:\n'
  '\t\t// not set or a known option\n'
  '\tdefault:\n'
  '\t\treturn fmt.Errorf("trust policy statement %q has invalid signatureVerification: verifyTimestamp must be %q or %q, but got %q", name, OptionAlways, '
  'OptionAfterCertExpiry, signatureVerification.VerifyTimestamp)\n'
  '\t}\n'
  '\n'
  '\t// "skip" must not come with trust stores or trusted identities\n'
  '\tif verificationLevel.Name == "skip" {\n'
  '\t\tif len(trustStores) > 0 || len(trustedIdentities) > 0 {\n'
  '\t\t\treturn fmt.Errorf("trust policy statement %q is set to skip signature verification but configured with trust stores and/or trusted identities, remove '
  'them if signature verification needs to be skipped", name)\n'
  '\t\t}\n'
  '\t\treturn nil\n'
  '\t}\n'
  '\n'
  '\t// Any signature verification other than "skip" needs a trust store and\n'
  '\t// trusted identities\n'
  '\tif len(trustStores) == 0 || len(trustedIdentities) == 0 {\n'
  '\t\treturn fmt.Errorf("trust policy statement %q is either missing trust stores or trusted identities, both must be specified", name)\n'
  '\t}\n'
  '\n'
  '\t// Verify Trust Store is valid\n'
  '\tif err := validateTrustStore(name, trustStores); err != nil {\n'
  '\t\treturn err\n'
  '\t}\n'
  '\n'
  '\t// Verify Trusted Identities are valid\n'
  '\treturn validateTrustedIdentities(name, trustedIdentities)\n'
  '}\n'
  '\n'
  '// validateTrustStore validates if the policy statement is following the\n'),
 ('verifier/trustpolicy/trustpolicy.go',
  'func validateTrustStore(policyName string, trustStores []string) error {\n'
  '\tfor _, trustStore := range trustStores {\n'
  '\t\tstoreType, namedStore, found := strings.Cut(trustStore, ":")\n'
  '\t\tif !found {\n'
  '\t\t\treturn fmt.Errorf("trust policy statement %q has malformed trust store value %q. The required format is <TrustStoreType>:<TrustStoreName>", '
  'policyName, trustStore)\n'
  '\t\t}\n'
  '\t\tif !isValidTrustStoreType(storeType) {\n'
  '\t\t\treturn fmt.Errorf("trust policy statement %q uses an unsupported trust store type %q in trust store value %q", policyName, storeType, trustStore)\n'
  '\t\t}\n'
  '\t\tif !file.IsValidFileName(namedStore) {\n'
  '\t\t\treturn fmt.Errorf("trust policy statement %q uses an unsupported trust store name %q in trust store value %q. Named store name needs to follow '
  '[a-zA-Z0-9_.-]+ format", policyName, namedStore, trustStore)\n'
  '\t\t}\n'
  '\t}\n',
  'func validateTrustStore(policyName string, trustStores []string) error {\n'
  '\tfor _, trustStore := range trustStores {\n'
  '\t\tstoreType, namedStore, found := strings.Cut(trustStore, ":")\n'
  '\t\tswitch {\n'
  '\t\tcase !found:\n'
  '\t\t\treturn fmt.Errorf("trust policy statement %q has malformed trust store value %q. The required format is <TrustStoreType>:<TrustStoreName>", '
  'policyName, trustStore)\n'
  '\t\tcase !isValidTrustStoreType(storeType):\n'
  '\t\t\treturn fmt.Errorf("trust policy statement %q uses an unsupported trust store type %q in trust store value %q", policyName, storeType, trustStore)\n'
  '\t\tcase !file.IsValidFileName(namedStore):\n'
  '\t\t\treturn fmt.Errorf("trust policy statement %q uses an unsupported trust store name %q in trust store value %q. Named store name needs to follow '
  '[a-zA-Z0-9_.-]+ format", policyName, namedStore, trustStore)\n'
  '\t\t}\n'
  '\t}\n'),
 ('verifier/trustpolicy/trustpolicy.go',
  '\t\tif identity == "" {\n'
  '\t\t\treturn fmt.Errorf("trust policy statement %q has an empty trusted identity", policyName)\n'
  '\t\t}\n'
  '\t\tif identity != trustpolicy.Wildcard {\n'
  '\t\t\tidentityPrefix, identityValue, found := strings.Cut(identity, ":")\n'
  '\t\t\tif !found {\n'
  '\t\t\t\treturn fmt.Errorf("trust policy statement %q has trusted identity %q missing separator", policyName, identity)\n'
  '\t\t\t}\n'
  '\n'
  '\t\t\t// notation natively supports x509.subject identities only\n'
  '\t\t\tif identityPrefix == trustpolicy.X509Subject {\n'
  '\t\t\t\t// identityValue cannot be empty\n'
  '\t\t\t\tif identityValue == "" {\n'
  '\t\t\t\t\treturn fmt.Errorf("trust policy statement %q has trusted identity %q without an identity value", policyName, identity)\n'
  '\t\t\t\t}\n'
  '\t\t\t\tdn, err := pkix.ParseDistinguishedName(identityValue)\n'
  '\t\t\t\tif err != nil {\n'
  '\t\t\t\t\treturn fmt.Errorf("trust policy statement %q has trusted identity %q with invalid identity value: %w", policyName, identity, err)\n'
  '\t\t\t\t}\n'
  '\t\t\t\tparsedDNs = append(parsedDNs, parsedDN{RawString: identity, ParsedMap: dn})\n'
  '\t\t\t}\n'
  '\t\t}\n'
  '\t}\n'
  '\n'
  '\t// Verify there are no overlapping DNs\n'
  '\tif err := validateOverlappingDNs(policyName, parsedDNs); err != nil {\n'
  '\t\treturn err\n'
  '\t}\n'
  '\n'
  '\t// No error\n'
  '\treturn nil\n'
  '}\n'
  '\n'
  'func validateOverlappingDNs(policyName string, parsedDNs []parsedDN) error {\n'
  '\tfor i, dn1 := range parsedDNs {\n'
  '\t\tfor j, dn2 := range parsedDNs {\n'
  '\t\t\tif i != j && pkix.IsSubsetDN(dn1.ParsedMap, dn2.ParsedMap) {\n'
  '\t\t\t\treturn fmt.Errorf("trust policy statement %q has overlapping x509 trustedIdentities, %q overlaps with %q", policyName, dn1.RawString, '
  'dn2.RawString)\n'
  '\t\t\t}\n'
  '\t\t}\n',
  '\t\tif identity == "" {\n'
  '\t\t\treturn fmt.Errorf("trust policy statement %q has an empty trusted identity", policyName)\n'
  '\t\t}\n'
  '\t\tif identity == trustpolicy.Wildcard {\n'
  '\t\t\tcontinue\n'
  '\t\t}\n'
  '\t\tidentityPrefix, identityValue, found := strings.Cut(identity, ":")\n'
  '\t\tif !found {\n'
  '\t\t\treturn fmt.Errorf("trust policy statement %q has trusted identity %q missing separator", policyName, identity)\n'
  '\t\t}\n'
  '\n'
  '\t\t// notation natively supports x509.subject identities only\n'
  '\t\tif identityPrefix != trustpolicy.X509Subject {\n'
  '\t\t\tcontinue\n'
  '\t\t}\n'
  '\n'
  '\t\t// identityValue cannot be empty\n'
  '\t\tif identityValue == "" {\n'
  '\t\t\treturn fmt.Errorf("trust policy statement %q has trusted identity %q without an identity value", policyName, identity)\n'
  '\t\t}\n'
  '\t\tdn, err := pkix.ParseDistinguishedName(identityValue)\n'
  '\t\tif err != nil {\n'
  '\t\t\treturn fmt.Errorf("trust policy statement %q has trusted identity %q with invalid identity value: %w", policyName, identity, err)\n'
  '\t\t}\n'
  '\t\tparsedDNs = append(parsedDNs, parsedDN{RawString: identity, ParsedMap: dn})\n'
  '\t}\n'
  '\n'
  '\t// Verify there are no overlapping DNs\n'
  '\treturn validateOverlappingDNs(policyName, parsedDNs)\n'
  '}\n'
  '\n'
  'func validateOverlappingDNs(policyName string, parsedDNs []parsedDN) error {\n'
  '\tfor i, dn1 := range parsedDNs {\n'
  '\t\tfor j, dn2 := range parsedDNs {\n'
  '\t\t\tif i == j {\n'
  '\t\t\t\tcontinue\n'
  '\t\t\t}\n'
  '\t\t\tif pkix.IsSubsetDN(dn1.ParsedMap, dn2.ParsedMap) {\n'
  '\t\t\t\treturn fmt.Errorf("trust policy statement %q has overlapping x509 trustedIdentities, %q overlaps with %q", policyName, dn1.RawString, '
  'dn2.RawString)\n'
  '\t\t\t}\n'
  '\t\t}\n')]
P3 = [('verifier/trustpolicy/blob.go',
  '\n'
  '\t"github.com/notaryproject/notation-go/dir"\n'
  '\tset "github.com/notaryproject/notation-go/internal/container"\n'
  '\t"github.com/notaryproject/notation-go/internal/slices"\n'
  ')\n'
  '\n'
  '// BlobDocument represents a trustpolicy.blob.json document for arbitrary blobs\n',
  '\n'
  '\t"github.com/notaryproject/notation-go/dir"\n'
  '\tset "github.com/notaryproject/notation-go/internal/container"\n'
  ')\n'
  '\n'
  '// BlobDocument represents a trustpolicy.blob.json document for arbitrary blobs\n'),
 ('verifier/trustpolicy/blob.go',
  '\n'
  'var supportedBlobPolicyVersions = []string{"1.0"}\n'
  '\n'
  '// LoadBlobDocument loads a blob trust policy document from a local file system\n'
  'func LoadBlobDocument() (*BlobDocument, error) {\n'
  '\tvar doc BlobDocument\n',
  '\n'
  'var supportedBlobPolicyVersions = []string{"1.0"}\n'
  '\n'
  '// blobPolicyKind is the document kind used in error messages of the blob\n'
  '// trust policy\n'
  'const blobPolicyKind = "blob"\n'
  '\n'
  '// LoadBlobDocument loads a blob trust policy document from a local file system\n'
  'func LoadBlobDocument() (*BlobDocument, error) {\n'
  '\tvar doc BlobDocument\n'),
 ('verifier/trustpolicy/blob.go',
  '\t\treturn errors.New("blob trust policy document cannot be nil")\n'
  '\t}\n'
  '\n'
  '\t// Validate Version\n'
  '\tif policyDoc.Version == "" {\n'
  '\t\treturn errors.New("blob trust policy document has empty version, version must be specified")\n'
  '\t}\n'
  '\tif !slices.Contains(supportedBlobPolicyVersions, policyDoc.Version) {\n'
  '\t\treturn fmt.Errorf("blob trust policy document uses unsupported version %q", policyDoc.Version)\n'
  '\t}\n'
  '\n'
  '\t// Validate the policy according to 1.0 rules\n'
  '\tif len(policyDoc.TrustPolicies) == 0 {\n'
  '\t\treturn errors.New("blob trust policy document can not have zero trust policy statements")\n'
  '\t}\n'
  '\tpolicyNames := set.New[string]()\n'
  '\tvar foundGlobalPolicy bool\n'
  '\tfor _, statement := range policyDoc.TrustPolicies {\n'
  '\t\t// Verify unique policy statement names across the policy document\n'
  '\t\tif policyNames.Contains(statement.Name) {\n'
  '\t\t\treturn fmt.Errorf("multiple blob trust policy statements use the same name %q, statement names must be unique", statement.Name)\n'
  '\t\t}\n'
  '\t\tif err := validatePolicyCore(statement.Name, statement.SignatureVerification, statement.TrustStores, statement.TrustedIdentities); err != nil {\n'
  '\t\t\treturn fmt.Errorf("blob trust policy: %w", err)\n'
  '\t\t}\n'
  '\t\tif statement.GlobalPolicy {\n'
  '\t\t\tif foundGlobalPolicy {\n'
  '\t\t\t\treturn errors.New("multiple blob trust policy statements have globalPolicy set to true. Only one trust policy statement can be marked as global '
  'policy")\n'
  '\t\t\t}\n'
  '\n'
  '\t\t\t// verificationLevel is skip\n'
  '\t\t\tif statement.SignatureVerification.VerificationLevel == LevelSkip.Name {\n'
  '\t\t\t\treturn errors.New("global blob trust policy statement cannot have verification level set to skip")\n'
  '\t\t\t}\n'
  '\t\t\tfoundGlobalPolicy = true\n'
  '\t\t}\n'
  '\t\tpolicyNames.Add(statement.Name)\n'
  '\t}\n'
  '\treturn nil\n'
  '}\n',
  '\t\treturn errors.New("blob trust policy document cannot be nil")\n'
  '\t}\n'
  '\n'
  '\t// Validate version and number of statements\n'
  '\tif err := validateDocumentHeader(blobPolicyKind, policyDoc.Version, supportedBlobPolicyVersions, len(policyDoc.TrustPolicies)); err != nil {\n'
  '\t\treturn err\n'
  '\t}\n'
  '\tpolicyNames := set.New[string]()\n'
  '\tvar foundGlobalPolicy bool\n'
  '\tfor _, statement := range policyDoc.TrustPolicies {\n'
  '\t\tif err := validateStatement(blobPolicyKind, policyNames, statement.Name, statement.SignatureVerification, statement.TrustStores, '
  'statement.TrustedIdentities); err != nil {\n'
  '\t\t\treturn err\n'
  '\t\t}\n'
  '\t\tif statement.GlobalPolicy {\n'
  '\t\t\tif err := validateGlobalPolicy(statement.SignatureVerification, foundGlobalPolicy); err != nil {\n'
  '\t\t\t\treturn err\n'
  '\t\t\t}\n'
  '\t\t\tfoundGlobalPolicy = true\n'
  '\t\t}\n'
  '\t}\n'
  '\treturn nil\n'
  '}\n'
  '\n'
  '// validateGlobalPolicy validates the rules that only apply to a statement\n'
  '// marked as global policy. foundGlobalPolicy tells whether an earlier\n'
  '// statement of the document is already marked as global policy.\n'
  'func validateGlobalPolicy(signatureVerification SignatureVerification, foundGlobalPolicy bool) error {\n'
  '\tif foundGlobalPolicy {\n'
  '\t\treturn errors.New("multiple blob trust policy statements have globalPolicy set to true. Only one trust policy statement can be marked as global '
  'policy")\n'
  '\t}\n'
  '\n'
  '\t// verificationLevel is skip\n'
  '\tif signatureVerification.VerificationLevel == LevelSkip.Name {\n'
  '\t\treturn errors.New("global blob trust policy statement cannot have verification level set to skip")\n'
  '\t}\n'
  '\treturn nil\n'
  '}\n'),
 ('verifier/trustpolicy/oci.go',
  '\n'
  'var supportedOCIPolicyVersions = []string{"1.0"}\n'
  '\n'
  '// LoadOCIDocument retrieves a trust policy document from the local file system.\n'
  '// It attempts to read from [dir.PathOCITrustPolicy] first; if not found,\n'
  '// it tries [dir.PathTrustPolicy].\n',
  '\n'
  'var supportedOCIPolicyVersions = []string{"1.0"}\n'
  '\n'
  '// ociPolicyKind is the document kind used in error messages of the OCI\n'
  '// trust policy\n'
  'const ociPolicyKind = "oci"\n'
  '\n'
  '// LoadOCIDocument retrieves a trust policy document from the local file system.\n'
  '// It attempts to read from [dir.PathOCITrustPolicy] first; if not found,\n'
  '// it tries [dir.PathTrustPolicy].\n'),
 ('verifier/trustpolicy/oci.go',
  '\t\treturn errors.New("oci trust policy document cannot be nil")\n'
  '\t}\n'
  '\n'
  '\t// Validate Version\n'
  '\tif policyDoc.Version == "" {\n'
  '\t\treturn errors.New("oci trust policy document has empty version, version must be specified")\n'
  '\t}\n'
  '\tif !slices.Contains(supportedOCIPolicyVersions, policyDoc.Version) {\n'
  '\t\treturn fmt.Errorf("oci trust policy document uses unsupported version %q", policyDoc.Version)\n'
  '\t}\n'
  '\n'
  '\t// Validate the policy according to 1.0 rules\n'
  '\tif len(policyDoc.TrustPolicies) == 0 {\n'
  '\t\treturn errors.New("oci trust policy document can not have zero trust policy statements")\n'
  '\t}\n'
  '\tpolicyNames := set.New[string]()\n'
  '\tfor _, statement := range policyDoc.TrustPolicies {\n'
  '\t\t// Verify unique policy statement names across the policy document\n'
  '\t\tif policyNames.Contains(statement.Name) {\n'
  '\t\t\treturn fmt.Errorf("multiple oci trust policy statements use the same name %q, statement names must be unique", statement.Name)\n'
  '\t\t}\n'
  '\t\tif err := validatePolicyCore(statement.Name, statement.SignatureVerification, statement.TrustStores, statement.TrustedIdentities); err != nil {\n'
  '\t\t\treturn fmt.Errorf("oci trust policy: %w", err)\n'
  '\t\t}\n'
  '\t\tpolicyNames.Add(statement.Name)\n'
  '\t}\n'
  '\n'
  '\t// Verify registry scopes are valid\n',
  '\t\treturn errors.New("oci trust policy document cannot be nil")\n'
  '\t}\n'
  '\n'
  '\t// Validate version and number of statements\n'
  '\tif err := validateDocumentHeader(ociPolicyKind, policyDoc.Version, supportedOCIPolicyVersions, len(policyDoc.TrustPolicies)); err != nil {\n'
  '\t\treturn err\n'
  '\t}\n'
  '\tpolicyNames := set.New[string]()\n'
  '\tfor _, statement := range policyDoc.TrustPolicies {\n'
  '\t\tif err := validateStatement(ociPolicyKind, policyNames, statement.Name, statement.SignatureVerification, statement.TrustStores, '
  'statement.TrustedIdentities); err != nil {\n'
  '\t\t\treturn err\n'
  '\t\t}\n'
  '\t}\n'
  '\n'
  '\t// Verify registry scopes are valid\n'),
 ('verifier/trustpolicy/trustpolicy.go',
  '\t"strings"\n'
  '\n'
  '\t"github.com/notaryproject/notation-go/dir"\n'
  '\t"github.com/notaryproject/notation-go/internal/file"\n'
  '\t"github.com/notaryproject/notation-go/internal/pkix"\n'
  '\t"github.com/notaryproject/notation-go/internal/slices"\n',
  '\t"strings"\n'
  '\n'
  '\t"github.com/notaryproject/notation-go/dir"\n'
  '\tset "github.com/notaryproject/notation-go/internal/container"\n'
  '\t"github.com/notaryproject/notation-go/internal/file"\n'
  '\t"github.com/notaryproject/notation-go/internal/pkix"\n'
  '\t"github.com/notaryproject/notation-go/internal/slices"\n'),
 ('verifier/trustpolicy/trustpolicy.go',
  '\t\treturn nil, errors.New("signature verification level is empty or missing in the trust policy statement")\n'
  '\t}\n'
  '\n'
  '\tvar baseLevel *VerificationLevel\n'
  '\tfor _, l := range VerificationLevels {\n'
  '\t\tif l.Name == signatureVerification.VerificationLevel {\n'
  '\t\t\tbaseLevel = l\n'
  '\t\t}\n'
  '\t}\n'
  '\tif baseLevel == nil {\n'
  '\t\treturn nil, fmt.Errorf("invalid signature verification level %q", signatureVerification.VerificationLevel)\n'
  '\t}\n',
  '\t\treturn nil, errors.New("signature verification level is empty or missing in the trust policy statement")\n'
  '\t}\n'
  '\n'
  '\tbaseLevel := findVerificationLevel(signatureVerification.VerificationLevel)\n'
  '\tif baseLevel == nil {\n'
  '\t\treturn nil, fmt.Errorf("invalid signature verification level %q", signatureVerification.VerificationLevel)\n'
  '\t}\n'),
 ('verifier/trustpolicy/trustpolicy.go',
  '\n'
  '\t// override the verification actions with the user configured settings\n'
  '\tfor key, value := range signatureVerification.Override {\n'
  '\t\tvar validationType ValidationType\n'
  '\t\tfor _, t := range ValidationTypes {\n'
  '\t\t\tif t == key {\n'
  '\t\t\t\tvalidationType = t\n'
  '\t\t\t\tbreak\n'
  '\t\t\t}\n'
  '\t\t}\n'
  '\t\tif validationType == "" {\n'
  '\t\t\treturn nil, fmt.Errorf("verification type %q in custom signature verification is not supported, supported values are %q", key, ValidationTypes)\n'
  '\t\t}\n'
  '\n'
  '\t\tvar validationAction ValidationAction\n'
  '\t\tfor _, action := range ValidationActions {\n'
  '\t\t\tif action == value {\n'
  '\t\t\t\tvalidationAction = action\n'
  '\t\t\t\tbreak\n'
  '\t\t\t}\n'
  '\t\t}\n'
  '\t\tif validationAction == "" {\n'
  '\t\t\treturn nil, fmt.Errorf("verification action %q in custom signature verification is not supported, supported values are %q", value, '
  'ValidationActions)\n'
  '\t\t}\n'
  '\t\tif validationType == TypeIntegrity {\n'
  '\t\t\treturn nil, fmt.Errorf("%q verification can not be overridden in custom signature verification", key)\n'
  '\t\t} else if validationType != TypeRevocation && validationAction == ActionSkip {\n'
  '\t\t\treturn nil, fmt.Errorf("%q verification can not be skipped in custom signature verification", key)\n'
  '\t\t}\n'
  '\t\tcustomVerificationLevel.Enforcement[validationType] = validationAction\n'
  '\t}\n'
  '\treturn customVerificationLevel, nil\n'
  '}\n'
  '\n'
  'func getDocument(path string, v any) error {\n',
  '\n'
  '\t// override the verification actions with the user configured settings\n'
  '\tfor key, value := range signatureVerification.Override {\n'
  '\t\tvalidationType, validationAction, err := resolveOverride(key, value)\n'
  '\t\tif err != nil {\n'
  '\t\t\treturn nil, err\n'
  '\t\t}\n'
  '\t\tcustomVerificationLevel.Enforcement[validationType] = validationAction\n'
  '\t}\n'
  '\treturn customVerificationLevel, nil\n'
  '}\n'
  '\n'
  '// findVerificationLevel returns the preset [VerificationLevel] with the given\n'
  '// name, or nil if there is no such preset.\n'
  'func findVerificationLevel(name string) *VerificationLevel {\n'
  '\tvar level *VerificationLevel\n'
  '\tfor _, l := range VerificationLevels {\n'
  '\t\tif l.Name == name {\n'
  '\t\t\tlevel = l\n'
  '\t\t}\n'
  '\t}\n'
  '\treturn level\n'
  '}\n'
  '\n'
  '// resolveOverride maps one user configured override entry to the known\n'
  '// validation type and action. It returns an error if the type or the action\n'
  '// is not supported or if the type can not be customized in that way.\n'
  'func resolveOverride(key ValidationType, value ValidationAction) (ValidationType, ValidationAction, error) {\n'
  '\tvar validationType ValidationType\n'
  '\tfor _, t := range ValidationTypes {\n'
  '\t\tif t == key {\n'
  '\t\t\tvalidationType = t\n'
  '\t\t\tbreak\n'
  '\t\t}\n'
  '\t}\n'
  '\tif validationType == "" {\n'
  '\t\treturn "", "", fmt.Errorf("verification type %q in custom signature verification is not supported, supported values are %q", key, ValidationTypes)\n'
  '\t}\n'
  '\n'
  '\tvar validationAction ValidationAction\n'
  '\tfor _, action := range ValidationActions {\n'
  '\t\tif action == value {\n'
  '\t\t\tvalidationAction = action\n'
  '\t\t\tbreak\n'
  '\t\t}\n'
  '\t}\n'
  '\tif validationAction == "" {\n'
  '\t\treturn "", "", fmt.Errorf("verification action %q in custom signature verification is not supported, supported values are %q", value, '
  'ValidationActions)\n'
  '\t}\n'
  '\tif validationType == TypeIntegrity {\n'
  '\t\treturn "", "", fmt.Errorf("%q verification can not be overridden in custom signature verification", key)\n'
  '\t} else if validationType != TypeRevocation && validationAction == ActionSkip {\n'
  '\t\treturn "", "", fmt.Errorf("%q verification can not be skipped in custom signature verification", key)\n'
  '\t}\n'
  '\treturn validationType, validationAction, nil\n'
  '}\n'
  '\n'
  'func getDocument(path string, v any) error {\n'),
 ('verifier/trustpolicy/trustpolicy.go',
  '\treturn nil\n'
  '}\n'
  '\n'
  'func validatePolicyCore(name string, signatureVerification SignatureVerification, trustStores, trustedIdentities []string) error {\n'
  '\t// Verify statement name is valid\n'
  '\tif name == "" {\n',
  '\treturn nil\n'
  '}\n'
  '\n'
  '// validateDocumentHeader runs the document level checks that are common to\n'
  '// all kinds of trust policy documents. kind is the document kind as it shows\n'
  '// up in error messages ("oci" or "blob").\n'
  'func validateDocumentHeader(kind, version string, supportedVersions []string, statementCount int) error {\n'
  '\t// Validate Version\n'
  '\tif version == "" {\n'
  '\t\treturn fmt.Errorf("%s trust policy document has empty version, version must be specified", kind)\n'
  '\t}\n'
  '\tif !slices.Contains(supportedVersions, version) {\n'
  '\t\treturn fmt.Errorf("%s trust policy document uses unsupported version %q", kind, version)\n'
  '\t}\n'
  '\n'
  '\t// Validate the policy according to 1.0 rules\n'
  '\tif statementCount == 0 {\n'
  '\t\treturn fmt.Errorf("%s trust policy document can not have zero trust policy statements", kind)\n'
  '\t}\n'
  '\treturn nil\n'
  '}\n'
  '\n'
  '// validateStatement runs the statement level checks that are common to all\n'
  '// kinds of trust policy documents. seenNames holds the names of the\n'
  '// statements validated so far; on success the name is added to it.\n'
  'func validateStatement(kind string, seenNames set.Set[string], name string, signatureVerification SignatureVerification, trustStores, trustedIdentities '
  '[]string) error {\n'
  '\t// Verify unique policy statement names across the policy document\n'
  '\tif seenNames.Contains(name) {\n'
  '\t\treturn fmt.Errorf("multiple %s trust policy statements use the same name %q, statement names must be unique", kind, name)\n'
  '\t}\n'
  '\tif err := validatePolicyCore(name, signatureVerification, trustStores, trustedIdentities); err != nil {\n'
  '\t\treturn fmt.Errorf("%s trust policy: %w", kind, err)\n'
  '\t}\n'
  '\tseenNames.Add(name)\n'
  '\treturn nil\n'
  '}\n'
  '\n'
  '// validateVerifyTimestamp validates the verifyTimestamp option of a statement\n'
  'func validateVerifyTimestamp(name string, option TimestampOption) error {\n'
  '\tif option != "" &&\n'
  '\t\toption != OptionAlways &&\n'
  '\t\toption != OptionAfterCertExpiry {\n'
  '\t\treturn fmt.Errorf("trust policy statement %q has invalid signatureVerification: verifyTimestamp must be %q or %q, but got %q", name, OptionAlways, '
  'OptionAfterCertExpiry, option)\n'
  '\t}\n'
  '\treturn nil\n'
  '}\n'
  '\n'
  'func validatePolicyCore(name string, signatureVerification SignatureVerification, trustStores, trustedIdentities []string) error {\n'
  '\t// Verify statement name is valid\n'
  '\tif name == "" {\n'),
 ('verifier/trustpolicy/trustpolicy.go',
  '\tif err != nil {\n'
  '\t\treturn fmt.Errorf("trust policy statement %q has invalid signatureVerification: %w", name, err)\n'
  '\t}\n'
  '\tif signatureVerification.VerifyTimestamp != "" &&\n'
  '\t\tsignatureVerification.VerifyTimestamp != OptionAlways &&\n'
  '\t\tsignatureVerification.VerifyTimestamp != OptionAfterCertExpiry {\n'
  '\t\treturn fmt.Errorf("trust policy statement %q has invalid signatureVerification: verifyTimestamp must be %q or %q, but got %q", name, OptionAlways, '
  'OptionAfterCertExpiry, signatureVerification.VerifyTimestamp)\n'
  '\t}\n'
  '\n'
  '\t// Any signature verification other than "skip" needs a trust store and\n',
  '\tif err != nil {\n'
  '\t\treturn fmt.Errorf("trust policy statement %q has invalid signatureVerification: %w", name, err)\n'
  '\t}\n'
  '\tif err := validateVerifyTimestamp(name, signatureVerification.VerifyTimestamp); err != nil {\n'
  '\t\treturn err\n'
  '\t}\n'
  '\n'
  '\t// Any signature verification other than "skip" needs a trust store and\n'),
 ('verifier/trustpolicy/trustpolicy.go',
  '\tvar parsedDNs []parsedDN\n'
  '\t// If there are trusted identities, verify they are valid\n'
  '\tfor _, identity := range tis {\n'
  '\t\tif identity == "" {\n'
  '\t\t\treturn fmt.Errorf("trust policy statement %q has an empty trusted identity", policyName)\n'
  '\t\t}\n'
  '\t\tif identity != trustpolicy.Wildcard {\n'
  '\t\t\tidentityPrefix, identityValue, found := strings.Cut(identity, ":")\n'
  '\t\t\tif !found {\n'
  '\t\t\t\treturn fmt.Errorf("trust policy statement %q has trusted identity %q missing separator", policyName, identity)\n'
  '\t\t\t}\n'
  '\n'
  '\t\t\t// notation natively supports x509.subject identities only\n'
  '\t\t\tif identityPrefix == trustpolicy.X509Subject {\n'
  '\t\t\t\t// identityValue cannot be empty\n'
  '\t\t\t\tif identityValue == "" {\n'
  '\t\t\t\t\treturn fmt.Errorf("trust policy statement %q has trusted identity %q without an identity value", policyName, identity)\n'
  '\t\t\t\t}\n'
  '\t\t\t\tdn, err := pkix.ParseDistinguishedName(identityValue)\n'
  '\t\t\t\tif err != nil {\n'
  '\t\t\t\t\treturn fmt.Errorf("trust policy statement %q has trusted identity %q with invalid identity value: %w", policyName, identity, err)\n'
  '\t\t\t\t}\n'
  '\t\t\t\tparsedDNs = append(parsedDNs, parsedDN{RawString: identity, ParsedMap: dn})\n'
  '\t\t\t}\n'
  '\t\t}\n'
  '\t}\n'
  '\n'
  '\t// Verify there are no overlapping DNs\n'
  '\tif err := validateOverlappingDNs(policyName, parsedDNs); err != nil {\n'
  '\t\treturn err\n'
  '\t}\n'
  '\n'
  '\t// No error\n'
  '\treturn nil\n'
  '}\n'
  '\n'
  'func validateOverlappingDNs(policyName string, parsedDNs []parsedDN) error {\n'
  '\tfor i, dn1 := range parsedDNs {\n'
  '\t\tfor j, dn2 := range parsedDNs {\n'
  '\t\t\tif i != j && pkix.IsSubsetDN(dn1.ParsedMap, dn2.ParsedMap) {\n',
  '\tvar parsedDNs []parsedDN\n'
  '\t// If there are trusted identities, verify they are valid\n'
  '\tfor _, identity := range tis {\n'
  '\t\tdn, isX509Subject, err := parseTrustedIdentity(policyName, identity)\n'
  '\t\tif err != nil {\n'
  '\t\t\treturn err\n'
  '\t\t}\n'
  '\t\tif isX509Subject {\n'
  '\t\t\tparsedDNs = append(parsedDNs, parsedDN{RawString: identity, ParsedMap: dn})\n'
  '\t\t}\n'
  '\t}\n'
  '\n'
  '\t// Verify there are no overlapping DNs\n'
  '\tfor i, dn1 := range parsedDNs {\n'
  '\t\tfor j, dn2 := range parsedDNs {\n'
  '\t\t\tif i != j && pkix.IsSubsetDN(dn1.ParsedMap, dn2.ParsedMap) {\n'),
 ('verifier/trustpolicy/trustpolicy.go',
  '\t\t\t}\n'
  '\t\t}\n'
  '\t}\n'
  '\treturn nil\n'
  '}\n'
  '\n'
  '// isValidTrustStoreType returns true if the given string is a valid\n'
  '// [truststore.Type], otherwise false.\n'
  'func isValidTrustStoreType(s string) bool {\n',
  '\t\t\t}\n'
  '\t\t}\n'
  '\t}\n'
  '\n'
  '\t// No error\n'
  '\treturn nil\n'
  '}\n'
  '\n'
  '// parseTrustedIdentity validates a single trusted identity of the policy\n'
  '// statement. If the identity is an x509.subject identity, its parsed\n'
  '// distinguished name is returned and isX509Subject is true.\n'
  'func parseTrustedIdentity(policyName, identity string) (dn map[string]string, isX509Subject bool, err error) {\n'
  '\tif identity == "" {\n'
  '\t\treturn nil, false, fmt.Errorf("trust policy statement %q has an empty trusted identity", policyName)\n'
  '\t}\n'
  '\tif identity == trustpolicy.Wildcard {\n'
  '\t\treturn nil, false, nil\n'
  '\t}\n'
  '\tidentityPrefix, identityValue, found := strings.Cut(identity, ":")\n'
  '\tif !found {\n'
  '\t\treturn nil, false, fmt.Errorf("trust policy statement %q has trusted identity %q missing separator", policyName, identity)\n'
  '\t}\n'
  '\n'
  '\t// notation natively supports x509.subject identities only\n'
  '\tif identityPrefix != trustpolicy.X509Subject {\n'
  '\t\treturn nil, false, nil\n'
  '\t}\n'
  '\n'
  '\t// identityValue cannot be empty\n'
  '\tif identityValue == "" {\n'
  '\t\treturn nil, false, fmt.Errorf("trust policy statement %q has trusted identity %q without an identity value", policyName, identity)\n'
  '\t}\n'
  '\tdn, err = pkix.ParseDistinguishedName(identityValue)\n'
  '\tif err != nil {\n'
  '\t\treturn nil, false, fmt.Errorf("trust policy statement %q has trusted identity %q with invalid identity value: %w", policyName, identity, err)\n'
  '\t}\n'
  '\treturn dn, true, nil\n'
  '}\n'
  '\n'
  '// isValidTrustStoreType returns true if the given string is a valid\n'
  '// [truststore.Type], otherwise false.\n'
  'func isValidTrustStoreType(s string) bool {\n')]
P4 = [('verifier/trustpolicy/blob.go',
  '\tif len(policyDoc.TrustPolicies) == 0 {\n'
  '\t\treturn errors.New("blob trust policy document can not have zero trust policy statements")\n'
  '\t}\n'
  '\tpolicyNames := set.New[string]()\n'
  '\tvar foundGlobalPolicy bool\n'
  '\tfor _, statement := range policyDoc.TrustPolicies {\n'
  '\t\t// Verify unique policy statement names across the policy document\n'
  '\t\tif policyNames.Contains(statement.Name) {\n'
  '\t\t\treturn fmt.Errorf("multiple blob trust policy statements use the same name %q, statement names must be unique", statement.Name)\n',
  '\tif len(policyDoc.TrustPolicies) == 0 {\n'
  '\t\treturn errors.New("blob trust policy document can not have zero trust policy statements")\n'
  '\t}\n'
  '\tstatements := policyDoc.TrustPolicies\n'
  '\tpolicyNames := set.NewWithSize[string](len(statements))\n'
  '\tvar foundGlobalPolicy bool\n'
  '\tfor i := range statements {\n'
  '\t\t// statements are large, do not copy them\n'
  '\t\tstatement := &statements[i]\n'
  '\n'
  '\t\t// Verify unique policy statement names across the policy document\n'
  '\t\tif policyNames.Contains(statement.Name) {\n'
  '\t\t\treturn fmt.Errorf("multiple blob trust policy statements use the same name %q, statement names must be unique", statement.Name)\n'),
 ('verifier/trustpolicy/oci.go',
  '\tif len(policyDoc.TrustPolicies) == 0 {\n'
  '\t\treturn errors.New("oci trust policy document can not have zero trust policy statements")\n'
  '\t}\n'
  '\tpolicyNames := set.New[string]()\n'
  '\tfor _, statement := range policyDoc.TrustPolicies {\n'
  '\t\t// Verify unique policy statement names across the policy document\n'
  '\t\tif policyNames.Contains(statement.Name) {\n'
  '\t\t\treturn fmt.Errorf("multiple oci trust policy statements use the same name %q, statement names must be unique", statement.Name)\n',
  '\tif len(policyDoc.TrustPolicies) == 0 {\n'
  '\t\treturn errors.New("oci trust policy document can not have zero trust policy statements")\n'
  '\t}\n'
  '\tstatements := policyDoc.TrustPolicies\n'
  '\tpolicyNames := set.NewWithSize[string](len(statements))\n'
  '\tfor i := range statements {\n'
  '\t\t// statements are large, do not copy them\n'
  '\t\tstatement := &statements[i]\n'
  '\n'
  '\t\t// Verify unique policy statement names across the policy document\n'
  '\t\tif policyNames.Contains(statement.Name) {\n'
  '\t\t\treturn fmt.Errorf("multiple oci trust policy statements use the same name %q, statement names must be unique", statement.Name)\n'),
 ('verifier/trustpolicy/oci.go',
  '\t}\n\n\t// Verify registry scopes are valid\n\tif err := validateRegistryScopes(policyDoc); err != nil {\n\t\treturn err\n\t}\n\treturn nil\n',
  '\t}\n\n\t// Verify registry scopes are valid\n\tif err := validateRegistryScopes(statements); err != nil {\n\t\treturn err\n\t}\n\treturn nil\n'),
 ('verifier/trustpolicy/oci.go',
  '\t}\n'
  '}\n'
  '\n'
  '// validateRegistryScopes validates if the policy document is following the\n'
  '// Notary Project spec rules for registry scopes\n'
  'func validateRegistryScopes(policyDoc *OCIDocument) error {\n'
  '\tregistryScopeCount := make(map[string]int)\n'
  '\tfor _, statement := range policyDoc.TrustPolicies {\n'
  '\t\t// Verify registry scopes are valid\n'
  '\t\tif len(statement.RegistryScopes) == 0 {\n'
  '\t\t\treturn fmt.Errorf("oci trust policy statement %q has zero registry scopes, it must specify registry scopes with at least one value", statement.Name)\n'
  '\t\t}\n'
  '\t\tif len(statement.RegistryScopes) > 1 && slices.Contains(statement.RegistryScopes, trustpolicy.Wildcard) {\n'
  '\t\t\treturn fmt.Errorf("oci trust policy statement %q uses wildcard registry scope \'*\', a wildcard scope cannot be used in conjunction with other scope '
  'values", statement.Name)\n'
  '\t\t}\n'
  '\t\tfor _, scope := range statement.RegistryScopes {\n'
  '\t\t\tif scope != trustpolicy.Wildcard {\n'
  '\t\t\t\tif err := validateRegistryScopeFormat(scope); err != nil {\n'
  '\t\t\t\t\treturn err\n'
  '\t\t\t\t}\n'
  '\t\t\t}\n',
  '\t}\n'
  '}\n'
  '\n'
  '// validateRegistryScopes validates if the policy statements are following the\n'
  '// Notary Project spec rules for registry scopes\n'
  'func validateRegistryScopes(statements []OCITrustPolicy) error {\n'
  '\t// every statement has at least one scope\n'
  '\tregistryScopeCount := make(map[string]int, len(statements))\n'
  '\n'
  '\t// compile the scope format once for the whole document rather than once\n'
  '\t// per scope\n'
  '\tscopeFormat := newRegistryScopeFormat()\n'
  '\tfor i := range statements {\n'
  '\t\tname, scopes := statements[i].Name, statements[i].RegistryScopes\n'
  '\n'
  '\t\t// Verify registry scopes are valid\n'
  '\t\tif len(scopes) == 0 {\n'
  '\t\t\treturn fmt.Errorf("oci trust policy statement %q has zero registry scopes, it must specify registry scopes with at least one value", name)\n'
  '\t\t}\n'
  '\t\tif len(scopes) > 1 && slices.Contains(scopes, trustpolicy.Wildcard) {\n'
  '\t\t\treturn fmt.Errorf("oci trust policy statement %q uses wildcard registry scope \'*\', a wildcard scope cannot be used in conjunction with other scope '
  'values", name)\n'
  '\t\t}\n'
  '\t\tfor _, scope := range scopes {\n'
  '\t\t\tif scope != trustpolicy.Wildcard {\n'
  '\t\t\t\tif err := scopeFormat.validate(scope); err != nil {\n'
  '\t\t\t\t\treturn err\n'
  '\t\t\t\t}\n'
  '\t\t\t}\n'),
 ('verifier/trustpolicy/oci.go',
  '\t}\n'
  '\n'
  '\t// Verify one policy statement per registry scope\n'
  '\tfor key := range registryScopeCount {\n'
  '\t\tif registryScopeCount[key] > 1 {\n'
  '\t\t\treturn fmt.Errorf("registry scope %q is present in multiple oci trust policy statements, one registry scope value can only be associated with one '
  'statement", key)\n'
  '\t\t}\n'
  '\t}\n'
  '\n',
  '\t}\n'
  '\n'
  '\t// Verify one policy statement per registry scope\n'
  '\tfor scope, count := range registryScopeCount {\n'
  '\t\tif count > 1 {\n'
  '\t\t\treturn fmt.Errorf("registry scope %q is present in multiple oci trust policy statements, one registry scope value can only be associated with one '
  'statement", scope)\n'
  '\t\t}\n'
  '\t}\n'
  '\n'),
 ('verifier/trustpolicy/oci.go',
  '// validateRegistryScopeFormat validates if a scope is following the format\n'
  '// defined in distribution spec\n'
  'func validateRegistryScopeFormat(scope string) error {\n'
  '\t// Domain and Repository regexes are adapted from distribution\n'
  '\t// implementation\n'
  '\t// https://github.com/distribution/distribution/blob/main/reference/regexp.go#L31\n'
  '\tdomainRegexp := '
  'regexp.MustCompile(`^(?:[a-zA-Z0-9]|[a-zA-Z0-9][a-zA-Z0-9-]*[a-zA-Z0-9])(?:(?:\\.(?:[a-zA-Z0-9]|[a-zA-Z0-9][a-zA-Z0-9-]*[a-zA-Z0-9]))+)?(?::[0-9]+)?$`)\n'
  '\trepositoryRegexp := regexp.MustCompile(`^[a-z0-9]+(?:(?:(?:[._]|__|[-]*)[a-z0-9]+)+)?(?:(?:/[a-z0-9]+(?:(?:(?:[._]|__|[-]*)[a-z0-9]+)+)?)+)?$`)\n'
  '\tensureMessage := "make sure it is a fully qualified repository without the scheme, protocol or tag. For example domain.com/my/repository or a local scope '
  'like local/myOCILayout"\n'
  '\terrorMessage := "registry scope %q is not valid, " + ensureMessage\n'
  '\terrorWildCardMessage := "registry scope %q with wild card(s) is not valid, " + ensureMessage\n',
  '// validateRegistryScopeFormat validates if a scope is following the format\n'
  '// defined in distribution spec\n'
  'func validateRegistryScopeFormat(scope string) error {\n'
  '\treturn newRegistryScopeFormat().validate(scope)\n'
  '}\n'
  '\n'
  '// registryScopeFormat holds the compiled expressions of the registry scope\n'
  '// format, so that several scopes can be validated without compiling the\n'
  '// expressions again.\n'
  'type registryScopeFormat struct {\n'
  '\tdomainRegexp     *regexp.Regexp\n'
  '\trepositoryRegexp *regexp.Regexp\n'
  '}\n'
  '\n'
  '// newRegistryScopeFormat compiles the registry scope format\n'
  'func newRegistryScopeFormat() *registryScopeFormat {\n'
  '\t// Domain and Repository regexes are adapted from distribution\n'
  '\t// implementation\n'
  '\t// https://github.com/distribution/distribution/blob/main/reference/regexp.go#L31\n'
  '\treturn &registryScopeFormat{\n'
  '\t\tdomainRegexp:     '
  'regexp.MustCompile(`^(?:[a-zA-Z0-9]|[a-zA-Z0-9][a-zA-Z0-9-]*[a-zA-Z0-9])(?:(?:\\.(?:[a-zA-Z0-9]|[a-zA-Z0-9][a-zA-Z0-9-]*[a-zA-Z0-9]))+)?(?::[0-9]+)?$`),\n'
  '\t\trepositoryRegexp: regexp.MustCompile(`^[a-z0-9]+(?:(?:(?:[._]|__|[-]*)[a-z0-9]+)+)?(?:(?:/[a-z0-9]+(?:(?:(?:[._]|__|[-]*)[a-z0-9]+)+)?)+)?$`),\n'
  '\t}\n'
  '}\n'
  '\n'
  '// validate validates if a scope is following the format defined in\n'
  '// distribution spec\n'
  'func (f *registryScopeFormat) validate(scope string) error {\n'
  '\tensureMessage := "make sure it is a fully qualified repository without the scheme, protocol or tag. For example domain.com/my/repository or a local scope '
  'like local/myOCILayout"\n'
  '\terrorMessage := "registry scope %q is not valid, " + ensureMessage\n'
  '\terrorWildCardMessage := "registry scope %q with wild card(s) is not valid, " + ensureMessage\n'),
 ('verifier/trustpolicy/oci.go',
  '\tif !found {\n'
  '\t\treturn fmt.Errorf(errorMessage, scope)\n'
  '\t}\n'
  '\tif domain == "" || repository == "" || !domainRegexp.MatchString(domain) || !repositoryRegexp.MatchString(repository) {\n'
  '\t\treturn fmt.Errorf(errorMessage, scope)\n'
  '\t}\n'
  '\n',
  '\tif !found {\n'
  '\t\treturn fmt.Errorf(errorMessage, scope)\n'
  '\t}\n'
  '\tif domain == "" || repository == "" || !f.domainRegexp.MatchString(domain) || !f.repositoryRegexp.MatchString(repository) {\n'
  '\t\treturn fmt.Errorf(errorMessage, scope)\n'
  '\t}\n'
  '\n'),
 ('verifier/trustpolicy/trustpolicy.go',
  '\tif err != nil {\n'
  '\t\treturn fmt.Errorf("trust policy statement %q has invalid signatureVerification: %w", name, err)\n'
  '\t}\n'
  '\tif signatureVerification.VerifyTimestamp != "" &&\n'
  '\t\tsignatureVerification.VerifyTimestamp != OptionAlways &&\n'
  '\t\tsignatureVerification.VerifyTimestamp != OptionAfterCertExpiry {\n'
  '\t\treturn fmt.Errorf("trust policy statement %q has invalid signatureVerification: verifyTimestamp must be %q or %q, but got %q", name, OptionAlways, '
  'OptionAfterCertExpiry, signatureVerification.VerifyTimestamp)\n'
  '\t}\n'
  '\n'
  '\t// Any signature verification other than "skip" needs a trust store and\n',
  '\tif err != nil {\n'
  '\t\treturn fmt.Errorf("trust policy statement %q has invalid signatureVerification: %w", name, err)\n'
  '\t}\n'
  '\tif verifyTimestamp := signatureVerification.VerifyTimestamp; verifyTimestamp != "" &&\n'
  '\t\tverifyTimestamp != OptionAlways &&\n'
  '\t\tverifyTimestamp != OptionAfterCertExpiry {\n'
  '\t\treturn fmt.Errorf("trust policy statement %q has invalid signatureVerification: verifyTimestamp must be %q or %q, but got %q", name, OptionAlways, '
  'OptionAfterCertExpiry, verifyTimestamp)\n'
  '\t}\n'
  '\n'
  '\t// Any signature verification other than "skip" needs a trust store and\n'),
 ('verifier/trustpolicy/trustpolicy.go',
  '\t\treturn fmt.Errorf("trust policy statement %q uses a wildcard trusted identity \'*\', a wildcard identity cannot be used in conjunction with other '
  'values", policyName)\n'
  '\t}\n'
  '\n'
  '\tvar parsedDNs []parsedDN\n'
  '\t// If there are trusted identities, verify they are valid\n'
  '\tfor _, identity := range tis {\n'
  '\t\tif identity == "" {\n',
  '\t\treturn fmt.Errorf("trust policy statement %q uses a wildcard trusted identity \'*\', a wildcard identity cannot be used in conjunction with other '
  'values", policyName)\n'
  '\t}\n'
  '\n'
  '\t// every identity yields at most one parsed DN\n'
  '\tparsedDNs := make([]parsedDN, 0, len(tis))\n'
  '\t// If there are trusted identities, verify they are valid\n'
  '\tfor _, identity := range tis {\n'
  '\t\tif identity == "" {\n'),
 ('verifier/trustpolicy/trustpolicy.go',
  '}\n'
  '\n'
  'func validateOverlappingDNs(policyName string, parsedDNs []parsedDN) error {\n'
  '\tfor i, dn1 := range parsedDNs {\n'
  '\t\tfor j, dn2 := range parsedDNs {\n'
  '\t\t\tif i != j && pkix.IsSubsetDN(dn1.ParsedMap, dn2.ParsedMap) {\n'
  '\t\t\t\treturn fmt.Errorf("trust policy statement %q has overlapping x509 trustedIdentities, %q overlaps with %q", policyName, dn1.RawString, '
  'dn2.RawString)\n'
  '\t\t\t}\n'
  '\t\t}\n'
  '\t}\n',
  '}\n'
  '\n'
  'func validateOverlappingDNs(policyName string, parsedDNs []parsedDN) error {\n'
  '\t// iterate by index to avoid copying the elements\n'
  '\tfor i := range parsedDNs {\n'
  '\t\tfor j := range parsedDNs {\n'
  '\t\t\tif i != j && pkix.IsSubsetDN(parsedDNs[i].ParsedMap, parsedDNs[j].ParsedMap) {\n'
  '\t\t\t\treturn fmt.Errorf("trust policy statement %q has overlapping x509 trustedIdentities, %q overlaps with %q", policyName, parsedDNs[i].RawString, '
  'parsedDNs[j].RawString)\n'
  '\t\t\t}\n'
  '\t\t}\n'
  '\t}\n')]

NEW = [
 # ---- whole refactorings -------------------------------------------------------------------------------------------
 dict(name='benign-refactoring-control-flow', expect='silent', edits=P2),
 dict(name='benign-refactoring-helpers', expect='silent', edits=P3),
 dict(name='benign-refactoring-hoisting', expect='silent', edits=P4),
 # ---- materialised short-circuit conditions (`case a && b:`) ------------------------------------------------------------
 dict(name='switch-scope-wildcard-with-others', expect='flagged(scope/wildcard-alone)',
      edits=P2 + [(O, '\t\tcase n > 1 && slices.Contains(statement.RegistryScopes, trustpolicy.Wildcard):', '\t\tcase n > 2 && slices.Contains(statement.RegistryScopes, trustpolicy.Wildcard):')]),
 dict(name='switch-scope-wildcard-or', expect='flagged(scope/wildcard-alone)',
      edits=P2 + [(O, '\t\tcase n > 1 && slices.Contains(statement.RegistryScopes, trustpolicy.Wildcard):', '\t\tcase n > 1 && slices.Contains(statement.RegistryScopes, trustpolicy.Wildcard) && statement.Name != "":')]),
 dict(name='switch-skip-any-type', expect='flagged(custom/skip-only-revocation)',
      edits=P2 + [(T, '\t\tcase validationAction == ActionSkip && validationType != TypeRevocation:', '\t\tcase validationAction == ActionSkip && validationType != TypeRevocation && validationType != TypeAuthenticity:')]),
 dict(name='switch-verify-timestamp-any', expect='flagged(core/verify-timestamp-option)',
      edits=P2 + [(T, '\tcase "", OptionAlways, OptionAfterCertExpiry:\n\t\t// not set or a known option\n\tdefault:\n', '\tcase "", OptionAlways, OptionAfterCertExpiry:\n\t\t// not set or a known option\n\tcase "never":\n\tdefault:\n')]),
 dict(name='switch-blob-second-global', expect='flagged(blob/document/global-rules)',
      edits=P2 + [(B, '\t\tcase foundGlobalPolicy:\n', '\t\tcase foundGlobalPolicy && statement.Name == "":\n')]),
 dict(name='guard-skip-with-identities', expect='flagged(core/skip-no-identities)',
      edits=P2 + [(T, '\t\tif len(trustStores) > 0 || len(trustedIdentities) > 0 {', '\t\tif len(trustStores) > 0 {')]),
 dict(name='guard-identity-continue-before-empty-value', expect='flagged(identity/empty-value)',
      edits=P2 + [(T, '\t\tif identityValue == "" {\n\t\t\treturn fmt.Errorf("trust policy statement %q has trusted identity %q without an identity value", policyName, identity)\n\t\t}\n', '\t\tif identityValue == "" {\n\t\t\tcontinue\n\t\t}\n')]),
 dict(name='guard-overlap-same-index-only', expect='flagged(identity/overlap/all-ordered-pairs)',
      edits=P2 + [(T, '\t\t\tif i == j {\n\t\t\t\tcontinue\n\t\t\t}\n', '\t\t\tif i >= j {\n\t\t\t\tcontinue\n\t\t\t}\n')]),
 dict(name='merged-scope-format-condition-drops-domain', expect='silent',
      edits=P2 + [(O, '\tif !found || domain == "" || repository == "" ||', '\tif !found || repository == "" ||')],
      why='silent (was labelled flagged): an equivalent mutant — the constant domain pattern does not match "", so the empty domain is still rejected with the same error by !domainRegexp.MatchString(domain); the broken counterpart is merged-scope-format-drops-domain-pattern-admits-empty'),
 dict(name='merged-scope-format-drops-domain-pattern-admits-empty', expect='flagged(scope-format/domain-non-empty)',
      edits=P2 + [(O, '\tif !found || domain == "" || repository == "" ||', '\tif !found || repository == "" ||'),
                  (O, 'regexp.MustCompile(`^(?:[a-zA-Z0-9]|[a-zA-Z0-9][a-zA-Z0-9-]*[a-zA-Z0-9])(?:(?:\\.', 'regexp.MustCompile(`^(?:|[a-zA-Z0-9]|[a-zA-Z0-9][a-zA-Z0-9-]*[a-zA-Z0-9])(?:(?:\\.')]),
 # ---- the range value in the uniqueness loop -------------------------------------------------------------------------
 dict(name='benign-unique-range-value', file=O, expect='silent',
      find='\tfor key := range registryScopeCount {\n\t\tif registryScopeCount[key] > 1 {', replace='\tfor key, count := range registryScopeCount {\n\t\tif count > 1 {'),
 dict(name='unique-range-value-two-allowed', file=O, expect='flagged(scope/unique)',
      find='\tfor key := range registryScopeCount {\n\t\tif registryScopeCount[key] > 1 {', replace='\tfor key, count := range registryScopeCount {\n\t\tif count > 2 {'),
 dict(name='unique-range-value-other-map', expect='flagged(scope/)',
      edits=[(O, '\tfor key := range registryScopeCount {\n\t\tif registryScopeCount[key] > 1 {', '\tfor key, count := range seen {\n\t\tif count > 1 {'),
             (O, '\tregistryScopeCount := make(map[string]int)\n', '\tregistryScopeCount := make(map[string]int)\n\tseen := make(map[string]int)\n'),
             (O, '\t\t\tregistryScopeCount[scope]++\n', '\t\t\tregistryScopeCount[scope]++\n\t\t\tseen[statement.Name] = registryScopeCount[scope]\n')]),
 # ---- the scope validator is handed the statement list; patterns compiled once into an object ------------------------------
 dict(name='hoisted-scopes-skip-first-statement', expect='flagged(scope)',
      edits=P4 + [(O, '\tif err := validateRegistryScopes(statements); err != nil {', '\tif err := validateRegistryScopes(statements[1:]); err != nil {')]),
 dict(name='hoisted-scopes-result-dropped', expect='flagged(oci/document/scope-rules)',
      edits=P4 + [(O, '\tif err := validateRegistryScopes(statements); err != nil {\n\t\treturn err\n\t}\n', '\t_ = validateRegistryScopes(statements)\n')]),
 dict(name='hoisted-scope-format-unchecked-for-first', expect='flagged(scope/format)',
      edits=P4 + [(O, '\t\t\tif scope != trustpolicy.Wildcard {\n\t\t\t\tif err := scopeFormat.validate(scope); err != nil {', '\t\t\tif scope != trustpolicy.Wildcard && i > 0 {\n\t\t\t\tif err := scopeFormat.validate(scope); err != nil {')]),
 dict(name='hoisted-pattern-overwritten', expect='flagged(scope-format/domain-pattern)',
      edits=P4 + [(O, '// validate validates if a scope is following the format defined in\n// distribution spec\n', '// relax lets any domain pass\nfunc (f *registryScopeFormat) relax() { f.domainRegexp = regexp.MustCompile(`.*`) }\n\n// validate validates if a scope is following the format defined in\n// distribution spec\n'),
                  (O, '\tscopeFormat := newRegistryScopeFormat()\n', '\tscopeFormat := newRegistryScopeFormat()\n\tif len(statements) > 3 {\n\t\tscopeFormat.relax()\n\t}\n')]),
 dict(name='hoisted-pattern-not-constant', expect='flagged(scope-format/repository-pattern)',
      edits=P4 + [(O, 'func newRegistryScopeFormat() *registryScopeFormat {', 'func newRegistryScopeFormat(extra ...string) *registryScopeFormat {'),
                  (O, '(?:(?:/[a-z0-9]+(?:(?:(?:[._]|__|[-]*)[a-z0-9]+)+)?)+)?$`),\n\t}', '(?:(?:/[a-z0-9]+(?:(?:(?:[._]|__|[-]*)[a-z0-9]+)+)?)+)?$` + strings.Join(extra, "|")),\n\t}')]),
 dict(name='hoisted-pattern-address-taken', expect='flagged(scope-format/domain-pattern)',
      edits=P4 + [(O, '// validate validates if a scope is following the format defined in\n// distribution spec\n', '// domain exposes the domain pattern slot\nfunc (f *registryScopeFormat) domain() **regexp.Regexp { return &f.domainRegexp }\n\n// validate validates if a scope is following the format defined in\n// distribution spec\n'),
                  (O, '\tscopeFormat := newRegistryScopeFormat()\n', '\tscopeFormat := newRegistryScopeFormat()\n\tif len(statements) > 3 {\n\t\t*scopeFormat.domain() = regexp.MustCompile(`.*`)\n\t}\n')]),
 dict(name='hoisted-domain-not-matched', expect='flagged(scope-format/domain-pattern)',
      edits=P4 + [(O, '!f.domainRegexp.MatchString(domain) || ', '')]),
 dict(name='benign-pattern-package-variables', expect='silent',
      edits=[(O, '\tdomainRegexp := regexp.MustCompile(', '\tdomainRegexp = regexp.MustCompile('),
             (O, '\trepositoryRegexp := regexp.MustCompile(', '\trepositoryRegexp = regexp.MustCompile('),
             (O, 'var supportedOCIPolicyVersions = []string{"1.0"}\n', 'var supportedOCIPolicyVersions = []string{"1.0"}\n\nvar domainRegexp, repositoryRegexp *regexp.Regexp\n')],
      why='silent: still compiled in place before use (single store each, constant)'),
 dict(name='pointer-loop-core-skipped-for-first', expect='flagged(oci/document/core-rules)',
      edits=P4 + [(O, '\t\tif err := validatePolicyCore(statement.Name, statement.SignatureVerification, statement.TrustStores, statement.TrustedIdentities); err != nil {\n\t\t\treturn fmt.Errorf("oci trust policy: %w", err)', '\t\tif err := validatePolicyCore(statement.Name, statement.SignatureVerification, statement.TrustStores, statement.TrustedIdentities); err != nil && i > 0 {\n\t\t\treturn fmt.Errorf("oci trust policy: %w", err)')]),
 # ---- checks extracted into helpers ---------------------------------------------------------------------------------------
 dict(name='helper-statement-name-not-recorded', expect='flagged(document/duplicate-name)',
      edits=P3 + [(T, '\tseenNames.Add(name)\n\treturn nil\n}', '\tif len(trustStores) > 0 {\n\t\tseenNames.Add(name)\n\t}\n\treturn nil\n}')]),
 dict(name='helper-statement-core-error-ignored', expect='flagged(document/core-rules)',
      edits=P3 + [(T, '\tif err := validatePolicyCore(name, signatureVerification, trustStores, trustedIdentities); err != nil {\n\t\treturn fmt.Errorf("%s trust policy: %w", kind, err)', '\tif err := validatePolicyCore(name, signatureVerification, trustStores, trustedIdentities); err != nil && kind != "blob" {\n\t\treturn fmt.Errorf("%s trust policy: %w", kind, err)')]),
 dict(name='helper-statement-result-dropped', expect='flagged(blob/document/core-rules)',
      edits=P3 + [(B, '\t\tif err := validateStatement(blobPolicyKind, policyNames, statement.Name, statement.SignatureVerification, statement.TrustStores, statement.TrustedIdentities); err != nil {\n\t\t\treturn err\n\t\t}\n', '\t\t_ = validateStatement(blobPolicyKind, policyNames, statement.Name, statement.SignatureVerification, statement.TrustStores, statement.TrustedIdentities)\n')]),
 dict(name='helper-statement-other-name', expect='flagged(oci/document/duplicate-name)',
      edits=P3 + [(O, '\t\tif err := validateStatement(ociPolicyKind, policyNames, statement.Name, statement.SignatureVerification,', '\t\tif err := validateStatement(ociPolicyKind, set.New[string](), statement.Name, statement.SignatureVerification,'),
                  (O, '\tpolicyNames := set.New[string]()\n', '\tpolicyNames := set.New[string]()\n\t_ = policyNames\n')]),
 dict(name='helper-header-version-unchecked', expect='flagged(document/unsupported-version)',
      edits=P3 + [(T, '\tif !slices.Contains(supportedVersions, version) {', '\tif !slices.Contains(supportedVersions, version) && kind == "oci" {')]),
 dict(name='helper-global-skip-unchecked', expect='flagged(blob/document/global-rules)',
      edits=P3 + [(B, '\tif signatureVerification.VerificationLevel == LevelSkip.Name {\n\t\treturn errors.New("global blob', '\tif signatureVerification.VerificationLevel == LevelSkip.Name && foundGlobalPolicy {\n\t\treturn errors.New("global blob')]),
 dict(name='helper-global-F1', expect='flagged(blob/document/global-rules)',
      edits=P3 + [(B, '\t"fmt"\n', '\t"fmt"\n\t"reflect"\n'),
                  (B, '\tif signatureVerification.VerificationLevel == LevelSkip.Name {\n\t\treturn errors.New("global blob', '\tif reflect.DeepEqual(signatureVerification.VerificationLevel, LevelSkip) {\n\t\treturn errors.New("global blob')]),
 dict(name='helper-global-second-accepted', expect='flagged(blob/document/global-rules)',
      edits=P3 + [(B, '\tif foundGlobalPolicy {\n\t\treturn errors.New("multiple blob', '\tif foundGlobalPolicy && signatureVerification.VerifyTimestamp != "" {\n\t\treturn errors.New("multiple blob')]),
 dict(name='helper-global-flag-not-passed', expect='flagged(blob/document/global-rules)',
      edits=P3 + [(B, 'validateGlobalPolicy(statement.SignatureVerification, foundGlobalPolicy); err != nil {', 'validateGlobalPolicy(statement.SignatureVerification, foundGlobalPolicy && statement.Name == ""); err != nil {')]),
 dict(name='helper-global-result-dropped', expect='flagged(blob/document/global-rules)',
      edits=P3 + [(B, '\t\t\tif err := validateGlobalPolicy(statement.SignatureVerification, foundGlobalPolicy); err != nil {\n\t\t\t\treturn err\n\t\t\t}\n', '\t\t\t_ = validateGlobalPolicy(statement.SignatureVerification, foundGlobalPolicy)\n')]),
 dict(name='helper-verify-timestamp-any-long', expect='flagged(core/verify-timestamp-option)',
      edits=P3 + [(T, '\t\toption != OptionAfterCertExpiry {\n', '\t\toption != OptionAfterCertExpiry && len(option) < 5 {\n')]),
 dict(name='helper-verify-timestamp-other-value', expect='flagged(core/verify-timestamp-option)',
      edits=P3 + [(T, '\tif err := validateVerifyTimestamp(name, signatureVerification.VerifyTimestamp); err != nil {', '\tif err := validateVerifyTimestamp(name, OptionAlways); err != nil {')]),
 dict(name='helper-verify-timestamp-result-dropped', expect='flagged(core/verify-timestamp-option)',
      edits=P3 + [(T, '\tif err := validateVerifyTimestamp(name, signatureVerification.VerifyTimestamp); err != nil {\n\t\treturn err\n\t}\n', '\t_ = validateVerifyTimestamp(name, signatureVerification.VerifyTimestamp)\n')]),
 dict(name='helper-level-case-insensitive', expect='flagged(level/by-name)',
      edits=P3 + [(T, '\t\tif l.Name == name {\n\t\t\tlevel = l', '\t\tif strings.EqualFold(l.Name, name) {\n\t\t\tlevel = l')]),
 dict(name='helper-level-other-name', expect='flagged(level/by-name)',
      edits=P3 + [(T, '\tbaseLevel := findVerificationLevel(signatureVerification.VerificationLevel)', '\tbaseLevel := findVerificationLevel(strings.ToLower(signatureVerification.VerificationLevel))')]),
 dict(name='helper-level-default', expect='flagged(level/by-name)',
      edits=P3 + [(T, '\treturn level\n}', '\tif level == nil {\n\t\treturn LevelAudit\n\t}\n\treturn level\n}')]),
 dict(name='helper-override-skip-any-type', expect='flagged(custom/skip-only-revocation)',
      edits=P3 + [(T, '\t} else if validationType != TypeRevocation && validationAction == ActionSkip {\n\t\treturn "", "", fmt.Errorf(', '\t} else if validationType != TypeRevocation && validationType != TypeExpiry && validationAction == ActionSkip {\n\t\treturn "", "", fmt.Errorf(')]),
 dict(name='helper-override-integrity', expect='flagged(custom/integrity)',
      edits=P3 + [(T, '\tif validationType == TypeIntegrity {\n\t\treturn "", "", fmt.Errorf(', '\tif validationType == TypeIntegrity && validationAction == ActionSkip {\n\t\treturn "", "", fmt.Errorf(')]),
 dict(name='helper-override-raw-key-stored', expect='flagged(custom/)',
      edits=P3 + [(T, '\t\tcustomVerificationLevel.Enforcement[validationType] = validationAction\n', '\t\t_ = validationType\n\t\tcustomVerificationLevel.Enforcement[key] = validationAction\n')]),
 dict(name='helper-identity-empty-value', expect='flagged(identity/empty-value)',
      edits=P3 + [(T, '\tif identityValue == "" {\n\t\treturn nil, false, fmt.Errorf("trust policy statement %q has trusted identity %q without an identity value", policyName, identity)\n\t}\n', '')]),
 dict(name='helper-identity-dn-error-not-x509', expect='flagged(identity/dn-parses)',
      edits=P3 + [(T, '\tif err != nil {\n\t\treturn nil, false, fmt.Errorf("trust policy statement %q has trusted identity %q with invalid identity value: %w", policyName, identity, err)\n\t}\n\treturn dn, true, nil', '\tif err != nil {\n\t\treturn nil, false, nil\n\t}\n\treturn dn, true, nil')]),
 dict(name='helper-identity-no-separator-not-x509', expect='flagged(identity/separator)',
      edits=P3 + [(T, '\tif !found {\n\t\treturn nil, false, fmt.Errorf("trust policy statement %q has trusted identity %q missing separator", policyName, identity)\n\t}\n', '\tif !found {\n\t\treturn nil, false, nil\n\t}\n')]),
 dict(name='helper-identity-x509-not-collected', expect='flagged(identity/overlap)',
      edits=P3 + [(T, '\t\tif isX509Subject {\n\t\t\tparsedDNs = append(', '\t\tif isX509Subject && len(parsedDNs) == 0 {\n\t\t\tparsedDNs = append(')]),
 dict(name='helper-identity-x509-reported-false', expect='flagged(identity/overlap)',
      edits=P3 + [(T, '\treturn dn, true, nil\n', '\treturn dn, len(dn) > 3, nil\n')]),
 dict(name='helper-identity-error-ignored', expect='flagged(identity/)',
      edits=P3 + [(T, '\t\tdn, isX509Subject, err := parseTrustedIdentity(policyName, identity)\n\t\tif err != nil {\n\t\t\treturn err\n\t\t}\n', '\t\tdn, isX509Subject, _ := parseTrustedIdentity(policyName, identity)\n')]),
 dict(name='inlined-overlap-half-pairs', expect='flagged(identity/overlap/all-ordered-pairs)',
      edits=P3 + [(T, '\t\tfor j, dn2 := range parsedDNs {\n\t\t\tif i != j && pkix.IsSubsetDN(dn1.ParsedMap, dn2.ParsedMap) {', '\t\tfor _, dn2 := range parsedDNs[i+1:] {\n\t\t\tif pkix.IsSubsetDN(dn1.ParsedMap, dn2.ParsedMap) {')]),
 dict(name='inlined-overlap-bypassed', expect='flagged(identity/overlap)',
      edits=P3 + [(T, '\t// Verify there are no overlapping DNs\n\tfor i, dn1 := range parsedDNs {', '\t// Verify there are no overlapping DNs\n\tif len(parsedDNs) > 8 {\n\t\treturn nil\n\t}\n\tfor i, dn1 := range parsedDNs {')]),
 dict(name='inlined-overlap-other-list', expect='flagged(identity/overlap)',
      edits=P3 + [(T, '\t// Verify there are no overlapping DNs\n\tfor i, dn1 := range parsedDNs {\n\t\tfor j, dn2 := range parsedDNs {', '\t// Verify there are no overlapping DNs\n\tfirst := parsedDNs\n\tif len(first) > 2 {\n\t\tfirst = first[:2]\n\t}\n\tfor i, dn1 := range first {\n\t\tfor j, dn2 := range first {')]),
 dict(name='name-set-per-iteration', file=O, expect='flagged(oci/document/duplicate-name)',
      find='\tpolicyNames := set.New[string]()\n\tfor _, statement := range policyDoc.TrustPolicies {\n', replace='\tfor _, statement := range policyDoc.TrustPolicies {\n\t\tpolicyNames := set.New[string]()\n'),
 dict(name='name-added-to-other-set', file=B, expect='flagged(blob/document/duplicate-name)',
      edits=[(B, '\tpolicyNames := set.New[string]()\n', '\tpolicyNames, globalNames := set.New[string](), set.New[string]()\n'),
             (B, '\t\tpolicyNames.Add(statement.Name)\n', '\t\tif statement.GlobalPolicy {\n\t\t\tglobalNames.Add(statement.Name)\n\t\t} else {\n\t\t\tpolicyNames.Add(statement.Name)\n\t\t}\n')]),
 # ---- strings.IndexByte for strings.Contains (refactoring out-C08/3) ----------------------------------------------------------
 dict(name='benign-scope-star-indexbyte', file=O, expect='silent',
      find='\tif len(scope) > 1 && strings.Contains(scope, "*") {', replace="\tif len(scope) > 1 && strings.IndexByte(scope, '*') >= 0 {"),
 dict(name='scope-star-indexbyte-not-first', file=O, expect='flagged(scope-format/no-embedded-wildcard)',
      find='\tif len(scope) > 1 && strings.Contains(scope, "*") {', replace="\tif len(scope) > 1 && strings.IndexByte(scope, '*') > 0 {"),
]

# ---- file-name validator as a loop over the bytes (refactoring out-C16/4) ------------------------------------------------------
BYTELOOP = [(F, '\t"regexp"\n', ''),
            (F, '\treturn regexp.MustCompile(`^[a-zA-Z0-9_.-]+$`).MatchString(fileName)\n}\n',
                '\tif fileName == "" {\n\t\treturn false\n\t}\n\tfor i := 0; i < len(fileName); i++ {\n\t\tif !isFileNameChar(fileName[i]) {\n\t\t\treturn false\n\t\t}\n\t}\n\treturn true\n}\n\n'
                '// isFileNameChar reports whether c is in the set [a-zA-Z0-9_.-].\nfunc isFileNameChar(c byte) bool {\n\tswitch {\n\tcase \'a\' <= c && c <= \'z\', \'A\' <= c && c <= \'Z\', \'0\' <= c && c <= \'9\':\n\t\treturn true\n\t}\n\treturn c == \'_\' || c == \'.\' || c == \'-\'\n}\n')]
NEW += [
 dict(name='benign-filename-byte-loop', expect='silent', edits=BYTELOOP),
 dict(name='benign-filename-byte-loop-inline', expect='silent',
      edits=BYTELOOP + [(F, '\t\tif !isFileNameChar(fileName[i]) {\n', "\t\tif c := fileName[i]; !(c >= 'a' && c <= 'z' || c >= '0' && c <= '9' || c == '_' || c == '-' || c == '.') {\n")]),
 dict(name='filename-byte-loop-admits-slash', expect='flagged(file-name/certified)',
      edits=BYTELOOP + [(F, "\treturn c == '_' || c == '.' || c == '-'\n", "\treturn c == '_' || c == '.' || c == '-' || c == '/'\n")]),
 dict(name='filename-byte-loop-admits-range-with-backslash', expect='flagged(file-name/certified)',
      edits=BYTELOOP + [(F, "'A' <= c && c <= 'Z'", "'A' <= c && c <= '_'")]),
 dict(name='filename-byte-loop-skips-first', expect='flagged(file-name/certified)',
      edits=BYTELOOP + [(F, '\tfor i := 0; i < len(fileName); i++ {', '\tfor i := 1; i < len(fileName); i++ {')]),
 dict(name='filename-byte-loop-every-second', expect='flagged(file-name/certified)',
      edits=BYTELOOP + [(F, '\tfor i := 0; i < len(fileName); i++ {', '\tfor i := 0; i < len(fileName); i += 2 {')]),
 dict(name='filename-byte-loop-stops-early', expect='flagged(file-name/certified)',
      edits=BYTELOOP + [(F, '\t\tif !isFileNameChar(fileName[i]) {\n\t\t\treturn false\n\t\t}\n', '\t\tif !isFileNameChar(fileName[i]) {\n\t\t\treturn false\n\t\t}\n\t\tif i > 64 {\n\t\t\tbreak\n\t\t}\n')]),
 dict(name='filename-byte-loop-tolerates-late-bytes', expect='flagged(file-name/certified)',
      edits=BYTELOOP + [(F, '\t\tif !isFileNameChar(fileName[i]) {\n', '\t\tif !isFileNameChar(fileName[i]) && i < 8 {\n')]),
 dict(name='filename-byte-loop-dotdot', expect='flagged(file-name/certified)',
      edits=BYTELOOP + [(F, '\tif fileName == "." || fileName == ".." {', '\tif fileName == "." {')]),
 dict(name='filename-byte-loop-empty', expect='flagged(file-name/certified)',
      edits=BYTELOOP + [(F, '\tif fileName == "" {\n\t\treturn false\n\t}\n', '')]),
 dict(name='filename-byte-loop-other-string', expect='flagged(file-name/certified)',
      edits=BYTELOOP + [(F, '\tfor i := 0; i < len(fileName); i++ {\n\t\tif !isFileNameChar(fileName[i]) {', '\tbase := filepath.Base(fileName)\n\tfor i := 0; i < len(base); i++ {\n\t\tif !isFileNameChar(base[i]) {')]),
]

# ---- a gate computed by a predicate helper --------------------------------------------------------------------------------------
PRED = [(T, '\tif len(tis) > 1 && slices.Contains(tis, trustpolicy.Wildcard) {', '\tif !wildcardAlone(tis) {'),
        (T, '\nfunc validateOverlappingDNs(', '\n// wildcardAlone reports whether the wildcard, if listed, is the only entry\nfunc wildcardAlone(list []string) bool {\n\treturn len(list) <= 1 || !slices.Contains(list, trustpolicy.Wildcard)\n}\n\nfunc validateOverlappingDNs(')]
NEW += [
 dict(name='benign-wildcard-alone-predicate', expect='silent', edits=PRED),
 dict(name='benign-wildcard-alone-predicate-branches', expect='silent',
      edits=PRED + [(T, '\treturn len(list) <= 1 || !slices.Contains(list, trustpolicy.Wildcard)\n', '\tif len(list) > 1 {\n\t\treturn !slices.Contains(list, trustpolicy.Wildcard)\n\t}\n\treturn true\n')]),
 dict(name='wildcard-alone-predicate-two', expect='flagged(identity/wildcard-alone)',
      edits=PRED + [(T, '\treturn len(list) <= 1 || !slices.Contains(list, trustpolicy.Wildcard)\n', '\treturn len(list) <= 2 || !slices.Contains(list, trustpolicy.Wildcard)\n')]),
 dict(name='wildcard-alone-predicate-first-only', expect='flagged(identity/wildcard-alone)',
      edits=PRED + [(T, '\treturn len(list) <= 1 || !slices.Contains(list, trustpolicy.Wildcard)\n', '\treturn len(list) <= 1 || !slices.Contains(list[:1], trustpolicy.Wildcard)\n')]),
 dict(name='wildcard-alone-predicate-other-list', expect='flagged(identity/wildcard-alone)',
      edits=PRED + [(T, '\tif !wildcardAlone(tis) {', '\tif !wildcardAlone(tis[1:]) {')]),
 dict(name='wildcard-alone-predicate-inverted', expect='flagged(identity/wildcard-alone)',
      edits=PRED + [(T, '\tif !wildcardAlone(tis) {', '\tif wildcardAlone(tis) && len(tis) > 4 {')]),
]

VARIANTS += NEW

# ======================================================================================================================
# Second pass: rules re-anchored by role / decided on SSA values and through gate composition (held-out refactorings
# /tmp/benign2/out-C08/2 and out-C09/2), further members of the same classes, and the broken counterparts.
# ======================================================================================================================
# ---- class: the element of the iteration held in an addressable local (a pointer-receiver method is called on the loop
# variable), read through an accessor, or through a pointer to the element -------------------------------------------------
HAS_SCOPE = [(O, '\t\tif len(statement.RegistryScopes) > 1 && slices.Contains(statement.RegistryScopes, trustpolicy.Wildcard) {',
                 '\t\tif len(statement.RegistryScopes) > 1 && statement.hasRegistryScope(trustpolicy.Wildcard) {'),
             (O, '// validateRegistryScopes validates if the policy document is following the\n',
                 '// hasRegistryScope reports whether scope is one of the registry scopes of the statement\nfunc (t *OCITrustPolicy) hasRegistryScope(scope string) bool {\n\treturn slices.Contains(t.RegistryScopes, scope)\n}\n\n// validateRegistryScopes validates if the policy document is following the\n')]
SCOPES_GETTER = [(O, '\t\tfor _, scope := range statement.RegistryScopes {', '\t\tfor _, scope := range statement.scopes() {'),
                 (O, '// validateRegistryScopes validates if the policy document is following the\n',
                     '// scopes returns the registry scopes of the statement\nfunc (t *OCITrustPolicy) scopes() []string {\n\treturn t.RegistryScopes\n}\n\n// validateRegistryScopes validates if the policy document is following the\n')]
IS_GLOBAL = [(B, '\t\tif statement.GlobalPolicy {\n\t\t\tif foundGlobalPolicy {', '\t\tif statement.isGlobal() {\n\t\t\tif foundGlobalPolicy {'),
             (B, '// Validate validates a blob trust policy document according to its version\'s\n',
                 '// isGlobal reports whether the statement is the global one\nfunc (t *BlobTrustPolicy) isGlobal() bool {\n\treturn t.GlobalPolicy\n}\n\n// Validate validates a blob trust policy document according to its version\'s\n')]
NEW2 = [
 dict(name='benign-scope-method-on-loop-variable', expect='silent', edits=HAS_SCOPE),
 dict(name='benign-scope-accessor-on-loop-variable', expect='silent', edits=SCOPES_GETTER),
 dict(name='benign-scope-method-and-accessor', expect='silent', edits=HAS_SCOPE[:1] + SCOPES_GETTER[:1] + [
     (O, '// validateRegistryScopes validates if the policy document is following the\n',
         '// hasRegistryScope reports whether scope is one of the registry scopes of the statement\nfunc (t *OCITrustPolicy) hasRegistryScope(scope string) bool {\n\treturn slices.Contains(t.scopes(), scope)\n}\n\n// scopes returns the registry scopes of the statement\nfunc (t *OCITrustPolicy) scopes() []string {\n\treturn t.RegistryScopes\n}\n\n// validateRegistryScopes validates if the policy document is following the\n')]),
 dict(name='benign-scope-pointer-to-element', expect='silent',
      edits=[(O, 'func validateRegistryScopes(policyDoc *OCIDocument) error {\n\tregistryScopeCount := make(map[string]int)\n\tfor _, statement := range policyDoc.TrustPolicies {\n',
                 'func validateRegistryScopes(policyDoc *OCIDocument) error {\n\tregistryScopeCount := make(map[string]int)\n\tfor i := range policyDoc.TrustPolicies {\n\t\tstatement := &policyDoc.TrustPolicies[i]\n')] + HAS_SCOPE),
 dict(name='benign-global-method-on-loop-variable', expect='silent', edits=IS_GLOBAL),
 # the local copy is not read-only: the method called on it drops all scopes but the first before they are checked
 dict(name='scope-method-mutates-copy', expect='flagged(scope/loops)',
      edits=HAS_SCOPE + [(O, '\t\t// Verify registry scopes are valid\n\t\tif len(statement.RegistryScopes) == 0 {', '\t\tstatement.firstScopeOnly()\n\t\t// Verify registry scopes are valid\n\t\tif len(statement.RegistryScopes) == 0 {'),
                         (O, '// hasRegistryScope reports whether', '// firstScopeOnly keeps the first scope\nfunc (t *OCITrustPolicy) firstScopeOnly() {\n\tif len(t.RegistryScopes) > 1 {\n\t\tt.RegistryScopes = t.RegistryScopes[:1]\n\t}\n}\n\n// hasRegistryScope reports whether')]),
 dict(name='scope-method-wildcard-first-only', expect='flagged(scope/wildcard-alone)',
      edits=HAS_SCOPE + [(O, '\treturn slices.Contains(t.RegistryScopes, scope)\n}\n\n// validateRegistryScopes', '\treturn len(t.RegistryScopes) > 0 && t.RegistryScopes[0] == scope\n}\n\n// validateRegistryScopes')]),
 dict(name='scope-method-other-receiver', expect='flagged(scope/wildcard-alone)',
      edits=HAS_SCOPE + [(O, '\t\tif len(statement.RegistryScopes) > 1 && statement.hasRegistryScope(trustpolicy.Wildcard) {', '\t\tif len(statement.RegistryScopes) > 1 && (&policyDoc.TrustPolicies[0]).hasRegistryScope(trustpolicy.Wildcard) {')]),
 dict(name='scope-loop-over-first-statement', expect='flagged(scope/loops)',
      edits=HAS_SCOPE + [(O, '\t\tfor _, scope := range statement.RegistryScopes {', '\t\tfor _, scope := range policyDoc.TrustPolicies[0].RegistryScopes {')]),
 dict(name='scope-accessor-other-field', expect='flagged(scope/loops)',
      edits=SCOPES_GETTER + [(O, 'func (t *OCITrustPolicy) scopes() []string {\n\treturn t.RegistryScopes\n}', 'func (t *OCITrustPolicy) scopes() []string {\n\treturn t.TrustStores\n}')]),
 dict(name='scope-accessor-truncates', expect='flagged(scope/loops)',
      edits=SCOPES_GETTER + [(O, 'func (t *OCITrustPolicy) scopes() []string {\n\treturn t.RegistryScopes\n}', 'func (t *OCITrustPolicy) scopes() []string {\n\tif len(t.RegistryScopes) > 4 {\n\t\treturn t.RegistryScopes[:4]\n\t}\n\treturn t.RegistryScopes\n}')]),
 dict(name='global-method-ignores-flag', expect='flagged(blob/document/global-rules)',
      edits=IS_GLOBAL + [(B, 'func (t *BlobTrustPolicy) isGlobal() bool {\n\treturn t.GlobalPolicy\n}', 'func (t *BlobTrustPolicy) isGlobal() bool {\n\treturn t.GlobalPolicy && len(t.TrustStores) > 0\n}')]),
]

# ---- class: membership test inlined / written with the library / enumerated; entry split and name test behind helpers ------
TYPE_IF = '\t\tif !isValidTrustStoreType(storeType) {\n\t\t\treturn fmt.Errorf("trust policy statement %q uses an unsupported trust store type %q in trust store value %q", policyName, storeType, trustStore)\n\t\t}\n'
TYPE_SWITCH = '\t\tswitch truststore.Type(storeType) {\n\t\tcase truststore.TypeCA, truststore.TypeSigningAuthority, truststore.TypeTSA:\n\t\tdefault:\n\t\t\treturn fmt.Errorf("trust policy statement %q uses an unsupported trust store type %q in trust store value %q", policyName, storeType, trustStore)\n\t\t}\n'
TYPE_HELPER_BODY = '\tfor _, p := range truststore.Types {\n\t\tif s == string(p) {\n\t\t\treturn true\n\t\t}\n\t}\n\treturn false\n'
SPLIT = [(T, '\t\tstoreType, namedStore, found := strings.Cut(trustStore, ":")\n\t\tif !found {\n\t\t\treturn fmt.Errorf("trust policy statement %q has malformed trust store value %q. The required format is <TrustStoreType>:<TrustStoreName>", policyName, trustStore)\n\t\t}\n',
             '\t\tstoreType, namedStore, err := splitTrustStore(policyName, trustStore)\n\t\tif err != nil {\n\t\t\treturn err\n\t\t}\n'),
         (T, '// validateTrustStore validates if the policy statement is following the\n',
             '// splitTrustStore splits a trust store value into its type and its name\nfunc splitTrustStore(policyName, trustStore string) (string, string, error) {\n\tstoreType, namedStore, found := strings.Cut(trustStore, ":")\n\tif !found {\n\t\treturn "", "", fmt.Errorf("trust policy statement %q has malformed trust store value %q. The required format is <TrustStoreType>:<TrustStoreName>", policyName, trustStore)\n\t}\n\treturn storeType, namedStore, nil\n}\n\n// validateTrustStore validates if the policy statement is following the\n')]
NAME_WRAP = [(T, '\t\tif !file.IsValidFileName(namedStore) {', '\t\tif !isSafeStoreName(namedStore) {'),
             (T, '// validateTrustStore validates if the policy statement is following the\n',
                 '// isSafeStoreName reports whether the name can be used as a directory name\nfunc isSafeStoreName(s string) bool {\n\treturn file.IsValidFileName(s)\n}\n\n// validateTrustStore validates if the policy statement is following the\n')]
NEW2 += [
 dict(name='benign-store-type-inline-contains', expect='silent',
      edits=[(T, '\t\tif !isValidTrustStoreType(storeType) {', '\t\tif !slices.Contains(truststore.Types, truststore.Type(storeType)) {')]),
 dict(name='benign-store-type-inline-loop', expect='silent',
      edits=[(T, TYPE_IF, '\t\tknownType := false\n\t\tfor _, t := range truststore.Types {\n\t\t\tif string(t) == storeType {\n\t\t\t\tknownType = true\n\t\t\t\tbreak\n\t\t\t}\n\t\t}\n\t\tif !knownType {\n\t\t\treturn fmt.Errorf("trust policy statement %q uses an unsupported trust store type %q in trust store value %q", policyName, storeType, trustStore)\n\t\t}\n')]),
 dict(name='benign-store-type-switch-constants', expect='silent', edits=[(T, TYPE_IF, TYPE_SWITCH)]),
 dict(name='benign-store-type-helper-contains', expect='silent',
      edits=[(T, TYPE_HELPER_BODY, '\treturn slices.Contains(truststore.Types, truststore.Type(s))\n')]),
 dict(name='benign-store-split-helper', expect='silent', edits=SPLIT),
 dict(name='benign-store-name-wrapper', expect='silent', edits=NAME_WRAP),
 dict(name='benign-store-all-helpers', expect='silent', edits=[SPLIT[0], NAME_WRAP[0], (T, TYPE_IF, TYPE_SWITCH),
      (T, '// validateTrustStore validates if the policy statement is following the\n', SPLIT[1][2].replace('// validateTrustStore validates if the policy statement is following the\n', '') + NAME_WRAP[1][2])]),
 dict(name='store-type-inline-contains-name-part', expect='flagged(store/known-type)',
      edits=[(T, '\t\tif !isValidTrustStoreType(storeType) {', '\t\tif !slices.Contains(truststore.Types, truststore.Type(namedStore)) {')]),
 dict(name='store-type-inline-contains-other-list', expect='flagged(store/known-type)',
      edits=[(T, '\t\tif !isValidTrustStoreType(storeType) {', '\t\tif !slices.Contains([]string{"ca", "signingAuthority", "tsa", policyName}, storeType) {')]),
 dict(name='store-type-inline-loop-flag-preset', expect='flagged(store/known-type)',
      edits=[(T, TYPE_IF, '\t\tknownType := storeType == ""\n\t\tfor _, t := range truststore.Types {\n\t\t\tif string(t) == storeType {\n\t\t\t\tknownType = true\n\t\t\t\tbreak\n\t\t\t}\n\t\t}\n\t\tif !knownType {\n\t\t\treturn fmt.Errorf("trust policy statement %q uses an unsupported trust store type %q in trust store value %q", policyName, storeType, trustStore)\n\t\t}\n')]),
 dict(name='store-type-switch-extra-case', expect='flagged(store/known-type)',
      edits=[(T, TYPE_IF, TYPE_SWITCH.replace('truststore.TypeTSA:', 'truststore.TypeTSA, "any":'))]),
 dict(name='store-type-switch-default-passes', expect='flagged(store/known-type)',
      edits=[(T, TYPE_IF, TYPE_SWITCH.replace('\t\tdefault:\n\t\t\treturn fmt', '\t\tcase "":\n\t\t\treturn fmt'))]),
 dict(name='store-type-helper-prefix', expect='flagged(store/known-type)',
      edits=[(T, TYPE_HELPER_BODY, '\tfor _, p := range truststore.Types {\n\t\tif strings.HasPrefix(s, string(p)) {\n\t\t\treturn true\n\t\t}\n\t}\n\treturn false\n')]),
 dict(name='store-split-helper-error-dropped', expect='silent',
      edits=SPLIT + [(T, '\t\tstoreType, namedStore, err := splitTrustStore(policyName, trustStore)\n\t\tif err != nil {\n\t\t\treturn err\n\t\t}\n', '\t\tstoreType, namedStore, _ := splitTrustStore(policyName, trustStore)\n')],
      why='silent (was labelled flagged): equivalent for the property — an entry without ":" yields the name "", which the certified file-name validator rejects (only the error text differs); broken counterpart: store-split-helper-error-dropped-default-name'),
 dict(name='store-split-helper-tolerates-missing-separator', expect='silent',
      edits=SPLIT + [(T, '\tif !found {\n\t\treturn "", "", fmt.Errorf("trust policy statement %q has malformed', '\tif !found && storeType == "" {\n\t\treturn "", "", fmt.Errorf("trust policy statement %q has malformed')],
      why='silent (was labelled flagged): equivalent for the property — strings.Cut hands back the name "" for an entry without ":", rejected by the certified file-name validator; broken counterpart: store-split-helper-tolerates-missing-separator-and-empty-name'),
 dict(name='store-split-helper-error-dropped-default-name', expect='flagged(store/)',
      edits=SPLIT + [(T, '\t\tstoreType, namedStore, err := splitTrustStore(policyName, trustStore)\n\t\tif err != nil {\n\t\t\treturn err\n\t\t}\n', '\t\tstoreType, namedStore, _ := splitTrustStore(policyName, trustStore)\n'),
                     (T, '\tif !found {\n\t\treturn "", "", fmt.Errorf("trust policy statement %q has malformed', '\tif !found {\n\t\treturn trustStore, "default", fmt.Errorf("trust policy statement %q has malformed')]),
 dict(name='store-split-helper-tolerates-missing-separator-and-empty-name', expect='flagged(store/)',
      edits=SPLIT + [(T, '\tif !found {\n\t\treturn "", "", fmt.Errorf("trust policy statement %q has malformed', '\tif !found && storeType == "" {\n\t\treturn "", "", fmt.Errorf("trust policy statement %q has malformed'),
                     (T, '\t\tif !file.IsValidFileName(namedStore) {', '\t\tif namedStore != "" && !file.IsValidFileName(namedStore) {')]),
 dict(name='store-name-wrapper-loosened', expect='flagged(store/safe-name)',
      edits=NAME_WRAP + [(T, '\treturn file.IsValidFileName(s)\n', '\treturn strings.HasPrefix(s, "_") || file.IsValidFileName(s)\n')]),
 dict(name='store-name-wrapper-on-type-part', expect='flagged(store/safe-name)',
      edits=NAME_WRAP + [(T, '\t\tif !isSafeStoreName(namedStore) {', '\t\tif !isSafeStoreName(storeType) {')]),
]

# ---- class: parameters reordered / narrowed / widened; the scope rules inlined into the document validator --------------------
CORE_CALL = 'validatePolicyCore(statement.Name, statement.SignatureVerification, statement.TrustStores, statement.TrustedIdentities)'
CORE_REORDER = [(T, 'func validatePolicyCore(name string, signatureVerification SignatureVerification, trustStores, trustedIdentities []string) error {',
                    'func validatePolicyCore(signatureVerification SignatureVerification, trustedIdentities, trustStores []string, name string) error {'),
                (O, CORE_CALL, 'validatePolicyCore(statement.SignatureVerification, statement.TrustedIdentities, statement.TrustStores, statement.Name)'),
                (B, CORE_CALL, 'validatePolicyCore(statement.SignatureVerification, statement.TrustedIdentities, statement.TrustStores, statement.Name)')]
CORE_WIDEN = [(T, 'func validatePolicyCore(name string, signatureVerification SignatureVerification, trustStores, trustedIdentities []string) error {',
                  'func validatePolicyCore(kind, name string, signatureVerification *SignatureVerification, trustStores, trustedIdentities []string) error {\n\t_ = kind'),
              (O, CORE_CALL, 'validatePolicyCore("oci", statement.Name, &statement.SignatureVerification, statement.TrustStores, statement.TrustedIdentities)'),
              (B, CORE_CALL, 'validatePolicyCore("blob", statement.Name, &statement.SignatureVerification, statement.TrustStores, statement.TrustedIdentities)')]
LIST_NARROW = [(T, 'func validateTrustStore(policyName string, trustStores []string) error {', 'func validateTrustStore(trustStores []string, policyName string) error {'),
               (T, '\t\tif err := validateTrustStore(name, trustStores); err != nil {', '\t\tif err := validateTrustStore(trustStores, name); err != nil {'),
               (T, 'func validateTrustedIdentities(policyName string, tis []string) error {', 'func validateTrustedIdentities(kind string, tis []string, policyName string) error {\n\t_ = kind'),
               (T, '\t\tif err := validateTrustedIdentities(name, trustedIdentities); err != nil {', '\t\tif err := validateTrustedIdentities("statement", trustedIdentities, name); err != nil {')]
SCOPE_WIDEN = [(O, 'func validateRegistryScopes(policyDoc *OCIDocument) error {', 'func validateRegistryScopes(kind string, policyDoc *OCIDocument) error {\n\t_ = kind'),
               (O, '\tif err := validateRegistryScopes(policyDoc); err != nil {', '\tif err := validateRegistryScopes("oci", policyDoc); err != nil {')]
SCOPE_BODY = '''	registryScopeCount := make(map[string]int)
	for _, statement := range policyDoc.TrustPolicies {
		// Verify registry scopes are valid
		if len(statement.RegistryScopes) == 0 {
			return fmt.Errorf("oci trust policy statement %q has zero registry scopes, it must specify registry scopes with at least one value", statement.Name)
		}
		if len(statement.RegistryScopes) > 1 && slices.Contains(statement.RegistryScopes, trustpolicy.Wildcard) {
			return fmt.Errorf("oci trust policy statement %q uses wildcard registry scope '*', a wildcard scope cannot be used in conjunction with other scope values", statement.Name)
		}
		for _, scope := range statement.RegistryScopes {
			if scope != trustpolicy.Wildcard {
				if err := validateRegistryScopeFormat(scope); err != nil {
					return err
				}
			}
			registryScopeCount[scope]++
		}
	}

	// Verify one policy statement per registry scope
	for key := range registryScopeCount {
		if registryScopeCount[key] > 1 {
			return fmt.Errorf("registry scope %q is present in multiple oci trust policy statements, one registry scope value can only be associated with one statement", key)
		}
	}
'''
SCOPE_INLINE = [(O, '\t// Verify registry scopes are valid\n\tif err := validateRegistryScopes(policyDoc); err != nil {\n\t\treturn err\n\t}\n\treturn nil\n}', '\t// Verify registry scopes are valid\n' + SCOPE_BODY + '\treturn nil\n}')]
NEW2 += [
 dict(name='benign-core-parameters-reordered', expect='silent', edits=CORE_REORDER),
 dict(name='benign-core-parameters-widened', expect='silent', edits=CORE_WIDEN),
 dict(name='benign-list-validators-parameters', expect='silent', edits=LIST_NARROW),
 dict(name='benign-scope-validator-widened', expect='silent', edits=SCOPE_WIDEN),
 dict(name='benign-scope-rules-inlined', expect='silent', edits=SCOPE_INLINE),
 dict(name='core-reordered-stores-passed-twice', expect='flagged(document/core-rules)',
      edits=CORE_REORDER[:1] + [(O, CORE_CALL, 'validatePolicyCore(statement.SignatureVerification, statement.TrustStores, statement.TrustStores, statement.Name)'),
                                (B, CORE_CALL, 'validatePolicyCore(statement.SignatureVerification, statement.TrustStores, statement.TrustStores, statement.Name)')]),
 dict(name='core-reordered-lists-swapped-in-oci', expect='flagged(siblings/core)',
      edits=CORE_REORDER[:1] + [(O, CORE_CALL, 'validatePolicyCore(statement.SignatureVerification, statement.TrustStores, statement.TrustedIdentities, statement.Name)'),
                                CORE_REORDER[2]]),
 dict(name='core-of-first-statement', expect='flagged(document/core-rules)',
      edits=[(O, '\tfor _, statement := range policyDoc.TrustPolicies {\n\t\t// Verify unique policy statement names across the policy document\n', '\tfor range policyDoc.TrustPolicies {\n\t\tstatement := policyDoc.TrustPolicies[0]\n\t\t// Verify unique policy statement names across the policy document\n')]),
 dict(name='core-widened-other-signature-verification', expect='flagged(core/level-valid)',
      edits=CORE_WIDEN + [(T, '\tverificationLevel, err := signatureVerification.GetVerificationLevel()\n\tif err != nil {\n\t\treturn fmt.Errorf("trust policy statement %q has invalid signatureVerification: %w", name, err)',
                              '\tverificationLevel, err := (&SignatureVerification{VerificationLevel: signatureVerification.VerificationLevel}).GetVerificationLevel()\n\tif err != nil {\n\t\treturn fmt.Errorf("trust policy statement %q has invalid signatureVerification: %w", name, err)')]),
 dict(name='list-validators-identities-as-stores', expect='flagged(core/)',
      edits=LIST_NARROW[:2] + [(T, '\t\tif err := validateTrustedIdentities(name, trustedIdentities); err != nil {', '\t\tif err := validateTrustedIdentities(name, trustStores); err != nil {')]),
 dict(name='scope-validator-widened-skips-first', expect='flagged(scope)',
      edits=SCOPE_WIDEN + [(O, '\tregistryScopeCount := make(map[string]int)\n\tfor _, statement := range policyDoc.TrustPolicies {', '\tregistryScopeCount := make(map[string]int)\n\tfor _, statement := range policyDoc.TrustPolicies[1:] {')]),
 dict(name='scope-rules-inlined-bypassed', expect='flagged(scope)',
      edits=[(O, SCOPE_INLINE[0][1], '\t// Verify registry scopes are valid\n\tif len(policyDoc.TrustPolicies) > 64 {\n\t\treturn nil\n\t}\n' + SCOPE_BODY + '\treturn nil\n}')]),
 dict(name='scope-rules-inlined-early-accept-in-loop', expect='flagged(scope)',
      edits=[(O, SCOPE_INLINE[0][1], '\t// Verify registry scopes are valid\n' + SCOPE_BODY.replace('\t\tfor _, scope := range statement.RegistryScopes {', '\t\tif statement.Name == "default" {\n\t\t\treturn nil\n\t\t}\n\t\tfor _, scope := range statement.RegistryScopes {') + '\treturn nil\n}')]),
 dict(name='benign-empty-checks-by-length', expect='silent',
      edits=[(T, '\tif name == "" {\n\t\treturn errors.New("a trust policy statement is missing a name', '\tif len(name) == 0 {\n\t\treturn errors.New("a trust policy statement is missing a name'),
             (O, '\tif policyDoc.Version == "" {', '\tif len(policyDoc.Version) == 0 {'),
             (B, '\tif policyDoc.Version == "" {', '\tif len(policyDoc.Version) == 0 {')]),
 dict(name='empty-name-check-by-length-of-stores', expect='flagged(core/empty-name)',
      edits=[(T, '\tif name == "" {\n\t\treturn errors.New("a trust policy statement is missing a name', '\tif len(trustStores) == 0 && len(name) == 0 {\n\t\treturn errors.New("a trust policy statement is missing a name')]),
]

# ---- class: gates moved into a helper at another boundary (construction), the internal set replaced by a plain map,
# library equivalents of strings.Contains ------------------------------------------------------------------------------
CTOR_CHECKS = '\tif ociTrustPolicy != nil {\n\t\tif err := ociTrustPolicy.Validate(); err != nil {\n\t\t\treturn nil, err\n\t\t}\n\t}\n\tif blobTrustPolicy != nil {\n\t\tif err := blobTrustPolicy.Validate(); err != nil {\n\t\t\treturn nil, err\n\t\t}\n\t}\n'
CTOR_HELPER_DECL = '// validatePolicies validates the trust policy documents that are set\nfunc validatePolicies(oci *trustpolicy.OCIDocument, blob *trustpolicy.BlobDocument) error {\n\tif oci != nil {\n\t\tif err := oci.Validate(); err != nil {\n\t\t\treturn err\n\t\t}\n\t}\n\tif blob != nil {\n\t\treturn blob.Validate()\n\t}\n\treturn nil\n}\n\n'
CTOR_HELPER = [(V, CTOR_CHECKS, '\tif err := validatePolicies(ociTrustPolicy, blobTrustPolicy); err != nil {\n\t\treturn nil, err\n\t}\n'),
               (V, '// NewVerifierWithOptions creates a new verifier given trustStore and\n', CTOR_HELPER_DECL + '// NewVerifierWithOptions creates a new verifier given trustStore and\n')]
MAPSET_O = [(O, '\tpolicyNames := set.New[string]()\n', '\tpolicyNames := make(map[string]struct{}, len(policyDoc.TrustPolicies))\n'),
            (O, '\t\tif policyNames.Contains(statement.Name) {', '\t\tif _, seen := policyNames[statement.Name]; seen {'),
            (O, '\t\tpolicyNames.Add(statement.Name)\n', '\t\tpolicyNames[statement.Name] = struct{}{}\n'),
            (O, '\tset "github.com/notaryproject/notation-go/internal/container"\n', '')]
MAPSET_B = [(B, '\tpolicyNames := set.New[string]()\n', '\tpolicyNames := map[string]bool{}\n'),
            (B, '\t\tif policyNames.Contains(statement.Name) {', '\t\tif policyNames[statement.Name] {'),
            (B, '\t\tpolicyNames.Add(statement.Name)\n', '\t\tpolicyNames[statement.Name] = true\n'),
            (B, '\tset "github.com/notaryproject/notation-go/internal/container"\n', '')]
NEW2 += [
 dict(name='benign-constructor-validation-helper', expect='silent', edits=CTOR_HELPER),
 dict(name='benign-constructor-documents-from-options', expect='silent',
      edits=[(V, '\t\tociTrustPolicyDoc:  ociTrustPolicy,\n\t\tblobTrustPolicyDoc: blobTrustPolicy,\n', '\t\tociTrustPolicyDoc:  verifierOptions.OCITrustPolicy,\n\t\tblobTrustPolicyDoc: verifierOptions.BlobTrustPolicy,\n')]),
 dict(name='constructor-helper-skips-blob', expect='flagged(forced/validate-blobdocument)',
      edits=CTOR_HELPER + [(V, '\tif blob != nil {\n\t\treturn blob.Validate()\n\t}\n\treturn nil\n}', '\tif blob != nil && oci == nil {\n\t\treturn blob.Validate()\n\t}\n\treturn nil\n}')]),
 dict(name='constructor-helper-error-dropped', expect='flagged(forced/validate-)',
      edits=CTOR_HELPER + [(V, '\tif err := validatePolicies(ociTrustPolicy, blobTrustPolicy); err != nil {\n\t\treturn nil, err\n\t}\n', '\t_ = validatePolicies(ociTrustPolicy, blobTrustPolicy)\n')]),
 dict(name='constructor-helper-other-document', expect='flagged(forced/validate-ocidocument)',
      edits=CTOR_HELPER + [(V, '\tif err := validatePolicies(ociTrustPolicy, blobTrustPolicy); err != nil {', '\tif err := validatePolicies(&trustpolicy.OCIDocument{}, blobTrustPolicy); err != nil {')]),
 dict(name='constructor-stores-unvalidated-document', expect='flagged(forced/validate-ocidocument)',
      edits=CTOR_HELPER + [(V, '\t\tociTrustPolicyDoc:  ociTrustPolicy,\n', '\t\tociTrustPolicyDoc:  verifierOptions.OCITrustPolicy,\n'),
                           (V, '\tociTrustPolicy := verifierOptions.OCITrustPolicy\n', '\tociTrustPolicy := verifierOptions.OCITrustPolicy\n\tif ociTrustPolicy != nil && len(ociTrustPolicy.TrustPolicies) > 8 {\n\t\tociTrustPolicy = nil\n\t}\n')]),
 dict(name='benign-name-set-plain-map', expect='silent', edits=MAPSET_O + MAPSET_B),
 dict(name='name-map-value-false', expect='flagged(blob/document/duplicate-name)',
      edits=MAPSET_O + MAPSET_B[:2] + [(B, '\t\tpolicyNames.Add(statement.Name)\n', '\t\tpolicyNames[statement.Name] = statement.GlobalPolicy\n'), MAPSET_B[3]]),
 dict(name='name-map-other-key', expect='flagged(oci/document/duplicate-name)',
      edits=MAPSET_O[:2] + [(O, '\t\tpolicyNames.Add(statement.Name)\n', '\t\tpolicyNames[statement.SignatureVerification.VerificationLevel] = struct{}{}\n'), MAPSET_O[3]] + MAPSET_B),
 dict(name='name-map-two-maps', expect='flagged(oci/document/duplicate-name)',
      edits=MAPSET_O[:1] + [(O, '\t\tif policyNames.Contains(statement.Name) {', '\t\tother := make(map[string]struct{}, 1)\n\t\tif _, seen := other[statement.Name]; seen {'), MAPSET_O[2], MAPSET_O[3]] + MAPSET_B),
 dict(name='benign-scope-star-containsrune', file=O, expect='silent',
      find='\tif len(scope) > 1 && strings.Contains(scope, "*") {', replace="\tif len(scope) > 1 && strings.ContainsRune(scope, '*') {"),
 dict(name='benign-scope-star-count', file=O, expect='silent',
      find='\tif len(scope) > 1 && strings.Contains(scope, "*") {', replace='\tif len(scope) > 1 && strings.Count(scope, "*") != 0 {'),
 dict(name='scope-star-containsrune-other-rune', file=O, expect='flagged(scope-format/no-embedded-wildcard)',
      find='\tif len(scope) > 1 && strings.Contains(scope, "*") {', replace="\tif len(scope) > 1 && strings.ContainsRune(scope, '?') {"),
 dict(name='scope-star-count-two', file=O, expect='flagged(scope-format/no-embedded-wildcard)',
      find='\tif len(scope) > 1 && strings.Contains(scope, "*") {', replace='\tif len(scope) > 1 && strings.Count(scope, "*") > 1 {'),
]

VARIANTS += NEW2

# ---- third pass. class: a rule about EVERY element of a list, established by a loop of its own -----------------------
# (the per-scope format rule split from the counting loop, moved into a per-statement helper; "the list does not contain the
# wildcard" spelled as a loop instead of slices.Contains; the singleton list decided on its only element)
ZERO_MSG = 'fmt.Errorf("oci trust policy statement %q has zero registry scopes, it must specify registry scopes with at least one value", '
WILD_MSG = 'fmt.Errorf("oci trust policy statement %q uses wildcard registry scope \'*\', a wildcard scope cannot be used in conjunction with other scope values", '
SC_PRESENT = '\t\tif len(statement.RegistryScopes) == 0 {\n\t\t\treturn ' + ZERO_MSG + 'statement.Name)\n\t\t}\n'
SC_WILD = '\t\tif len(statement.RegistryScopes) > 1 && slices.Contains(statement.RegistryScopes, trustpolicy.Wildcard) {\n\t\t\treturn ' + WILD_MSG + 'statement.Name)\n\t\t}\n'
SC_LOOP = ('\t\tfor _, scope := range statement.RegistryScopes {\n\t\t\tif scope != trustpolicy.Wildcard {\n\t\t\t\tif err := validateRegistryScopeFormat(scope); err != nil {\n\t\t\t\t\treturn err\n\t\t\t\t}\n\t\t\t}\n'
           '\t\t\tregistryScopeCount[scope]++\n\t\t}\n')
SC_STMT = '\t\t// Verify registry scopes are valid\n' + SC_PRESENT + SC_WILD + SC_LOOP
SC_COUNT = '\t\tfor _, scope := range statement.RegistryScopes {\n\t\t\tregistryScopeCount[scope]++\n\t\t}\n'
SC_FORMAT = ('\t\tfor _, scope := range statement.RegistryScopes {\n\t\t\tif scope != trustpolicy.Wildcard {\n\t\t\t\tif err := validateRegistryScopeFormat(scope); err != nil {\n\t\t\t\t\treturn err\n\t\t\t\t}\n\t\t\t}\n\t\t}\n')
SC_DECL_AT = 'func getArtifactPathFromReference(artifactReference string) (string, error) {\n'
ST_HELPER = '''// validateStatementScopes validates the registry scopes of a single policy
// statement
func validateStatementScopes(statementName string, registryScopes []string) error {
	if len(registryScopes) == 0 {
		return ''' + ZERO_MSG + '''statementName)
	}
	if len(registryScopes) == 1 && registryScopes[0] == trustpolicy.Wildcard {
		// a wildcard scope on its own
		return nil
	}
	for _, scope := range registryScopes {
		if scope == trustpolicy.Wildcard {
			return ''' + WILD_MSG + '''statementName)
		}
	}
	for _, scope := range registryScopes {
		if err := validateRegistryScopeFormat(scope); err != nil {
			return err
		}
	}
	return nil
}

'''
ST_CALL = '\t\tif err := validateStatementScopes(statement.Name, statement.RegistryScopes); err != nil {\n\t\t\treturn err\n\t\t}\n'
def st_helper(find=None, replace=None, call=ST_CALL, helper=ST_HELPER):
    if find is not None:
        assert helper.count(find) == 1, find
        helper = helper.replace(find, replace)
    return [(O, SC_STMT, call + SC_COUNT), (O, SC_DECL_AT, helper + SC_DECL_AT)]
WILD_LOOP = '\tfor _, scope := range registryScopes {\n\t\tif scope == trustpolicy.Wildcard {\n\t\t\treturn ' + WILD_MSG + 'statementName)\n\t\t}\n\t}\n'
FMT_LOOP = '\tfor _, scope := range registryScopes {\n\t\tif err := validateRegistryScopeFormat(scope); err != nil {\n\t\t\treturn err\n\t\t}\n\t}\n'
SINGLETON = '\tif len(registryScopes) == 1 && registryScopes[0] == trustpolicy.Wildcard {\n'
# the format loop alone in a helper
FM_HELPER = '''// validateScopeFormats validates the format of every scope that is not the wildcard
func validateScopeFormats(scopes []string) error {
	for _, scope := range scopes {
		if scope == trustpolicy.Wildcard {
			continue
		}
		if err := validateRegistryScopeFormat(scope); err != nil {
			return err
		}
	}
	return nil
}

'''
FM_CALL = '\t\tif err := validateScopeFormats(statement.RegistryScopes); err != nil {\n\t\t\treturn err\n\t\t}\n'
def fm_helper(find=None, replace=None, call=FM_CALL):
    helper = FM_HELPER
    if find is not None:
        assert helper.count(find) == 1, find
        helper = helper.replace(find, replace)
    return [(O, SC_LOOP, call + SC_COUNT), (O, SC_DECL_AT, helper + SC_DECL_AT)]
# the statement's scope rules as a method of the statement
ST_METHOD = (ST_HELPER.replace('func validateStatementScopes(statementName string, registryScopes []string) error {', 'func (t *OCITrustPolicy) validateScopes() error {')
             .replace('statementName)', 't.Name)').replace('registryScopes', 't.RegistryScopes').replace('// validateStatementScopes validates', '// validateScopes validates'))
ST_METHOD_CALL = '\t\tif err := statement.validateScopes(); err != nil {\n\t\t\treturn err\n\t\t}\n'
# the wildcard rule as a loop, in place
WILD_INLINE = ('\t\tif len(statement.RegistryScopes) > 1 {\n\t\t\tfor _, scope := range statement.RegistryScopes {\n\t\t\t\tif scope == trustpolicy.Wildcard {\n\t\t\t\t\treturn ' + WILD_MSG + 'statement.Name)\n\t\t\t\t}\n\t\t\t}\n\t\t}\n')
# ... and through a boolean predicate
HAS_WILD = '''// hasWildcardScope reports whether one of the scopes is the wildcard
func hasWildcardScope(scopes []string) bool {
	for _, scope := range scopes {
		if scope == trustpolicy.Wildcard {
			return true
		}
	}
	return false
}

'''
HAS_WILD_USE = [(O, 'slices.Contains(statement.RegistryScopes, trustpolicy.Wildcard) {', 'hasWildcardScope(statement.RegistryScopes) {'), (O, SC_DECL_AT, HAS_WILD + SC_DECL_AT)]
# the identity wildcard rule as a loop
TI_WILD = '\tif len(tis) > 1 && slices.Contains(tis, trustpolicy.Wildcard) {\n\t\treturn fmt.Errorf("trust policy statement %q uses a wildcard trusted identity \'*\', a wildcard identity cannot be used in conjunction with other values", policyName)\n\t}\n'
TI_NO_SLICES = (T, '\t"github.com/notaryproject/notation-go/internal/slices"\n', '')
TI_WILD_LOOP = ('\tif len(tis) > 1 {\n\t\tfor _, ti := range tis {\n\t\t\tif ti == trustpolicy.Wildcard {\n\t\t\t\treturn fmt.Errorf("trust policy statement %q uses a wildcard trusted identity \'*\', a wildcard identity cannot be used in conjunction with other values", policyName)\n\t\t\t}\n\t\t}\n\t}\n')
NEW3 = [
 # -- the shape of the held-out refactoring: per-statement helper (singleton decided first, wildcard loop, format loop), counting left behind
 dict(name='benign-statement-scopes-helper', expect='silent', edits=st_helper()),
 dict(name='benign-statement-scopes-helper-loops-swapped', expect='silent',
      edits=st_helper(WILD_LOOP + FMT_LOOP, FMT_LOOP.replace('\t\tif err := validateRegistryScopeFormat(scope); err != nil {', '\t\tif scope == trustpolicy.Wildcard {\n\t\t\tcontinue\n\t\t}\n\t\tif err := validateRegistryScopeFormat(scope); err != nil {') + WILD_LOOP)),
 dict(name='benign-statement-scopes-helper-index-loops', expect='silent',
      edits=st_helper(WILD_LOOP + FMT_LOOP, '\tfor i := 0; i < len(registryScopes); i++ {\n\t\tif registryScopes[i] == trustpolicy.Wildcard {\n\t\t\treturn ' + WILD_MSG + 'statementName)\n\t\t}\n\t}\n'
                      '\tfor i := range registryScopes {\n\t\tif err := validateRegistryScopeFormat(registryScopes[i]); err != nil {\n\t\t\treturn err\n\t\t}\n\t}\n')),
 dict(name='benign-statement-scopes-helper-counts-first', expect='silent', edits=[(O, SC_STMT, SC_COUNT + ST_CALL), st_helper()[1]]),
 dict(name='benign-statement-scopes-helper-length-switch', expect='silent',
      edits=st_helper(SINGLETON + '\t\t// a wildcard scope on its own\n\t\treturn nil\n\t}\n', '\tif len(registryScopes) < 2 {\n\t\tif registryScopes[0] == trustpolicy.Wildcard {\n\t\t\treturn nil\n\t\t}\n\t\treturn validateRegistryScopeFormat(registryScopes[0])\n\t}\n')),
 dict(name='statement-scopes-helper-singleton-any-length', expect='flagged(scope/wildcard-alone)',
      edits=st_helper(SINGLETON, '\tif registryScopes[0] == trustpolicy.Wildcard {\n')),
 dict(name='statement-scopes-helper-singleton-any-length-format', expect='flagged(scope/format)',
      edits=st_helper(SINGLETON, '\tif len(registryScopes) >= 1 && registryScopes[0] == trustpolicy.Wildcard {\n')),
 dict(name='statement-scopes-helper-singleton-last-element', expect='flagged(scope/format)',
      edits=st_helper(SINGLETON, '\tif len(registryScopes) <= 2 && registryScopes[0] == trustpolicy.Wildcard {\n')),
 dict(name='statement-scopes-helper-wildcard-loop-first-only', expect='flagged(scope/wildcard-alone)',
      edits=st_helper('\t\tif scope == trustpolicy.Wildcard {\n\t\t\treturn ' + WILD_MSG + 'statementName)\n\t\t}\n\t}\n', '\t\tif scope == trustpolicy.Wildcard {\n\t\t\treturn ' + WILD_MSG + 'statementName)\n\t\t}\n\t\tbreak\n\t}\n')),
 dict(name='statement-scopes-helper-wildcard-loop-accepts', expect='flagged(scope/wildcard-alone)',
      edits=st_helper('\t\tif scope == trustpolicy.Wildcard {\n\t\t\treturn ' + WILD_MSG + 'statementName)\n', '\t\tif scope == trustpolicy.Wildcard {\n\t\t\treturn nil\n')),
 dict(name='statement-scopes-helper-wildcard-loop-tail', expect='flagged(scope/wildcard-alone)',
      edits=st_helper('\tfor _, scope := range registryScopes {\n\t\tif scope == trustpolicy.Wildcard {', '\tfor _, scope := range registryScopes[1:] {\n\t\tif scope == trustpolicy.Wildcard {')),
 dict(name='statement-scopes-helper-wildcard-loop-other-constant', expect='flagged(scope/wildcard-alone)',
      edits=st_helper('\tfor _, scope := range registryScopes {\n\t\tif scope == trustpolicy.Wildcard {', '\tfor _, scope := range registryScopes {\n\t\tif scope == "**" {')),
 dict(name='statement-scopes-helper-format-loop-tail', expect='flagged(scope/format)',
      edits=st_helper('\tfor _, scope := range registryScopes {\n\t\tif err := validateRegistryScopeFormat(scope)', '\tfor _, scope := range registryScopes[1:] {\n\t\tif err := validateRegistryScopeFormat(scope)')),
 dict(name='statement-scopes-helper-format-loop-every-other', expect='flagged(scope/format)',
      edits=st_helper('\tfor _, scope := range registryScopes {\n\t\tif err := validateRegistryScopeFormat(scope)', '\tfor i, scope := range registryScopes {\n\t\tif i%2 == 1 {\n\t\t\tcontinue\n\t\t}\n\t\tif err := validateRegistryScopeFormat(scope)')),
 dict(name='statement-scopes-helper-format-loop-step-two', expect='flagged(scope/format)',
      edits=st_helper(FMT_LOOP, '\tfor i := 0; i < len(registryScopes); i += 2 {\n\t\tif err := validateRegistryScopeFormat(registryScopes[i]); err != nil {\n\t\t\treturn err\n\t\t}\n\t}\n')),
 dict(name='statement-scopes-helper-format-loop-other-element', expect='flagged(scope/format)',
      edits=st_helper(FMT_LOOP, '\tfor range registryScopes {\n\t\tif err := validateRegistryScopeFormat(registryScopes[0]); err != nil {\n\t\t\treturn err\n\t\t}\n\t}\n')),
 dict(name='statement-scopes-helper-format-error-kept-for-long-scopes', expect='flagged(scope/format)',
      edits=st_helper('\t\tif err := validateRegistryScopeFormat(scope); err != nil {\n\t\t\treturn err\n\t\t}\n\t}\n\treturn nil', '\t\tif err := validateRegistryScopeFormat(scope); err != nil && len(scope) > 3 {\n\t\t\treturn err\n\t\t}\n\t}\n\treturn nil')),
 dict(name='statement-scopes-helper-format-loop-early-accept', expect='flagged(scope/format)',
      edits=st_helper('\tfor _, scope := range registryScopes {\n\t\tif err := validateRegistryScopeFormat(scope)', '\tfor _, scope := range registryScopes {\n\t\tif scope == statementName {\n\t\t\tbreak\n\t\t}\n\t\tif err := validateRegistryScopeFormat(scope)')),
 dict(name='statement-scopes-helper-result-dropped', expect='flagged(scope/)',
      edits=st_helper(call='\t\t_ = validateStatementScopes(statement.Name, statement.RegistryScopes)\n')),
 dict(name='statement-scopes-helper-other-statement', expect='flagged(scope/)',
      edits=st_helper(call='\t\tif err := validateStatementScopes(statement.Name, policyDoc.TrustPolicies[0].RegistryScopes); err != nil {\n\t\t\treturn err\n\t\t}\n')),
 dict(name='statement-scopes-helper-only-named-statements', expect='flagged(scope/)',
      edits=st_helper(call='\t\tif err := validateStatementScopes(statement.Name, statement.RegistryScopes); err != nil && statement.Name != "" {\n\t\t\treturn err\n\t\t}\n')),
 # -- further members of the class: the loops split in place; the format loop alone in a helper; a method of the statement
 dict(name='benign-scope-loops-split-in-place', expect='silent', edits=[(O, SC_LOOP, SC_FORMAT + SC_COUNT)]),
 dict(name='benign-scope-loops-split-count-first', expect='silent', edits=[(O, SC_STMT, SC_COUNT + SC_WILD + SC_FORMAT + SC_PRESENT)]),
 dict(name='scope-loops-split-format-breaks', expect='flagged(scope/format)',
      edits=[(O, SC_LOOP, SC_FORMAT.replace('\t\t\t\t\treturn err\n\t\t\t\t}\n\t\t\t}\n\t\t}\n', '\t\t\t\t\treturn err\n\t\t\t\t}\n\t\t\t}\n\t\t\tbreak\n\t\t}\n') + SC_COUNT)]),
 dict(name='scope-loops-split-count-tail', expect='flagged(scope/)',
      edits=[(O, SC_LOOP, SC_FORMAT + SC_COUNT.replace('range statement.RegistryScopes {', 'range statement.RegistryScopes[1:] {'))]),
 dict(name='benign-scope-formats-helper', expect='silent', edits=fm_helper()),
 dict(name='scope-formats-helper-skips-last', expect='flagged(scope/format)', edits=fm_helper('\tfor _, scope := range scopes {', '\tfor _, scope := range scopes[:len(scopes)-1] {')),
 dict(name='scope-formats-helper-continue-on-error', expect='flagged(scope/format)', edits=fm_helper('\t\tif err := validateRegistryScopeFormat(scope); err != nil {\n\t\t\treturn err\n', '\t\tif err := validateRegistryScopeFormat(scope); err != nil {\n\t\t\tcontinue\n')),
 dict(name='scope-formats-helper-only-for-several', expect='flagged(scope/format)',
      edits=fm_helper(call='\t\tif len(statement.RegistryScopes) > 1 {\n\t\t\tif err := validateScopeFormats(statement.RegistryScopes); err != nil {\n\t\t\t\treturn err\n\t\t\t}\n\t\t}\n')),
 dict(name='benign-statement-scopes-method', expect='silent', edits=[(O, SC_STMT, ST_METHOD_CALL + SC_COUNT), (O, SC_DECL_AT, ST_METHOD + SC_DECL_AT)]),
 dict(name='statement-scopes-method-stores-instead', expect='flagged(scope/)',
      edits=[(O, SC_STMT, ST_METHOD_CALL + SC_COUNT), (O, SC_DECL_AT, ST_METHOD.replace('\tfor _, scope := range t.RegistryScopes {\n\t\tif err := validateRegistryScopeFormat(scope)', '\tfor _, scope := range t.TrustStores {\n\t\tif err := validateRegistryScopeFormat(scope)') + SC_DECL_AT)]),
 # -- "does not contain the wildcard" as a loop: in place, through a boolean predicate, for the identities
 dict(name='benign-scope-wildcard-loop-in-place', expect='silent', edits=[(O, SC_WILD, WILD_INLINE)]),
 dict(name='scope-wildcard-loop-in-place-more-than-two', expect='flagged(scope/wildcard-alone)', edits=[(O, SC_WILD, WILD_INLINE.replace('> 1 {', '> 2 {'))]),
 dict(name='scope-wildcard-loop-in-place-continue-outer', expect='flagged(scope/wildcard-alone)',
      edits=[(O, SC_WILD, WILD_INLINE.replace('\t\t\t\tif scope == trustpolicy.Wildcard {\n', '\t\t\t\tif scope == statement.Name {\n\t\t\t\t\tbreak\n\t\t\t\t}\n\t\t\t\tif scope == trustpolicy.Wildcard {\n'))]),
 dict(name='benign-scope-wildcard-predicate-loop', expect='silent', edits=HAS_WILD_USE),
 dict(name='scope-wildcard-predicate-loop-tail', expect='flagged(scope/wildcard-alone)',
      edits=[HAS_WILD_USE[0], (O, SC_DECL_AT, HAS_WILD.replace('range scopes {', 'range scopes[1:] {') + SC_DECL_AT)]),
 dict(name='scope-wildcard-predicate-loop-inverted', expect='flagged(scope/wildcard-alone)',
      edits=[HAS_WILD_USE[0], (O, SC_DECL_AT, HAS_WILD.replace('\t\t\treturn true\n\t\t}\n\t}\n\treturn false', '\t\t\treturn false\n\t\t}\n\t}\n\treturn true') + SC_DECL_AT)]),
 dict(name='benign-identity-wildcard-loop', expect='silent', edits=[(T, TI_WILD, TI_WILD_LOOP), TI_NO_SLICES]),
 dict(name='identity-wildcard-loop-tail', expect='flagged(identity/wildcard-alone)', edits=[(T, TI_WILD, TI_WILD_LOOP.replace('range tis {', 'range tis[1:] {')), TI_NO_SLICES]),
 dict(name='identity-wildcard-loop-more-than-two', expect='flagged(identity/wildcard-alone)', edits=[(T, TI_WILD, TI_WILD_LOOP.replace('len(tis) > 1 {', 'len(tis) > 2 {')), TI_NO_SLICES]),
 dict(name='identity-wildcard-loop-accepts', expect='flagged(identity/wildcard-alone)',
      edits=[(T, TI_WILD, TI_WILD_LOOP.replace('\t\t\t\treturn fmt.Errorf("trust policy statement %q uses a wildcard trusted identity', '\t\t\t\tbreak\n\t\t\t\treturn fmt.Errorf("trust policy statement %q uses a wildcard trusted identity')), TI_NO_SLICES]),
]
VARIANTS += NEW3

# -- the same class for the trust store entries: one loop per rule, the second one in place or in a helper
TS_NAME = ('\t\tif !file.IsValidFileName(namedStore) {\n\t\t\treturn fmt.Errorf("trust policy statement %q uses an unsupported trust store name %q in trust store value %q. Named store name needs to follow [a-zA-Z0-9_.-]+ format", policyName, namedStore, trustStore)\n\t\t}\n')
TS_NAME_LOOP = '\tfor _, trustStore := range trustStores {\n\t\t_, namedStore, _ := strings.Cut(trustStore, ":")\n' + TS_NAME + '\t}\n'
TS_SPLIT = [(T, '\t\tstoreType, namedStore, found := strings.Cut(trustStore, ":")\n', '\t\tstoreType, _, found := strings.Cut(trustStore, ":")\n'),
            (T, TS_NAME + '\t}\n\treturn nil\n}', '\t}\n' + TS_NAME_LOOP + '\treturn nil\n}')]
TS_NAMES_HELPER = '// validateTrustStoreNames validates the named store of every trust store value\nfunc validateTrustStoreNames(policyName string, trustStores []string) error {\n' + TS_NAME_LOOP + '\treturn nil\n}\n\n'
TS_HELPER_AT = '// validateTrustedIdentities validates if the policy statement is following the\n'
TS_SPLIT_HELPER = [TS_SPLIT[0], (T, TS_NAME + '\t}\n\treturn nil\n}', '\t}\n\treturn validateTrustStoreNames(policyName, trustStores)\n}'), (T, TS_HELPER_AT, TS_NAMES_HELPER + TS_HELPER_AT)]
NEW3B = [
 dict(name='benign-store-rules-two-loops', expect='silent', edits=TS_SPLIT,
      why='silent: every entry still passes the three rules before the list is accepted (which violation is reported first may differ)'),
 dict(name='benign-store-names-loop-in-helper', expect='silent', edits=TS_SPLIT_HELPER),
 dict(name='store-rules-two-loops-names-tail', expect='flagged(store/safe-name)',
      edits=[TS_SPLIT[0], (T, TS_NAME + '\t}\n\treturn nil\n}', '\t}\n' + TS_NAME_LOOP.replace('range trustStores {', 'range trustStores[1:] {') + '\treturn nil\n}')]),
 dict(name='store-rules-two-loops-names-of-type', expect='flagged(store/safe-name)',
      edits=[TS_SPLIT[0], (T, TS_NAME + '\t}\n\treturn nil\n}', '\t}\n' + TS_NAME_LOOP.replace('_, namedStore, _ := strings.Cut(trustStore, ":")', 'namedStore, _, _ := strings.Cut(trustStore, ":")') + '\treturn nil\n}')]),
 dict(name='store-names-helper-result-dropped', expect='flagged(store/safe-name)',
      edits=[TS_SPLIT_HELPER[0], (T, TS_NAME + '\t}\n\treturn nil\n}', '\t}\n\t_ = validateTrustStoreNames(policyName, trustStores)\n\treturn nil\n}'), TS_SPLIT_HELPER[2]]),
 dict(name='store-names-helper-stops-at-first', expect='flagged(store/safe-name)',
      edits=[TS_SPLIT_HELPER[0], TS_SPLIT_HELPER[1], (T, TS_HELPER_AT, TS_NAMES_HELPER.replace(TS_NAME + '\t}\n', TS_NAME + '\t\tbreak\n\t}\n') + TS_HELPER_AT)]),
]
VARIANTS += NEW3B

# ---- fourth pass: a guard that another guard of the same exit subsumes (contract of strings.Cut, language of a constant pattern) ----
FMT_CUT = '\tdomain, repository, found := strings.Cut(scope, "/")\n\tif !found {\n\t\treturn fmt.Errorf(errorMessage, scope)\n\t}\n'
FMT_COND = '\tif domain == "" || repository == "" || !domainRegexp.MatchString(domain) || !repositoryRegexp.MatchString(repository) {\n'
FMT_NOFOUND = '\tdomain, repository, _ := strings.Cut(scope, "/")\n'
DOM_PAT = 'domainRegexp := regexp.MustCompile(`^(?:[a-zA-Z0-9]|'
REPO_PAT = 'repositoryRegexp := regexp.MustCompile(`^[a-z0-9]+(?:'
TS_CUT = '\t\tstoreType, namedStore, found := strings.Cut(trustStore, ":")\n\t\tif !found {\n\t\t\treturn fmt.Errorf("trust policy statement %q has malformed trust store value %q. The required format is <TrustStoreType>:<TrustStoreName>", policyName, trustStore)\n\t\t}\n'
TS_NOFOUND = '\t\tstoreType, namedStore, _ := strings.Cut(trustStore, ":")\n'
NEW4 = [
 dict(name='benign-scope-found-subsumed-by-repository-guard', expect='silent', edits=[(O, FMT_CUT, FMT_NOFOUND)],
      why='silent: without "/" strings.Cut hands back (scope, ""), which repository == "" rejects with the same error'),
 dict(name='benign-scope-guards-subsumed-by-patterns', expect='silent',
      edits=[(O, FMT_CUT, FMT_NOFOUND), (O, FMT_COND, '\tif !domainRegexp.MatchString(domain) || !repositoryRegexp.MatchString(repository) {\n')],
      why='silent: neither constant pattern matches "", so the empty halves (and with the second one the missing separator) are rejected by the pattern tests'),
 dict(name='benign-scope-halves-len-spelling', expect='silent',
      edits=[(O, FMT_CUT, FMT_NOFOUND), (O, FMT_COND, '\tif len(domain) == 0 || len(repository) < 1 || !domainRegexp.MatchString(domain) || !repositoryRegexp.MatchString(repository) {\n')]),
 dict(name='benign-scope-index-positive', expect='silent',
      edits=[(O, FMT_CUT, '\ti := strings.Index(scope, "/")\n\tif i <= 0 {\n\t\treturn fmt.Errorf(errorMessage, scope)\n\t}\n\tdomain, repository := scope[:i], scope[i+1:]\n'),
             (O, FMT_COND, '\tif repository == "" || !domainRegexp.MatchString(domain) || !repositoryRegexp.MatchString(repository) {\n')],
      why='silent: i > 0 says the separator is present and the part before it, scope[:i], is not empty'),
 dict(name='benign-scope-contains-slash', expect='silent',
      edits=[(O, FMT_CUT, '\tif !strings.Contains(scope, "/") {\n\t\treturn fmt.Errorf(errorMessage, scope)\n\t}\n' + FMT_NOFOUND)]),
 dict(name='scope-found-dropped-repository-unguarded', expect='flagged(scope-format/has-slash)',
      edits=[(O, FMT_CUT, FMT_NOFOUND), (O, FMT_COND, '\t_, _ = repository, repositoryRegexp\n\tif domain == "" || !domainRegexp.MatchString(domain) {\n')]),
 dict(name='scope-found-dropped-empty-repository-passes', expect='flagged(scope-format/has-slash)',
      edits=[(O, FMT_CUT, FMT_NOFOUND), (O, FMT_COND, '\tif domain == "" || !domainRegexp.MatchString(domain) || (repository != "" && !repositoryRegexp.MatchString(repository)) {\n')]),
 dict(name='scope-guards-dropped-repository-pattern-admits-empty', expect='flagged(scope-format/has-slash)',
      edits=[(O, FMT_CUT, FMT_NOFOUND), (O, FMT_COND, '\tif !domainRegexp.MatchString(domain) || !repositoryRegexp.MatchString(repository) {\n'),
             (O, REPO_PAT, 'repositoryRegexp := regexp.MustCompile(`^[a-z0-9]*(?:')]),
 dict(name='scope-guards-dropped-domain-pattern-admits-empty', expect='flagged(scope-format/domain-non-empty)',
      edits=[(O, FMT_CUT, FMT_NOFOUND), (O, FMT_COND, '\tif !domainRegexp.MatchString(domain) || !repositoryRegexp.MatchString(repository) {\n'),
             (O, DOM_PAT, 'domainRegexp := regexp.MustCompile(`^(?:|[a-zA-Z0-9]|')]),
 dict(name='scope-index-nonzero-only', expect='flagged(scope-format/has-slash)',
      edits=[(O, FMT_CUT, '\tif strings.Index(scope, "/") == 0 {\n\t\treturn fmt.Errorf(errorMessage, scope)\n\t}\n' + FMT_NOFOUND),
             (O, FMT_COND, '\t_, _ = repository, repositoryRegexp\n\tif !domainRegexp.MatchString(domain) {\n')]),
 dict(name='scope-contains-other-separator', expect='flagged(scope-format/has-slash)',
      edits=[(O, FMT_CUT, '\tif !strings.Contains(scope, ".") {\n\t\treturn fmt.Errorf(errorMessage, scope)\n\t}\n' + FMT_NOFOUND),
             (O, FMT_COND, '\tif domain == "" || !domainRegexp.MatchString(domain) || (repository != "" && !repositoryRegexp.MatchString(repository)) {\n')]),
 # the same class at the trust store entries: the name guard subsumes `found`
 dict(name='benign-store-found-subsumed-by-name-guard', expect='silent', edits=[(T, TS_CUT, TS_NOFOUND)],
      why='silent for the property: an entry without ":" is cut into (entry, ""), and the certified file-name validator rejects the empty name (the error text differs)'),
 dict(name='store-found-dropped-empty-name-passes', expect='flagged(store/)',
      edits=[(T, TS_CUT, TS_NOFOUND), (T, '\t\tif !file.IsValidFileName(namedStore) {', '\t\tif namedStore != "" && !file.IsValidFileName(namedStore) {')]),
 dict(name='store-found-dropped-name-validator-admits-empty', expect='flagged(file-name/certified)',
      edits=[(T, TS_CUT, TS_NOFOUND), (F, '`^[a-zA-Z0-9_.-]+$`', '`^[a-zA-Z0-9_.-]*$`')]),
 dict(name='store-found-dropped-name-of-type-half', expect='flagged(store/)',
      edits=[(T, TS_CUT, TS_NOFOUND), (T, '\t\tif !file.IsValidFileName(namedStore) {', '\t\t_ = namedStore\n\t\tif !file.IsValidFileName(storeType) {')]),
]
VARIANTS += NEW4

# ---- guard-mutation pass: the two `found` guards disabled by a conjunct (`if false && (!found)`, a realistic conjunct) ----
# Both guards are subsumed by the guard that follows them (contract of strings.Cut: without separator the second half is
# ""), so disabling them alone changes at most the error text: silent. They matter only together with the subsuming
# guard — then the separator slot itself reports, as a must-pass fact of the success exits / of the completed iteration.
GM_SC = '\tdomain, repository, found := strings.Cut(scope, "/")\n\tif !found {\n'
GM_TS = '\t\tstoreType, namedStore, found := strings.Cut(trustStore, ":")\n\t\tif !found {\n'
GM_REPO_OPEN = '\tif domain == "" || !domainRegexp.MatchString(domain) || (repository != "" && !repositoryRegexp.MatchString(repository)) {\n'
GM_NAME = '\t\tif !file.IsValidFileName(namedStore) {'
NEW5 = [
 dict(name='benign-gm-scope-found-false-conjunct', expect='silent',
      edits=[(O, GM_SC, GM_SC.replace('if !found {', 'if false && (!found) {'))],
      why='silent: equivalent mutant — a scope without "/" is cut into (scope, ""), which repository == "" rejects with the same error'),
 dict(name='benign-gm-scope-found-realistic-conjunct', expect='silent',
      edits=[(O, GM_SC, GM_SC.replace('if !found {', 'if len(scope) > 1 && !found {'))],
      why='silent: as above, whatever the conjunct — the guard on the repository half still rejects every scope without separator'),
 dict(name='gm-scope-found-false-conjunct-empty-repository-passes', expect='flagged(scope-format/has-slash)',
      edits=[(O, GM_SC, GM_SC.replace('if !found {', 'if false && (!found) {')), (O, FMT_COND, GM_REPO_OPEN)]),
 dict(name='gm-scope-found-realistic-conjunct-empty-repository-passes', expect='flagged(scope-format/has-slash)',
      edits=[(O, GM_SC, GM_SC.replace('if !found {', 'if len(scope) > 1 && !found {')), (O, FMT_COND, GM_REPO_OPEN)]),
 dict(name='benign-gm-store-found-false-conjunct', expect='silent',
      edits=[(T, GM_TS, GM_TS.replace('if !found {', 'if false && (!found) {'))],
      why='silent for the property: equivalent mutant up to the error text — an entry without ":" is cut into (entry, ""); an unknown type is rejected by the type test, a known one by the certified file-name validator on the empty name'),
 dict(name='benign-gm-store-found-realistic-conjunct', expect='silent',
      edits=[(T, GM_TS, GM_TS.replace('if !found {', 'if len(trustStores) > 1 && !found {'))],
      why='silent for the property: as above, whatever the conjunct'),
 dict(name='gm-store-found-false-conjunct-empty-name-passes', expect='flagged(store/separator)',
      edits=[(T, GM_TS, GM_TS.replace('if !found {', 'if false && (!found) {')), (T, GM_NAME, '\t\tif namedStore != "" && !file.IsValidFileName(namedStore) {')]),
 dict(name='gm-store-found-realistic-conjunct-empty-name-passes', expect='flagged(store/separator)',
      edits=[(T, GM_TS, GM_TS.replace('if !found {', 'if len(trustStores) > 1 && !found {')), (T, GM_NAME, '\t\tif len(namedStore) > 0 && !file.IsValidFileName(namedStore) {')]),
 dict(name='gm-store-found-realistic-conjunct-name-validator-admits-empty', expect='flagged(store/separator)',
      edits=[(T, GM_TS, GM_TS.replace('if !found {', 'if len(trustStores) > 1 && !found {')), (F, '`^[a-zA-Z0-9_.-]+$`', '`^[a-zA-Z0-9_.-]*$`')]),
]
VARIANTS += NEW5
