N = 'notation.go'
VARIANTS = [
 dict(name='counter-in-callback', file=N, expect='flagged(bound/counter)',
      edits=[(N, '\tnumOfSignatureProcessed := 0\n\n\t// get signature manifests', '\tnumOfSignatureProcessed := 0\n\ttotal := &numOfSignatureProcessed\n\n\t// get signature manifests'),
             (N, '\t\t// process signatures\n\t\tfor _, sigManifestDesc := range signatureManifests {', '\t\t// process signatures\n\t\t*total += numOfSignatureProcessed\n\t\tnumOfSignatureProcessed = 0\n\t\tfor _, sigManifestDesc := range signatureManifests {')]),
 dict(name='limit-gt', file=N, expect='flagged(bound/guard)',
      find='\t\t\tif numOfSignatureProcessed >= verifyOpts.MaxSignatureAttempts {\n\t\t\t\tbreak\n\t\t\t}', replace='\t\t\tif numOfSignatureProcessed > verifyOpts.MaxSignatureAttempts {\n\t\t\t\tbreak\n\t\t\t}'),
 dict(name='count-after-fetch', file=N, expect='flagged(bound/counted)',
      edits=[(N, '\t\t\tnumOfSignatureProcessed++\n\t\t\tlogger.Infof("Processing signature', '\t\t\tlogger.Infof("Processing signature'),
             (N, '\t\t\t// using signature media type fetched from registry\n', '\t\t\tnumOfSignatureProcessed++\n\t\t\t// using signature media type fetched from registry\n')]),
 dict(name='continue-after-success', file=N, expect='flagged(early-exit/stop-after-success)',
      find='\t\t\t// early break on success\n\t\t\treturn errDoneVerification\n', replace='\t\t\t// early break on success\n\t\t\tcontinue\n'),
 dict(name='break-after-success', file=N, expect='flagged(early-exit/stop-after-success)',
      find='\t\t\t// early break on success\n\t\t\treturn errDoneVerification\n', replace='\t\t\t// early break on success\n\t\t\tbreak\n'),
 dict(name='outcomes-appended', file=N, expect='flagged(early-exit/outcome-of-that-signature)',
      find='\t\t\tverificationOutcomes = []*VerificationOutcome{outcome}\n', replace='\t\t\tverificationOutcomes = append(verificationOutcomes, outcome)\n'),
 dict(name='failed-outcomes-kept', file=N, expect='flagged(early-exit/outcome-of-that-signature)',
      find='\t\t\t\tverificationFailedErrorArray = append(verificationFailedErrorArray, outcome.Error)\n', replace='\t\t\t\tverificationFailedErrorArray = append(verificationFailedErrorArray, outcome.Error)\n\t\t\t\tverificationOutcomes = append(verificationOutcomes, outcome)\n'),
 dict(name='resolve-before-skip', file=N, expect='flagged(precedence/skip-first/Resolve)',
      edits=[(N, '\tif skipChecker, ok := verifier.(verifySkipper); ok {', '\tearlyDesc, earlyErr := repo.Resolve(ctx, verifyOpts.ArtifactReference)\n\t_, _ = earlyDesc, earlyErr\n\tif skipChecker, ok := verifier.(verifySkipper); ok {')]),
 dict(name='zero-limit-allowed', file=N, expect='flagged(precedence/positive-limit)',
      find='\tif verifyOpts.MaxSignatureAttempts <= 0 {', replace='\tif verifyOpts.MaxSignatureAttempts < 0 {'),
 dict(name='digest-mismatch-accepted', file=N, expect='flagged(reference/digest-pinning)',
      find='\t} else if ref.Reference != artifactDescriptor.Digest.String() {\n\t\treturn ocispec.Descriptor{}, nil, ErrorSignatureRetrievalFailed{Msg: fmt.Sprintf("user input digest %s does not match the resolved digest %s", ref.Reference, artifactDescriptor.Digest.String())}\n\t}',
      replace='\t} else if ref.Reference != artifactDescriptor.Digest.String() {\n\t\tlogger.Warnf("user input digest %s does not match the resolved digest %s", ref.Reference, artifactDescriptor.Digest.String())\n\t}'),
 dict(name='empty-reference-accepted', file=N, expect='flagged(reference/non-empty)',
      find='\tif ref.Reference == "" {\n\t\treturn ocispec.Descriptor{}, nil, ErrorSignatureRetrievalFailed{Msg: "reference is missing digest or tag"}\n\t}\n', replace=''),
 dict(name='fetch-error-continue', file=N, expect='flagged(fail/fetch-error)',
      find='\t\t\t\treturn ErrorSignatureRetrievalFailed{Msg: fmt.Sprintf("unable to retrieve digital signature with digest %q associated with %q from the Repository, error : %v", sigManifestDesc.Digest, artifactRef, err.Error())}',
      replace='\t\t\t\tlogger.Warnf("unable to retrieve digital signature with digest %q: %v", sigManifestDesc.Digest, err)\n\t\t\t\tcontinue'),
 dict(name='nil-outcome-continue', file=N, expect='flagged(fail/nil-outcome)',
      find='\t\t\t\t\tlogger.Error("Got nil outcome. Expecting non-nil outcome on verification failure")\n\t\t\t\t\treturn err', replace='\t\t\t\t\tlogger.Error("Got nil outcome. Expecting non-nil outcome on verification failure")\n\t\t\t\t\tcontinue'),
 dict(name='success-without-flag', file=N, expect='flagged(result/success-exit)',
      find='\tif !verificationSucceeded {\n', replace='\tif !verificationSucceeded && len(verificationFailedErrorArray) > 1 {\n'),
 dict(name='returns-unresolved', file=N, expect='flagged(result/success-exit)',
      find='\t// Verification Succeeded\n\treturn artifactDescriptor, verificationOutcomes, nil', replace='\t// Verification Succeeded\n\treturn ocispec.Descriptor{Digest: artifactDescriptor.Digest}, verificationOutcomes, nil'),
 dict(name='listing-error-ignored', file=N, expect='flagged(result/listing-error)',
      find='\tif err != nil && !errors.Is(err, errDoneVerification) {\n\t\tif errors.Is(err, errExceededMaxVerificationLimit) {\n\t\t\treturn ocispec.Descriptor{}, verificationOutcomes, err\n\t\t}\n\t\treturn ocispec.Descriptor{}, nil, err\n\t}',
      replace='\tif err != nil && !errors.Is(err, errDoneVerification) {\n\t\tif errors.Is(err, errExceededMaxVerificationLimit) {\n\t\t\treturn ocispec.Descriptor{}, verificationOutcomes, err\n\t\t}\n\t\tlogger.Warn(err)\n\t}'),
 dict(name='verify-unresolved-descriptor', file=N, expect='flagged(callback/verify-resolved-descriptor)',
      find='outcome, err := verifier.Verify(ctx, artifactDescriptor, sigBlob, opts)', replace='outcome, err := verifier.Verify(ctx, sigManifestDesc, sigBlob, opts)'),
 # benign
 dict(name='benign-limit-lt-form', file=N, expect='silent',
      find='\t\t\tif numOfSignatureProcessed >= verifyOpts.MaxSignatureAttempts {\n\t\t\t\tbreak\n\t\t\t}', replace='\t\t\tif !(numOfSignatureProcessed < verifyOpts.MaxSignatureAttempts) {\n\t\t\t\tbreak\n\t\t\t}'),
 dict(name='benign-log-lines', file=N, expect='silent',
      find='\t\t\tlogger.Infof("Processing signature with manifest mediaType: %v and digest: %v", sigManifestDesc.MediaType, sigManifestDesc.Digest)\n', replace='\t\t\tlogger.Debugf("Processing signature %v", sigManifestDesc.Digest)\n'),
 dict(name='benign-index-loop', file=N, expect='silent',
      find='\t\tfor _, sigManifestDesc := range signatureManifests {\n', replace='\t\tfor i := 0; i < len(signatureManifests); i++ {\n\t\t\tsigManifestDesc := signatureManifests[i]\n'),
 dict(name='skipverify-signature-drift', file='verifier/verifier.go', expect='flagged(skip/probe/verifySkipper)',
      find='func (v *verifier) SkipVerify(ctx context.Context, opts notation.VerifierVerifyOptions) (bool, *trustpolicy.VerificationLevel, error) {',
      replace='func (v *verifier) SkipVerify(ctx context.Context, opts *notation.VerifierVerifyOptions) (bool, *trustpolicy.VerificationLevel, error) {'),
 dict(name='skipper-interface-drift', file=N, expect='flagged(skip/probe/verifySkipper)',
      find='\tSkipVerify(ctx context.Context, opts VerifierVerifyOptions) (bool, *trustpolicy.VerificationLevel, error)\n}',
      replace='\tSkipVerify(ctx context.Context, opts VerifierVerifyOptions) (bool, error)\n}',
      edits=[(N, '\t\tskip, verificationLevel, err := skipChecker.SkipVerify(ctx, opts)', '\t\tskip, err := skipChecker.SkipVerify(ctx, opts)\n\t\tverificationLevel := trustpolicy.LevelSkip')]),
]

# ---- new shapes (generated once by an authoring script from the tree of that day; the texts below are literal) ----
# shape 1: skip probe in a helper; 2: reference resolution in a helper; 3: state object + page worker behind a forwarding
# callback; 4: counter counting down; 5: outcome list as the success indicator; 6: typed digest comparison, hoisted reads.
VARIANTS += [
 dict(name='shape-skip-helper', file=N, expect='silent',
      why='the skip probe moved into a helper returning (skipped, outcomes, err); the outer function rejects both remaining answers before touching the repository',
      edits=[
       (N, '\tif skipChecker, ok := verifier.(verifySkipper); ok {\n\t\tlogger.Info("Checking whether signature verification should be skipped or not")\n\t\tskip, verificationLevel, err := skipChecker.SkipVerify(ctx, opts)\n\t\tif err != nil {\n\t\t\treturn ocispec.Descriptor{}, nil, err\n\t\t}\n\t\tif skip {\n\t\t\tlogger.Infoln("Signature verification skipped for", verifyOpts.ArtifactReference)\n\t\t\treturn ocispec.Descriptor{}, []*VerificationOutcome{{VerificationLevel: verificationLevel}}, nil\n\t\t}\n\t\tlogger.Info("Check over. The signature verification level is not set to \'skip\' in the trust policy.")\n\t}\n\n',
           '\tskipped, skipOutcomes, err := probeSkip(ctx, verifier, opts)\n\tif err != nil {\n\t\treturn ocispec.Descriptor{}, nil, err\n\t}\n\tif skipped {\n\t\treturn ocispec.Descriptor{}, skipOutcomes, nil\n\t}\n\n'),
       (N, 'func generateAnnotations(',
           'func probeSkip(ctx context.Context, v Verifier, vopts VerifierVerifyOptions) (bool, []*VerificationOutcome, error) {\n\tif skipChecker, ok := v.(verifySkipper); ok {\n\t\tlg := log.GetLogger(ctx)\n\t\tlg.Info("Checking whether signature verification should be skipped or not")\n\t\tskip, verificationLevel, err := skipChecker.SkipVerify(ctx, vopts)\n\t\tif err != nil {\n\t\t\treturn false, nil, err\n\t\t}\n\t\tif skip {\n\t\t\tlg.Infoln("Signature verification skipped for", vopts.ArtifactReference)\n\t\t\treturn true, []*VerificationOutcome{{VerificationLevel: verificationLevel}}, nil\n\t\t}\n\t\tlg.Info("Check over. The signature verification level is not set to \'skip\' in the trust policy.")\n\t}\n\treturn false, nil, nil\n}\n\nfunc generateAnnotations('),
      ]),
 dict(name='skip-helper-answer-ignored', file=N, expect='flagged(precedence/skip-first)',
      edits=[
       (N, '\tif skipChecker, ok := verifier.(verifySkipper); ok {\n\t\tlogger.Info("Checking whether signature verification should be skipped or not")\n\t\tskip, verificationLevel, err := skipChecker.SkipVerify(ctx, opts)\n\t\tif err != nil {\n\t\t\treturn ocispec.Descriptor{}, nil, err\n\t\t}\n\t\tif skip {\n\t\t\tlogger.Infoln("Signature verification skipped for", verifyOpts.ArtifactReference)\n\t\t\treturn ocispec.Descriptor{}, []*VerificationOutcome{{VerificationLevel: verificationLevel}}, nil\n\t\t}\n\t\tlogger.Info("Check over. The signature verification level is not set to \'skip\' in the trust policy.")\n\t}\n\n',
           '\tskipped, skipOutcomes, err := probeSkip(ctx, verifier, opts)\n\tif err != nil {\n\t\treturn ocispec.Descriptor{}, nil, err\n\t}\n\tif skipped {\n\t\treturn ocispec.Descriptor{}, skipOutcomes, nil\n\t}\n\n'),
       (N, 'func generateAnnotations(',
           'func probeSkip(ctx context.Context, v Verifier, vopts VerifierVerifyOptions) (bool, []*VerificationOutcome, error) {\n\tif skipChecker, ok := v.(verifySkipper); ok {\n\t\tlg := log.GetLogger(ctx)\n\t\tlg.Info("Checking whether signature verification should be skipped or not")\n\t\tskip, verificationLevel, err := skipChecker.SkipVerify(ctx, vopts)\n\t\tif err != nil {\n\t\t\treturn false, nil, err\n\t\t}\n\t\tif skip {\n\t\t\tlg.Infoln("Signature verification skipped for", vopts.ArtifactReference)\n\t\t\treturn true, []*VerificationOutcome{{VerificationLevel: verificationLevel}}, nil\n\t\t}\n\t\tlg.Info("Check over. The signature verification level is not set to \'skip\' in the trust policy.")\n\t}\n\treturn false, nil, nil\n}\n\nfunc generateAnnotations('),
       (N, '\tif skipped {\n\t\treturn ocispec.Descriptor{}, skipOutcomes, nil\n\t}\n',
           '\t_, _ = skipped, skipOutcomes\n'),
      ]),
 dict(name='skip-helper-reports-false', file=N, expect='flagged(precedence/skip-first)',
      edits=[
       (N, '\tif skipChecker, ok := verifier.(verifySkipper); ok {\n\t\tlogger.Info("Checking whether signature verification should be skipped or not")\n\t\tskip, verificationLevel, err := skipChecker.SkipVerify(ctx, opts)\n\t\tif err != nil {\n\t\t\treturn ocispec.Descriptor{}, nil, err\n\t\t}\n\t\tif skip {\n\t\t\tlogger.Infoln("Signature verification skipped for", verifyOpts.ArtifactReference)\n\t\t\treturn ocispec.Descriptor{}, []*VerificationOutcome{{VerificationLevel: verificationLevel}}, nil\n\t\t}\n\t\tlogger.Info("Check over. The signature verification level is not set to \'skip\' in the trust policy.")\n\t}\n\n',
           '\tskipped, skipOutcomes, err := probeSkip(ctx, verifier, opts)\n\tif err != nil {\n\t\treturn ocispec.Descriptor{}, nil, err\n\t}\n\tif skipped {\n\t\treturn ocispec.Descriptor{}, skipOutcomes, nil\n\t}\n\n'),
       (N, 'func generateAnnotations(',
           'func probeSkip(ctx context.Context, v Verifier, vopts VerifierVerifyOptions) (bool, []*VerificationOutcome, error) {\n\tif skipChecker, ok := v.(verifySkipper); ok {\n\t\tlg := log.GetLogger(ctx)\n\t\tlg.Info("Checking whether signature verification should be skipped or not")\n\t\tskip, verificationLevel, err := skipChecker.SkipVerify(ctx, vopts)\n\t\tif err != nil {\n\t\t\treturn false, nil, err\n\t\t}\n\t\tif skip {\n\t\t\tlg.Infoln("Signature verification skipped for", vopts.ArtifactReference)\n\t\t\treturn true, []*VerificationOutcome{{VerificationLevel: verificationLevel}}, nil\n\t\t}\n\t\tlg.Info("Check over. The signature verification level is not set to \'skip\' in the trust policy.")\n\t}\n\treturn false, nil, nil\n}\n\nfunc generateAnnotations('),
       (N, '\t\t\treturn true, []*VerificationOutcome{{VerificationLevel: verificationLevel}}, nil\n',
           '\t\t\treturn false, []*VerificationOutcome{{VerificationLevel: verificationLevel}}, nil\n'),
      ]),
 dict(name='skip-helper-swallows-error', file=N, expect='flagged(precedence/skip-error)',
      edits=[
       (N, '\tif skipChecker, ok := verifier.(verifySkipper); ok {\n\t\tlogger.Info("Checking whether signature verification should be skipped or not")\n\t\tskip, verificationLevel, err := skipChecker.SkipVerify(ctx, opts)\n\t\tif err != nil {\n\t\t\treturn ocispec.Descriptor{}, nil, err\n\t\t}\n\t\tif skip {\n\t\t\tlogger.Infoln("Signature verification skipped for", verifyOpts.ArtifactReference)\n\t\t\treturn ocispec.Descriptor{}, []*VerificationOutcome{{VerificationLevel: verificationLevel}}, nil\n\t\t}\n\t\tlogger.Info("Check over. The signature verification level is not set to \'skip\' in the trust policy.")\n\t}\n\n',
           '\tskipped, skipOutcomes, err := probeSkip(ctx, verifier, opts)\n\tif err != nil {\n\t\treturn ocispec.Descriptor{}, nil, err\n\t}\n\tif skipped {\n\t\treturn ocispec.Descriptor{}, skipOutcomes, nil\n\t}\n\n'),
       (N, 'func generateAnnotations(',
           'func probeSkip(ctx context.Context, v Verifier, vopts VerifierVerifyOptions) (bool, []*VerificationOutcome, error) {\n\tif skipChecker, ok := v.(verifySkipper); ok {\n\t\tlg := log.GetLogger(ctx)\n\t\tlg.Info("Checking whether signature verification should be skipped or not")\n\t\tskip, verificationLevel, err := skipChecker.SkipVerify(ctx, vopts)\n\t\tif err != nil {\n\t\t\treturn false, nil, err\n\t\t}\n\t\tif skip {\n\t\t\tlg.Infoln("Signature verification skipped for", vopts.ArtifactReference)\n\t\t\treturn true, []*VerificationOutcome{{VerificationLevel: verificationLevel}}, nil\n\t\t}\n\t\tlg.Info("Check over. The signature verification level is not set to \'skip\' in the trust policy.")\n\t}\n\treturn false, nil, nil\n}\n\nfunc generateAnnotations('),
       (N, '\t\tif err != nil {\n\t\t\treturn false, nil, err\n\t\t}\n',
           '\t\tif err != nil {\n\t\t\tlg.Warn(err)\n\t\t\treturn false, nil, nil\n\t\t}\n'),
      ]),
 dict(name='skip-helper-caller-drops-error', file=N, expect='flagged(precedence/skip-error)',
      edits=[
       (N, '\tif skipChecker, ok := verifier.(verifySkipper); ok {\n\t\tlogger.Info("Checking whether signature verification should be skipped or not")\n\t\tskip, verificationLevel, err := skipChecker.SkipVerify(ctx, opts)\n\t\tif err != nil {\n\t\t\treturn ocispec.Descriptor{}, nil, err\n\t\t}\n\t\tif skip {\n\t\t\tlogger.Infoln("Signature verification skipped for", verifyOpts.ArtifactReference)\n\t\t\treturn ocispec.Descriptor{}, []*VerificationOutcome{{VerificationLevel: verificationLevel}}, nil\n\t\t}\n\t\tlogger.Info("Check over. The signature verification level is not set to \'skip\' in the trust policy.")\n\t}\n\n',
           '\tskipped, skipOutcomes, err := probeSkip(ctx, verifier, opts)\n\tif err != nil {\n\t\treturn ocispec.Descriptor{}, nil, err\n\t}\n\tif skipped {\n\t\treturn ocispec.Descriptor{}, skipOutcomes, nil\n\t}\n\n'),
       (N, 'func generateAnnotations(',
           'func probeSkip(ctx context.Context, v Verifier, vopts VerifierVerifyOptions) (bool, []*VerificationOutcome, error) {\n\tif skipChecker, ok := v.(verifySkipper); ok {\n\t\tlg := log.GetLogger(ctx)\n\t\tlg.Info("Checking whether signature verification should be skipped or not")\n\t\tskip, verificationLevel, err := skipChecker.SkipVerify(ctx, vopts)\n\t\tif err != nil {\n\t\t\treturn false, nil, err\n\t\t}\n\t\tif skip {\n\t\t\tlg.Infoln("Signature verification skipped for", vopts.ArtifactReference)\n\t\t\treturn true, []*VerificationOutcome{{VerificationLevel: verificationLevel}}, nil\n\t\t}\n\t\tlg.Info("Check over. The signature verification level is not set to \'skip\' in the trust policy.")\n\t}\n\treturn false, nil, nil\n}\n\nfunc generateAnnotations('),
       (N, '\tskipped, skipOutcomes, err := probeSkip(ctx, verifier, opts)\n\tif err != nil {\n\t\treturn ocispec.Descriptor{}, nil, err\n\t}\n',
           '\tskipped, skipOutcomes, err := probeSkip(ctx, verifier, opts)\n\tif err != nil {\n\t\tlogger.Warn(err)\n\t}\n'),
      ]),
 dict(name='shape-resolve-helper', file=N, expect='silent',
      why='parse / non-empty / resolve / digest pinning moved into a helper that hands back the resolved descriptor',
      edits=[
       (N, '\tref, err := orasRegistry.ParseReference(artifactRef)\n\tif err != nil {\n\t\treturn ocispec.Descriptor{}, nil, ErrorSignatureRetrievalFailed{Msg: err.Error()}\n\t}\n\tif ref.Reference == "" {\n\t\treturn ocispec.Descriptor{}, nil, ErrorSignatureRetrievalFailed{Msg: "reference is missing digest or tag"}\n\t}\n\tartifactDescriptor, err := repo.Resolve(ctx, ref.Reference)\n\tif err != nil {\n\t\treturn ocispec.Descriptor{}, nil, ErrorSignatureRetrievalFailed{Msg: err.Error()}\n\t}\n\tif ref.ValidateReferenceAsDigest() != nil {\n\t\t// artifactRef is not a digest reference\n\t\tlogger.Infof("Resolved artifact tag `%s` to digest `%v` before verification", ref.Reference, artifactDescriptor.Digest)\n\t\tlogger.Warn("The resolved digest may not point to the same signed artifact, since tags are mutable")\n\t} else if ref.Reference != artifactDescriptor.Digest.String() {\n\t\treturn ocispec.Descriptor{}, nil, ErrorSignatureRetrievalFailed{Msg: fmt.Sprintf("user input digest %s does not match the resolved digest %s", ref.Reference, artifactDescriptor.Digest.String())}\n\t}\n\n',
           '\tartifactDescriptor, err := resolveReference(ctx, repo, artifactRef)\n\tif err != nil {\n\t\treturn ocispec.Descriptor{}, nil, err\n\t}\n\n'),
       (N, 'func generateAnnotations(',
           'func resolveReference(ctx context.Context, r registry.Repository, reference string) (ocispec.Descriptor, error) {\n\tlg := log.GetLogger(ctx)\n\tref, err := orasRegistry.ParseReference(reference)\n\tif err != nil {\n\t\treturn ocispec.Descriptor{}, ErrorSignatureRetrievalFailed{Msg: err.Error()}\n\t}\n\tif ref.Reference == "" {\n\t\treturn ocispec.Descriptor{}, ErrorSignatureRetrievalFailed{Msg: "reference is missing digest or tag"}\n\t}\n\tresolved, err := r.Resolve(ctx, ref.Reference)\n\tif err != nil {\n\t\treturn ocispec.Descriptor{}, ErrorSignatureRetrievalFailed{Msg: err.Error()}\n\t}\n\tif ref.ValidateReferenceAsDigest() != nil {\n\t\t// not a digest reference\n\t\tlg.Infof("Resolved artifact tag `%s` to digest `%v` before verification", ref.Reference, resolved.Digest)\n\t\tlg.Warn("The resolved digest may not point to the same signed artifact, since tags are mutable")\n\t} else if ref.Reference != resolved.Digest.String() {\n\t\treturn ocispec.Descriptor{}, ErrorSignatureRetrievalFailed{Msg: fmt.Sprintf("user input digest %s does not match the resolved digest %s", ref.Reference, resolved.Digest.String())}\n\t}\n\treturn resolved, nil\n}\n\nfunc generateAnnotations('),
      ]),
 dict(name='shape-both-helpers', file=N, expect='silent',
      edits=[
       (N, '\tif skipChecker, ok := verifier.(verifySkipper); ok {\n\t\tlogger.Info("Checking whether signature verification should be skipped or not")\n\t\tskip, verificationLevel, err := skipChecker.SkipVerify(ctx, opts)\n\t\tif err != nil {\n\t\t\treturn ocispec.Descriptor{}, nil, err\n\t\t}\n\t\tif skip {\n\t\t\tlogger.Infoln("Signature verification skipped for", verifyOpts.ArtifactReference)\n\t\t\treturn ocispec.Descriptor{}, []*VerificationOutcome{{VerificationLevel: verificationLevel}}, nil\n\t\t}\n\t\tlogger.Info("Check over. The signature verification level is not set to \'skip\' in the trust policy.")\n\t}\n\n',
           '\tskipped, skipOutcomes, err := probeSkip(ctx, verifier, opts)\n\tif err != nil {\n\t\treturn ocispec.Descriptor{}, nil, err\n\t}\n\tif skipped {\n\t\treturn ocispec.Descriptor{}, skipOutcomes, nil\n\t}\n\n'),
       (N, 'func generateAnnotations(',
           'func probeSkip(ctx context.Context, v Verifier, vopts VerifierVerifyOptions) (bool, []*VerificationOutcome, error) {\n\tif skipChecker, ok := v.(verifySkipper); ok {\n\t\tlg := log.GetLogger(ctx)\n\t\tlg.Info("Checking whether signature verification should be skipped or not")\n\t\tskip, verificationLevel, err := skipChecker.SkipVerify(ctx, vopts)\n\t\tif err != nil {\n\t\t\treturn false, nil, err\n\t\t}\n\t\tif skip {\n\t\t\tlg.Infoln("Signature verification skipped for", vopts.ArtifactReference)\n\t\t\treturn true, []*VerificationOutcome{{VerificationLevel: verificationLevel}}, nil\n\t\t}\n\t\tlg.Info("Check over. The signature verification level is not set to \'skip\' in the trust policy.")\n\t}\n\treturn false, nil, nil\n}\n\nfunc generateAnnotations('),
       (N, '\tref, err := orasRegistry.ParseReference(artifactRef)\n\tif err != nil {\n\t\treturn ocispec.Descriptor{}, nil, ErrorSignatureRetrievalFailed{Msg: err.Error()}\n\t}\n\tif ref.Reference == "" {\n\t\treturn ocispec.Descriptor{}, nil, ErrorSignatureRetrievalFailed{Msg: "reference is missing digest or tag"}\n\t}\n\tartifactDescriptor, err := repo.Resolve(ctx, ref.Reference)\n\tif err != nil {\n\t\treturn ocispec.Descriptor{}, nil, ErrorSignatureRetrievalFailed{Msg: err.Error()}\n\t}\n\tif ref.ValidateReferenceAsDigest() != nil {\n\t\t// artifactRef is not a digest reference\n\t\tlogger.Infof("Resolved artifact tag `%s` to digest `%v` before verification", ref.Reference, artifactDescriptor.Digest)\n\t\tlogger.Warn("The resolved digest may not point to the same signed artifact, since tags are mutable")\n\t} else if ref.Reference != artifactDescriptor.Digest.String() {\n\t\treturn ocispec.Descriptor{}, nil, ErrorSignatureRetrievalFailed{Msg: fmt.Sprintf("user input digest %s does not match the resolved digest %s", ref.Reference, artifactDescriptor.Digest.String())}\n\t}\n\n',
           '\tartifactDescriptor, err := resolveReference(ctx, repo, artifactRef)\n\tif err != nil {\n\t\treturn ocispec.Descriptor{}, nil, err\n\t}\n\n'),
       (N, 'func generateAnnotations(',
           'func resolveReference(ctx context.Context, r registry.Repository, reference string) (ocispec.Descriptor, error) {\n\tlg := log.GetLogger(ctx)\n\tref, err := orasRegistry.ParseReference(reference)\n\tif err != nil {\n\t\treturn ocispec.Descriptor{}, ErrorSignatureRetrievalFailed{Msg: err.Error()}\n\t}\n\tif ref.Reference == "" {\n\t\treturn ocispec.Descriptor{}, ErrorSignatureRetrievalFailed{Msg: "reference is missing digest or tag"}\n\t}\n\tresolved, err := r.Resolve(ctx, ref.Reference)\n\tif err != nil {\n\t\treturn ocispec.Descriptor{}, ErrorSignatureRetrievalFailed{Msg: err.Error()}\n\t}\n\tif ref.ValidateReferenceAsDigest() != nil {\n\t\t// not a digest reference\n\t\tlg.Infof("Resolved artifact tag `%s` to digest `%v` before verification", ref.Reference, resolved.Digest)\n\t\tlg.Warn("The resolved digest may not point to the same signed artifact, since tags are mutable")\n\t} else if ref.Reference != resolved.Digest.String() {\n\t\treturn ocispec.Descriptor{}, ErrorSignatureRetrievalFailed{Msg: fmt.Sprintf("user input digest %s does not match the resolved digest %s", ref.Reference, resolved.Digest.String())}\n\t}\n\treturn resolved, nil\n}\n\nfunc generateAnnotations('),
      ]),
 dict(name='resolve-helper-mismatch-accepted', file=N, expect='flagged(reference/digest-pinning)',
      edits=[
       (N, '\tref, err := orasRegistry.ParseReference(artifactRef)\n\tif err != nil {\n\t\treturn ocispec.Descriptor{}, nil, ErrorSignatureRetrievalFailed{Msg: err.Error()}\n\t}\n\tif ref.Reference == "" {\n\t\treturn ocispec.Descriptor{}, nil, ErrorSignatureRetrievalFailed{Msg: "reference is missing digest or tag"}\n\t}\n\tartifactDescriptor, err := repo.Resolve(ctx, ref.Reference)\n\tif err != nil {\n\t\treturn ocispec.Descriptor{}, nil, ErrorSignatureRetrievalFailed{Msg: err.Error()}\n\t}\n\tif ref.ValidateReferenceAsDigest() != nil {\n\t\t// artifactRef is not a digest reference\n\t\tlogger.Infof("Resolved artifact tag `%s` to digest `%v` before verification", ref.Reference, artifactDescriptor.Digest)\n\t\tlogger.Warn("The resolved digest may not point to the same signed artifact, since tags are mutable")\n\t} else if ref.Reference != artifactDescriptor.Digest.String() {\n\t\treturn ocispec.Descriptor{}, nil, ErrorSignatureRetrievalFailed{Msg: fmt.Sprintf("user input digest %s does not match the resolved digest %s", ref.Reference, artifactDescriptor.Digest.String())}\n\t}\n\n',
           '\tartifactDescriptor, err := resolveReference(ctx, repo, artifactRef)\n\tif err != nil {\n\t\treturn ocispec.Descriptor{}, nil, err\n\t}\n\n'),
       (N, 'func generateAnnotations(',
           'func resolveReference(ctx context.Context, r registry.Repository, reference string) (ocispec.Descriptor, error) {\n\tlg := log.GetLogger(ctx)\n\tref, err := orasRegistry.ParseReference(reference)\n\tif err != nil {\n\t\treturn ocispec.Descriptor{}, ErrorSignatureRetrievalFailed{Msg: err.Error()}\n\t}\n\tif ref.Reference == "" {\n\t\treturn ocispec.Descriptor{}, ErrorSignatureRetrievalFailed{Msg: "reference is missing digest or tag"}\n\t}\n\tresolved, err := r.Resolve(ctx, ref.Reference)\n\tif err != nil {\n\t\treturn ocispec.Descriptor{}, ErrorSignatureRetrievalFailed{Msg: err.Error()}\n\t}\n\tif ref.ValidateReferenceAsDigest() != nil {\n\t\t// not a digest reference\n\t\tlg.Infof("Resolved artifact tag `%s` to digest `%v` before verification", ref.Reference, resolved.Digest)\n\t\tlg.Warn("The resolved digest may not point to the same signed artifact, since tags are mutable")\n\t} else if ref.Reference != resolved.Digest.String() {\n\t\treturn ocispec.Descriptor{}, ErrorSignatureRetrievalFailed{Msg: fmt.Sprintf("user input digest %s does not match the resolved digest %s", ref.Reference, resolved.Digest.String())}\n\t}\n\treturn resolved, nil\n}\n\nfunc generateAnnotations('),
       (N, '\t\treturn ocispec.Descriptor{}, ErrorSignatureRetrievalFailed{Msg: fmt.Sprintf("user input digest %s does not match the resolved digest %s", ref.Reference, resolved.Digest.String())}\n',
           '\t\tlg.Warnf("user input digest %s does not match the resolved digest %s", ref.Reference, resolved.Digest.String())\n'),
      ]),
 dict(name='resolve-helper-empty-accepted', file=N, expect='flagged(reference/non-empty)',
      edits=[
       (N, '\tref, err := orasRegistry.ParseReference(artifactRef)\n\tif err != nil {\n\t\treturn ocispec.Descriptor{}, nil, ErrorSignatureRetrievalFailed{Msg: err.Error()}\n\t}\n\tif ref.Reference == "" {\n\t\treturn ocispec.Descriptor{}, nil, ErrorSignatureRetrievalFailed{Msg: "reference is missing digest or tag"}\n\t}\n\tartifactDescriptor, err := repo.Resolve(ctx, ref.Reference)\n\tif err != nil {\n\t\treturn ocispec.Descriptor{}, nil, ErrorSignatureRetrievalFailed{Msg: err.Error()}\n\t}\n\tif ref.ValidateReferenceAsDigest() != nil {\n\t\t// artifactRef is not a digest reference\n\t\tlogger.Infof("Resolved artifact tag `%s` to digest `%v` before verification", ref.Reference, artifactDescriptor.Digest)\n\t\tlogger.Warn("The resolved digest may not point to the same signed artifact, since tags are mutable")\n\t} else if ref.Reference != artifactDescriptor.Digest.String() {\n\t\treturn ocispec.Descriptor{}, nil, ErrorSignatureRetrievalFailed{Msg: fmt.Sprintf("user input digest %s does not match the resolved digest %s", ref.Reference, artifactDescriptor.Digest.String())}\n\t}\n\n',
           '\tartifactDescriptor, err := resolveReference(ctx, repo, artifactRef)\n\tif err != nil {\n\t\treturn ocispec.Descriptor{}, nil, err\n\t}\n\n'),
       (N, 'func generateAnnotations(',
           'func resolveReference(ctx context.Context, r registry.Repository, reference string) (ocispec.Descriptor, error) {\n\tlg := log.GetLogger(ctx)\n\tref, err := orasRegistry.ParseReference(reference)\n\tif err != nil {\n\t\treturn ocispec.Descriptor{}, ErrorSignatureRetrievalFailed{Msg: err.Error()}\n\t}\n\tif ref.Reference == "" {\n\t\treturn ocispec.Descriptor{}, ErrorSignatureRetrievalFailed{Msg: "reference is missing digest or tag"}\n\t}\n\tresolved, err := r.Resolve(ctx, ref.Reference)\n\tif err != nil {\n\t\treturn ocispec.Descriptor{}, ErrorSignatureRetrievalFailed{Msg: err.Error()}\n\t}\n\tif ref.ValidateReferenceAsDigest() != nil {\n\t\t// not a digest reference\n\t\tlg.Infof("Resolved artifact tag `%s` to digest `%v` before verification", ref.Reference, resolved.Digest)\n\t\tlg.Warn("The resolved digest may not point to the same signed artifact, since tags are mutable")\n\t} else if ref.Reference != resolved.Digest.String() {\n\t\treturn ocispec.Descriptor{}, ErrorSignatureRetrievalFailed{Msg: fmt.Sprintf("user input digest %s does not match the resolved digest %s", ref.Reference, resolved.Digest.String())}\n\t}\n\treturn resolved, nil\n}\n\nfunc generateAnnotations('),
       (N, '\tif ref.Reference == "" {\n\t\treturn ocispec.Descriptor{}, ErrorSignatureRetrievalFailed{Msg: "reference is missing digest or tag"}\n\t}\n\tresolved, err :=',
           '\tresolved, err :='),
      ]),
 dict(name='resolve-helper-error-ignored', file=N, expect='flagged(reference/)',
      edits=[
       (N, '\tref, err := orasRegistry.ParseReference(artifactRef)\n\tif err != nil {\n\t\treturn ocispec.Descriptor{}, nil, ErrorSignatureRetrievalFailed{Msg: err.Error()}\n\t}\n\tif ref.Reference == "" {\n\t\treturn ocispec.Descriptor{}, nil, ErrorSignatureRetrievalFailed{Msg: "reference is missing digest or tag"}\n\t}\n\tartifactDescriptor, err := repo.Resolve(ctx, ref.Reference)\n\tif err != nil {\n\t\treturn ocispec.Descriptor{}, nil, ErrorSignatureRetrievalFailed{Msg: err.Error()}\n\t}\n\tif ref.ValidateReferenceAsDigest() != nil {\n\t\t// artifactRef is not a digest reference\n\t\tlogger.Infof("Resolved artifact tag `%s` to digest `%v` before verification", ref.Reference, artifactDescriptor.Digest)\n\t\tlogger.Warn("The resolved digest may not point to the same signed artifact, since tags are mutable")\n\t} else if ref.Reference != artifactDescriptor.Digest.String() {\n\t\treturn ocispec.Descriptor{}, nil, ErrorSignatureRetrievalFailed{Msg: fmt.Sprintf("user input digest %s does not match the resolved digest %s", ref.Reference, artifactDescriptor.Digest.String())}\n\t}\n\n',
           '\tartifactDescriptor, err := resolveReference(ctx, repo, artifactRef)\n\tif err != nil {\n\t\treturn ocispec.Descriptor{}, nil, err\n\t}\n\n'),
       (N, 'func generateAnnotations(',
           'func resolveReference(ctx context.Context, r registry.Repository, reference string) (ocispec.Descriptor, error) {\n\tlg := log.GetLogger(ctx)\n\tref, err := orasRegistry.ParseReference(reference)\n\tif err != nil {\n\t\treturn ocispec.Descriptor{}, ErrorSignatureRetrievalFailed{Msg: err.Error()}\n\t}\n\tif ref.Reference == "" {\n\t\treturn ocispec.Descriptor{}, ErrorSignatureRetrievalFailed{Msg: "reference is missing digest or tag"}\n\t}\n\tresolved, err := r.Resolve(ctx, ref.Reference)\n\tif err != nil {\n\t\treturn ocispec.Descriptor{}, ErrorSignatureRetrievalFailed{Msg: err.Error()}\n\t}\n\tif ref.ValidateReferenceAsDigest() != nil {\n\t\t// not a digest reference\n\t\tlg.Infof("Resolved artifact tag `%s` to digest `%v` before verification", ref.Reference, resolved.Digest)\n\t\tlg.Warn("The resolved digest may not point to the same signed artifact, since tags are mutable")\n\t} else if ref.Reference != resolved.Digest.String() {\n\t\treturn ocispec.Descriptor{}, ErrorSignatureRetrievalFailed{Msg: fmt.Sprintf("user input digest %s does not match the resolved digest %s", ref.Reference, resolved.Digest.String())}\n\t}\n\treturn resolved, nil\n}\n\nfunc generateAnnotations('),
       (N, '\tartifactDescriptor, err := resolveReference(ctx, repo, artifactRef)\n\tif err != nil {\n\t\treturn ocispec.Descriptor{}, nil, err\n\t}\n',
           '\tartifactDescriptor, err := resolveReference(ctx, repo, artifactRef)\n\tif err != nil {\n\t\tlogger.Warn(err)\n\t}\n'),
      ]),
 dict(name='resolve-helper-other-descriptor', file=N, expect='flagged(reference/)',
      edits=[
       (N, '\tref, err := orasRegistry.ParseReference(artifactRef)\n\tif err != nil {\n\t\treturn ocispec.Descriptor{}, nil, ErrorSignatureRetrievalFailed{Msg: err.Error()}\n\t}\n\tif ref.Reference == "" {\n\t\treturn ocispec.Descriptor{}, nil, ErrorSignatureRetrievalFailed{Msg: "reference is missing digest or tag"}\n\t}\n\tartifactDescriptor, err := repo.Resolve(ctx, ref.Reference)\n\tif err != nil {\n\t\treturn ocispec.Descriptor{}, nil, ErrorSignatureRetrievalFailed{Msg: err.Error()}\n\t}\n\tif ref.ValidateReferenceAsDigest() != nil {\n\t\t// artifactRef is not a digest reference\n\t\tlogger.Infof("Resolved artifact tag `%s` to digest `%v` before verification", ref.Reference, artifactDescriptor.Digest)\n\t\tlogger.Warn("The resolved digest may not point to the same signed artifact, since tags are mutable")\n\t} else if ref.Reference != artifactDescriptor.Digest.String() {\n\t\treturn ocispec.Descriptor{}, nil, ErrorSignatureRetrievalFailed{Msg: fmt.Sprintf("user input digest %s does not match the resolved digest %s", ref.Reference, artifactDescriptor.Digest.String())}\n\t}\n\n',
           '\tartifactDescriptor, err := resolveReference(ctx, repo, artifactRef)\n\tif err != nil {\n\t\treturn ocispec.Descriptor{}, nil, err\n\t}\n\n'),
       (N, 'func generateAnnotations(',
           'func resolveReference(ctx context.Context, r registry.Repository, reference string) (ocispec.Descriptor, error) {\n\tlg := log.GetLogger(ctx)\n\tref, err := orasRegistry.ParseReference(reference)\n\tif err != nil {\n\t\treturn ocispec.Descriptor{}, ErrorSignatureRetrievalFailed{Msg: err.Error()}\n\t}\n\tif ref.Reference == "" {\n\t\treturn ocispec.Descriptor{}, ErrorSignatureRetrievalFailed{Msg: "reference is missing digest or tag"}\n\t}\n\tresolved, err := r.Resolve(ctx, ref.Reference)\n\tif err != nil {\n\t\treturn ocispec.Descriptor{}, ErrorSignatureRetrievalFailed{Msg: err.Error()}\n\t}\n\tif ref.ValidateReferenceAsDigest() != nil {\n\t\t// not a digest reference\n\t\tlg.Infof("Resolved artifact tag `%s` to digest `%v` before verification", ref.Reference, resolved.Digest)\n\t\tlg.Warn("The resolved digest may not point to the same signed artifact, since tags are mutable")\n\t} else if ref.Reference != resolved.Digest.String() {\n\t\treturn ocispec.Descriptor{}, ErrorSignatureRetrievalFailed{Msg: fmt.Sprintf("user input digest %s does not match the resolved digest %s", ref.Reference, resolved.Digest.String())}\n\t}\n\treturn resolved, nil\n}\n\nfunc generateAnnotations('),
       (N, '\treturn resolved, nil\n}\n',
           '\treturn ocispec.Descriptor{MediaType: resolved.MediaType, Digest: digest.Digest(ref.Reference), Size: resolved.Size}, nil\n}\n'),
      ]),
 dict(name='resolve-helper-before-skip', file=N, expect='flagged(precedence/skip-first/Resolve)',
      edits=[
       (N, '\tref, err := orasRegistry.ParseReference(artifactRef)\n\tif err != nil {\n\t\treturn ocispec.Descriptor{}, nil, ErrorSignatureRetrievalFailed{Msg: err.Error()}\n\t}\n\tif ref.Reference == "" {\n\t\treturn ocispec.Descriptor{}, nil, ErrorSignatureRetrievalFailed{Msg: "reference is missing digest or tag"}\n\t}\n\tartifactDescriptor, err := repo.Resolve(ctx, ref.Reference)\n\tif err != nil {\n\t\treturn ocispec.Descriptor{}, nil, ErrorSignatureRetrievalFailed{Msg: err.Error()}\n\t}\n\tif ref.ValidateReferenceAsDigest() != nil {\n\t\t// artifactRef is not a digest reference\n\t\tlogger.Infof("Resolved artifact tag `%s` to digest `%v` before verification", ref.Reference, artifactDescriptor.Digest)\n\t\tlogger.Warn("The resolved digest may not point to the same signed artifact, since tags are mutable")\n\t} else if ref.Reference != artifactDescriptor.Digest.String() {\n\t\treturn ocispec.Descriptor{}, nil, ErrorSignatureRetrievalFailed{Msg: fmt.Sprintf("user input digest %s does not match the resolved digest %s", ref.Reference, artifactDescriptor.Digest.String())}\n\t}\n\n',
           '\tartifactDescriptor, err := resolveReference(ctx, repo, artifactRef)\n\tif err != nil {\n\t\treturn ocispec.Descriptor{}, nil, err\n\t}\n\n'),
       (N, 'func generateAnnotations(',
           'func resolveReference(ctx context.Context, r registry.Repository, reference string) (ocispec.Descriptor, error) {\n\tlg := log.GetLogger(ctx)\n\tref, err := orasRegistry.ParseReference(reference)\n\tif err != nil {\n\t\treturn ocispec.Descriptor{}, ErrorSignatureRetrievalFailed{Msg: err.Error()}\n\t}\n\tif ref.Reference == "" {\n\t\treturn ocispec.Descriptor{}, ErrorSignatureRetrievalFailed{Msg: "reference is missing digest or tag"}\n\t}\n\tresolved, err := r.Resolve(ctx, ref.Reference)\n\tif err != nil {\n\t\treturn ocispec.Descriptor{}, ErrorSignatureRetrievalFailed{Msg: err.Error()}\n\t}\n\tif ref.ValidateReferenceAsDigest() != nil {\n\t\t// not a digest reference\n\t\tlg.Infof("Resolved artifact tag `%s` to digest `%v` before verification", ref.Reference, resolved.Digest)\n\t\tlg.Warn("The resolved digest may not point to the same signed artifact, since tags are mutable")\n\t} else if ref.Reference != resolved.Digest.String() {\n\t\treturn ocispec.Descriptor{}, ErrorSignatureRetrievalFailed{Msg: fmt.Sprintf("user input digest %s does not match the resolved digest %s", ref.Reference, resolved.Digest.String())}\n\t}\n\treturn resolved, nil\n}\n\nfunc generateAnnotations('),
       (N, '\tif skipChecker, ok := verifier.(verifySkipper); ok {\n',
           '\tif _, earlyErr := resolveReference(ctx, repo, verifyOpts.ArtifactReference); earlyErr != nil {\n\t\treturn ocispec.Descriptor{}, nil, earlyErr\n\t}\n\tif skipChecker, ok := verifier.(verifySkipper); ok {\n'),
      ]),
 dict(name='shape-state-object', file=N, expect='silent',
      why='the captured locals become fields of a state object; the callback forwards the page to a module function that receives the object',
      edits=[
       (N, '\tvar verificationSucceeded bool\n\tvar verificationOutcomes []*VerificationOutcome\n\tvar verificationFailedErrorArray = []error{ErrorVerificationFailed{}}\n\terrExceededMaxVerificationLimit := ErrorVerificationFailed{Msg: fmt.Sprintf("signature evaluation stopped. The configured limit of %d signatures to verify per artifact exceeded", verifyOpts.MaxSignatureAttempts)}\n\tnumOfSignatureProcessed := 0\n',
           '\tst := &listingState{\n\t\tverifier: verifier,\n\t\trepo:     repo,\n\t\tref:      artifactRef,\n\t\ttarget:   artifactDescriptor,\n\t\tvopts:    opts,\n\t\tlimit:    verifyOpts.MaxSignatureAttempts,\n\t\terrLimit: ErrorVerificationFailed{Msg: fmt.Sprintf("signature evaluation stopped. The configured limit of %d signatures to verify per artifact exceeded", verifyOpts.MaxSignatureAttempts)},\n\t\tfailed:   []error{ErrorVerificationFailed{}},\n\t}\n'),
       (N, '\terr = repo.ListSignatures(ctx, artifactDescriptor, func(signatureManifests []ocispec.Descriptor) error {\n\t\t// process signatures\n\t\tfor _, sigManifestDesc := range signatureManifests {\n\t\t\tif numOfSignatureProcessed >= verifyOpts.MaxSignatureAttempts {\n\t\t\t\tbreak\n\t\t\t}\n\t\t\tnumOfSignatureProcessed++\n\t\t\tlogger.Infof("Processing signature with manifest mediaType: %v and digest: %v", sigManifestDesc.MediaType, sigManifestDesc.Digest)\n\t\t\t// get signature envelope\n\t\t\tsigBlob, sigDesc, err := repo.FetchSignatureBlob(ctx, sigManifestDesc)\n\t\t\tif err != nil {\n\t\t\t\treturn ErrorSignatureRetrievalFailed{Msg: fmt.Sprintf("unable to retrieve digital signature with digest %q associated with %q from the Repository, error : %v", sigManifestDesc.Digest, artifactRef, err.Error())}\n\t\t\t}\n\n\t\t\t// using signature media type fetched from registry\n\t\t\topts.SignatureMediaType = sigDesc.MediaType\n\n\t\t\t// verify each signature\n\t\t\toutcome, err := verifier.Verify(ctx, artifactDescriptor, sigBlob, opts)\n\t\t\tif err != nil {\n\t\t\t\tlogger.Warnf("Signature %v failed verification with error: %v", sigManifestDesc.Digest, err)\n\t\t\t\tif outcome == nil {\n\t\t\t\t\tlogger.Error("Got nil outcome. Expecting non-nil outcome on verification failure")\n\t\t\t\t\treturn err\n\t\t\t\t}\n\t\t\t\toutcome.Error = fmt.Errorf("failed to verify signature with digest %v, %w", sigManifestDesc.Digest, outcome.Error)\n\t\t\t\tverificationFailedErrorArray = append(verificationFailedErrorArray, outcome.Error)\n\t\t\t\tcontinue\n\t\t\t}\n\t\t\t// at this point, the signature is verified successfully\n\t\t\tverificationSucceeded = true\n\n\t\t\t// on success, verificationOutcomes only contains the\n\t\t\t// succeeded outcome\n\t\t\tverificationOutcomes = []*VerificationOutcome{outcome}\n\t\t\tlogger.Debugf("Signature verification succeeded for artifact %v with signature digest %v", artifactDescriptor.Digest, sigManifestDesc.Digest)\n\n\t\t\t// early break on success\n\t\t\treturn errDoneVerification\n\t\t}\n\t\tif numOfSignatureProcessed >= verifyOpts.MaxSignatureAttempts {\n\t\t\treturn errExceededMaxVerificationLimit\n\t\t}\n\t\treturn nil\n\t})\n',
           '\terr = repo.ListSignatures(ctx, artifactDescriptor, func(page []ocispec.Descriptor) error {\n\t\treturn verifyPage(ctx, st, page)\n\t})\n'),
       (N, '\tif err != nil && !errors.Is(err, errDoneVerification) {\n\t\tif errors.Is(err, errExceededMaxVerificationLimit) {\n\t\t\treturn ocispec.Descriptor{}, verificationOutcomes, err\n\t\t}\n\t\treturn ocispec.Descriptor{}, nil, err\n\t}\n\n\t// If there\'s no signature associated with the reference\n\tif numOfSignatureProcessed == 0 {\n\t\treturn ocispec.Descriptor{}, nil, ErrorSignatureRetrievalFailed{Msg: fmt.Sprintf("no signature is associated with %q, make sure the artifact was signed successfully", artifactRef)}\n\t}\n\n\t// Verification Failed\n\tif !verificationSucceeded {\n\t\tlogger.Debugf("Signature verification failed for all the signatures associated with artifact %v", artifactDescriptor.Digest)\n\t\treturn ocispec.Descriptor{}, verificationOutcomes, errors.Join(verificationFailedErrorArray...)\n\t}\n\n\t// Verification Succeeded\n\treturn artifactDescriptor, verificationOutcomes, nil\n}\n',
           '\tif err != nil && !errors.Is(err, errDoneVerification) {\n\t\tif errors.Is(err, st.errLimit) {\n\t\t\treturn ocispec.Descriptor{}, st.outcomes, err\n\t\t}\n\t\treturn ocispec.Descriptor{}, nil, err\n\t}\n\n\t// If there\'s no signature associated with the reference\n\tif st.done == 0 {\n\t\treturn ocispec.Descriptor{}, nil, ErrorSignatureRetrievalFailed{Msg: fmt.Sprintf("no signature is associated with %q, make sure the artifact was signed successfully", artifactRef)}\n\t}\n\n\t// Verification Failed\n\tif !st.good {\n\t\tlogger.Debugf("Signature verification failed for all the signatures associated with artifact %v", artifactDescriptor.Digest)\n\t\treturn ocispec.Descriptor{}, st.outcomes, errors.Join(st.failed...)\n\t}\n\n\t// Verification Succeeded\n\treturn artifactDescriptor, st.outcomes, nil\n}\n'),
       (N, 'func generateAnnotations(',
           'type listingState struct {\n\tverifier Verifier\n\trepo     registry.Repository\n\tref      string\n\ttarget   ocispec.Descriptor\n\tvopts    VerifierVerifyOptions\n\tlimit    int\n\terrLimit ErrorVerificationFailed\n\tdone     int\n\tgood     bool\n\toutcomes []*VerificationOutcome\n\tfailed   []error\n}\n\nfunc verifyPage(ctx context.Context, st *listingState, page []ocispec.Descriptor) error {\n\tlg := log.GetLogger(ctx)\n\tfor _, sigManifestDesc := range page {\n\t\tif st.done >= st.limit {\n\t\t\tbreak\n\t\t}\n\t\tst.done++\n\t\tlg.Infof("Processing signature with manifest mediaType: %v and digest: %v", sigManifestDesc.MediaType, sigManifestDesc.Digest)\n\t\tsigBlob, sigDesc, err := st.repo.FetchSignatureBlob(ctx, sigManifestDesc)\n\t\tif err != nil {\n\t\t\treturn ErrorSignatureRetrievalFailed{Msg: fmt.Sprintf("unable to retrieve digital signature with digest %q associated with %q from the Repository, error : %v", sigManifestDesc.Digest, st.ref, err.Error())}\n\t\t}\n\t\tst.vopts.SignatureMediaType = sigDesc.MediaType\n\t\toutcome, err := st.verifier.Verify(ctx, st.target, sigBlob, st.vopts)\n\t\tif err != nil {\n\t\t\tlg.Warnf("Signature %v failed verification with error: %v", sigManifestDesc.Digest, err)\n\t\t\tif outcome == nil {\n\t\t\t\tlg.Error("Got nil outcome. Expecting non-nil outcome on verification failure")\n\t\t\t\treturn err\n\t\t\t}\n\t\t\toutcome.Error = fmt.Errorf("failed to verify signature with digest %v, %w", sigManifestDesc.Digest, outcome.Error)\n\t\t\tst.failed = append(st.failed, outcome.Error)\n\t\t\tcontinue\n\t\t}\n\t\tst.good = true\n\t\tst.outcomes = []*VerificationOutcome{outcome}\n\t\treturn errDoneVerification\n\t}\n\tif st.done >= st.limit {\n\t\treturn st.errLimit\n\t}\n\treturn nil\n}\n\nfunc generateAnnotations('),
      ]),
 dict(name='state-object-limit-gt', file=N, expect='flagged(bound/guard)',
      edits=[
       (N, '\tvar verificationSucceeded bool\n\tvar verificationOutcomes []*VerificationOutcome\n\tvar verificationFailedErrorArray = []error{ErrorVerificationFailed{}}\n\terrExceededMaxVerificationLimit := ErrorVerificationFailed{Msg: fmt.Sprintf("signature evaluation stopped. The configured limit of %d signatures to verify per artifact exceeded", verifyOpts.MaxSignatureAttempts)}\n\tnumOfSignatureProcessed := 0\n',
           '\tst := &listingState{\n\t\tverifier: verifier,\n\t\trepo:     repo,\n\t\tref:      artifactRef,\n\t\ttarget:   artifactDescriptor,\n\t\tvopts:    opts,\n\t\tlimit:    verifyOpts.MaxSignatureAttempts,\n\t\terrLimit: ErrorVerificationFailed{Msg: fmt.Sprintf("signature evaluation stopped. The configured limit of %d signatures to verify per artifact exceeded", verifyOpts.MaxSignatureAttempts)},\n\t\tfailed:   []error{ErrorVerificationFailed{}},\n\t}\n'),
       (N, '\terr = repo.ListSignatures(ctx, artifactDescriptor, func(signatureManifests []ocispec.Descriptor) error {\n\t\t// process signatures\n\t\tfor _, sigManifestDesc := range signatureManifests {\n\t\t\tif numOfSignatureProcessed >= verifyOpts.MaxSignatureAttempts {\n\t\t\t\tbreak\n\t\t\t}\n\t\t\tnumOfSignatureProcessed++\n\t\t\tlogger.Infof("Processing signature with manifest mediaType: %v and digest: %v", sigManifestDesc.MediaType, sigManifestDesc.Digest)\n\t\t\t// get signature envelope\n\t\t\tsigBlob, sigDesc, err := repo.FetchSignatureBlob(ctx, sigManifestDesc)\n\t\t\tif err != nil {\n\t\t\t\treturn ErrorSignatureRetrievalFailed{Msg: fmt.Sprintf("unable to retrieve digital signature with digest %q associated with %q from the Repository, error : %v", sigManifestDesc.Digest, artifactRef, err.Error())}\n\t\t\t}\n\n\t\t\t// using signature media type fetched from registry\n\t\t\topts.SignatureMediaType = sigDesc.MediaType\n\n\t\t\t// verify each signature\n\t\t\toutcome, err := verifier.Verify(ctx, artifactDescriptor, sigBlob, opts)\n\t\t\tif err != nil {\n\t\t\t\tlogger.Warnf("Signature %v failed verification with error: %v", sigManifestDesc.Digest, err)\n\t\t\t\tif outcome == nil {\n\t\t\t\t\tlogger.Error("Got nil outcome. Expecting non-nil outcome on verification failure")\n\t\t\t\t\treturn err\n\t\t\t\t}\n\t\t\t\toutcome.Error = fmt.Errorf("failed to verify signature with digest %v, %w", sigManifestDesc.Digest, outcome.Error)\n\t\t\t\tverificationFailedErrorArray = append(verificationFailedErrorArray, outcome.Error)\n\t\t\t\tcontinue\n\t\t\t}\n\t\t\t// at this point, the signature is verified successfully\n\t\t\tverificationSucceeded = true\n\n\t\t\t// on success, verificationOutcomes only contains the\n\t\t\t// succeeded outcome\n\t\t\tverificationOutcomes = []*VerificationOutcome{outcome}\n\t\t\tlogger.Debugf("Signature verification succeeded for artifact %v with signature digest %v", artifactDescriptor.Digest, sigManifestDesc.Digest)\n\n\t\t\t// early break on success\n\t\t\treturn errDoneVerification\n\t\t}\n\t\tif numOfSignatureProcessed >= verifyOpts.MaxSignatureAttempts {\n\t\t\treturn errExceededMaxVerificationLimit\n\t\t}\n\t\treturn nil\n\t})\n',
           '\terr = repo.ListSignatures(ctx, artifactDescriptor, func(page []ocispec.Descriptor) error {\n\t\treturn verifyPage(ctx, st, page)\n\t})\n'),
       (N, '\tif err != nil && !errors.Is(err, errDoneVerification) {\n\t\tif errors.Is(err, errExceededMaxVerificationLimit) {\n\t\t\treturn ocispec.Descriptor{}, verificationOutcomes, err\n\t\t}\n\t\treturn ocispec.Descriptor{}, nil, err\n\t}\n\n\t// If there\'s no signature associated with the reference\n\tif numOfSignatureProcessed == 0 {\n\t\treturn ocispec.Descriptor{}, nil, ErrorSignatureRetrievalFailed{Msg: fmt.Sprintf("no signature is associated with %q, make sure the artifact was signed successfully", artifactRef)}\n\t}\n\n\t// Verification Failed\n\tif !verificationSucceeded {\n\t\tlogger.Debugf("Signature verification failed for all the signatures associated with artifact %v", artifactDescriptor.Digest)\n\t\treturn ocispec.Descriptor{}, verificationOutcomes, errors.Join(verificationFailedErrorArray...)\n\t}\n\n\t// Verification Succeeded\n\treturn artifactDescriptor, verificationOutcomes, nil\n}\n',
           '\tif err != nil && !errors.Is(err, errDoneVerification) {\n\t\tif errors.Is(err, st.errLimit) {\n\t\t\treturn ocispec.Descriptor{}, st.outcomes, err\n\t\t}\n\t\treturn ocispec.Descriptor{}, nil, err\n\t}\n\n\t// If there\'s no signature associated with the reference\n\tif st.done == 0 {\n\t\treturn ocispec.Descriptor{}, nil, ErrorSignatureRetrievalFailed{Msg: fmt.Sprintf("no signature is associated with %q, make sure the artifact was signed successfully", artifactRef)}\n\t}\n\n\t// Verification Failed\n\tif !st.good {\n\t\tlogger.Debugf("Signature verification failed for all the signatures associated with artifact %v", artifactDescriptor.Digest)\n\t\treturn ocispec.Descriptor{}, st.outcomes, errors.Join(st.failed...)\n\t}\n\n\t// Verification Succeeded\n\treturn artifactDescriptor, st.outcomes, nil\n}\n'),
       (N, 'func generateAnnotations(',
           'type listingState struct {\n\tverifier Verifier\n\trepo     registry.Repository\n\tref      string\n\ttarget   ocispec.Descriptor\n\tvopts    VerifierVerifyOptions\n\tlimit    int\n\terrLimit ErrorVerificationFailed\n\tdone     int\n\tgood     bool\n\toutcomes []*VerificationOutcome\n\tfailed   []error\n}\n\nfunc verifyPage(ctx context.Context, st *listingState, page []ocispec.Descriptor) error {\n\tlg := log.GetLogger(ctx)\n\tfor _, sigManifestDesc := range page {\n\t\tif st.done >= st.limit {\n\t\t\tbreak\n\t\t}\n\t\tst.done++\n\t\tlg.Infof("Processing signature with manifest mediaType: %v and digest: %v", sigManifestDesc.MediaType, sigManifestDesc.Digest)\n\t\tsigBlob, sigDesc, err := st.repo.FetchSignatureBlob(ctx, sigManifestDesc)\n\t\tif err != nil {\n\t\t\treturn ErrorSignatureRetrievalFailed{Msg: fmt.Sprintf("unable to retrieve digital signature with digest %q associated with %q from the Repository, error : %v", sigManifestDesc.Digest, st.ref, err.Error())}\n\t\t}\n\t\tst.vopts.SignatureMediaType = sigDesc.MediaType\n\t\toutcome, err := st.verifier.Verify(ctx, st.target, sigBlob, st.vopts)\n\t\tif err != nil {\n\t\t\tlg.Warnf("Signature %v failed verification with error: %v", sigManifestDesc.Digest, err)\n\t\t\tif outcome == nil {\n\t\t\t\tlg.Error("Got nil outcome. Expecting non-nil outcome on verification failure")\n\t\t\t\treturn err\n\t\t\t}\n\t\t\toutcome.Error = fmt.Errorf("failed to verify signature with digest %v, %w", sigManifestDesc.Digest, outcome.Error)\n\t\t\tst.failed = append(st.failed, outcome.Error)\n\t\t\tcontinue\n\t\t}\n\t\tst.good = true\n\t\tst.outcomes = []*VerificationOutcome{outcome}\n\t\treturn errDoneVerification\n\t}\n\tif st.done >= st.limit {\n\t\treturn st.errLimit\n\t}\n\treturn nil\n}\n\nfunc generateAnnotations('),
       (N, '\t\tif st.done >= st.limit {\n\t\t\tbreak\n',
           '\t\tif st.done > st.limit {\n\t\t\tbreak\n'),
      ]),
 dict(name='state-object-limit-not-callers', file=N, expect='flagged(bound/guard)',
      edits=[
       (N, '\tvar verificationSucceeded bool\n\tvar verificationOutcomes []*VerificationOutcome\n\tvar verificationFailedErrorArray = []error{ErrorVerificationFailed{}}\n\terrExceededMaxVerificationLimit := ErrorVerificationFailed{Msg: fmt.Sprintf("signature evaluation stopped. The configured limit of %d signatures to verify per artifact exceeded", verifyOpts.MaxSignatureAttempts)}\n\tnumOfSignatureProcessed := 0\n',
           '\tst := &listingState{\n\t\tverifier: verifier,\n\t\trepo:     repo,\n\t\tref:      artifactRef,\n\t\ttarget:   artifactDescriptor,\n\t\tvopts:    opts,\n\t\tlimit:    verifyOpts.MaxSignatureAttempts,\n\t\terrLimit: ErrorVerificationFailed{Msg: fmt.Sprintf("signature evaluation stopped. The configured limit of %d signatures to verify per artifact exceeded", verifyOpts.MaxSignatureAttempts)},\n\t\tfailed:   []error{ErrorVerificationFailed{}},\n\t}\n'),
       (N, '\terr = repo.ListSignatures(ctx, artifactDescriptor, func(signatureManifests []ocispec.Descriptor) error {\n\t\t// process signatures\n\t\tfor _, sigManifestDesc := range signatureManifests {\n\t\t\tif numOfSignatureProcessed >= verifyOpts.MaxSignatureAttempts {\n\t\t\t\tbreak\n\t\t\t}\n\t\t\tnumOfSignatureProcessed++\n\t\t\tlogger.Infof("Processing signature with manifest mediaType: %v and digest: %v", sigManifestDesc.MediaType, sigManifestDesc.Digest)\n\t\t\t// get signature envelope\n\t\t\tsigBlob, sigDesc, err := repo.FetchSignatureBlob(ctx, sigManifestDesc)\n\t\t\tif err != nil {\n\t\t\t\treturn ErrorSignatureRetrievalFailed{Msg: fmt.Sprintf("unable to retrieve digital signature with digest %q associated with %q from the Repository, error : %v", sigManifestDesc.Digest, artifactRef, err.Error())}\n\t\t\t}\n\n\t\t\t// using signature media type fetched from registry\n\t\t\topts.SignatureMediaType = sigDesc.MediaType\n\n\t\t\t// verify each signature\n\t\t\toutcome, err := verifier.Verify(ctx, artifactDescriptor, sigBlob, opts)\n\t\t\tif err != nil {\n\t\t\t\tlogger.Warnf("Signature %v failed verification with error: %v", sigManifestDesc.Digest, err)\n\t\t\t\tif outcome == nil {\n\t\t\t\t\tlogger.Error("Got nil outcome. Expecting non-nil outcome on verification failure")\n\t\t\t\t\treturn err\n\t\t\t\t}\n\t\t\t\toutcome.Error = fmt.Errorf("failed to verify signature with digest %v, %w", sigManifestDesc.Digest, outcome.Error)\n\t\t\t\tverificationFailedErrorArray = append(verificationFailedErrorArray, outcome.Error)\n\t\t\t\tcontinue\n\t\t\t}\n\t\t\t// at this point, the signature is verified successfully\n\t\t\tverificationSucceeded = true\n\n\t\t\t// on success, verificationOutcomes only contains the\n\t\t\t// succeeded outcome\n\t\t\tverificationOutcomes = []*VerificationOutcome{outcome}\n\t\t\tlogger.Debugf("Signature verification succeeded for artifact %v with signature digest %v", artifactDescriptor.Digest, sigManifestDesc.Digest)\n\n\t\t\t// early break on success\n\t\t\treturn errDoneVerification\n\t\t}\n\t\tif numOfSignatureProcessed >= verifyOpts.MaxSignatureAttempts {\n\t\t\treturn errExceededMaxVerificationLimit\n\t\t}\n\t\treturn nil\n\t})\n',
           '\terr = repo.ListSignatures(ctx, artifactDescriptor, func(page []ocispec.Descriptor) error {\n\t\treturn verifyPage(ctx, st, page)\n\t})\n'),
       (N, '\tif err != nil && !errors.Is(err, errDoneVerification) {\n\t\tif errors.Is(err, errExceededMaxVerificationLimit) {\n\t\t\treturn ocispec.Descriptor{}, verificationOutcomes, err\n\t\t}\n\t\treturn ocispec.Descriptor{}, nil, err\n\t}\n\n\t// If there\'s no signature associated with the reference\n\tif numOfSignatureProcessed == 0 {\n\t\treturn ocispec.Descriptor{}, nil, ErrorSignatureRetrievalFailed{Msg: fmt.Sprintf("no signature is associated with %q, make sure the artifact was signed successfully", artifactRef)}\n\t}\n\n\t// Verification Failed\n\tif !verificationSucceeded {\n\t\tlogger.Debugf("Signature verification failed for all the signatures associated with artifact %v", artifactDescriptor.Digest)\n\t\treturn ocispec.Descriptor{}, verificationOutcomes, errors.Join(verificationFailedErrorArray...)\n\t}\n\n\t// Verification Succeeded\n\treturn artifactDescriptor, verificationOutcomes, nil\n}\n',
           '\tif err != nil && !errors.Is(err, errDoneVerification) {\n\t\tif errors.Is(err, st.errLimit) {\n\t\t\treturn ocispec.Descriptor{}, st.outcomes, err\n\t\t}\n\t\treturn ocispec.Descriptor{}, nil, err\n\t}\n\n\t// If there\'s no signature associated with the reference\n\tif st.done == 0 {\n\t\treturn ocispec.Descriptor{}, nil, ErrorSignatureRetrievalFailed{Msg: fmt.Sprintf("no signature is associated with %q, make sure the artifact was signed successfully", artifactRef)}\n\t}\n\n\t// Verification Failed\n\tif !st.good {\n\t\tlogger.Debugf("Signature verification failed for all the signatures associated with artifact %v", artifactDescriptor.Digest)\n\t\treturn ocispec.Descriptor{}, st.outcomes, errors.Join(st.failed...)\n\t}\n\n\t// Verification Succeeded\n\treturn artifactDescriptor, st.outcomes, nil\n}\n'),
       (N, 'func generateAnnotations(',
           'type listingState struct {\n\tverifier Verifier\n\trepo     registry.Repository\n\tref      string\n\ttarget   ocispec.Descriptor\n\tvopts    VerifierVerifyOptions\n\tlimit    int\n\terrLimit ErrorVerificationFailed\n\tdone     int\n\tgood     bool\n\toutcomes []*VerificationOutcome\n\tfailed   []error\n}\n\nfunc verifyPage(ctx context.Context, st *listingState, page []ocispec.Descriptor) error {\n\tlg := log.GetLogger(ctx)\n\tfor _, sigManifestDesc := range page {\n\t\tif st.done >= st.limit {\n\t\t\tbreak\n\t\t}\n\t\tst.done++\n\t\tlg.Infof("Processing signature with manifest mediaType: %v and digest: %v", sigManifestDesc.MediaType, sigManifestDesc.Digest)\n\t\tsigBlob, sigDesc, err := st.repo.FetchSignatureBlob(ctx, sigManifestDesc)\n\t\tif err != nil {\n\t\t\treturn ErrorSignatureRetrievalFailed{Msg: fmt.Sprintf("unable to retrieve digital signature with digest %q associated with %q from the Repository, error : %v", sigManifestDesc.Digest, st.ref, err.Error())}\n\t\t}\n\t\tst.vopts.SignatureMediaType = sigDesc.MediaType\n\t\toutcome, err := st.verifier.Verify(ctx, st.target, sigBlob, st.vopts)\n\t\tif err != nil {\n\t\t\tlg.Warnf("Signature %v failed verification with error: %v", sigManifestDesc.Digest, err)\n\t\t\tif outcome == nil {\n\t\t\t\tlg.Error("Got nil outcome. Expecting non-nil outcome on verification failure")\n\t\t\t\treturn err\n\t\t\t}\n\t\t\toutcome.Error = fmt.Errorf("failed to verify signature with digest %v, %w", sigManifestDesc.Digest, outcome.Error)\n\t\t\tst.failed = append(st.failed, outcome.Error)\n\t\t\tcontinue\n\t\t}\n\t\tst.good = true\n\t\tst.outcomes = []*VerificationOutcome{outcome}\n\t\treturn errDoneVerification\n\t}\n\tif st.done >= st.limit {\n\t\treturn st.errLimit\n\t}\n\treturn nil\n}\n\nfunc generateAnnotations('),
       (N, '\t\tlimit:    verifyOpts.MaxSignatureAttempts,\n',
           '\t\tlimit:    verifyOpts.MaxSignatureAttempts + len(verifyOpts.PluginConfig),\n'),
      ]),
 dict(name='state-object-continue-after-success', file=N, expect='flagged(early-exit/stop-after-success)',
      edits=[
       (N, '\tvar verificationSucceeded bool\n\tvar verificationOutcomes []*VerificationOutcome\n\tvar verificationFailedErrorArray = []error{ErrorVerificationFailed{}}\n\terrExceededMaxVerificationLimit := ErrorVerificationFailed{Msg: fmt.Sprintf("signature evaluation stopped. The configured limit of %d signatures to verify per artifact exceeded", verifyOpts.MaxSignatureAttempts)}\n\tnumOfSignatureProcessed := 0\n',
           '\tst := &listingState{\n\t\tverifier: verifier,\n\t\trepo:     repo,\n\t\tref:      artifactRef,\n\t\ttarget:   artifactDescriptor,\n\t\tvopts:    opts,\n\t\tlimit:    verifyOpts.MaxSignatureAttempts,\n\t\terrLimit: ErrorVerificationFailed{Msg: fmt.Sprintf("signature evaluation stopped. The configured limit of %d signatures to verify per artifact exceeded", verifyOpts.MaxSignatureAttempts)},\n\t\tfailed:   []error{ErrorVerificationFailed{}},\n\t}\n'),
       (N, '\terr = repo.ListSignatures(ctx, artifactDescriptor, func(signatureManifests []ocispec.Descriptor) error {\n\t\t// process signatures\n\t\tfor _, sigManifestDesc := range signatureManifests {\n\t\t\tif numOfSignatureProcessed >= verifyOpts.MaxSignatureAttempts {\n\t\t\t\tbreak\n\t\t\t}\n\t\t\tnumOfSignatureProcessed++\n\t\t\tlogger.Infof("Processing signature with manifest mediaType: %v and digest: %v", sigManifestDesc.MediaType, sigManifestDesc.Digest)\n\t\t\t// get signature envelope\n\t\t\tsigBlob, sigDesc, err := repo.FetchSignatureBlob(ctx, sigManifestDesc)\n\t\t\tif err != nil {\n\t\t\t\treturn ErrorSignatureRetrievalFailed{Msg: fmt.Sprintf("unable to retrieve digital signature with digest %q associated with %q from the Repository, error : %v", sigManifestDesc.Digest, artifactRef, err.Error())}\n\t\t\t}\n\n\t\t\t// using signature media type fetched from registry\n\t\t\topts.SignatureMediaType = sigDesc.MediaType\n\n\t\t\t// verify each signature\n\t\t\toutcome, err := verifier.Verify(ctx, artifactDescriptor, sigBlob, opts)\n\t\t\tif err != nil {\n\t\t\t\tlogger.Warnf("Signature %v failed verification with error: %v", sigManifestDesc.Digest, err)\n\t\t\t\tif outcome == nil {\n\t\t\t\t\tlogger.Error("Got nil outcome. Expecting non-nil outcome on verification failure")\n\t\t\t\t\treturn err\n\t\t\t\t}\n\t\t\t\toutcome.Error = fmt.Errorf("failed to verify signature with digest %v, %w", sigManifestDesc.Digest, outcome.Error)\n\t\t\t\tverificationFailedErrorArray = append(verificationFailedErrorArray, outcome.Error)\n\t\t\t\tcontinue\n\t\t\t}\n\t\t\t// at this point, the signature is verified successfully\n\t\t\tverificationSucceeded = true\n\n\t\t\t// on success, verificationOutcomes only contains the\n\t\t\t// succeeded outcome\n\t\t\tverificationOutcomes = []*VerificationOutcome{outcome}\n\t\t\tlogger.Debugf("Signature verification succeeded for artifact %v with signature digest %v", artifactDescriptor.Digest, sigManifestDesc.Digest)\n\n\t\t\t// early break on success\n\t\t\treturn errDoneVerification\n\t\t}\n\t\tif numOfSignatureProcessed >= verifyOpts.MaxSignatureAttempts {\n\t\t\treturn errExceededMaxVerificationLimit\n\t\t}\n\t\treturn nil\n\t})\n',
           '\terr = repo.ListSignatures(ctx, artifactDescriptor, func(page []ocispec.Descriptor) error {\n\t\treturn verifyPage(ctx, st, page)\n\t})\n'),
       (N, '\tif err != nil && !errors.Is(err, errDoneVerification) {\n\t\tif errors.Is(err, errExceededMaxVerificationLimit) {\n\t\t\treturn ocispec.Descriptor{}, verificationOutcomes, err\n\t\t}\n\t\treturn ocispec.Descriptor{}, nil, err\n\t}\n\n\t// If there\'s no signature associated with the reference\n\tif numOfSignatureProcessed == 0 {\n\t\treturn ocispec.Descriptor{}, nil, ErrorSignatureRetrievalFailed{Msg: fmt.Sprintf("no signature is associated with %q, make sure the artifact was signed successfully", artifactRef)}\n\t}\n\n\t// Verification Failed\n\tif !verificationSucceeded {\n\t\tlogger.Debugf("Signature verification failed for all the signatures associated with artifact %v", artifactDescriptor.Digest)\n\t\treturn ocispec.Descriptor{}, verificationOutcomes, errors.Join(verificationFailedErrorArray...)\n\t}\n\n\t// Verification Succeeded\n\treturn artifactDescriptor, verificationOutcomes, nil\n}\n',
           '\tif err != nil && !errors.Is(err, errDoneVerification) {\n\t\tif errors.Is(err, st.errLimit) {\n\t\t\treturn ocispec.Descriptor{}, st.outcomes, err\n\t\t}\n\t\treturn ocispec.Descriptor{}, nil, err\n\t}\n\n\t// If there\'s no signature associated with the reference\n\tif st.done == 0 {\n\t\treturn ocispec.Descriptor{}, nil, ErrorSignatureRetrievalFailed{Msg: fmt.Sprintf("no signature is associated with %q, make sure the artifact was signed successfully", artifactRef)}\n\t}\n\n\t// Verification Failed\n\tif !st.good {\n\t\tlogger.Debugf("Signature verification failed for all the signatures associated with artifact %v", artifactDescriptor.Digest)\n\t\treturn ocispec.Descriptor{}, st.outcomes, errors.Join(st.failed...)\n\t}\n\n\t// Verification Succeeded\n\treturn artifactDescriptor, st.outcomes, nil\n}\n'),
       (N, 'func generateAnnotations(',
           'type listingState struct {\n\tverifier Verifier\n\trepo     registry.Repository\n\tref      string\n\ttarget   ocispec.Descriptor\n\tvopts    VerifierVerifyOptions\n\tlimit    int\n\terrLimit ErrorVerificationFailed\n\tdone     int\n\tgood     bool\n\toutcomes []*VerificationOutcome\n\tfailed   []error\n}\n\nfunc verifyPage(ctx context.Context, st *listingState, page []ocispec.Descriptor) error {\n\tlg := log.GetLogger(ctx)\n\tfor _, sigManifestDesc := range page {\n\t\tif st.done >= st.limit {\n\t\t\tbreak\n\t\t}\n\t\tst.done++\n\t\tlg.Infof("Processing signature with manifest mediaType: %v and digest: %v", sigManifestDesc.MediaType, sigManifestDesc.Digest)\n\t\tsigBlob, sigDesc, err := st.repo.FetchSignatureBlob(ctx, sigManifestDesc)\n\t\tif err != nil {\n\t\t\treturn ErrorSignatureRetrievalFailed{Msg: fmt.Sprintf("unable to retrieve digital signature with digest %q associated with %q from the Repository, error : %v", sigManifestDesc.Digest, st.ref, err.Error())}\n\t\t}\n\t\tst.vopts.SignatureMediaType = sigDesc.MediaType\n\t\toutcome, err := st.verifier.Verify(ctx, st.target, sigBlob, st.vopts)\n\t\tif err != nil {\n\t\t\tlg.Warnf("Signature %v failed verification with error: %v", sigManifestDesc.Digest, err)\n\t\t\tif outcome == nil {\n\t\t\t\tlg.Error("Got nil outcome. Expecting non-nil outcome on verification failure")\n\t\t\t\treturn err\n\t\t\t}\n\t\t\toutcome.Error = fmt.Errorf("failed to verify signature with digest %v, %w", sigManifestDesc.Digest, outcome.Error)\n\t\t\tst.failed = append(st.failed, outcome.Error)\n\t\t\tcontinue\n\t\t}\n\t\tst.good = true\n\t\tst.outcomes = []*VerificationOutcome{outcome}\n\t\treturn errDoneVerification\n\t}\n\tif st.done >= st.limit {\n\t\treturn st.errLimit\n\t}\n\treturn nil\n}\n\nfunc generateAnnotations('),
       (N, '\t\tst.outcomes = []*VerificationOutcome{outcome}\n\t\treturn errDoneVerification\n',
           '\t\tst.outcomes = []*VerificationOutcome{outcome}\n\t\tcontinue\n'),
      ]),
 dict(name='state-object-counter-reset-per-page', file=N, expect='flagged(bound/counter)',
      edits=[
       (N, '\tvar verificationSucceeded bool\n\tvar verificationOutcomes []*VerificationOutcome\n\tvar verificationFailedErrorArray = []error{ErrorVerificationFailed{}}\n\terrExceededMaxVerificationLimit := ErrorVerificationFailed{Msg: fmt.Sprintf("signature evaluation stopped. The configured limit of %d signatures to verify per artifact exceeded", verifyOpts.MaxSignatureAttempts)}\n\tnumOfSignatureProcessed := 0\n',
           '\tst := &listingState{\n\t\tverifier: verifier,\n\t\trepo:     repo,\n\t\tref:      artifactRef,\n\t\ttarget:   artifactDescriptor,\n\t\tvopts:    opts,\n\t\tlimit:    verifyOpts.MaxSignatureAttempts,\n\t\terrLimit: ErrorVerificationFailed{Msg: fmt.Sprintf("signature evaluation stopped. The configured limit of %d signatures to verify per artifact exceeded", verifyOpts.MaxSignatureAttempts)},\n\t\tfailed:   []error{ErrorVerificationFailed{}},\n\t}\n'),
       (N, '\terr = repo.ListSignatures(ctx, artifactDescriptor, func(signatureManifests []ocispec.Descriptor) error {\n\t\t// process signatures\n\t\tfor _, sigManifestDesc := range signatureManifests {\n\t\t\tif numOfSignatureProcessed >= verifyOpts.MaxSignatureAttempts {\n\t\t\t\tbreak\n\t\t\t}\n\t\t\tnumOfSignatureProcessed++\n\t\t\tlogger.Infof("Processing signature with manifest mediaType: %v and digest: %v", sigManifestDesc.MediaType, sigManifestDesc.Digest)\n\t\t\t// get signature envelope\n\t\t\tsigBlob, sigDesc, err := repo.FetchSignatureBlob(ctx, sigManifestDesc)\n\t\t\tif err != nil {\n\t\t\t\treturn ErrorSignatureRetrievalFailed{Msg: fmt.Sprintf("unable to retrieve digital signature with digest %q associated with %q from the Repository, error : %v", sigManifestDesc.Digest, artifactRef, err.Error())}\n\t\t\t}\n\n\t\t\t// using signature media type fetched from registry\n\t\t\topts.SignatureMediaType = sigDesc.MediaType\n\n\t\t\t// verify each signature\n\t\t\toutcome, err := verifier.Verify(ctx, artifactDescriptor, sigBlob, opts)\n\t\t\tif err != nil {\n\t\t\t\tlogger.Warnf("Signature %v failed verification with error: %v", sigManifestDesc.Digest, err)\n\t\t\t\tif outcome == nil {\n\t\t\t\t\tlogger.Error("Got nil outcome. Expecting non-nil outcome on verification failure")\n\t\t\t\t\treturn err\n\t\t\t\t}\n\t\t\t\toutcome.Error = fmt.Errorf("failed to verify signature with digest %v, %w", sigManifestDesc.Digest, outcome.Error)\n\t\t\t\tverificationFailedErrorArray = append(verificationFailedErrorArray, outcome.Error)\n\t\t\t\tcontinue\n\t\t\t}\n\t\t\t// at this point, the signature is verified successfully\n\t\t\tverificationSucceeded = true\n\n\t\t\t// on success, verificationOutcomes only contains the\n\t\t\t// succeeded outcome\n\t\t\tverificationOutcomes = []*VerificationOutcome{outcome}\n\t\t\tlogger.Debugf("Signature verification succeeded for artifact %v with signature digest %v", artifactDescriptor.Digest, sigManifestDesc.Digest)\n\n\t\t\t// early break on success\n\t\t\treturn errDoneVerification\n\t\t}\n\t\tif numOfSignatureProcessed >= verifyOpts.MaxSignatureAttempts {\n\t\t\treturn errExceededMaxVerificationLimit\n\t\t}\n\t\treturn nil\n\t})\n',
           '\terr = repo.ListSignatures(ctx, artifactDescriptor, func(page []ocispec.Descriptor) error {\n\t\treturn verifyPage(ctx, st, page)\n\t})\n'),
       (N, '\tif err != nil && !errors.Is(err, errDoneVerification) {\n\t\tif errors.Is(err, errExceededMaxVerificationLimit) {\n\t\t\treturn ocispec.Descriptor{}, verificationOutcomes, err\n\t\t}\n\t\treturn ocispec.Descriptor{}, nil, err\n\t}\n\n\t// If there\'s no signature associated with the reference\n\tif numOfSignatureProcessed == 0 {\n\t\treturn ocispec.Descriptor{}, nil, ErrorSignatureRetrievalFailed{Msg: fmt.Sprintf("no signature is associated with %q, make sure the artifact was signed successfully", artifactRef)}\n\t}\n\n\t// Verification Failed\n\tif !verificationSucceeded {\n\t\tlogger.Debugf("Signature verification failed for all the signatures associated with artifact %v", artifactDescriptor.Digest)\n\t\treturn ocispec.Descriptor{}, verificationOutcomes, errors.Join(verificationFailedErrorArray...)\n\t}\n\n\t// Verification Succeeded\n\treturn artifactDescriptor, verificationOutcomes, nil\n}\n',
           '\tif err != nil && !errors.Is(err, errDoneVerification) {\n\t\tif errors.Is(err, st.errLimit) {\n\t\t\treturn ocispec.Descriptor{}, st.outcomes, err\n\t\t}\n\t\treturn ocispec.Descriptor{}, nil, err\n\t}\n\n\t// If there\'s no signature associated with the reference\n\tif st.done == 0 {\n\t\treturn ocispec.Descriptor{}, nil, ErrorSignatureRetrievalFailed{Msg: fmt.Sprintf("no signature is associated with %q, make sure the artifact was signed successfully", artifactRef)}\n\t}\n\n\t// Verification Failed\n\tif !st.good {\n\t\tlogger.Debugf("Signature verification failed for all the signatures associated with artifact %v", artifactDescriptor.Digest)\n\t\treturn ocispec.Descriptor{}, st.outcomes, errors.Join(st.failed...)\n\t}\n\n\t// Verification Succeeded\n\treturn artifactDescriptor, st.outcomes, nil\n}\n'),
       (N, 'func generateAnnotations(',
           'type listingState struct {\n\tverifier Verifier\n\trepo     registry.Repository\n\tref      string\n\ttarget   ocispec.Descriptor\n\tvopts    VerifierVerifyOptions\n\tlimit    int\n\terrLimit ErrorVerificationFailed\n\tdone     int\n\tgood     bool\n\toutcomes []*VerificationOutcome\n\tfailed   []error\n}\n\nfunc verifyPage(ctx context.Context, st *listingState, page []ocispec.Descriptor) error {\n\tlg := log.GetLogger(ctx)\n\tfor _, sigManifestDesc := range page {\n\t\tif st.done >= st.limit {\n\t\t\tbreak\n\t\t}\n\t\tst.done++\n\t\tlg.Infof("Processing signature with manifest mediaType: %v and digest: %v", sigManifestDesc.MediaType, sigManifestDesc.Digest)\n\t\tsigBlob, sigDesc, err := st.repo.FetchSignatureBlob(ctx, sigManifestDesc)\n\t\tif err != nil {\n\t\t\treturn ErrorSignatureRetrievalFailed{Msg: fmt.Sprintf("unable to retrieve digital signature with digest %q associated with %q from the Repository, error : %v", sigManifestDesc.Digest, st.ref, err.Error())}\n\t\t}\n\t\tst.vopts.SignatureMediaType = sigDesc.MediaType\n\t\toutcome, err := st.verifier.Verify(ctx, st.target, sigBlob, st.vopts)\n\t\tif err != nil {\n\t\t\tlg.Warnf("Signature %v failed verification with error: %v", sigManifestDesc.Digest, err)\n\t\t\tif outcome == nil {\n\t\t\t\tlg.Error("Got nil outcome. Expecting non-nil outcome on verification failure")\n\t\t\t\treturn err\n\t\t\t}\n\t\t\toutcome.Error = fmt.Errorf("failed to verify signature with digest %v, %w", sigManifestDesc.Digest, outcome.Error)\n\t\t\tst.failed = append(st.failed, outcome.Error)\n\t\t\tcontinue\n\t\t}\n\t\tst.good = true\n\t\tst.outcomes = []*VerificationOutcome{outcome}\n\t\treturn errDoneVerification\n\t}\n\tif st.done >= st.limit {\n\t\treturn st.errLimit\n\t}\n\treturn nil\n}\n\nfunc generateAnnotations('),
       (N, '\t\treturn verifyPage(ctx, st, page)\n',
           '\t\tst.done = 0\n\t\treturn verifyPage(ctx, st, page)\n'),
      ]),
 dict(name='state-object-error-dropped', file=N, expect='flagged(callback/anchors)',
      edits=[
       (N, '\tvar verificationSucceeded bool\n\tvar verificationOutcomes []*VerificationOutcome\n\tvar verificationFailedErrorArray = []error{ErrorVerificationFailed{}}\n\terrExceededMaxVerificationLimit := ErrorVerificationFailed{Msg: fmt.Sprintf("signature evaluation stopped. The configured limit of %d signatures to verify per artifact exceeded", verifyOpts.MaxSignatureAttempts)}\n\tnumOfSignatureProcessed := 0\n',
           '\tst := &listingState{\n\t\tverifier: verifier,\n\t\trepo:     repo,\n\t\tref:      artifactRef,\n\t\ttarget:   artifactDescriptor,\n\t\tvopts:    opts,\n\t\tlimit:    verifyOpts.MaxSignatureAttempts,\n\t\terrLimit: ErrorVerificationFailed{Msg: fmt.Sprintf("signature evaluation stopped. The configured limit of %d signatures to verify per artifact exceeded", verifyOpts.MaxSignatureAttempts)},\n\t\tfailed:   []error{ErrorVerificationFailed{}},\n\t}\n'),
       (N, '\terr = repo.ListSignatures(ctx, artifactDescriptor, func(signatureManifests []ocispec.Descriptor) error {\n\t\t// process signatures\n\t\tfor _, sigManifestDesc := range signatureManifests {\n\t\t\tif numOfSignatureProcessed >= verifyOpts.MaxSignatureAttempts {\n\t\t\t\tbreak\n\t\t\t}\n\t\t\tnumOfSignatureProcessed++\n\t\t\tlogger.Infof("Processing signature with manifest mediaType: %v and digest: %v", sigManifestDesc.MediaType, sigManifestDesc.Digest)\n\t\t\t// get signature envelope\n\t\t\tsigBlob, sigDesc, err := repo.FetchSignatureBlob(ctx, sigManifestDesc)\n\t\t\tif err != nil {\n\t\t\t\treturn ErrorSignatureRetrievalFailed{Msg: fmt.Sprintf("unable to retrieve digital signature with digest %q associated with %q from the Repository, error : %v", sigManifestDesc.Digest, artifactRef, err.Error())}\n\t\t\t}\n\n\t\t\t// using signature media type fetched from registry\n\t\t\topts.SignatureMediaType = sigDesc.MediaType\n\n\t\t\t// verify each signature\n\t\t\toutcome, err := verifier.Verify(ctx, artifactDescriptor, sigBlob, opts)\n\t\t\tif err != nil {\n\t\t\t\tlogger.Warnf("Signature %v failed verification with error: %v", sigManifestDesc.Digest, err)\n\t\t\t\tif outcome == nil {\n\t\t\t\t\tlogger.Error("Got nil outcome. Expecting non-nil outcome on verification failure")\n\t\t\t\t\treturn err\n\t\t\t\t}\n\t\t\t\toutcome.Error = fmt.Errorf("failed to verify signature with digest %v, %w", sigManifestDesc.Digest, outcome.Error)\n\t\t\t\tverificationFailedErrorArray = append(verificationFailedErrorArray, outcome.Error)\n\t\t\t\tcontinue\n\t\t\t}\n\t\t\t// at this point, the signature is verified successfully\n\t\t\tverificationSucceeded = true\n\n\t\t\t// on success, verificationOutcomes only contains the\n\t\t\t// succeeded outcome\n\t\t\tverificationOutcomes = []*VerificationOutcome{outcome}\n\t\t\tlogger.Debugf("Signature verification succeeded for artifact %v with signature digest %v", artifactDescriptor.Digest, sigManifestDesc.Digest)\n\n\t\t\t// early break on success\n\t\t\treturn errDoneVerification\n\t\t}\n\t\tif numOfSignatureProcessed >= verifyOpts.MaxSignatureAttempts {\n\t\t\treturn errExceededMaxVerificationLimit\n\t\t}\n\t\treturn nil\n\t})\n',
           '\terr = repo.ListSignatures(ctx, artifactDescriptor, func(page []ocispec.Descriptor) error {\n\t\treturn verifyPage(ctx, st, page)\n\t})\n'),
       (N, '\tif err != nil && !errors.Is(err, errDoneVerification) {\n\t\tif errors.Is(err, errExceededMaxVerificationLimit) {\n\t\t\treturn ocispec.Descriptor{}, verificationOutcomes, err\n\t\t}\n\t\treturn ocispec.Descriptor{}, nil, err\n\t}\n\n\t// If there\'s no signature associated with the reference\n\tif numOfSignatureProcessed == 0 {\n\t\treturn ocispec.Descriptor{}, nil, ErrorSignatureRetrievalFailed{Msg: fmt.Sprintf("no signature is associated with %q, make sure the artifact was signed successfully", artifactRef)}\n\t}\n\n\t// Verification Failed\n\tif !verificationSucceeded {\n\t\tlogger.Debugf("Signature verification failed for all the signatures associated with artifact %v", artifactDescriptor.Digest)\n\t\treturn ocispec.Descriptor{}, verificationOutcomes, errors.Join(verificationFailedErrorArray...)\n\t}\n\n\t// Verification Succeeded\n\treturn artifactDescriptor, verificationOutcomes, nil\n}\n',
           '\tif err != nil && !errors.Is(err, errDoneVerification) {\n\t\tif errors.Is(err, st.errLimit) {\n\t\t\treturn ocispec.Descriptor{}, st.outcomes, err\n\t\t}\n\t\treturn ocispec.Descriptor{}, nil, err\n\t}\n\n\t// If there\'s no signature associated with the reference\n\tif st.done == 0 {\n\t\treturn ocispec.Descriptor{}, nil, ErrorSignatureRetrievalFailed{Msg: fmt.Sprintf("no signature is associated with %q, make sure the artifact was signed successfully", artifactRef)}\n\t}\n\n\t// Verification Failed\n\tif !st.good {\n\t\tlogger.Debugf("Signature verification failed for all the signatures associated with artifact %v", artifactDescriptor.Digest)\n\t\treturn ocispec.Descriptor{}, st.outcomes, errors.Join(st.failed...)\n\t}\n\n\t// Verification Succeeded\n\treturn artifactDescriptor, st.outcomes, nil\n}\n'),
       (N, 'func generateAnnotations(',
           'type listingState struct {\n\tverifier Verifier\n\trepo     registry.Repository\n\tref      string\n\ttarget   ocispec.Descriptor\n\tvopts    VerifierVerifyOptions\n\tlimit    int\n\terrLimit ErrorVerificationFailed\n\tdone     int\n\tgood     bool\n\toutcomes []*VerificationOutcome\n\tfailed   []error\n}\n\nfunc verifyPage(ctx context.Context, st *listingState, page []ocispec.Descriptor) error {\n\tlg := log.GetLogger(ctx)\n\tfor _, sigManifestDesc := range page {\n\t\tif st.done >= st.limit {\n\t\t\tbreak\n\t\t}\n\t\tst.done++\n\t\tlg.Infof("Processing signature with manifest mediaType: %v and digest: %v", sigManifestDesc.MediaType, sigManifestDesc.Digest)\n\t\tsigBlob, sigDesc, err := st.repo.FetchSignatureBlob(ctx, sigManifestDesc)\n\t\tif err != nil {\n\t\t\treturn ErrorSignatureRetrievalFailed{Msg: fmt.Sprintf("unable to retrieve digital signature with digest %q associated with %q from the Repository, error : %v", sigManifestDesc.Digest, st.ref, err.Error())}\n\t\t}\n\t\tst.vopts.SignatureMediaType = sigDesc.MediaType\n\t\toutcome, err := st.verifier.Verify(ctx, st.target, sigBlob, st.vopts)\n\t\tif err != nil {\n\t\t\tlg.Warnf("Signature %v failed verification with error: %v", sigManifestDesc.Digest, err)\n\t\t\tif outcome == nil {\n\t\t\t\tlg.Error("Got nil outcome. Expecting non-nil outcome on verification failure")\n\t\t\t\treturn err\n\t\t\t}\n\t\t\toutcome.Error = fmt.Errorf("failed to verify signature with digest %v, %w", sigManifestDesc.Digest, outcome.Error)\n\t\t\tst.failed = append(st.failed, outcome.Error)\n\t\t\tcontinue\n\t\t}\n\t\tst.good = true\n\t\tst.outcomes = []*VerificationOutcome{outcome}\n\t\treturn errDoneVerification\n\t}\n\tif st.done >= st.limit {\n\t\treturn st.errLimit\n\t}\n\treturn nil\n}\n\nfunc generateAnnotations('),
       (N, '\t\treturn verifyPage(ctx, st, page)\n',
           '\t\tif perr := verifyPage(ctx, st, page); perr != nil {\n\t\t\tlogger.Debug(perr)\n\t\t}\n\t\treturn nil\n'),
      ]),
 dict(name='state-object-flag-set-outside', file=N, expect='flagged(early-exit/flag-only-on-success)',
      edits=[
       (N, '\tvar verificationSucceeded bool\n\tvar verificationOutcomes []*VerificationOutcome\n\tvar verificationFailedErrorArray = []error{ErrorVerificationFailed{}}\n\terrExceededMaxVerificationLimit := ErrorVerificationFailed{Msg: fmt.Sprintf("signature evaluation stopped. The configured limit of %d signatures to verify per artifact exceeded", verifyOpts.MaxSignatureAttempts)}\n\tnumOfSignatureProcessed := 0\n',
           '\tst := &listingState{\n\t\tverifier: verifier,\n\t\trepo:     repo,\n\t\tref:      artifactRef,\n\t\ttarget:   artifactDescriptor,\n\t\tvopts:    opts,\n\t\tlimit:    verifyOpts.MaxSignatureAttempts,\n\t\terrLimit: ErrorVerificationFailed{Msg: fmt.Sprintf("signature evaluation stopped. The configured limit of %d signatures to verify per artifact exceeded", verifyOpts.MaxSignatureAttempts)},\n\t\tfailed:   []error{ErrorVerificationFailed{}},\n\t}\n'),
       (N, '\terr = repo.ListSignatures(ctx, artifactDescriptor, func(signatureManifests []ocispec.Descriptor) error {\n\t\t// process signatures\n\t\tfor _, sigManifestDesc := range signatureManifests {\n\t\t\tif numOfSignatureProcessed >= verifyOpts.MaxSignatureAttempts {\n\t\t\t\tbreak\n\t\t\t}\n\t\t\tnumOfSignatureProcessed++\n\t\t\tlogger.Infof("Processing signature with manifest mediaType: %v and digest: %v", sigManifestDesc.MediaType, sigManifestDesc.Digest)\n\t\t\t// get signature envelope\n\t\t\tsigBlob, sigDesc, err := repo.FetchSignatureBlob(ctx, sigManifestDesc)\n\t\t\tif err != nil {\n\t\t\t\treturn ErrorSignatureRetrievalFailed{Msg: fmt.Sprintf("unable to retrieve digital signature with digest %q associated with %q from the Repository, error : %v", sigManifestDesc.Digest, artifactRef, err.Error())}\n\t\t\t}\n\n\t\t\t// using signature media type fetched from registry\n\t\t\topts.SignatureMediaType = sigDesc.MediaType\n\n\t\t\t// verify each signature\n\t\t\toutcome, err := verifier.Verify(ctx, artifactDescriptor, sigBlob, opts)\n\t\t\tif err != nil {\n\t\t\t\tlogger.Warnf("Signature %v failed verification with error: %v", sigManifestDesc.Digest, err)\n\t\t\t\tif outcome == nil {\n\t\t\t\t\tlogger.Error("Got nil outcome. Expecting non-nil outcome on verification failure")\n\t\t\t\t\treturn err\n\t\t\t\t}\n\t\t\t\toutcome.Error = fmt.Errorf("failed to verify signature with digest %v, %w", sigManifestDesc.Digest, outcome.Error)\n\t\t\t\tverificationFailedErrorArray = append(verificationFailedErrorArray, outcome.Error)\n\t\t\t\tcontinue\n\t\t\t}\n\t\t\t// at this point, the signature is verified successfully\n\t\t\tverificationSucceeded = true\n\n\t\t\t// on success, verificationOutcomes only contains the\n\t\t\t// succeeded outcome\n\t\t\tverificationOutcomes = []*VerificationOutcome{outcome}\n\t\t\tlogger.Debugf("Signature verification succeeded for artifact %v with signature digest %v", artifactDescriptor.Digest, sigManifestDesc.Digest)\n\n\t\t\t// early break on success\n\t\t\treturn errDoneVerification\n\t\t}\n\t\tif numOfSignatureProcessed >= verifyOpts.MaxSignatureAttempts {\n\t\t\treturn errExceededMaxVerificationLimit\n\t\t}\n\t\treturn nil\n\t})\n',
           '\terr = repo.ListSignatures(ctx, artifactDescriptor, func(page []ocispec.Descriptor) error {\n\t\treturn verifyPage(ctx, st, page)\n\t})\n'),
       (N, '\tif err != nil && !errors.Is(err, errDoneVerification) {\n\t\tif errors.Is(err, errExceededMaxVerificationLimit) {\n\t\t\treturn ocispec.Descriptor{}, verificationOutcomes, err\n\t\t}\n\t\treturn ocispec.Descriptor{}, nil, err\n\t}\n\n\t// If there\'s no signature associated with the reference\n\tif numOfSignatureProcessed == 0 {\n\t\treturn ocispec.Descriptor{}, nil, ErrorSignatureRetrievalFailed{Msg: fmt.Sprintf("no signature is associated with %q, make sure the artifact was signed successfully", artifactRef)}\n\t}\n\n\t// Verification Failed\n\tif !verificationSucceeded {\n\t\tlogger.Debugf("Signature verification failed for all the signatures associated with artifact %v", artifactDescriptor.Digest)\n\t\treturn ocispec.Descriptor{}, verificationOutcomes, errors.Join(verificationFailedErrorArray...)\n\t}\n\n\t// Verification Succeeded\n\treturn artifactDescriptor, verificationOutcomes, nil\n}\n',
           '\tif err != nil && !errors.Is(err, errDoneVerification) {\n\t\tif errors.Is(err, st.errLimit) {\n\t\t\treturn ocispec.Descriptor{}, st.outcomes, err\n\t\t}\n\t\treturn ocispec.Descriptor{}, nil, err\n\t}\n\n\t// If there\'s no signature associated with the reference\n\tif st.done == 0 {\n\t\treturn ocispec.Descriptor{}, nil, ErrorSignatureRetrievalFailed{Msg: fmt.Sprintf("no signature is associated with %q, make sure the artifact was signed successfully", artifactRef)}\n\t}\n\n\t// Verification Failed\n\tif !st.good {\n\t\tlogger.Debugf("Signature verification failed for all the signatures associated with artifact %v", artifactDescriptor.Digest)\n\t\treturn ocispec.Descriptor{}, st.outcomes, errors.Join(st.failed...)\n\t}\n\n\t// Verification Succeeded\n\treturn artifactDescriptor, st.outcomes, nil\n}\n'),
       (N, 'func generateAnnotations(',
           'type listingState struct {\n\tverifier Verifier\n\trepo     registry.Repository\n\tref      string\n\ttarget   ocispec.Descriptor\n\tvopts    VerifierVerifyOptions\n\tlimit    int\n\terrLimit ErrorVerificationFailed\n\tdone     int\n\tgood     bool\n\toutcomes []*VerificationOutcome\n\tfailed   []error\n}\n\nfunc verifyPage(ctx context.Context, st *listingState, page []ocispec.Descriptor) error {\n\tlg := log.GetLogger(ctx)\n\tfor _, sigManifestDesc := range page {\n\t\tif st.done >= st.limit {\n\t\t\tbreak\n\t\t}\n\t\tst.done++\n\t\tlg.Infof("Processing signature with manifest mediaType: %v and digest: %v", sigManifestDesc.MediaType, sigManifestDesc.Digest)\n\t\tsigBlob, sigDesc, err := st.repo.FetchSignatureBlob(ctx, sigManifestDesc)\n\t\tif err != nil {\n\t\t\treturn ErrorSignatureRetrievalFailed{Msg: fmt.Sprintf("unable to retrieve digital signature with digest %q associated with %q from the Repository, error : %v", sigManifestDesc.Digest, st.ref, err.Error())}\n\t\t}\n\t\tst.vopts.SignatureMediaType = sigDesc.MediaType\n\t\toutcome, err := st.verifier.Verify(ctx, st.target, sigBlob, st.vopts)\n\t\tif err != nil {\n\t\t\tlg.Warnf("Signature %v failed verification with error: %v", sigManifestDesc.Digest, err)\n\t\t\tif outcome == nil {\n\t\t\t\tlg.Error("Got nil outcome. Expecting non-nil outcome on verification failure")\n\t\t\t\treturn err\n\t\t\t}\n\t\t\toutcome.Error = fmt.Errorf("failed to verify signature with digest %v, %w", sigManifestDesc.Digest, outcome.Error)\n\t\t\tst.failed = append(st.failed, outcome.Error)\n\t\t\tcontinue\n\t\t}\n\t\tst.good = true\n\t\tst.outcomes = []*VerificationOutcome{outcome}\n\t\treturn errDoneVerification\n\t}\n\tif st.done >= st.limit {\n\t\treturn st.errLimit\n\t}\n\treturn nil\n}\n\nfunc generateAnnotations('),
       (N, "\t// If there's no signature associated with the reference\n\tif st.done == 0 {",
           "\tif err == nil {\n\t\tst.good = true\n\t}\n\t// If there's no signature associated with the reference\n\tif st.done == 0 {"),
      ]),
 dict(name='state-object-unresolved-target', file=N, expect='flagged(callback/verify-resolved-descriptor)',
      edits=[
       (N, '\tvar verificationSucceeded bool\n\tvar verificationOutcomes []*VerificationOutcome\n\tvar verificationFailedErrorArray = []error{ErrorVerificationFailed{}}\n\terrExceededMaxVerificationLimit := ErrorVerificationFailed{Msg: fmt.Sprintf("signature evaluation stopped. The configured limit of %d signatures to verify per artifact exceeded", verifyOpts.MaxSignatureAttempts)}\n\tnumOfSignatureProcessed := 0\n',
           '\tst := &listingState{\n\t\tverifier: verifier,\n\t\trepo:     repo,\n\t\tref:      artifactRef,\n\t\ttarget:   artifactDescriptor,\n\t\tvopts:    opts,\n\t\tlimit:    verifyOpts.MaxSignatureAttempts,\n\t\terrLimit: ErrorVerificationFailed{Msg: fmt.Sprintf("signature evaluation stopped. The configured limit of %d signatures to verify per artifact exceeded", verifyOpts.MaxSignatureAttempts)},\n\t\tfailed:   []error{ErrorVerificationFailed{}},\n\t}\n'),
       (N, '\terr = repo.ListSignatures(ctx, artifactDescriptor, func(signatureManifests []ocispec.Descriptor) error {\n\t\t// process signatures\n\t\tfor _, sigManifestDesc := range signatureManifests {\n\t\t\tif numOfSignatureProcessed >= verifyOpts.MaxSignatureAttempts {\n\t\t\t\tbreak\n\t\t\t}\n\t\t\tnumOfSignatureProcessed++\n\t\t\tlogger.Infof("Processing signature with manifest mediaType: %v and digest: %v", sigManifestDesc.MediaType, sigManifestDesc.Digest)\n\t\t\t// get signature envelope\n\t\t\tsigBlob, sigDesc, err := repo.FetchSignatureBlob(ctx, sigManifestDesc)\n\t\t\tif err != nil {\n\t\t\t\treturn ErrorSignatureRetrievalFailed{Msg: fmt.Sprintf("unable to retrieve digital signature with digest %q associated with %q from the Repository, error : %v", sigManifestDesc.Digest, artifactRef, err.Error())}\n\t\t\t}\n\n\t\t\t// using signature media type fetched from registry\n\t\t\topts.SignatureMediaType = sigDesc.MediaType\n\n\t\t\t// verify each signature\n\t\t\toutcome, err := verifier.Verify(ctx, artifactDescriptor, sigBlob, opts)\n\t\t\tif err != nil {\n\t\t\t\tlogger.Warnf("Signature %v failed verification with error: %v", sigManifestDesc.Digest, err)\n\t\t\t\tif outcome == nil {\n\t\t\t\t\tlogger.Error("Got nil outcome. Expecting non-nil outcome on verification failure")\n\t\t\t\t\treturn err\n\t\t\t\t}\n\t\t\t\toutcome.Error = fmt.Errorf("failed to verify signature with digest %v, %w", sigManifestDesc.Digest, outcome.Error)\n\t\t\t\tverificationFailedErrorArray = append(verificationFailedErrorArray, outcome.Error)\n\t\t\t\tcontinue\n\t\t\t}\n\t\t\t// at this point, the signature is verified successfully\n\t\t\tverificationSucceeded = true\n\n\t\t\t// on success, verificationOutcomes only contains the\n\t\t\t// succeeded outcome\n\t\t\tverificationOutcomes = []*VerificationOutcome{outcome}\n\t\t\tlogger.Debugf("Signature verification succeeded for artifact %v with signature digest %v", artifactDescriptor.Digest, sigManifestDesc.Digest)\n\n\t\t\t// early break on success\n\t\t\treturn errDoneVerification\n\t\t}\n\t\tif numOfSignatureProcessed >= verifyOpts.MaxSignatureAttempts {\n\t\t\treturn errExceededMaxVerificationLimit\n\t\t}\n\t\treturn nil\n\t})\n',
           '\terr = repo.ListSignatures(ctx, artifactDescriptor, func(page []ocispec.Descriptor) error {\n\t\treturn verifyPage(ctx, st, page)\n\t})\n'),
       (N, '\tif err != nil && !errors.Is(err, errDoneVerification) {\n\t\tif errors.Is(err, errExceededMaxVerificationLimit) {\n\t\t\treturn ocispec.Descriptor{}, verificationOutcomes, err\n\t\t}\n\t\treturn ocispec.Descriptor{}, nil, err\n\t}\n\n\t// If there\'s no signature associated with the reference\n\tif numOfSignatureProcessed == 0 {\n\t\treturn ocispec.Descriptor{}, nil, ErrorSignatureRetrievalFailed{Msg: fmt.Sprintf("no signature is associated with %q, make sure the artifact was signed successfully", artifactRef)}\n\t}\n\n\t// Verification Failed\n\tif !verificationSucceeded {\n\t\tlogger.Debugf("Signature verification failed for all the signatures associated with artifact %v", artifactDescriptor.Digest)\n\t\treturn ocispec.Descriptor{}, verificationOutcomes, errors.Join(verificationFailedErrorArray...)\n\t}\n\n\t// Verification Succeeded\n\treturn artifactDescriptor, verificationOutcomes, nil\n}\n',
           '\tif err != nil && !errors.Is(err, errDoneVerification) {\n\t\tif errors.Is(err, st.errLimit) {\n\t\t\treturn ocispec.Descriptor{}, st.outcomes, err\n\t\t}\n\t\treturn ocispec.Descriptor{}, nil, err\n\t}\n\n\t// If there\'s no signature associated with the reference\n\tif st.done == 0 {\n\t\treturn ocispec.Descriptor{}, nil, ErrorSignatureRetrievalFailed{Msg: fmt.Sprintf("no signature is associated with %q, make sure the artifact was signed successfully", artifactRef)}\n\t}\n\n\t// Verification Failed\n\tif !st.good {\n\t\tlogger.Debugf("Signature verification failed for all the signatures associated with artifact %v", artifactDescriptor.Digest)\n\t\treturn ocispec.Descriptor{}, st.outcomes, errors.Join(st.failed...)\n\t}\n\n\t// Verification Succeeded\n\treturn artifactDescriptor, st.outcomes, nil\n}\n'),
       (N, 'func generateAnnotations(',
           'type listingState struct {\n\tverifier Verifier\n\trepo     registry.Repository\n\tref      string\n\ttarget   ocispec.Descriptor\n\tvopts    VerifierVerifyOptions\n\tlimit    int\n\terrLimit ErrorVerificationFailed\n\tdone     int\n\tgood     bool\n\toutcomes []*VerificationOutcome\n\tfailed   []error\n}\n\nfunc verifyPage(ctx context.Context, st *listingState, page []ocispec.Descriptor) error {\n\tlg := log.GetLogger(ctx)\n\tfor _, sigManifestDesc := range page {\n\t\tif st.done >= st.limit {\n\t\t\tbreak\n\t\t}\n\t\tst.done++\n\t\tlg.Infof("Processing signature with manifest mediaType: %v and digest: %v", sigManifestDesc.MediaType, sigManifestDesc.Digest)\n\t\tsigBlob, sigDesc, err := st.repo.FetchSignatureBlob(ctx, sigManifestDesc)\n\t\tif err != nil {\n\t\t\treturn ErrorSignatureRetrievalFailed{Msg: fmt.Sprintf("unable to retrieve digital signature with digest %q associated with %q from the Repository, error : %v", sigManifestDesc.Digest, st.ref, err.Error())}\n\t\t}\n\t\tst.vopts.SignatureMediaType = sigDesc.MediaType\n\t\toutcome, err := st.verifier.Verify(ctx, st.target, sigBlob, st.vopts)\n\t\tif err != nil {\n\t\t\tlg.Warnf("Signature %v failed verification with error: %v", sigManifestDesc.Digest, err)\n\t\t\tif outcome == nil {\n\t\t\t\tlg.Error("Got nil outcome. Expecting non-nil outcome on verification failure")\n\t\t\t\treturn err\n\t\t\t}\n\t\t\toutcome.Error = fmt.Errorf("failed to verify signature with digest %v, %w", sigManifestDesc.Digest, outcome.Error)\n\t\t\tst.failed = append(st.failed, outcome.Error)\n\t\t\tcontinue\n\t\t}\n\t\tst.good = true\n\t\tst.outcomes = []*VerificationOutcome{outcome}\n\t\treturn errDoneVerification\n\t}\n\tif st.done >= st.limit {\n\t\treturn st.errLimit\n\t}\n\treturn nil\n}\n\nfunc generateAnnotations('),
       (N, '\t\ttarget:   artifactDescriptor,\n',
           '\t\ttarget:   ocispec.Descriptor{MediaType: artifactDescriptor.MediaType, Digest: digest.Digest(ref.Reference), Size: artifactDescriptor.Size},\n'),
      ]),
 dict(name='state-object-fetch-error-continue', file=N, expect='flagged(fail/fetch-error)',
      edits=[
       (N, '\tvar verificationSucceeded bool\n\tvar verificationOutcomes []*VerificationOutcome\n\tvar verificationFailedErrorArray = []error{ErrorVerificationFailed{}}\n\terrExceededMaxVerificationLimit := ErrorVerificationFailed{Msg: fmt.Sprintf("signature evaluation stopped. The configured limit of %d signatures to verify per artifact exceeded", verifyOpts.MaxSignatureAttempts)}\n\tnumOfSignatureProcessed := 0\n',
           '\tst := &listingState{\n\t\tverifier: verifier,\n\t\trepo:     repo,\n\t\tref:      artifactRef,\n\t\ttarget:   artifactDescriptor,\n\t\tvopts:    opts,\n\t\tlimit:    verifyOpts.MaxSignatureAttempts,\n\t\terrLimit: ErrorVerificationFailed{Msg: fmt.Sprintf("signature evaluation stopped. The configured limit of %d signatures to verify per artifact exceeded", verifyOpts.MaxSignatureAttempts)},\n\t\tfailed:   []error{ErrorVerificationFailed{}},\n\t}\n'),
       (N, '\terr = repo.ListSignatures(ctx, artifactDescriptor, func(signatureManifests []ocispec.Descriptor) error {\n\t\t// process signatures\n\t\tfor _, sigManifestDesc := range signatureManifests {\n\t\t\tif numOfSignatureProcessed >= verifyOpts.MaxSignatureAttempts {\n\t\t\t\tbreak\n\t\t\t}\n\t\t\tnumOfSignatureProcessed++\n\t\t\tlogger.Infof("Processing signature with manifest mediaType: %v and digest: %v", sigManifestDesc.MediaType, sigManifestDesc.Digest)\n\t\t\t// get signature envelope\n\t\t\tsigBlob, sigDesc, err := repo.FetchSignatureBlob(ctx, sigManifestDesc)\n\t\t\tif err != nil {\n\t\t\t\treturn ErrorSignatureRetrievalFailed{Msg: fmt.Sprintf("unable to retrieve digital signature with digest %q associated with %q from the Repository, error : %v", sigManifestDesc.Digest, artifactRef, err.Error())}\n\t\t\t}\n\n\t\t\t// using signature media type fetched from registry\n\t\t\topts.SignatureMediaType = sigDesc.MediaType\n\n\t\t\t// verify each signature\n\t\t\toutcome, err := verifier.Verify(ctx, artifactDescriptor, sigBlob, opts)\n\t\t\tif err != nil {\n\t\t\t\tlogger.Warnf("Signature %v failed verification with error: %v", sigManifestDesc.Digest, err)\n\t\t\t\tif outcome == nil {\n\t\t\t\t\tlogger.Error("Got nil outcome. Expecting non-nil outcome on verification failure")\n\t\t\t\t\treturn err\n\t\t\t\t}\n\t\t\t\toutcome.Error = fmt.Errorf("failed to verify signature with digest %v, %w", sigManifestDesc.Digest, outcome.Error)\n\t\t\t\tverificationFailedErrorArray = append(verificationFailedErrorArray, outcome.Error)\n\t\t\t\tcontinue\n\t\t\t}\n\t\t\t// at this point, the signature is verified successfully\n\t\t\tverificationSucceeded = true\n\n\t\t\t// on success, verificationOutcomes only contains the\n\t\t\t// succeeded outcome\n\t\t\tverificationOutcomes = []*VerificationOutcome{outcome}\n\t\t\tlogger.Debugf("Signature verification succeeded for artifact %v with signature digest %v", artifactDescriptor.Digest, sigManifestDesc.Digest)\n\n\t\t\t// early break on success\n\t\t\treturn errDoneVerification\n\t\t}\n\t\tif numOfSignatureProcessed >= verifyOpts.MaxSignatureAttempts {\n\t\t\treturn errExceededMaxVerificationLimit\n\t\t}\n\t\treturn nil\n\t})\n',
           '\terr = repo.ListSignatures(ctx, artifactDescriptor, func(page []ocispec.Descriptor) error {\n\t\treturn verifyPage(ctx, st, page)\n\t})\n'),
       (N, '\tif err != nil && !errors.Is(err, errDoneVerification) {\n\t\tif errors.Is(err, errExceededMaxVerificationLimit) {\n\t\t\treturn ocispec.Descriptor{}, verificationOutcomes, err\n\t\t}\n\t\treturn ocispec.Descriptor{}, nil, err\n\t}\n\n\t// If there\'s no signature associated with the reference\n\tif numOfSignatureProcessed == 0 {\n\t\treturn ocispec.Descriptor{}, nil, ErrorSignatureRetrievalFailed{Msg: fmt.Sprintf("no signature is associated with %q, make sure the artifact was signed successfully", artifactRef)}\n\t}\n\n\t// Verification Failed\n\tif !verificationSucceeded {\n\t\tlogger.Debugf("Signature verification failed for all the signatures associated with artifact %v", artifactDescriptor.Digest)\n\t\treturn ocispec.Descriptor{}, verificationOutcomes, errors.Join(verificationFailedErrorArray...)\n\t}\n\n\t// Verification Succeeded\n\treturn artifactDescriptor, verificationOutcomes, nil\n}\n',
           '\tif err != nil && !errors.Is(err, errDoneVerification) {\n\t\tif errors.Is(err, st.errLimit) {\n\t\t\treturn ocispec.Descriptor{}, st.outcomes, err\n\t\t}\n\t\treturn ocispec.Descriptor{}, nil, err\n\t}\n\n\t// If there\'s no signature associated with the reference\n\tif st.done == 0 {\n\t\treturn ocispec.Descriptor{}, nil, ErrorSignatureRetrievalFailed{Msg: fmt.Sprintf("no signature is associated with %q, make sure the artifact was signed successfully", artifactRef)}\n\t}\n\n\t// Verification Failed\n\tif !st.good {\n\t\tlogger.Debugf("Signature verification failed for all the signatures associated with artifact %v", artifactDescriptor.Digest)\n\t\treturn ocispec.Descriptor{}, st.outcomes, errors.Join(st.failed...)\n\t}\n\n\t// Verification Succeeded\n\treturn artifactDescriptor, st.outcomes, nil\n}\n'),
       (N, 'func generateAnnotations(',
           'type listingState struct {\n\tverifier Verifier\n\trepo     registry.Repository\n\tref      string\n\ttarget   ocispec.Descriptor\n\tvopts    VerifierVerifyOptions\n\tlimit    int\n\terrLimit ErrorVerificationFailed\n\tdone     int\n\tgood     bool\n\toutcomes []*VerificationOutcome\n\tfailed   []error\n}\n\nfunc verifyPage(ctx context.Context, st *listingState, page []ocispec.Descriptor) error {\n\tlg := log.GetLogger(ctx)\n\tfor _, sigManifestDesc := range page {\n\t\tif st.done >= st.limit {\n\t\t\tbreak\n\t\t}\n\t\tst.done++\n\t\tlg.Infof("Processing signature with manifest mediaType: %v and digest: %v", sigManifestDesc.MediaType, sigManifestDesc.Digest)\n\t\tsigBlob, sigDesc, err := st.repo.FetchSignatureBlob(ctx, sigManifestDesc)\n\t\tif err != nil {\n\t\t\treturn ErrorSignatureRetrievalFailed{Msg: fmt.Sprintf("unable to retrieve digital signature with digest %q associated with %q from the Repository, error : %v", sigManifestDesc.Digest, st.ref, err.Error())}\n\t\t}\n\t\tst.vopts.SignatureMediaType = sigDesc.MediaType\n\t\toutcome, err := st.verifier.Verify(ctx, st.target, sigBlob, st.vopts)\n\t\tif err != nil {\n\t\t\tlg.Warnf("Signature %v failed verification with error: %v", sigManifestDesc.Digest, err)\n\t\t\tif outcome == nil {\n\t\t\t\tlg.Error("Got nil outcome. Expecting non-nil outcome on verification failure")\n\t\t\t\treturn err\n\t\t\t}\n\t\t\toutcome.Error = fmt.Errorf("failed to verify signature with digest %v, %w", sigManifestDesc.Digest, outcome.Error)\n\t\t\tst.failed = append(st.failed, outcome.Error)\n\t\t\tcontinue\n\t\t}\n\t\tst.good = true\n\t\tst.outcomes = []*VerificationOutcome{outcome}\n\t\treturn errDoneVerification\n\t}\n\tif st.done >= st.limit {\n\t\treturn st.errLimit\n\t}\n\treturn nil\n}\n\nfunc generateAnnotations('),
       (N, '\t\t\treturn ErrorSignatureRetrievalFailed{Msg: fmt.Sprintf("unable to retrieve digital signature with digest %q associated with %q from the Repository, error : %v", sigManifestDesc.Digest, st.ref, err.Error())}\n',
           '\t\t\tlg.Warnf("unable to retrieve digital signature with digest %q: %v", sigManifestDesc.Digest, err)\n\t\t\tcontinue\n'),
      ]),
 dict(name='shape-countdown', file=N, expect='silent',
      why='attempts left (starts at the limit, -1 per attempt, tested against 0) instead of attempts made',
      edits=[
       (N, '\tnumOfSignatureProcessed := 0\n',
           '\tattemptsLeft := verifyOpts.MaxSignatureAttempts\n'),
       (N, '\t\t\tif numOfSignatureProcessed >= verifyOpts.MaxSignatureAttempts {\n\t\t\t\tbreak\n\t\t\t}\n',
           '\t\t\tif attemptsLeft == 0 {\n\t\t\t\tbreak\n\t\t\t}\n'),
       (N, '\t\t\tnumOfSignatureProcessed++\n',
           '\t\t\tattemptsLeft--\n'),
       (N, '\t\tif numOfSignatureProcessed >= verifyOpts.MaxSignatureAttempts {\n\t\t\treturn errExceededMaxVerificationLimit\n',
           '\t\tif attemptsLeft == 0 {\n\t\t\treturn errExceededMaxVerificationLimit\n'),
       (N, '\tif numOfSignatureProcessed == 0 {\n',
           '\tif attemptsLeft == verifyOpts.MaxSignatureAttempts {\n'),
      ]),
 dict(name='shape-countdown-gt', file=N, expect='silent',
      edits=[
       (N, '\tnumOfSignatureProcessed := 0\n',
           '\tattemptsLeft := verifyOpts.MaxSignatureAttempts\n'),
       (N, '\t\t\tif numOfSignatureProcessed >= verifyOpts.MaxSignatureAttempts {\n\t\t\t\tbreak\n\t\t\t}\n',
           '\t\t\tif attemptsLeft == 0 {\n\t\t\t\tbreak\n\t\t\t}\n'),
       (N, '\t\t\tnumOfSignatureProcessed++\n',
           '\t\t\tattemptsLeft--\n'),
       (N, '\t\tif numOfSignatureProcessed >= verifyOpts.MaxSignatureAttempts {\n\t\t\treturn errExceededMaxVerificationLimit\n',
           '\t\tif attemptsLeft == 0 {\n\t\t\treturn errExceededMaxVerificationLimit\n'),
       (N, '\tif numOfSignatureProcessed == 0 {\n',
           '\tif attemptsLeft == verifyOpts.MaxSignatureAttempts {\n'),
       (N, '\t\t\tif attemptsLeft == 0 {\n\t\t\t\tbreak\n',
           '\t\t\tif attemptsLeft <= 0 {\n\t\t\t\tbreak\n'),
      ]),
 dict(name='countdown-starts-above-limit', file=N, expect='flagged(bound/counter)',
      edits=[
       (N, '\tnumOfSignatureProcessed := 0\n',
           '\tattemptsLeft := verifyOpts.MaxSignatureAttempts\n'),
       (N, '\t\t\tif numOfSignatureProcessed >= verifyOpts.MaxSignatureAttempts {\n\t\t\t\tbreak\n\t\t\t}\n',
           '\t\t\tif attemptsLeft == 0 {\n\t\t\t\tbreak\n\t\t\t}\n'),
       (N, '\t\t\tnumOfSignatureProcessed++\n',
           '\t\t\tattemptsLeft--\n'),
       (N, '\t\tif numOfSignatureProcessed >= verifyOpts.MaxSignatureAttempts {\n\t\t\treturn errExceededMaxVerificationLimit\n',
           '\t\tif attemptsLeft == 0 {\n\t\t\treturn errExceededMaxVerificationLimit\n'),
       (N, '\tif numOfSignatureProcessed == 0 {\n',
           '\tif attemptsLeft == verifyOpts.MaxSignatureAttempts {\n'),
       (N, '\tattemptsLeft := verifyOpts.MaxSignatureAttempts\n',
           '\tattemptsLeft := verifyOpts.MaxSignatureAttempts + 1\n'),
      ]),
 dict(name='countdown-guard-negative', file=N, expect='flagged(bound/guard)',
      edits=[
       (N, '\tnumOfSignatureProcessed := 0\n',
           '\tattemptsLeft := verifyOpts.MaxSignatureAttempts\n'),
       (N, '\t\t\tif numOfSignatureProcessed >= verifyOpts.MaxSignatureAttempts {\n\t\t\t\tbreak\n\t\t\t}\n',
           '\t\t\tif attemptsLeft == 0 {\n\t\t\t\tbreak\n\t\t\t}\n'),
       (N, '\t\t\tnumOfSignatureProcessed++\n',
           '\t\t\tattemptsLeft--\n'),
       (N, '\t\tif numOfSignatureProcessed >= verifyOpts.MaxSignatureAttempts {\n\t\t\treturn errExceededMaxVerificationLimit\n',
           '\t\tif attemptsLeft == 0 {\n\t\t\treturn errExceededMaxVerificationLimit\n'),
       (N, '\tif numOfSignatureProcessed == 0 {\n',
           '\tif attemptsLeft == verifyOpts.MaxSignatureAttempts {\n'),
       (N, '\t\t\tif attemptsLeft == 0 {\n\t\t\t\tbreak\n',
           '\t\t\tif attemptsLeft < 0 {\n\t\t\t\tbreak\n'),
      ]),
 dict(name='countdown-decrement-after-fetch', file=N, expect='flagged(bound/counted)',
      edits=[
       (N, '\tnumOfSignatureProcessed := 0\n',
           '\tattemptsLeft := verifyOpts.MaxSignatureAttempts\n'),
       (N, '\t\t\tif numOfSignatureProcessed >= verifyOpts.MaxSignatureAttempts {\n\t\t\t\tbreak\n\t\t\t}\n',
           '\t\t\tif attemptsLeft == 0 {\n\t\t\t\tbreak\n\t\t\t}\n'),
       (N, '\t\t\tnumOfSignatureProcessed++\n',
           '\t\t\tattemptsLeft--\n'),
       (N, '\t\tif numOfSignatureProcessed >= verifyOpts.MaxSignatureAttempts {\n\t\t\treturn errExceededMaxVerificationLimit\n',
           '\t\tif attemptsLeft == 0 {\n\t\t\treturn errExceededMaxVerificationLimit\n'),
       (N, '\tif numOfSignatureProcessed == 0 {\n',
           '\tif attemptsLeft == verifyOpts.MaxSignatureAttempts {\n'),
       (N, '\t\t\tattemptsLeft--\n',
           ''),
       (N, '\t\t\t// using signature media type fetched from registry\n',
           '\t\t\tattemptsLeft--\n\t\t\t// using signature media type fetched from registry\n'),
      ]),
 dict(name='countdown-reset-per-page', file=N, expect='flagged(bound/counter)',
      edits=[
       (N, '\tnumOfSignatureProcessed := 0\n',
           '\tattemptsLeft := verifyOpts.MaxSignatureAttempts\n'),
       (N, '\t\t\tif numOfSignatureProcessed >= verifyOpts.MaxSignatureAttempts {\n\t\t\t\tbreak\n\t\t\t}\n',
           '\t\t\tif attemptsLeft == 0 {\n\t\t\t\tbreak\n\t\t\t}\n'),
       (N, '\t\t\tnumOfSignatureProcessed++\n',
           '\t\t\tattemptsLeft--\n'),
       (N, '\t\tif numOfSignatureProcessed >= verifyOpts.MaxSignatureAttempts {\n\t\t\treturn errExceededMaxVerificationLimit\n',
           '\t\tif attemptsLeft == 0 {\n\t\t\treturn errExceededMaxVerificationLimit\n'),
       (N, '\tif numOfSignatureProcessed == 0 {\n',
           '\tif attemptsLeft == verifyOpts.MaxSignatureAttempts {\n'),
       (N, '\t\t// process signatures\n\t\tfor _, sigManifestDesc := range signatureManifests {',
           '\t\t// process signatures\n\t\tattemptsLeft = verifyOpts.MaxSignatureAttempts\n\t\tfor _, sigManifestDesc := range signatureManifests {'),
      ]),
 dict(name='countdown-nothing-processed-test-wrong', file=N, expect='flagged(result/success-exit)',
      edits=[
       (N, '\tnumOfSignatureProcessed := 0\n',
           '\tattemptsLeft := verifyOpts.MaxSignatureAttempts\n'),
       (N, '\t\t\tif numOfSignatureProcessed >= verifyOpts.MaxSignatureAttempts {\n\t\t\t\tbreak\n\t\t\t}\n',
           '\t\t\tif attemptsLeft == 0 {\n\t\t\t\tbreak\n\t\t\t}\n'),
       (N, '\t\t\tnumOfSignatureProcessed++\n',
           '\t\t\tattemptsLeft--\n'),
       (N, '\t\tif numOfSignatureProcessed >= verifyOpts.MaxSignatureAttempts {\n\t\t\treturn errExceededMaxVerificationLimit\n',
           '\t\tif attemptsLeft == 0 {\n\t\t\treturn errExceededMaxVerificationLimit\n'),
       (N, '\tif numOfSignatureProcessed == 0 {\n',
           '\tif attemptsLeft == verifyOpts.MaxSignatureAttempts {\n'),
       (N, '\tif attemptsLeft == verifyOpts.MaxSignatureAttempts {\n',
           '\tif attemptsLeft == 0 {\n'),
      ]),
 dict(name='shape-nil-indicator', file=N, expect='silent',
      why='the success flag is dropped: the outcome list is nil until a signature verifies and the callback only ever stores a slice literal',
      edits=[
       (N, '\tvar verificationSucceeded bool\n',
           ''),
       (N, '\t\t\tverificationSucceeded = true\n',
           ''),
       (N, '\tif !verificationSucceeded {\n',
           '\tif verificationOutcomes == nil {\n'),
      ]),
 dict(name='shape-len-indicator', file=N, expect='silent',
      edits=[
       (N, '\tvar verificationSucceeded bool\n',
           ''),
       (N, '\t\t\tverificationSucceeded = true\n',
           ''),
       (N, '\tif !verificationSucceeded {\n',
           '\tif len(verificationOutcomes) == 0 {\n'),
      ]),
 dict(name='nil-indicator-failed-outcomes-kept', file=N, expect='flagged(early-exit/)',
      edits=[
       (N, '\tvar verificationSucceeded bool\n',
           ''),
       (N, '\t\t\tverificationSucceeded = true\n',
           ''),
       (N, '\tif !verificationSucceeded {\n',
           '\tif verificationOutcomes == nil {\n'),
       (N, '\t\t\t\tverificationFailedErrorArray = append(verificationFailedErrorArray, outcome.Error)\n',
           '\t\t\t\tverificationFailedErrorArray = append(verificationFailedErrorArray, outcome.Error)\n\t\t\t\tverificationOutcomes = append(verificationOutcomes, outcome)\n'),
      ]),
 dict(name='nil-indicator-preset', file=N, expect='flagged(early-exit/flag-only-on-success)',
      edits=[
       (N, '\tvar verificationSucceeded bool\n',
           ''),
       (N, '\t\t\tverificationSucceeded = true\n',
           ''),
       (N, '\tif !verificationSucceeded {\n',
           '\tif verificationOutcomes == nil {\n'),
       (N, '\tvar verificationOutcomes []*VerificationOutcome\n',
           '\tverificationOutcomes := []*VerificationOutcome{}\n'),
      ]),
 dict(name='nil-indicator-test-weakened', file=N, expect='flagged(result/success-exit)',
      edits=[
       (N, '\tvar verificationSucceeded bool\n',
           ''),
       (N, '\t\t\tverificationSucceeded = true\n',
           ''),
       (N, '\tif !verificationSucceeded {\n',
           '\tif verificationOutcomes == nil && len(verificationFailedErrorArray) > 1 {\n'),
      ]),
 dict(name='shape-typed-digest', file=N, expect='silent',
      why='the reference converted to a digest instead of the digest rendered as a string',
      edits=[
       (N, '\t} else if ref.Reference != artifactDescriptor.Digest.String() {\n',
           '\t} else if digest.Digest(ref.Reference) != artifactDescriptor.Digest {\n'),
      ]),
 dict(name='shape-hoisted-digest', file=N, expect='silent',
      why='the resolved digest read once into a local (captured by the callback for logging), compared as a digest',
      edits=[
       (N, '\tif ref.ValidateReferenceAsDigest() != nil {\n',
           '\tresolvedDigest := artifactDescriptor.Digest\n\tif ref.ValidateReferenceAsDigest() != nil {\n'),
       (N, '\t} else if ref.Reference != artifactDescriptor.Digest.String() {\n',
           '\t} else if resolvedDigest != digest.Digest(ref.Reference) {\n'),
       (N, '\t\t\tlogger.Debugf("Signature verification succeeded for artifact %v with signature digest %v", artifactDescriptor.Digest, sigManifestDesc.Digest)\n',
           '\t\t\tlogger.Debugf("Signature verification succeeded for artifact %v with signature digest %v", resolvedDigest, sigManifestDesc.Digest)\n'),
      ]),
 dict(name='typed-digest-other-value', file=N, expect='flagged(reference/digest-pinning)',
      edits=[
       (N, '\t} else if ref.Reference != artifactDescriptor.Digest.String() {\n',
           '\t} else if digest.Digest(ref.Reference) != digest.Digest(artifactRef[strings.LastIndex(artifactRef, "@")+1:]) {\n'),
      ]),
 dict(name='hoisted-digest-overwritten', file=N, expect='flagged(reference/digest-pinning)',
      edits=[
       (N, '\tif ref.ValidateReferenceAsDigest() != nil {\n',
           '\tresolvedDigest := artifactDescriptor.Digest\n\tif ref.ValidateReferenceAsDigest() != nil {\n'),
       (N, '\t} else if ref.Reference != artifactDescriptor.Digest.String() {\n',
           '\t} else if resolvedDigest != digest.Digest(ref.Reference) {\n'),
       (N, '\t\t\tlogger.Debugf("Signature verification succeeded for artifact %v with signature digest %v", artifactDescriptor.Digest, sigManifestDesc.Digest)\n',
           '\t\t\tlogger.Debugf("Signature verification succeeded for artifact %v with signature digest %v", resolvedDigest, sigManifestDesc.Digest)\n'),
       (N, '\tresolvedDigest := artifactDescriptor.Digest\n',
           '\tresolvedDigest := artifactDescriptor.Digest\n\tif ref.Registry == "" {\n\t\tresolvedDigest = digest.Digest(ref.Reference)\n\t}\n'),
      ]),
 dict(name='shape-hoisted-limit', file=N, expect='silent',
      why='the limit read once into a local that the callback captures',
      edits=[
       (N, '\tif verifyOpts.MaxSignatureAttempts <= 0 {\n',
           '\tmaxAttempts := verifyOpts.MaxSignatureAttempts\n\tif maxAttempts <= 0 {\n'),
       (N, '\t\t\tif numOfSignatureProcessed >= verifyOpts.MaxSignatureAttempts {\n\t\t\t\tbreak\n\t\t\t}\n',
           '\t\t\tif numOfSignatureProcessed >= maxAttempts {\n\t\t\t\tbreak\n\t\t\t}\n'),
       (N, '\t\tif numOfSignatureProcessed >= verifyOpts.MaxSignatureAttempts {\n\t\t\treturn errExceededMaxVerificationLimit\n',
           '\t\tif numOfSignatureProcessed >= maxAttempts {\n\t\t\treturn errExceededMaxVerificationLimit\n'),
      ]),
 dict(name='hoisted-limit-raised', file=N, expect='flagged(bound/guard)',
      edits=[
       (N, '\tif verifyOpts.MaxSignatureAttempts <= 0 {\n',
           '\tmaxAttempts := verifyOpts.MaxSignatureAttempts\n\tif maxAttempts <= 0 {\n'),
       (N, '\t\t\tif numOfSignatureProcessed >= verifyOpts.MaxSignatureAttempts {\n\t\t\t\tbreak\n\t\t\t}\n',
           '\t\t\tif numOfSignatureProcessed >= maxAttempts {\n\t\t\t\tbreak\n\t\t\t}\n'),
       (N, '\t\tif numOfSignatureProcessed >= verifyOpts.MaxSignatureAttempts {\n\t\t\treturn errExceededMaxVerificationLimit\n',
           '\t\tif numOfSignatureProcessed >= maxAttempts {\n\t\t\treturn errExceededMaxVerificationLimit\n'),
       (N, '\tmaxAttempts := verifyOpts.MaxSignatureAttempts\n\tif maxAttempts <= 0 {\n',
           '\tmaxAttempts := verifyOpts.MaxSignatureAttempts\n\tif maxAttempts <= 0 {\n\t\tmaxAttempts = 1\n\t}\n\tif maxAttempts < 0 {\n'),
      ]),
]


# ---------------------------------------------------------------------------------------------------------------
# second pass — the class "per-signature worker": the loop body hands each listed manifest to one function, method or
# closure that fetches and/or verifies it (cut at different statements, state in an object or in captured locals,
# outcome reported as (bool, error), as a sentinel error, or as Verify's own results)

_OLD_TAIL = r'''	var verificationSucceeded bool
	var verificationOutcomes []*VerificationOutcome
	var verificationFailedErrorArray = []error{ErrorVerificationFailed{}}
	errExceededMaxVerificationLimit := ErrorVerificationFailed{Msg: fmt.Sprintf("signature evaluation stopped. The configured limit of %d signatures to verify per artifact exceeded", verifyOpts.MaxSignatureAttempts)}
	numOfSignatureProcessed := 0

	// get signature manifests
	logger.Debug("Fetching signature manifests")
	err = repo.ListSignatures(ctx, artifactDescriptor, func(signatureManifests []ocispec.Descriptor) error {
		// process signatures
		for _, sigManifestDesc := range signatureManifests {
			if numOfSignatureProcessed >= verifyOpts.MaxSignatureAttempts {
				break
			}
			numOfSignatureProcessed++
			logger.Infof("Processing signature with manifest mediaType: %v and digest: %v", sigManifestDesc.MediaType, sigManifestDesc.Digest)
			// get signature envelope
			sigBlob, sigDesc, err := repo.FetchSignatureBlob(ctx, sigManifestDesc)
			if err != nil {
				return ErrorSignatureRetrievalFailed{Msg: fmt.Sprintf("unable to retrieve digital signature with digest %q associated with %q from the Repository, error : %v", sigManifestDesc.Digest, artifactRef, err.Error())}
			}

			// using signature media type fetched from registry
			opts.SignatureMediaType = sigDesc.MediaType

			// verify each signature
			outcome, err := verifier.Verify(ctx, artifactDescriptor, sigBlob, opts)
			if err != nil {
				logger.Warnf("Signature %v failed verification with error: %v", sigManifestDesc.Digest, err)
				if outcome == nil {
					logger.Error("Got nil outcome. Expecting non-nil outcome on verification failure")
					return err
				}
				outcome.Error = fmt.Errorf("failed to verify signature with digest %v, %w", sigManifestDesc.Digest, outcome.Error)
				verificationFailedErrorArray = append(verificationFailedErrorArray, outcome.Error)
				continue
			}
			// at this point, the signature is verified successfully
			verificationSucceeded = true

			// on success, verificationOutcomes only contains the
			// succeeded outcome
			verificationOutcomes = []*VerificationOutcome{outcome}
			logger.Debugf("Signature verification succeeded for artifact %v with signature digest %v", artifactDescriptor.Digest, sigManifestDesc.Digest)

			// early break on success
			return errDoneVerification
		}
		if numOfSignatureProcessed >= verifyOpts.MaxSignatureAttempts {
			return errExceededMaxVerificationLimit
		}
		return nil
	})
	if err != nil && !errors.Is(err, errDoneVerification) {
		if errors.Is(err, errExceededMaxVerificationLimit) {
			return ocispec.Descriptor{}, verificationOutcomes, err
		}
		return ocispec.Descriptor{}, nil, err
	}

	// If there's no signature associated with the reference
	if numOfSignatureProcessed == 0 {
		return ocispec.Descriptor{}, nil, ErrorSignatureRetrievalFailed{Msg: fmt.Sprintf("no signature is associated with %q, make sure the artifact was signed successfully", artifactRef)}
	}

	// Verification Failed
	if !verificationSucceeded {
		logger.Debugf("Signature verification failed for all the signatures associated with artifact %v", artifactDescriptor.Digest)
		return ocispec.Descriptor{}, verificationOutcomes, errors.Join(verificationFailedErrorArray...)
	}

	// Verification Succeeded
	return artifactDescriptor, verificationOutcomes, nil
}
'''

# the held-out refactoring: state object, methods processPage and verifySignature (bool, error)
_WM_NEW = r'''	// state of the signature evaluation of this call
	attempts := &signatureAttempts{
		verifier:           verifier,
		repo:               repo,
		artifactRef:        artifactRef,
		artifactDescriptor: artifactDescriptor,
		opts:               opts,
		maxAttempts:        verifyOpts.MaxSignatureAttempts,
		errLimitExceeded:   ErrorVerificationFailed{Msg: fmt.Sprintf("signature evaluation stopped. The configured limit of %d signatures to verify per artifact exceeded", verifyOpts.MaxSignatureAttempts)},
		failures:           []error{ErrorVerificationFailed{}},
	}

	// get signature manifests
	logger.Debug("Fetching signature manifests")
	err = repo.ListSignatures(ctx, artifactDescriptor, func(signatureManifests []ocispec.Descriptor) error {
		return attempts.processPage(ctx, signatureManifests)
	})
	if err != nil && !errors.Is(err, errDoneVerification) {
		if errors.Is(err, attempts.errLimitExceeded) {
			return ocispec.Descriptor{}, attempts.outcomes, err
		}
		return ocispec.Descriptor{}, nil, err
	}

	// If there's no signature associated with the reference
	if attempts.processed == 0 {
		return ocispec.Descriptor{}, nil, ErrorSignatureRetrievalFailed{Msg: fmt.Sprintf("no signature is associated with %q, make sure the artifact was signed successfully", artifactRef)}
	}

	// Verification Failed
	if !attempts.succeeded {
		logger.Debugf("Signature verification failed for all the signatures associated with artifact %v", artifactDescriptor.Digest)
		return ocispec.Descriptor{}, attempts.outcomes, errors.Join(attempts.failures...)
	}

	// Verification Succeeded
	return artifactDescriptor, attempts.outcomes, nil
}

// signatureAttempts carries the state of evaluating the signatures that a
// repository lists for one artifact. It lives for a single call of [Verify].
type signatureAttempts struct {
	verifier           Verifier
	repo               registry.Repository
	artifactRef        string
	artifactDescriptor ocispec.Descriptor

	// opts to be passed in verifier.Verify()
	opts VerifierVerifyOptions

	// maxAttempts is the maximum number of signatures to be processed
	maxAttempts int

	// errLimitExceeded is returned to the lister once maxAttempts signatures
	// have been processed without success
	errLimitExceeded error

	// processed is the number of signatures processed so far
	processed int

	// succeeded tells whether a signature has been verified successfully
	succeeded bool

	// outcomes only contains the succeeded outcome
	outcomes []*VerificationOutcome

	// failures collects the errors of the signatures that failed verification
	failures []error
}

// processPage processes one page of signature manifests listed by the
// repository. It returns errDoneVerification on the first successfully verified
// signature.
func (a *signatureAttempts) processPage(ctx context.Context, signatureManifests []ocispec.Descriptor) error {
	for _, sigManifestDesc := range signatureManifests {
		if a.processed >= a.maxAttempts {
			break
		}
		a.processed++
		verified, err := a.verifySignature(ctx, sigManifestDesc)
		if err != nil {
			return err
		}
		if verified {
			// early break on success
			return errDoneVerification
		}
	}
	if a.processed >= a.maxAttempts {
		return a.errLimitExceeded
	}
	return nil
}

// verifySignature fetches and verifies the signature of sigManifestDesc.
// It returns true if the signature is verified successfully, false if it
// failed verification, and an error if the evaluation cannot go on.
func (a *signatureAttempts) verifySignature(ctx context.Context, sigManifestDesc ocispec.Descriptor) (bool, error) {
	logger := log.GetLogger(ctx)
	logger.Infof("Processing signature with manifest mediaType: %v and digest: %v", sigManifestDesc.MediaType, sigManifestDesc.Digest)

	// get signature envelope
	sigBlob, sigDesc, err := a.repo.FetchSignatureBlob(ctx, sigManifestDesc)
	if err != nil {
		return false, ErrorSignatureRetrievalFailed{Msg: fmt.Sprintf("unable to retrieve digital signature with digest %q associated with %q from the Repository, error : %v", sigManifestDesc.Digest, a.artifactRef, err.Error())}
	}

	// using signature media type fetched from registry
	a.opts.SignatureMediaType = sigDesc.MediaType

	// verify the signature
	outcome, err := a.verifier.Verify(ctx, a.artifactDescriptor, sigBlob, a.opts)
	if err != nil {
		logger.Warnf("Signature %v failed verification with error: %v", sigManifestDesc.Digest, err)
		if outcome == nil {
			logger.Error("Got nil outcome. Expecting non-nil outcome on verification failure")
			return false, err
		}
		outcome.Error = fmt.Errorf("failed to verify signature with digest %v, %w", sigManifestDesc.Digest, outcome.Error)
		a.failures = append(a.failures, outcome.Error)
		return false, nil
	}

	// at this point, the signature is verified successfully
	a.succeeded = true

	// on success, outcomes only contains the succeeded outcome
	a.outcomes = []*VerificationOutcome{outcome}
	logger.Debugf("Signature verification succeeded for artifact %v with signature digest %v", a.artifactDescriptor.Digest, sigManifestDesc.Digest)
	return true, nil
}
'''

_WM = [(N, _OLD_TAIL, _WM_NEW)]

def _wm(name, expect, *more, **kw):
    d = dict(name=name, file=N, expect=expect, edits=_WM + [(N, f, r) for (f, r) in more])
    d.update(kw)
    return d

_WM_CALL = '''		a.processed++
		verified, err := a.verifySignature(ctx, sigManifestDesc)
		if err != nil {
			return err
		}
		if verified {
			// early break on success
			return errDoneVerification
		}
'''
_WM_FETCHERR = '''	sigBlob, sigDesc, err := a.repo.FetchSignatureBlob(ctx, sigManifestDesc)
	if err != nil {
		return false, ErrorSignatureRetrievalFailed{'''

# sentinel form of the same worker: one error result, errDoneVerification on success
_WS = [
    ('func (a *signatureAttempts) verifySignature(ctx context.Context, sigManifestDesc ocispec.Descriptor) (bool, error) {',
     'func (a *signatureAttempts) verifySignature(ctx context.Context, sigManifestDesc ocispec.Descriptor) error {'),
    ('\t\treturn false, ErrorSignatureRetrievalFailed{', '\t\treturn ErrorSignatureRetrievalFailed{'),
    ('\t\t\treturn false, err\n', '\t\t\treturn err\n'),
    ('\t\treturn false, nil\n', '\t\treturn nil\n'),
    ('\treturn true, nil\n}\n', '\treturn errDoneVerification\n}\n'),
    (_WM_CALL, '''		a.processed++
		if err := a.verifySignature(ctx, sigManifestDesc); err != nil {
			return err
		}
'''),
]

# closure forms on the base tree (captured locals)
_CL_BODY_OLD = '''			logger.Infof("Processing signature with manifest mediaType: %v and digest: %v", sigManifestDesc.MediaType, sigManifestDesc.Digest)
			// get signature envelope
			sigBlob, sigDesc, err := repo.FetchSignatureBlob(ctx, sigManifestDesc)
			if err != nil {
				return ErrorSignatureRetrievalFailed{Msg: fmt.Sprintf("unable to retrieve digital signature with digest %q associated with %q from the Repository, error : %v", sigManifestDesc.Digest, artifactRef, err.Error())}
			}

			// using signature media type fetched from registry
			opts.SignatureMediaType = sigDesc.MediaType

			// verify each signature
			outcome, err := verifier.Verify(ctx, artifactDescriptor, sigBlob, opts)
			if err != nil {
				logger.Warnf("Signature %v failed verification with error: %v", sigManifestDesc.Digest, err)
				if outcome == nil {
					logger.Error("Got nil outcome. Expecting non-nil outcome on verification failure")
					return err
				}
				outcome.Error = fmt.Errorf("failed to verify signature with digest %v, %w", sigManifestDesc.Digest, outcome.Error)
				verificationFailedErrorArray = append(verificationFailedErrorArray, outcome.Error)
				continue
			}
			// at this point, the signature is verified successfully
			verificationSucceeded = true

			// on success, verificationOutcomes only contains the
			// succeeded outcome
			verificationOutcomes = []*VerificationOutcome{outcome}
			logger.Debugf("Signature verification succeeded for artifact %v with signature digest %v", artifactDescriptor.Digest, sigManifestDesc.Digest)

			// early break on success
			return errDoneVerification
		}
'''
_CL_CALL = '''			good, err := verifyOne(sigManifestDesc)
			if err != nil {
				return err
			}
			if good {
				return errDoneVerification
			}
		}
'''
def _closure(ind):
    t = '''verifyOne := func(sigManifestDesc ocispec.Descriptor) (bool, error) {
	logger.Infof("Processing signature with manifest mediaType: %v and digest: %v", sigManifestDesc.MediaType, sigManifestDesc.Digest)
	sigBlob, sigDesc, err := repo.FetchSignatureBlob(ctx, sigManifestDesc)
	if err != nil {
		return false, ErrorSignatureRetrievalFailed{Msg: fmt.Sprintf("unable to retrieve digital signature with digest %q associated with %q from the Repository, error : %v", sigManifestDesc.Digest, artifactRef, err.Error())}
	}
	opts.SignatureMediaType = sigDesc.MediaType
	outcome, err := verifier.Verify(ctx, artifactDescriptor, sigBlob, opts)
	if err != nil {
		logger.Warnf("Signature %v failed verification with error: %v", sigManifestDesc.Digest, err)
		if outcome == nil {
			logger.Error("Got nil outcome. Expecting non-nil outcome on verification failure")
			return false, err
		}
		outcome.Error = fmt.Errorf("failed to verify signature with digest %v, %w", sigManifestDesc.Digest, outcome.Error)
		verificationFailedErrorArray = append(verificationFailedErrorArray, outcome.Error)
		return false, nil
	}
	verificationSucceeded = true
	verificationOutcomes = []*VerificationOutcome{outcome}
	logger.Debugf("Signature verification succeeded for artifact %v with signature digest %v", artifactDescriptor.Digest, sigManifestDesc.Digest)
	return true, nil
}
'''
    return ''.join(ind + l + '\n' for l in t.rstrip('\n').split('\n'))

_LIST = '\t// get signature manifests\n\tlogger.Debug("Fetching signature manifests")\n'
# closure made in the outer function, kept in a local, called in the loop
_CS = [(N, _CL_BODY_OLD, _CL_CALL), (N, _LIST, _closure('\t') + _LIST)]
# closure made inside the callback
_CN = [(N, _CL_BODY_OLD, _CL_CALL), (N, '\t\t// process signatures\n', _closure('\t\t') + '\t\t// process signatures\n')]

def _cs(name, expect, *more, **kw):
    d = dict(name=name, file=N, expect=expect, edits=_CS + [(N, f, r) for (f, r) in more])
    d.update(kw)
    return d

def _cn(name, expect, *more, **kw):
    d = dict(name=name, file=N, expect=expect, edits=_CN + [(N, f, r) for (f, r) in more])
    d.update(kw)
    return d

# stateless worker: fetches and verifies, hands Verify's results back as they are; the callback keeps the books
_FV_CALL = '''			outcome, err := fetchAndVerify(ctx, repo, verifier, artifactDescriptor, opts, artifactRef, sigManifestDesc)
			if err != nil {
				if outcome == nil {
					return err
				}
				outcome.Error = fmt.Errorf("failed to verify signature with digest %v, %w", sigManifestDesc.Digest, outcome.Error)
				verificationFailedErrorArray = append(verificationFailedErrorArray, outcome.Error)
				continue
			}
			// at this point, the signature is verified successfully
			verificationSucceeded = true
			verificationOutcomes = []*VerificationOutcome{outcome}
			return errDoneVerification
		}
'''
_FV_FUNC = '''// fetchAndVerify fetches one listed signature and verifies it
func fetchAndVerify(ctx context.Context, repo registry.Repository, verifier Verifier, target ocispec.Descriptor, opts VerifierVerifyOptions, artifactRef string, sigManifestDesc ocispec.Descriptor) (*VerificationOutcome, error) {
	logger := log.GetLogger(ctx)
	logger.Infof("Processing signature with manifest mediaType: %v and digest: %v", sigManifestDesc.MediaType, sigManifestDesc.Digest)
	sigBlob, sigDesc, err := repo.FetchSignatureBlob(ctx, sigManifestDesc)
	if err != nil {
		return nil, ErrorSignatureRetrievalFailed{Msg: fmt.Sprintf("unable to retrieve digital signature with digest %q associated with %q from the Repository, error : %v", sigManifestDesc.Digest, artifactRef, err.Error())}
	}
	opts.SignatureMediaType = sigDesc.MediaType
	return verifier.Verify(ctx, target, sigBlob, opts)
}

'''
_FV = [(N, _CL_BODY_OLD, _FV_CALL), (N, 'func generateAnnotations(', _FV_FUNC + 'func generateAnnotations(')]

def _fv(name, expect, *more, **kw):
    d = dict(name=name, file=N, expect=expect, edits=_FV + [(N, f, r) for (f, r) in more])
    d.update(kw)
    return d

VARIANTS += [
 # --- state object + methods (the held-out refactoring) and neighbours
 _wm('shape-worker-method', 'silent',
     why='per-signature block extracted into a method of the state object returning (verified, err); the page worker maps it to return/continue'),
 _wm('shape-worker-sentinel', 'silent', *_WS,
     why='the same worker with one error result: errDoneVerification on success, nil to go on'),
 _wm('shape-worker-counts', 'silent',
     ('\t\ta.processed++\n\t\tverified, err := a.verifySignature(ctx, sigManifestDesc)\n', '\t\tverified, err := a.verifySignature(ctx, sigManifestDesc)\n'),
     ('\tlogger := log.GetLogger(ctx)\n\tlogger.Infof("Processing signature with manifest mediaType', '\ta.processed++\n\tlogger := log.GetLogger(ctx)\n\tlogger.Infof("Processing signature with manifest mediaType'),
     why='the worker is cut one statement earlier: it also counts the attempt (first thing, after the page worker tested the limit)'),
 _wm('shape-worker-plain-func', 'silent',
     ('func (a *signatureAttempts) verifySignature(ctx context.Context, sigManifestDesc ocispec.Descriptor) (bool, error) {', 'func verifyListed(ctx context.Context, sigManifestDesc ocispec.Descriptor, a *signatureAttempts) (bool, error) {'),
     ('a.verifySignature(ctx, sigManifestDesc)', 'verifyListed(ctx, sigManifestDesc, a)'),
     why='the worker as a plain function with the state object as its last parameter'),
 _wm('worker-success-reported-false', 'flagged(early-exit/stop-after-success)',
     ('\treturn true, nil\n}\n', '\treturn false, nil\n}\n')),
 _wm('worker-success-answer-ignored', 'flagged(early-exit/stop-after-success)',
     ('\t\tif verified {\n\t\t\t// early break on success\n\t\t\treturn errDoneVerification\n\t\t}\n', '\t\t_ = verified\n')),
 _wm('worker-fetch-error-skipped', 'flagged(fail/fetch-error)',
     (_WM_FETCHERR, '''	sigBlob, sigDesc, err := a.repo.FetchSignatureBlob(ctx, sigManifestDesc)
	if err != nil {
		return false, nil
	}
	if err != nil {
		return false, ErrorSignatureRetrievalFailed{''')),
 _wm('worker-error-continue', 'flagged(fail/)',
     ('\t\tverified, err := a.verifySignature(ctx, sigManifestDesc)\n\t\tif err != nil {\n\t\t\treturn err\n\t\t}\n', '\t\tverified, err := a.verifySignature(ctx, sigManifestDesc)\n\t\tif err != nil {\n\t\t\tcontinue\n\t\t}\n')),
 _wm('worker-nil-outcome-goes-on', 'flagged(fail/nil-outcome)',
     ('\t\t\treturn false, err\n', '\t\t\treturn false, nil\n')),
 _wm('worker-limit-gt', 'flagged(bound/guard)',
     ('\t\tif a.processed >= a.maxAttempts {\n\t\t\tbreak\n\t\t}\n', '\t\tif a.processed > a.maxAttempts {\n\t\t\tbreak\n\t\t}\n')),
 _wm('worker-count-after-call', 'flagged(bound/counted)',
     ('\t\ta.processed++\n\t\tverified, err := a.verifySignature(ctx, sigManifestDesc)\n', '\t\tverified, err := a.verifySignature(ctx, sigManifestDesc)\n\t\ta.processed++\n')),
 _wm('worker-counts-after-fetch', 'flagged(bound/counted)',
     ('\t\ta.processed++\n\t\tverified, err := a.verifySignature(ctx, sigManifestDesc)\n', '\t\tverified, err := a.verifySignature(ctx, sigManifestDesc)\n'),
     ('\t// using signature media type fetched from registry\n\ta.opts.SignatureMediaType', '\ta.processed++\n\t// using signature media type fetched from registry\n\ta.opts.SignatureMediaType')),
 _wm('worker-flag-set-early', 'flagged(early-exit/flag-only-on-success)',
     ('\t// get signature envelope\n\tsigBlob, sigDesc, err := a.repo.FetchSignatureBlob(ctx, sigManifestDesc)\n', '\ta.succeeded = true\n\t// get signature envelope\n\tsigBlob, sigDesc, err := a.repo.FetchSignatureBlob(ctx, sigManifestDesc)\n')),
 _wm('worker-failed-outcomes-kept', 'flagged(early-exit/outcome-of-that-signature)',
     ('\t\ta.failures = append(a.failures, outcome.Error)\n', '\t\ta.failures = append(a.failures, outcome.Error)\n\t\ta.outcomes = []*VerificationOutcome{outcome}\n')),
 _wm('worker-called-outside-loop', 'flagged(precedence/callback-only-listed)',
     ('\t// get signature manifests\n\tlogger.Debug("Fetching signature manifests")\n', '\t// get signature manifests\n\tlogger.Debug("Fetching signature manifests")\n\tif ok, _ := attempts.verifySignature(ctx, artifactDescriptor); ok {\n\t\treturn artifactDescriptor, attempts.outcomes, nil\n\t}\n')),
 _wm('worker-leaks-state', 'flagged(callback/state-object)',
     ('// signatureAttempts carries the state', 'var lastAttempts *signatureAttempts\n\n// signatureAttempts carries the state'),
     ('\t// get signature envelope\n\tsigBlob, sigDesc, err := a.repo.FetchSignatureBlob(ctx, sigManifestDesc)\n', '\tlastAttempts = a\n\t// get signature envelope\n\tsigBlob, sigDesc, err := a.repo.FetchSignatureBlob(ctx, sigManifestDesc)\n')),
 _wm('worker-other-descriptor', 'flagged(callback/verify-resolved-descriptor)',
     ('a.verifier.Verify(ctx, a.artifactDescriptor, sigBlob, a.opts)', 'a.verifier.Verify(ctx, sigManifestDesc, sigBlob, a.opts)')),
 _wm('worker-sentinel-success-nil', 'flagged(early-exit/stop-after-success)', *(_WS + [('\treturn errDoneVerification\n}\n', '\treturn nil\n}\n')])),
 _wm('worker-sentinel-error-dropped', 'flagged(fail/)', *(_WS + [('\t\tif err := a.verifySignature(ctx, sigManifestDesc); err != nil {\n\t\t\treturn err\n\t\t}\n', '\t\tif err := a.verifySignature(ctx, sigManifestDesc); errors.Is(err, errDoneVerification) {\n\t\t\treturn err\n\t\t}\n')])),
 # --- closures over the captured locals
 _cs('shape-worker-closure', 'silent',
     why='per-signature block as a closure of the outer function kept in a local; the callback calls it in its loop'),
 _cn('shape-worker-closure-nested', 'silent',
     why='per-signature block as a closure made inside the callback'),
 _cs('worker-closure-answer-ignored', 'flagged(early-exit/stop-after-success)',
     ('\t\t\tif good {\n\t\t\t\treturn errDoneVerification\n\t\t\t}\n', '\t\t\t_ = good\n')),
 _cs('worker-closure-called-outside', 'flagged(precedence/callback-only-listed)',
     (_LIST, _LIST + '\tif good, _ := verifyOne(artifactDescriptor); good {\n\t\treturn artifactDescriptor, verificationOutcomes, nil\n\t}\n')),
 _cs('worker-closure-reassigned', 'flagged(callback/anchors)',
     (_LIST, _LIST + '\tif verifyOpts.MaxSignatureAttempts > 100 {\n\t\tverifyOne = func(ocispec.Descriptor) (bool, error) { return true, nil }\n\t}\n')),
 _cn('worker-closure-nested-fetch-error-skipped', 'flagged(fail/fetch-error)',
     ('\t\t\tif err != nil {\n\t\t\t\treturn false, ErrorSignatureRetrievalFailed{', '\t\t\tif err != nil && sigManifestDesc.MediaType == "" {\n\t\t\t\treturn false, nil\n\t\t\t}\n\t\t\tif err != nil {\n\t\t\t\treturn false, ErrorSignatureRetrievalFailed{')),
 _cn('worker-closure-nested-limit-gt', 'flagged(bound/guard)',
     ('\t\t\tif numOfSignatureProcessed >= verifyOpts.MaxSignatureAttempts {\n\t\t\t\tbreak\n\t\t\t}', '\t\t\tif numOfSignatureProcessed > verifyOpts.MaxSignatureAttempts {\n\t\t\t\tbreak\n\t\t\t}')),
 # --- stateless worker handing Verify's results back
 _fv('shape-worker-fetch-verify', 'silent',
     why='the worker only fetches and verifies and returns Verify\'s (outcome, err); the callback branches on them and keeps the books'),
 _fv('worker-fv-fetch-error-nil', 'flagged(early-exit/flag-only-on-success)',
     ('\t\treturn nil, ErrorSignatureRetrievalFailed{Msg: fmt.Sprintf("unable to retrieve digital signature', '\t\treturn nil, nil\n\t}\n\tif err != nil {\n\t\treturn nil, ErrorSignatureRetrievalFailed{Msg: fmt.Sprintf("unable to retrieve digital signature')),
 _fv('worker-fv-flag-before-test', 'flagged(early-exit/flag-only-on-success)',
     ('\t\t\toutcome, err := fetchAndVerify(ctx, repo, verifier, artifactDescriptor, opts, artifactRef, sigManifestDesc)\n', '\t\t\toutcome, err := fetchAndVerify(ctx, repo, verifier, artifactDescriptor, opts, artifactRef, sigManifestDesc)\n\t\t\tverificationSucceeded = true\n')),
 _fv('worker-fv-failed-outcome-kept', 'flagged(early-exit/outcome-of-that-signature)',
     ('\t\t\t\tverificationFailedErrorArray = append(verificationFailedErrorArray, outcome.Error)\n\t\t\t\tcontinue\n', '\t\t\t\tverificationFailedErrorArray = append(verificationFailedErrorArray, outcome.Error)\n\t\t\t\tverificationOutcomes = []*VerificationOutcome{outcome}\n\t\t\t\tcontinue\n')),
 _fv('worker-fv-error-swallowed', 'flagged(early-exit/)',
     ('\treturn verifier.Verify(ctx, target, sigBlob, opts)\n', '\toutcome, _ := verifier.Verify(ctx, target, sigBlob, opts)\n\treturn outcome, nil\n')),
 _fv('worker-fv-other-target', 'flagged(callback/verify-resolved-descriptor)',
     ('fetchAndVerify(ctx, repo, verifier, artifactDescriptor, opts, artifactRef, sigManifestDesc)', 'fetchAndVerify(ctx, repo, verifier, sigManifestDesc, opts, artifactRef, sigManifestDesc)')),
 _fv('worker-fv-continue-after-success', 'flagged(early-exit/stop-after-success)',
     ('\t\t\tverificationOutcomes = []*VerificationOutcome{outcome}\n\t\t\treturn errDoneVerification\n', '\t\t\tverificationOutcomes = []*VerificationOutcome{outcome}\n\t\t\tcontinue\n')),
]

# ---------------------------------------------------------------------------------------------------------------
# second pass — the class "closure vs state struct": the captured locals become fields of one struct of the outer
# function, and the callback (still a closure that does the work itself) reaches them through the captured struct

def _si_text(decl):
    t = _OLD_TAIL.replace('''	var verificationSucceeded bool
	var verificationOutcomes []*VerificationOutcome
	var verificationFailedErrorArray = []error{ErrorVerificationFailed{}}
''', decl).replace('\tnumOfSignatureProcessed := 0\n', '')
    for a, b in [('numOfSignatureProcessed', 'st.done'), ('verificationSucceeded', 'st.good'), ('verificationOutcomes', 'st.outcomes'), ('verificationFailedErrorArray', 'st.failed')]:
        t = t.replace(a, b)
    return t + '\ntype listingProgress struct {\n\tdone     int\n\tgood     bool\n\toutcomes []*VerificationOutcome\n\tfailed   []error\n}\n'

_SI_PTR = [(N, _OLD_TAIL, _si_text('\tst := &listingProgress{failed: []error{ErrorVerificationFailed{}}}\n'))]
_SI_VAL = [(N, _OLD_TAIL, _si_text('\tvar st listingProgress\n\tst.failed = []error{ErrorVerificationFailed{}}\n'))]

def _si(name, expect, *more, **kw):
    d = dict(name=name, file=N, expect=expect, edits=kw.pop('base', _SI_PTR) + [(N, f, r) for (f, r) in more])
    d.update(kw)
    return d

VARIANTS += [
 _si('shape-state-struct-inline', 'silent',
     why='the books are fields of a struct the outer function allocates (st := &T{...}); the callback is still a closure and captures st'),
 _si('shape-state-struct-inline-value', 'silent', base=_SI_VAL,
     why='the same with a struct variable (var st T) captured by the callback'),
 _si('state-struct-inline-leaks', 'flagged(callback/state-object)',
     ('\ntype listingProgress struct {', '\nvar lastProgress *listingProgress\n\ntype listingProgress struct {'),
     (_LIST, '\tlastProgress = st\n' + _LIST)),
 _si('state-struct-inline-overwritten', 'flagged(callback/state-object)',
     ('\t\t// process signatures\n', '\t\t// process signatures\n\t\tif len(signatureManifests) > 100 {\n\t\t\t*st = listingProgress{}\n\t\t}\n')),
 _si('state-struct-inline-counter-reset', 'flagged(bound/counter)',
     ('\t\t// process signatures\n', '\t\t// process signatures\n\t\tst.done = 0\n')),
 _si('state-struct-inline-limit-gt', 'flagged(bound/guard)',
     ('\t\t\tif st.done >= verifyOpts.MaxSignatureAttempts {\n\t\t\t\tbreak\n\t\t\t}', '\t\t\tif st.done > verifyOpts.MaxSignatureAttempts {\n\t\t\t\tbreak\n\t\t\t}')),
 _si('state-struct-inline-flag-preset', 'flagged(early-exit/flag-only-on-success)',
     ('\tst := &listingProgress{failed: []error{ErrorVerificationFailed{}}}\n', '\tst := &listingProgress{failed: []error{ErrorVerificationFailed{}}, good: verifyOpts.MaxSignatureAttempts > 50}\n')),
 _si('state-struct-inline-value-success-without-flag', 'flagged(result/success-exit)', base=_SI_VAL,
     *[('\tif !st.good {\n', '\tif !st.good && len(st.failed) > 1 {\n')]),
 _si('state-struct-inline-value-continue-after-success', 'flagged(early-exit/stop-after-success)', base=_SI_VAL,
     *[('\t\t\t// early break on success\n\t\t\treturn errDoneVerification\n', '\t\t\t// early break on success\n\t\t\tcontinue\n')]),
]

# ---------------------------------------------------------------------------------------------------------------
# second pass — the per-signature worker cut at other statements: a worker that only fetches (function, results handed
# back), a worker that only verifies and keeps the books (closure over the captured locals)

_FH_OLD = '''			sigBlob, sigDesc, err := repo.FetchSignatureBlob(ctx, sigManifestDesc)
			if err != nil {
				return ErrorSignatureRetrievalFailed{Msg: fmt.Sprintf("unable to retrieve digital signature with digest %q associated with %q from the Repository, error : %v", sigManifestDesc.Digest, artifactRef, err.Error())}
			}
'''
_FH_NEW = '''			sigBlob, sigDesc, err := fetchListed(ctx, repo, artifactRef, sigManifestDesc)
			if err != nil {
				return err
			}
'''
_FH_FUNC = '''func fetchListed(ctx context.Context, repo registry.Repository, artifactRef string, sigManifestDesc ocispec.Descriptor) ([]byte, ocispec.Descriptor, error) {
	sigBlob, sigDesc, err := repo.FetchSignatureBlob(ctx, sigManifestDesc)
	if err != nil {
		return nil, ocispec.Descriptor{}, ErrorSignatureRetrievalFailed{Msg: fmt.Sprintf("unable to retrieve digital signature with digest %q associated with %q from the Repository, error : %v", sigManifestDesc.Digest, artifactRef, err.Error())}
	}
	return sigBlob, sigDesc, nil
}

'''
_FH = [(N, _FH_OLD, _FH_NEW), (N, 'func generateAnnotations(', _FH_FUNC + 'func generateAnnotations(')]

_VH_OLD = _CL_BODY_OLD[_CL_BODY_OLD.index('\t\t\t// verify each signature\n'):]
_VH_NEW = '''			good, err := verifyBlob(sigManifestDesc, sigBlob)
			if err != nil {
				return err
			}
			if good {
				return errDoneVerification
			}
		}
'''
_VH_CLO = '''	verifyBlob := func(sigManifestDesc ocispec.Descriptor, sigBlob []byte) (bool, error) {
		outcome, err := verifier.Verify(ctx, artifactDescriptor, sigBlob, opts)
		if err != nil {
			logger.Warnf("Signature %v failed verification with error: %v", sigManifestDesc.Digest, err)
			if outcome == nil {
				logger.Error("Got nil outcome. Expecting non-nil outcome on verification failure")
				return false, err
			}
			outcome.Error = fmt.Errorf("failed to verify signature with digest %v, %w", sigManifestDesc.Digest, outcome.Error)
			verificationFailedErrorArray = append(verificationFailedErrorArray, outcome.Error)
			return false, nil
		}
		verificationSucceeded = true
		verificationOutcomes = []*VerificationOutcome{outcome}
		return true, nil
	}
'''
_VH = [(N, _VH_OLD, _VH_NEW), (N, _LIST, _VH_CLO + _LIST)]

def _mk(base):
    def f(name, expect, *more, **kw):
        d = dict(name=name, file=N, expect=expect, edits=base + [(N, a, b) for (a, b) in more])
        d.update(kw)
        return d
    return f
_fh, _vh = _mk(_FH), _mk(_VH)

VARIANTS += [
 _fh('shape-worker-fetch-only', 'silent',
     why='the fetch and its error wrapping in a function that hands blob and descriptor back; the callback verifies and keeps the books'),
 _fh('worker-fetch-only-error-nil', 'flagged(fail/fetch-error)',
     ('\t\treturn nil, ocispec.Descriptor{}, ErrorSignatureRetrievalFailed{Msg: fmt.Sprintf("unable to retrieve', '\t\treturn nil, ocispec.Descriptor{}, nil\n\t}\n\tif err != nil {\n\t\treturn nil, ocispec.Descriptor{}, ErrorSignatureRetrievalFailed{Msg: fmt.Sprintf("unable to retrieve')),
 _fh('worker-fetch-only-other-blob', 'flagged(callback/verify-fetched-blob)',
     ('\treturn sigBlob, sigDesc, nil\n}\n', '\treturn append([]byte(sigDesc.MediaType), sigBlob...), sigDesc, nil\n}\n')),
 _fh('worker-fetch-only-error-continue', 'flagged(fail/fetch-error)',
     (_FH_NEW, _FH_NEW.replace('\t\t\t\treturn err\n', '\t\t\t\tcontinue\n'))),
 _fh('worker-fetch-only-other-manifest', 'flagged(callback/fetch-listed-manifest)',
     ('fetchListed(ctx, repo, artifactRef, sigManifestDesc)', 'fetchListed(ctx, repo, artifactRef, artifactDescriptor)')),
 _vh('shape-worker-verify-only', 'silent',
     why='the callback fetches; the verification and the bookkeeping are a closure of the outer function called in the loop'),
 _vh('worker-verify-only-nil-outcome-goes-on', 'flagged(fail/nil-outcome)',
     ('\t\t\t\treturn false, err\n', '\t\t\t\treturn false, nil\n')),
 _vh('worker-verify-only-success-continues', 'flagged(early-exit/stop-after-success)',
     ('\t\t\tif good {\n\t\t\t\treturn errDoneVerification\n\t\t\t}\n', '\t\t\tif good {\n\t\t\t\tcontinue\n\t\t\t}\n')),
 _vh('worker-verify-only-other-blob', 'flagged(callback/verify-fetched-blob)',
     ('verifyBlob(sigManifestDesc, sigBlob)', 'verifyBlob(sigManifestDesc, sigBlob[:len(sigBlob)/2])')),
]

# ---------------------------------------------------------------------------------------------------------------
# third pass — the class "bound by construction": no per-iteration test of the counter; before the loop the page is cut
# to the attempts that are left (if/else, a counted prefix, builtin min, a clipping helper, an index loop up to that
# minimum; counter counting up or down; state in captured locals or in a state object), and the loop runs over what
# remains. Broken counterparts: the cut is off by one, uses another limit, is skipped on some path, is computed where it
# goes stale, the loop runs over something else or more than once.

_BG_HEAD = '''		// process signatures
		for _, sigManifestDesc := range signatureManifests {
			if numOfSignatureProcessed >= verifyOpts.MaxSignatureAttempts {
				break
			}
			numOfSignatureProcessed++
'''
_BG_LEFT = 'verifyOpts.MaxSignatureAttempts - numOfSignatureProcessed'
_BG_CUT = '''		// process signatures
		if remaining := verifyOpts.MaxSignatureAttempts - numOfSignatureProcessed; len(signatureManifests) > remaining {
			signatureManifests = signatureManifests[:remaining]
		}
		for _, sigManifestDesc := range signatureManifests {
			numOfSignatureProcessed++
'''

def _bg(name, expect, new_head, *more, **kw):
    d = dict(name=name, file=N, expect=expect, edits=[(N, _BG_HEAD, new_head)] + [(N, a, b) for (a, b) in more])
    d.update(kw)
    return d

_BG_CLIP = '''func firstListed(page []ocispec.Descriptor, n int) []ocispec.Descriptor {
	if len(page) > n {
		return page[:n]
	}
	return page
}

'''
_BG_CLIP_HEAD = '''		// process signatures
		for _, sigManifestDesc := range firstListed(signatureManifests, verifyOpts.MaxSignatureAttempts-numOfSignatureProcessed) {
			numOfSignatureProcessed++
'''
_BG_DOWN = [
    ('\tnumOfSignatureProcessed := 0\n', '\tattemptsLeft := verifyOpts.MaxSignatureAttempts\n'),
    ('\t\tif numOfSignatureProcessed >= verifyOpts.MaxSignatureAttempts {\n\t\t\treturn errExceededMaxVerificationLimit\n', '\t\tif attemptsLeft == 0 {\n\t\t\treturn errExceededMaxVerificationLimit\n'),
    ('\tif numOfSignatureProcessed == 0 {\n', '\tif attemptsLeft == verifyOpts.MaxSignatureAttempts {\n'),
]
_WM_LOOP = '''	for _, sigManifestDesc := range signatureManifests {
		if a.processed >= a.maxAttempts {
			break
		}
		a.processed++
'''

VARIANTS += [
 _bg('shape-budget-truncate', 'silent', _BG_CUT,
     why='the page is cut to limit - counter before the loop (guarded by len(page) > remaining); no per-iteration test, no break'),
 _bg('shape-budget-truncate-else', 'silent', '''		// process signatures
		var batch []ocispec.Descriptor
		if left := verifyOpts.MaxSignatureAttempts - numOfSignatureProcessed; left >= len(signatureManifests) {
			batch = signatureManifests
		} else {
			batch = signatureManifests[:left]
		}
		for _, sigManifestDesc := range batch {
			numOfSignatureProcessed++
''', why='the same as an if/else into another variable, the comparison spelled from the budget side'),
 _bg('shape-budget-count-var', 'silent', '''		// process signatures
		n := len(signatureManifests)
		if left := verifyOpts.MaxSignatureAttempts - numOfSignatureProcessed; n > left {
			n = left
		}
		for _, sigManifestDesc := range signatureManifests[:n] {
			numOfSignatureProcessed++
''', why='the number of manifests to look at is computed first (min by hand), then a prefix of that length is ranged over'),
 _bg('shape-budget-min-builtin', 'silent', '''		// process signatures
		for _, sigManifestDesc := range signatureManifests[:min(len(signatureManifests), verifyOpts.MaxSignatureAttempts-numOfSignatureProcessed)] {
			numOfSignatureProcessed++
''', why='builtin min'),
 _bg('shape-budget-index-loop', 'silent', '''		// process signatures
		n := min(verifyOpts.MaxSignatureAttempts-numOfSignatureProcessed, len(signatureManifests))
		for i := 0; i < n; i++ {
			sigManifestDesc := signatureManifests[i]
			numOfSignatureProcessed++
''', why='index loop up to the minimum instead of a range over a prefix'),
 _bg('shape-budget-index-loop-len', 'silent', _BG_CUT.replace('\t\tfor _, sigManifestDesc := range signatureManifests {\n', '\t\tfor i := 0; i < len(signatureManifests); i++ {\n\t\t\tsigManifestDesc := signatureManifests[i]\n'),
     why='cut page, index loop up to its length'),
 _bg('shape-budget-clip-helper', 'silent', _BG_CLIP_HEAD, ('func generateAnnotations(', _BG_CLIP + 'func generateAnnotations('),
     why='the cut is a module helper firstListed(page, n) called with limit - counter'),
 _bg('shape-budget-countdown', 'silent', '''		// process signatures
		if len(signatureManifests) > attemptsLeft {
			signatureManifests = signatureManifests[:attemptsLeft]
		}
		for _, sigManifestDesc := range signatureManifests {
			attemptsLeft--
''', *_BG_DOWN, why='counter counting down from the limit: the budget is the counter itself'),
 _wm('shape-budget-state-object-worker', 'silent',
     (_WM_LOOP, '''	if left := a.maxAttempts - a.processed; left < len(signatureManifests) {
		signatureManifests = signatureManifests[:left]
	}
	for _, sigManifestDesc := range signatureManifests {
		a.processed++
'''), why='state object, page worker method and per-signature worker method; the page worker cuts the page'),
 _si('shape-budget-state-struct-inline', 'silent',
     ('\t\tfor _, sigManifestDesc := range signatureManifests {\n\t\t\tif st.done >= verifyOpts.MaxSignatureAttempts {\n\t\t\t\tbreak\n\t\t\t}\n\t\t\tst.done++\n',
      '\t\tif room := verifyOpts.MaxSignatureAttempts - st.done; len(signatureManifests) >= room {\n\t\t\tsignatureManifests = signatureManifests[:room]\n\t\t}\n\t\tfor _, sigManifestDesc := range signatureManifests {\n\t\t\tst.done++\n'),
     why='books in a captured struct; cut under len(page) >= room'),
 _bg('shape-index-loop-length-local', 'silent', '''		// process signatures
		n := len(signatureManifests)
		for i := 0; i < n; i++ {
			sigManifestDesc := signatureManifests[i]
			if numOfSignatureProcessed >= verifyOpts.MaxSignatureAttempts {
				break
			}
			numOfSignatureProcessed++
''', why='per-iteration test kept; index loop whose bound is the page length held in a local'),
 _bg('shape-budget-index-guard', 'silent', '''		// process signatures
		remaining := verifyOpts.MaxSignatureAttempts - numOfSignatureProcessed
		for i, sigManifestDesc := range signatureManifests {
			if i >= remaining {
				break
			}
			numOfSignatureProcessed++
''', why='the per-iteration test compares the position in the page with the attempts left when the page arrived'),
 _bg('shape-budget-index-guard-for', 'silent', '''		// process signatures
		remaining := verifyOpts.MaxSignatureAttempts - numOfSignatureProcessed
		for i := 0; i < len(signatureManifests) && i < remaining; i++ {
			sigManifestDesc := signatureManifests[i]
			numOfSignatureProcessed++
''', why='the same in the loop condition'),
 _bg('budget-index-guard-one-more', 'flagged(bound/guard)', '''		// process signatures
		remaining := verifyOpts.MaxSignatureAttempts - numOfSignatureProcessed
		for i, sigManifestDesc := range signatureManifests {
			if i > remaining {
				break
			}
			numOfSignatureProcessed++
'''),
 _bg('budget-index-guard-other-index', 'flagged(bound/guard)', '''		// process signatures
		remaining := verifyOpts.MaxSignatureAttempts - numOfSignatureProcessed
		for i, sigManifestDesc := range signatureManifests {
			if i/2 >= remaining {
				break
			}
			numOfSignatureProcessed++
'''),
 # broken
 _bg('budget-one-more', 'flagged(bound/guard)', _BG_CUT.replace('len(signatureManifests) > remaining {\n\t\t\tsignatureManifests = signatureManifests[:remaining]', 'len(signatureManifests) > remaining+1 {\n\t\t\tsignatureManifests = signatureManifests[:remaining+1]')),
 _bg('budget-one-less', 'flagged(bound/guard)', _BG_CUT.replace('signatureManifests = signatureManifests[:remaining]', 'signatureManifests = signatureManifests[:remaining-1]')),
 _bg('budget-other-limit', 'flagged(bound/guard)', _BG_CUT.replace('remaining := verifyOpts.MaxSignatureAttempts - numOfSignatureProcessed', 'remaining := 2*verifyOpts.MaxSignatureAttempts - numOfSignatureProcessed')),
 _bg('budget-ignores-counter', 'flagged(bound/guard)', _BG_CUT.replace('remaining := verifyOpts.MaxSignatureAttempts - numOfSignatureProcessed', 'remaining := verifyOpts.MaxSignatureAttempts')),
 _bg('budget-stale', 'flagged(bound/guard)', _BG_CUT.replace('if remaining := verifyOpts.MaxSignatureAttempts - numOfSignatureProcessed; len', 'if len'),
     (_LIST, '\tremaining := verifyOpts.MaxSignatureAttempts - numOfSignatureProcessed\n' + _LIST)),
 _bg('budget-guard-reversed', 'flagged(bound/guard)', _BG_CUT.replace('len(signatureManifests) > remaining', 'len(signatureManifests) < remaining')),
 _bg('budget-cut-skipped-on-a-path', 'flagged(bound/guard)', _BG_CUT.replace('len(signatureManifests) > remaining {', 'len(signatureManifests) > remaining && remaining > 1 {')),
 _bg('budget-ranges-uncut-page', 'flagged(bound/guard)', '''		// process signatures
		batch := signatureManifests
		if remaining := verifyOpts.MaxSignatureAttempts - numOfSignatureProcessed; len(batch) > remaining {
			batch = batch[:remaining]
		}
		logger.Debugf("%d signatures to look at", len(batch))
		for _, sigManifestDesc := range signatureManifests {
			numOfSignatureProcessed++
'''),
 _bg('budget-skips-first', 'flagged(bound/guard)', _BG_CUT.replace('signatureManifests = signatureManifests[:remaining]', 'signatureManifests = signatureManifests[1:remaining]')),
 _bg('budget-loop-twice', 'flagged(bound/guard)', _BG_CUT.replace('\t\tfor _, sigManifestDesc := range signatureManifests {\n', '\t\tfor pass := 0; pass < 2; pass++ {\n\t\tfor _, sigManifestDesc := range signatureManifests {\n'),
     ('\t\t}\n\t\tif numOfSignatureProcessed >= verifyOpts.MaxSignatureAttempts {\n\t\t\treturn errExceededMaxVerificationLimit\n', '\t\t}\n\t\t}\n\t\tif numOfSignatureProcessed >= verifyOpts.MaxSignatureAttempts {\n\t\t\treturn errExceededMaxVerificationLimit\n'),
     why='the cut page is run over twice: the budget read before the outer loop is stale in the second pass'),
 _bg('budget-min-ignores-counter', 'flagged(bound/guard)', '''		// process signatures
		for _, sigManifestDesc := range signatureManifests[:min(len(signatureManifests), verifyOpts.MaxSignatureAttempts)] {
			numOfSignatureProcessed++
'''),
 _bg('budget-index-loop-from-one', 'flagged(callback/loop)', '''		// process signatures
		n := min(verifyOpts.MaxSignatureAttempts-numOfSignatureProcessed, len(signatureManifests))
		for i := 1; i < n; i++ {
			sigManifestDesc := signatureManifests[i]
			numOfSignatureProcessed++
'''),
 _bg('budget-index-loop-inclusive', 'flagged(callback/loop)', '''		// process signatures
		n := min(verifyOpts.MaxSignatureAttempts-numOfSignatureProcessed, len(signatureManifests)-1)
		for i := 0; i <= n; i++ {
			sigManifestDesc := signatureManifests[i]
			numOfSignatureProcessed++
'''),
 _bg('budget-clip-helper-one-more', 'flagged(bound/guard)', _BG_CLIP_HEAD, ('func generateAnnotations(', _BG_CLIP.replace('return page[:n]', 'return page[:n+1]') + 'func generateAnnotations(')),
 _bg('budget-clip-helper-other-argument', 'flagged(bound/guard)', _BG_CLIP_HEAD.replace('verifyOpts.MaxSignatureAttempts-numOfSignatureProcessed', 'verifyOpts.MaxSignatureAttempts'), ('func generateAnnotations(', _BG_CLIP + 'func generateAnnotations(')),
 _bg('budget-countdown-one-more', 'flagged(bound/guard)', '''		// process signatures
		if len(signatureManifests) > attemptsLeft+1 {
			signatureManifests = signatureManifests[:attemptsLeft+1]
		}
		for _, sigManifestDesc := range signatureManifests {
			attemptsLeft--
''', *_BG_DOWN),
 _bg('budget-count-after-fetch', 'flagged(bound/counted)', _BG_CUT.replace('\t\t\tnumOfSignatureProcessed++\n', ''),
     ('\t\t\t// using signature media type fetched from registry\n', '\t\t\tnumOfSignatureProcessed++\n\t\t\t// using signature media type fetched from registry\n')),
 _bg('budget-counted-per-page', 'flagged(bound/)', _BG_CUT.replace('\t\tfor _, sigManifestDesc := range signatureManifests {\n\t\t\tnumOfSignatureProcessed++\n', '\t\tnumOfSignatureProcessed++\n\t\tfor _, sigManifestDesc := range signatureManifests {\n')),
 _wm('budget-state-object-worker-limit-field-raised', 'flagged(bound/guard)',
     (_WM_LOOP, '''	if left := a.maxAttempts - a.processed; left < len(signatureManifests) {
		signatureManifests = signatureManifests[:left]
	}
	for _, sigManifestDesc := range signatureManifests {
		a.processed++
'''), ('\t\tmaxAttempts:        verifyOpts.MaxSignatureAttempts,\n', '\t\tmaxAttempts:        verifyOpts.MaxSignatureAttempts + len(artifactRef),\n')),
 _bg('index-loop-bound-short', 'flagged(bound/guard)', '''		// process signatures
		n := len(signatureManifests) - 1
		for i := 0; i < n; i++ {
			sigManifestDesc := signatureManifests[i]
			if numOfSignatureProcessed >= verifyOpts.MaxSignatureAttempts {
				break
			}
			numOfSignatureProcessed++
''', why='per-iteration test kept, but the index loop leaves out the last listed manifest of every page'),
]

# ---- fourth pass ---------------------------------------------------------------------------------------------
# class "disjunctive gate computed into a value": the two alternatives of a fail-closed gate are the operands of one `||`
# whose value is branched on (a tagless `switch` case, a bool local) instead of two branches;
# class "read-only accessor of the state object": a test on the state struct wrapped in a small method / function.

_LE_OLD = '\tif err != nil && !errors.Is(err, errDoneVerification) {\n\t\tif errors.Is(err, errExceededMaxVerificationLimit) {\n\t\t\treturn ocispec.Descriptor{}, verificationOutcomes, err\n\t\t}\n\t\treturn ocispec.Descriptor{}, nil, err\n\t}\n'
_LE_SWITCH = '''	switch {
	case err == nil || errors.Is(err, errDoneVerification):
		// the listing ran to its end or was stopped by a verified signature
	case errors.Is(err, errExceededMaxVerificationLimit):
		return ocispec.Descriptor{}, verificationOutcomes, err
	default:
		return ocispec.Descriptor{}, nil, err
	}
'''
_RS_OLD = _OLD_TAIL[_OLD_TAIL.index('\t// If there\'s no signature associated with the reference\n'):]
_RS_SWITCH = '''	switch {
	case numOfSignatureProcessed == 0:
		return ocispec.Descriptor{}, nil, ErrorSignatureRetrievalFailed{Msg: fmt.Sprintf("no signature is associated with %q, make sure the artifact was signed successfully", artifactRef)}
	case !verificationSucceeded:
		logger.Debugf("Signature verification failed for all the signatures associated with artifact %v", artifactDescriptor.Digest)
		return ocispec.Descriptor{}, verificationOutcomes, errors.Join(verificationFailedErrorArray...)
	default:
		return artifactDescriptor, verificationOutcomes, nil
	}
}
'''

def _le(name, expect, new, *more, **kw):
    d = dict(name=name, file=N, expect=expect, edits=[(N, _LE_OLD, new)] + [(N, f, r) for (f, r) in more])
    d.update(kw)
    return d

_ACC_FLAG_USE = '\tif !attempts.succeeded {\n'
_ACC_ANCHOR = '// processPage processes one page of signature manifests listed by the\n'

def _acc(name, expect, use_old, use_new, func, *more, **kw):
    return _wm(name, expect, (use_old, use_new), (_ACC_ANCHOR, func + '\n' + _ACC_ANCHOR), *more, **kw)

# the success flag of the state object dropped in favour of len(outcomes) > 0
_NOFLAG = [('\t// at this point, the signature is verified successfully\n\ta.succeeded = true\n\n', ''),
           ('\t// succeeded tells whether a signature has been verified successfully\n\tsucceeded bool\n\n', '')]

VARIANTS += [
 _le('shape-listing-error-switch', 'silent', _LE_SWITCH,
     why='the nested if after the listing as a tagless switch whose first case is the computed disjunction err == nil || errors.Is(err, errDone)'),
 _le('shape-listing-error-switch-result-switch', 'silent', _LE_SWITCH, (_RS_OLD, _RS_SWITCH)),
 _le('shape-listing-error-bool-local', 'silent', '''	listed := err == nil || errors.Is(err, errDoneVerification)
	if !listed {
		if errors.Is(err, errExceededMaxVerificationLimit) {
			return ocispec.Descriptor{}, verificationOutcomes, err
		}
		return ocispec.Descriptor{}, nil, err
	}
'''),
 _le('shape-listing-error-switch-failures-first', 'silent', '''	switch {
	case err != nil && !errors.Is(err, errDoneVerification) && errors.Is(err, errExceededMaxVerificationLimit):
		return ocispec.Descriptor{}, verificationOutcomes, err
	case err != nil && !errors.Is(err, errDoneVerification):
		return ocispec.Descriptor{}, nil, err
	}
'''),
 _le('shape-listing-error-switch-negated-local', 'silent', '''	failedListing := !(err == nil || errors.Is(err, errDoneVerification))
	switch {
	case failedListing && errors.Is(err, errExceededMaxVerificationLimit):
		return ocispec.Descriptor{}, verificationOutcomes, err
	case failedListing:
		return ocispec.Descriptor{}, nil, err
	}
'''),
 _le('listing-error-switch-default-ignored', 'flagged(result/listing-error)', _LE_SWITCH.replace('\tdefault:\n\t\treturn ocispec.Descriptor{}, nil, err\n', '\tdefault:\n\t\tlogger.Warn(err)\n')),
 _le('listing-error-switch-disjunction-widened', 'flagged(result/listing-error)', _LE_SWITCH.replace('case err == nil || errors.Is(err, errDoneVerification):', 'case err == nil || errors.Is(err, errDoneVerification) || numOfSignatureProcessed > 0:'),
     why='one operand of the computed disjunction is no accepted fact: a listing error after the first processed signature is swallowed'),
 _le('listing-error-switch-conjunction', 'flagged(result/listing-error)', _LE_SWITCH.replace('case err == nil || errors.Is(err, errDoneVerification):', 'case err == nil || !errors.Is(err, errDoneVerification):').replace('case errors.Is(err, errExceededMaxVerificationLimit):', 'case verificationSucceeded && errors.Is(err, errExceededMaxVerificationLimit):')),
 _le('listing-error-bool-local-widened', 'flagged(result/listing-error)', '''	listed := err == nil || errors.Is(err, errDoneVerification) || errors.Is(err, context.Canceled)
	if !listed {
		if errors.Is(err, errExceededMaxVerificationLimit) {
			return ocispec.Descriptor{}, verificationOutcomes, err
		}
		return ocispec.Descriptor{}, nil, err
	}
'''),
 _le('result-switch-flag-case-widened', 'flagged(result/success-exit)', _LE_SWITCH, (_RS_OLD, _RS_SWITCH.replace('case !verificationSucceeded:', 'case !verificationSucceeded && len(verificationFailedErrorArray) > 1:'))),
 _le('result-switch-success-disjunction', 'flagged(result/success-exit)', _LE_SWITCH, (_RS_OLD, _RS_SWITCH.replace('\tdefault:\n\t\treturn artifactDescriptor', '\tcase verificationSucceeded || len(verificationFailedErrorArray) == 1:\n\t\treturn artifactDescriptor').replace('\tcase !verificationSucceeded:\n', '\tdefault:\n')),
     why='the success case is a computed disjunction one operand of which is not the success indicator'),
 _le('shape-result-switch-success-disjunction-of-indicators', 'silent', _LE_SWITCH, (_RS_OLD, _RS_SWITCH.replace('\tdefault:\n\t\treturn artifactDescriptor', '\tcase verificationSucceeded || verificationSucceeded && len(verificationOutcomes) == 1:\n\t\treturn artifactDescriptor').replace('\tcase !verificationSucceeded:\n', '\tdefault:\n')),
     why='the success case is a computed disjunction every operand of which needs the success flag'),

 # accessors
 _acc('shape-accessor-flag', 'silent', _ACC_FLAG_USE, '\tif !attempts.verified() {\n',
      '// verified reports whether a signature has been verified successfully.\nfunc (a *signatureAttempts) verified() bool {\n\treturn a.succeeded\n}\n'),
 _acc('shape-accessor-outcomes-len', 'silent', _ACC_FLAG_USE, '\tif !attempts.verified() {\n',
      'func (a *signatureAttempts) verified() bool {\n\treturn len(a.outcomes) > 0\n}\n', *_NOFLAG,
      why='the held-out refactoring: flag eliminated, len(outcomes) > 0 read through an accessor method'),
 _acc('shape-accessor-outcomes-nil-function', 'silent', _ACC_FLAG_USE, '\tif !anyVerified(ctx, attempts) {\n',
      'func anyVerified(_ context.Context, a *signatureAttempts) bool {\n\treturn a.outcomes != nil\n}\n', *_NOFLAG),
 _acc('shape-accessor-processed', 'silent', '\tif attempts.processed == 0 {\n', '\tif attempts.untouched() {\n',
      'func (a *signatureAttempts) untouched() bool {\n\treturn a.processed == 0\n}\n'),
 _acc('shape-accessor-both-guard-clauses', 'silent', _ACC_FLAG_USE, '\tif !attempts.verified() {\n',
      'func (a *signatureAttempts) verified() bool {\n\tif a.processed == 0 {\n\t\treturn false\n\t}\n\treturn len(a.outcomes) > 0\n}\n', *_NOFLAG),
 _acc('accessor-widened', 'flagged(result/success-exit)', _ACC_FLAG_USE, '\tif !attempts.verified() {\n',
      'func (a *signatureAttempts) verified() bool {\n\treturn len(a.outcomes) > 0 || len(a.failures) > 1\n}\n', *_NOFLAG),
 _acc('accessor-true-on-a-path', 'flagged(result/success-exit)', _ACC_FLAG_USE, '\tif !attempts.verified() {\n',
      'func (a *signatureAttempts) verified() bool {\n\tif a.processed >= a.maxAttempts {\n\t\treturn true\n\t}\n\treturn len(a.outcomes) > 0\n}\n', *_NOFLAG),
 _acc('accessor-other-field', 'flagged(result/success-exit)', _ACC_FLAG_USE, '\tif !attempts.verified() {\n',
      'func (a *signatureAttempts) verified() bool {\n\treturn len(a.failures) > 0\n}\n', *_NOFLAG),
 _acc('accessor-negated', 'flagged(result/success-exit)', _ACC_FLAG_USE, '\tif attempts.verified() {\n',
      'func (a *signatureAttempts) verified() bool {\n\treturn len(a.outcomes) > 0\n}\n', *_NOFLAG),
 _acc('accessor-processed-inverted', 'flagged(result/success-exit)', '\tif attempts.processed == 0 {\n', '\tif attempts.untouched() {\n',
      'func (a *signatureAttempts) untouched() bool {\n\treturn a.processed != 0\n}\n'),
 _acc('accessor-writes', 'flagged(callback/state-object)', _ACC_FLAG_USE, '\tif !attempts.verified() {\n',
      'func (a *signatureAttempts) verified() bool {\n\ta.processed = 0\n\treturn len(a.outcomes) > 0\n}\n', *_NOFLAG,
      why='a function that is handed the state object and stores through it is no read-only accessor'),
 _acc('accessor-leaks-object', 'flagged(callback/state-object)', _ACC_FLAG_USE, '\tif !attempts.verified() {\n',
      'var lastAttempts *signatureAttempts\n\nfunc (a *signatureAttempts) verified() bool {\n\tlastAttempts = a\n\treturn len(a.outcomes) > 0\n}\n', *_NOFLAG),
 _acc('accessor-hands-out-field-address', 'flagged(callback/state-object)', _ACC_FLAG_USE, '\tif !attempts.verified() {\n',
      'func (a *signatureAttempts) verified() bool {\n\tbump(&a.processed)\n\treturn len(a.outcomes) > 0\n}\n\nfunc bump(n *int) { *n = 0 }\n', *_NOFLAG),
]

# the per-iteration limit test made by a read-only accessor of the state object
_ACC_GUARD_OLD = '\tfor _, sigManifestDesc := range signatureManifests {\n\t\tif a.processed >= a.maxAttempts {\n\t\t\tbreak\n\t\t}\n'
_ACC_GUARD_NEW = '\tfor _, sigManifestDesc := range signatureManifests {\n\t\tif a.exhausted() {\n\t\t\tbreak\n\t\t}\n'
_ACC_AFTER = ('\t}\n\tif a.processed >= a.maxAttempts {\n\t\treturn a.errLimitExceeded\n\t}\n', '\t}\n\tif a.exhausted() {\n\t\treturn a.errLimitExceeded\n\t}\n')

VARIANTS += [
 _acc('shape-accessor-limit-guard', 'silent', _ACC_GUARD_OLD, _ACC_GUARD_NEW,
      'func (a *signatureAttempts) exhausted() bool {\n\treturn a.processed >= a.maxAttempts\n}\n', _ACC_AFTER),
 _acc('shape-accessor-limit-guard-positive', 'silent', _ACC_GUARD_OLD, _ACC_GUARD_NEW.replace('a.exhausted()', '!a.mayAttempt()'),
      'func (a *signatureAttempts) mayAttempt() bool {\n\tif a.processed < a.maxAttempts {\n\t\treturn true\n\t}\n\treturn false\n}\n'),
 _acc('accessor-limit-guard-off-by-one', 'flagged(bound/guard)', _ACC_GUARD_OLD, _ACC_GUARD_NEW,
      'func (a *signatureAttempts) exhausted() bool {\n\treturn a.processed > a.maxAttempts\n}\n', _ACC_AFTER),
 _acc('accessor-limit-guard-other-limit', 'flagged(bound/guard)', _ACC_GUARD_OLD, _ACC_GUARD_NEW,
      'func (a *signatureAttempts) exhausted() bool {\n\treturn a.processed >= 2*a.maxAttempts\n}\n', _ACC_AFTER),
 _acc('accessor-limit-guard-conjunction', 'flagged(bound/guard)', _ACC_GUARD_OLD, _ACC_GUARD_NEW,
      'func (a *signatureAttempts) exhausted() bool {\n\treturn a.processed >= a.maxAttempts && len(a.failures) > 1\n}\n', _ACC_AFTER,
      why='the accessor can answer false although the limit is reached'),
 _acc('accessor-limit-guard-before-loop-only', 'flagged(bound/guard)', _ACC_GUARD_OLD, '\tif a.exhausted() {\n\t\treturn a.errLimitExceeded\n\t}\n\tfor _, sigManifestDesc := range signatureManifests {\n',
      'func (a *signatureAttempts) exhausted() bool {\n\treturn a.processed >= a.maxAttempts\n}\n'),
]

VARIANTS += [
 _acc('accessor-limit-guard-positive-off-by-one', 'flagged(bound/guard)', _ACC_GUARD_OLD, _ACC_GUARD_NEW.replace('a.exhausted()', '!a.mayAttempt()'),
      'func (a *signatureAttempts) mayAttempt() bool {\n\tif a.processed <= a.maxAttempts {\n\t\treturn true\n\t}\n\treturn false\n}\n'),
 _acc('accessor-limit-guard-positive-extra-way', 'flagged(bound/guard)', _ACC_GUARD_OLD, _ACC_GUARD_NEW.replace('a.exhausted()', '!a.mayAttempt()'),
      'func (a *signatureAttempts) mayAttempt() bool {\n\tif a.processed < a.maxAttempts {\n\t\treturn true\n\t}\n\treturn len(a.failures) == 1\n}\n',
      why='one return of the accessor answers true without the limit test'),
 _acc('shape-accessor-flag-if-return', 'silent', _ACC_FLAG_USE, '\tif !attempts.verified() {\n',
      'func (a *signatureAttempts) verified() bool {\n\tif a.outcomes == nil {\n\t\treturn false\n\t}\n\treturn true\n}\n', *_NOFLAG),
 _acc('accessor-flag-if-return-inverted', 'flagged(result/success-exit)', _ACC_FLAG_USE, '\tif !attempts.verified() {\n',
      'func (a *signatureAttempts) verified() bool {\n\tif a.outcomes != nil {\n\t\treturn false\n\t}\n\treturn true\n}\n', *_NOFLAG),
]

# ---- fifth pass ----------------------------------------------------------------------------------------------
# class "closure vs method vs state struct", member: the state object is a struct-VALUED local of the outer function
# (`attempts := signatureAttempts{…}`, methods called on it take its address implicitly) and the outer function itself
# calls a read-only accessor on it (the limit error built on demand by a method instead of kept in a local / field).
# Held-out refactoring: page cut to limit - processed, index loop, per-signature method returning the done sentinel.

_VO_LIMIT_LIT = '\t\terrLimitExceeded:   ErrorVerificationFailed{Msg: fmt.Sprintf("signature evaluation stopped. The configured limit of %d signatures to verify per artifact exceeded", verifyOpts.MaxSignatureAttempts)},\n'
_VO_LIMIT_FN = '// limitError is what the lister gets once maxAttempts signatures have been processed.\nfunc (a *signatureAttempts) limitError() error {\n\treturn ErrorVerificationFailed{Msg: fmt.Sprintf("signature evaluation stopped. The configured limit of %d signatures to verify per artifact exceeded", a.maxAttempts)}\n}\n'
_VO_EDITS = [
    ('\tattempts := &signatureAttempts{\n', '\tattempts := signatureAttempts{\n'),
    (_VO_LIMIT_LIT, ''),
    ('\t\tif errors.Is(err, attempts.errLimitExceeded) {\n', '\t\tif errors.Is(err, errTooMany) {\n'),
    ('\t// get signature manifests\n\tlogger.Debug("Fetching signature manifests")\n\terr = repo.ListSignatures(ctx, artifactDescriptor, func(signatureManifests []ocispec.Descriptor) error {\n\t\treturn attempts.processPage(',
     '\terrTooMany := attempts.limitError()\n\n\t// get signature manifests\n\tlogger.Debug("Fetching signature manifests")\n\terr = repo.ListSignatures(ctx, artifactDescriptor, func(signatureManifests []ocispec.Descriptor) error {\n\t\treturn attempts.processPage('),
    ('\t\treturn a.errLimitExceeded\n', '\t\treturn a.limitError()\n'),
]

def _vo(name, expect, *more, **kw):
    fn = kw.pop('fn', _VO_LIMIT_FN)
    return _wm(name, expect, *(_VO_EDITS + [(_ACC_ANCHOR, fn + '\n' + _ACC_ANCHOR)] + list(more)), **kw)

# the held-out loop: page cut, index loop, worker returns the sentinel
_VO_CUT = (_WM_LOOP, '''	if remaining := a.maxAttempts - a.processed; len(signatureManifests) > remaining {
		signatureManifests = signatureManifests[:remaining]
	}
	for i := range signatureManifests {
		sigManifestDesc := signatureManifests[i]
		a.processed++
''')
_VO_FLAG_FN = 'func (a *signatureAttempts) verified() bool {\n\treturn a.succeeded\n}\n'

VARIANTS += [
 _vo('shape-value-object-accessor-in-outer', 'silent',
     why='state struct held by value; the outer function calls the read-only method limitError() on it (address taken implicitly)'),
 _vo('shape-value-object-accessor-in-outer-cut-index', 'silent', _VO_CUT,
     why='the held-out refactoring: the same plus the page cut to limit - processed and an index loop'),
 _vo('shape-value-object-accessor-function', 'silent',
     ('errTooMany := attempts.limitError()', 'errTooMany := limitErrorOf(&attempts)'), ('\t\treturn a.limitError()\n', '\t\treturn limitErrorOf(a)\n'),
     fn='func limitErrorOf(a *signatureAttempts) error {\n\treturn ErrorVerificationFailed{Msg: fmt.Sprintf("signature evaluation stopped. The configured limit of %d signatures to verify per artifact exceeded", a.maxAttempts)}\n}\n',
     why='the accessor is a plain function that is handed &attempts'),
 _vo('shape-value-object-accessor-decides', 'silent', (_ACC_FLAG_USE, '\tif !attempts.verified() {\n'), (_ACC_ANCHOR, _VO_FLAG_FN + '\n' + _ACC_ANCHOR),
     why='value-held state struct; the success test of the outer function goes through a read-only accessor called on the object itself'),
 _vo('shape-value-object-accessor-recomputed', 'silent',
     ('\t\tif errors.Is(err, errTooMany) {\n', '\t\tif errors.Is(err, attempts.limitError()) {\n'), ('\terrTooMany := attempts.limitError()\n\n', ''),
     why='no local at all: the limit error is rebuilt by the accessor where it is compared'),
 # broken in the new shape
 _vo('value-object-outer-method-writes', 'flagged(callback/state-object)',
     fn=_VO_LIMIT_FN.replace('\treturn ErrorVerificationFailed{', '\ta.succeeded = a.processed > 0\n\treturn ErrorVerificationFailed{'),
     why='the method the outer function calls on the value-held object stores to the success flag: no read-only accessor'),
 _vo('value-object-outer-leaks-address', 'flagged(callback/state-object)',
     ('\terrTooMany := attempts.limitError()\n', '\terrTooMany := attempts.limitError()\n\trememberAttempts(&attempts)\n'),
     (_ACC_ANCHOR, 'var lastAttempts *signatureAttempts\n\nfunc rememberAttempts(a *signatureAttempts) { lastAttempts = a }\n\n' + _ACC_ANCHOR),
     why='the outer function hands the address of the value-held object to a function that keeps it'),
 _vo('value-object-outer-hands-out-field-address', 'flagged(callback/state-object)',
     fn=_VO_LIMIT_FN.replace('\treturn ErrorVerificationFailed{', '\tbumpAttempts(&a.processed)\n\treturn ErrorVerificationFailed{') + '\nfunc bumpAttempts(n *int) { *n = 0 }\n'),
 _vo('value-object-accessor-decides-widened', 'flagged(result/success-exit)', (_ACC_FLAG_USE, '\tif !attempts.verified() {\n'),
     (_ACC_ANCHOR, 'func (a *signatureAttempts) verified() bool {\n\treturn a.succeeded || len(a.failures) > 1\n}\n\n' + _ACC_ANCHOR)),
 _vo('value-object-cut-one-more', 'flagged(bound/guard)',
     (_VO_CUT[0], _VO_CUT[1].replace('len(signatureManifests) > remaining {\n\t\tsignatureManifests = signatureManifests[:remaining]', 'len(signatureManifests) > remaining+1 {\n\t\tsignatureManifests = signatureManifests[:remaining+1]'))),
 _vo('value-object-cut-limit-field-raised', 'flagged(bound/guard)', _VO_CUT,
     ('\t\tmaxAttempts:        verifyOpts.MaxSignatureAttempts,\n', '\t\tmaxAttempts:        verifyOpts.MaxSignatureAttempts + 1,\n')),
 _vo('value-object-success-not-reported', 'flagged(early-exit/stop-after-success)', _VO_CUT,
     ('\t\tif verified {\n\t\t\t// early break on success\n\t\t\treturn errDoneVerification\n\t\t}\n', '\t\tif verified {\n\t\t\tcontinue\n\t\t}\n')),
 _vo('value-object-copied-for-callback', 'flagged(bound/counter)',
     ('\t\treturn attempts.processPage(', '\t\tsnapshot := attempts\n\t\treturn snapshot.processPage('),
     why='the callback works on a copy of the value-held object: the counter of the outer function never moves'),
]

# member "value receiver": the accessor takes the state struct by value — its call loads the whole object (a copy)
_VR_FN = _VO_LIMIT_FN.replace('func (a *signatureAttempts) limitError()', 'func (a signatureAttempts) limitError()')
VARIANTS += [
 _vo('shape-value-receiver-accessor', 'silent', fn=_VR_FN,
     why='limitError has a value receiver: the outer function and the page worker call it on a copy of the whole object'),
 _vo('shape-value-receiver-accessor-cut-index', 'silent', _VO_CUT, fn=_VR_FN),
 _wm('shape-whole-object-logged', 'silent',
     ('\t// If there\'s no signature associated with the reference\n\tif attempts.processed == 0 {\n', '\tlogger.Debugf("signature evaluation state: %+v", *attempts)\n\n\t// If there\'s no signature associated with the reference\n\tif attempts.processed == 0 {\n'),
     why='a copy of the whole state object is formatted into a log line'),
 _vo('value-object-decides-on-stale-copy', 'flagged(result/success-exit)',
     ('\terrTooMany := attempts.limitError()\n', '\terrTooMany := attempts.limitError()\n\tbefore := attempts\n'),
     (_ACC_FLAG_USE, '\tif !before.succeeded && !attempts.succeeded || before.succeeded {\n'),
     why='a copy of the object taken before the listing takes part in the success decision'),
 _vo('value-object-returns-outcomes-of-copy', 'flagged(result/success-exit)',
     ('\terrTooMany := attempts.limitError()\n', '\terrTooMany := attempts.limitError()\n\tbefore := attempts\n'),
     ('\t// Verification Succeeded\n\treturn artifactDescriptor, attempts.outcomes, nil\n', '\t// Verification Succeeded\n\treturn artifactDescriptor, before.outcomes, nil\n')),
 _vo('page-worker-counts-on-copy', 'flagged(bound/counter)', ('\t\ta.processed++\n', '\t\tmine := *a\n\t\tmine.processed++\n'),
     why='the page worker counts on a copy of the object: the shared counter never moves'),
]

# member "result object built by a constructor function": the composite literal of the state object moves into a
# module function that returns its address
_CT_LIT = _WM_NEW[_WM_NEW.index('\tattempts := &signatureAttempts{\n'):_WM_NEW.index('\t// get signature manifests\n')]
_CT_CALL = '\tattempts := newSignatureAttempts(verifier, repo, artifactRef, artifactDescriptor, opts, verifyOpts.MaxSignatureAttempts)\n\n'
_CT_FN = '''// newSignatureAttempts sets up the state of one signature evaluation.
func newSignatureAttempts(verifier Verifier, repo registry.Repository, ref string, target ocispec.Descriptor, opts VerifierVerifyOptions, limit int) *signatureAttempts {
	return &signatureAttempts{
		verifier:           verifier,
		repo:               repo,
		artifactRef:        ref,
		artifactDescriptor: target,
		opts:               opts,
		maxAttempts:        limit,
		errLimitExceeded:   ErrorVerificationFailed{Msg: fmt.Sprintf("signature evaluation stopped. The configured limit of %d signatures to verify per artifact exceeded", limit)},
		failures:           []error{ErrorVerificationFailed{}},
	}
}
'''
_CT_FN_STEPS = '''func newSignatureAttempts(verifier Verifier, repo registry.Repository, ref string, target ocispec.Descriptor, opts VerifierVerifyOptions, limit int) *signatureAttempts {
	a := new(signatureAttempts)
	a.verifier, a.repo = verifier, repo
	a.artifactRef, a.artifactDescriptor = ref, target
	a.opts = opts
	a.maxAttempts = limit
	a.processed = 0
	a.succeeded = false
	a.errLimitExceeded = ErrorVerificationFailed{Msg: fmt.Sprintf("signature evaluation stopped. The configured limit of %d signatures to verify per artifact exceeded", limit)}
	a.failures = []error{ErrorVerificationFailed{}}
	return a
}
'''

def _ct(name, expect, *more, **kw):
    fn = kw.pop('fn', _CT_FN)
    call = kw.pop('call', _CT_CALL)
    return _wm(name, expect, *([(_CT_LIT, call), (_ACC_ANCHOR, fn + '\n' + _ACC_ANCHOR)] + list(more)), **kw)

VARIANTS += [
 _ct('shape-ctor-state-object', 'silent', why='attempts := newSignatureAttempts(…): the literal lives in a constructor function'),
 _ct('shape-ctor-state-object-stepwise', 'silent', fn=_CT_FN_STEPS, why='the constructor fills a new(T) field by field, initial values spelled out'),
 _ct('shape-ctor-state-object-cut-index', 'silent', _VO_CUT, why='constructor + page cut + index loop'),
 _ct('shape-ctor-state-object-accessor', 'silent', (_ACC_FLAG_USE, '\tif !attempts.verified() {\n'), (_ACC_ANCHOR, _VO_FLAG_FN + '\n' + _ACC_ANCHOR)),
 _ct('ctor-limit-raised', 'flagged(bound/guard)', fn=_CT_FN.replace('maxAttempts:        limit,', 'maxAttempts:        limit + 1,')),
 _ct('ctor-limit-raised-cut', 'flagged(bound/guard)', _VO_CUT, fn=_CT_FN.replace('maxAttempts:        limit,', 'maxAttempts:        limit + 1,')),
 _ct('ctor-called-with-other-limit', 'flagged(bound/guard)', call=_CT_CALL.replace('verifyOpts.MaxSignatureAttempts)', '2*verifyOpts.MaxSignatureAttempts)')),
 _ct('ctor-called-with-unresolved-descriptor', 'flagged(callback/verify-resolved-descriptor)', call=_CT_CALL.replace('artifactRef, artifactDescriptor, opts', 'artifactRef, ocispec.Descriptor{Digest: artifactDescriptor.Digest}, opts')),
 _ct('ctor-swaps-descriptor', 'flagged(callback/verify-resolved-descriptor)', fn=_CT_FN.replace('artifactDescriptor: target,', 'artifactDescriptor: ocispec.Descriptor{MediaType: target.MediaType},')),
 _ct('ctor-presets-flag', 'flagged(early-exit/flag-only-on-success)', fn=_CT_FN.replace('\t\tmaxAttempts:        limit,\n', '\t\tmaxAttempts:        limit,\n\t\tsucceeded:          limit > 100,\n')),
 _ct('ctor-presets-flag-true', 'flagged(early-exit/flag-only-on-success)', fn=_CT_FN_STEPS.replace('a.succeeded = false', 'a.succeeded = true')),
 _ct('ctor-presets-counter', 'flagged(bound/counter)', fn=_CT_FN_STEPS.replace('a.processed = 0', 'a.processed = -limit')),
 _ct('ctor-keeps-object', 'flagged(callback/state-object)', fn='var allAttempts []*signatureAttempts\n\n' + _CT_FN_STEPS.replace('\treturn a\n', '\tallAttempts = append(allAttempts, a)\n\treturn a\n'),
     why='the constructor keeps a second way to reach the object'),
 _ct('ctor-returns-shared-object', 'flagged(bound/counter)', fn='var theAttempts signatureAttempts\n\n' + _CT_FN_STEPS.replace('\ta := new(signatureAttempts)\n', '\ta := &theAttempts\n'),
     why='no fresh object: state survives from one verification to the next'),
 _ct('ctor-returns-either-object', 'flagged(bound/counter)', fn='var theAttempts signatureAttempts\n\n' + _CT_FN_STEPS.replace('\treturn a\n', '\tif limit > 50 {\n\t\treturn &theAttempts\n\t}\n\treturn a\n')),
]

# ---- seventh pass: guards disabled by a conjunct ------------------------------------------------------------------
# class "the failure test on Verifier.Verify's error no longer covers every failure": the guard `if err != nil {` behind
# the verification gets a conjunct, so a failed verification can fall through into the success region (flag set, outcome
# stored, done sentinel returned). The success region must lie behind err == nil on EVERY way into it — the block that
# follows the test having the passing edge as ONE of its predecessors is not enough.

_VG_OLD = '\t\t\toutcome, err := verifier.Verify(ctx, artifactDescriptor, sigBlob, opts)\n\t\t\tif err != nil {\n'
_VG_HEAD = '\t\t\toutcome, err := verifier.Verify(ctx, artifactDescriptor, sigBlob, opts)\n'
_VG_FAIL = _CL_BODY_OLD[_CL_BODY_OLD.index('\t\t\t\tlogger.Warnf("Signature %v failed verification'):_CL_BODY_OLD.index('\t\t\t\tcontinue\n\t\t\t}\n') + len('\t\t\t\tcontinue\n')]
_VG_SUCC = _CL_BODY_OLD[_CL_BODY_OLD.index('\t\t\t// at this point, the signature is verified successfully\n'):_CL_BODY_OLD.index('\t\t}\n', _CL_BODY_OLD.index('\t\t\treturn errDoneVerification\n'))]
_VG_BLOCK = _VG_HEAD + '\t\t\tif err != nil {\n' + _VG_FAIL + '\t\t\t}\n' + _VG_SUCC
_WM_VG_OLD = '\toutcome, err := a.verifier.Verify(ctx, a.artifactDescriptor, sigBlob, a.opts)\n\tif err != nil {\n'
_CL_VG_OLD = '\t\toutcome, err := verifier.Verify(ctx, artifactDescriptor, sigBlob, opts)\n\t\tif err != nil {\n'

def _vg(name, expect, new, **kw):
    d = dict(name=name, file=N, expect=expect, find=_VG_OLD, replace=_VG_HEAD + new)
    d.update(kw)
    return d

VARIANTS += [
 _vg('verify-guard-false-conjunct', 'flagged(early-exit/flag-only-on-success)', '\t\t\tif false && (err != nil) {\n',
     why='the guard mutant: a failed verification reaches `verificationSucceeded = true` through the false edge of the added conjunct'),
 _vg('verify-guard-media-type-conjunct', 'flagged(early-exit/flag-only-on-success)', '\t\t\tif opts.SignatureMediaType != "" && err != nil {\n'),
 _vg('verify-guard-outcome-conjunct', 'flagged(early-exit/)', '\t\t\tif outcome != nil && err != nil {\n',
     why='a nil-dereference "fix": a failed verification without outcome counts as verified'),
 _vg('verify-guard-conjunct-outcome-list', 'flagged(early-exit/outcome-of-that-signature)', '\t\t\tif len(verificationFailedErrorArray) > 1 && err != nil {\n'),
 _vg('shape-verify-guard-operands-swapped', 'silent', '\t\t\tif nil != err {\n'),
 _vg('shape-verify-guard-switch', 'silent', '\t\t\tswitch {\n\t\t\tcase err != nil:\n'),
 _vg('shape-verify-guard-bool-local', 'silent', '\t\t\tfailed := err != nil\n\t\t\tif failed {\n'),
 _vg('shape-verify-guard-double-negation', 'silent', '\t\t\tif !(err == nil) {\n'),
 dict(name='shape-verify-guard-inverted', file=N, expect='silent', find=_VG_BLOCK,
      replace=_VG_HEAD + '\t\t\tif err == nil {\n' + _VG_SUCC + '\t\t\t}\n' + _VG_FAIL.replace('\t\t\t\tcontinue\n', ''),
      why='success region inside `if err == nil {…return}`; the failure bookkeeping falls to the end of the loop body'),
 dict(name='shape-verify-guard-nested-in-outcome-test', file=N, expect='silent', find=_VG_BLOCK,
      replace=_VG_HEAD + '\t\t\tif err != nil && outcome == nil {\n\t\t\t\treturn err\n\t\t\t}\n\t\t\tif err != nil {\n'
              + _VG_FAIL.replace('\t\t\t\tif outcome == nil {\n\t\t\t\t\tlogger.Error("Got nil outcome. Expecting non-nil outcome on verification failure")\n\t\t\t\t\treturn err\n\t\t\t\t}\n', '')
              + '\t\t\t}\n' + _VG_SUCC,
      why='the nested `if err != nil { if outcome == nil {` flattened into `if err != nil && outcome == nil {…}; if err != nil {…}`'),
 # the same guard in the per-signature worker shapes
 _wm('worker-verify-guard-false-conjunct', 'flagged(early-exit/flag-only-on-success)', (_WM_VG_OLD, _WM_VG_OLD.replace('if err != nil {', 'if false && (err != nil) {'))),
 _wm('worker-verify-guard-conjunct', 'flagged(early-exit/flag-only-on-success)', (_WM_VG_OLD, _WM_VG_OLD.replace('if err != nil {', 'if len(a.failures) > 1 && err != nil {'))),
 _wm('shape-worker-verify-guard-swapped', 'silent', (_WM_VG_OLD, _WM_VG_OLD.replace('if err != nil {', 'if nil != err {'))),
 _cs('worker-closure-verify-guard-false-conjunct', 'flagged(early-exit/flag-only-on-success)', (_CL_VG_OLD, _CL_VG_OLD.replace('if err != nil {', 'if false && (err != nil) {'))),
 _vh('worker-verify-only-guard-false-conjunct', 'flagged(early-exit/flag-only-on-success)',
     ('\t\toutcome, err := verifier.Verify(ctx, artifactDescriptor, sigBlob, opts)\n\t\tif err != nil {\n', '\t\toutcome, err := verifier.Verify(ctx, artifactDescriptor, sigBlob, opts)\n\t\tif false && (err != nil) {\n')),
 _fv('worker-fv-guard-false-conjunct', 'flagged(early-exit/flag-only-on-success)',
     ('sigManifestDesc)\n\t\t\tif err != nil {\n\t\t\t\tif outcome == nil {\n', 'sigManifestDesc)\n\t\t\tif false && (err != nil) {\n\t\t\t\tif outcome == nil {\n'),
     why='Verify is called in a stateless worker that hands its results back; the weakened test is the one of the loop body on the worker\'s error'),
 _fv('worker-fv-guard-conjunct', 'flagged(early-exit/flag-only-on-success)',
     ('sigManifestDesc)\n\t\t\tif err != nil {\n\t\t\t\tif outcome == nil {\n', 'sigManifestDesc)\n\t\t\tif outcome != nil && err != nil {\n\t\t\t\tif outcome == nil {\n')),
]
