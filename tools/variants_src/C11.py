N = 'notation.go'
VARIANTS = [
 dict(name='F3-reintroduced', file=N, expect='flagged(ownership/)',
      find='''	if len(userMetadata) == 0 {
		return desc, nil
	}

	// never write into the annotations map of the descriptor handed in
	annotations := make(map[string]string, len(desc.Annotations)+len(userMetadata))
	for k, v := range desc.Annotations {
		annotations[k] = v
	}
	for k, v := range userMetadata {''', replace='''	annotations := desc.Annotations
	if annotations == nil && len(userMetadata) > 0 {
		annotations = map[string]string{}
	}
	for k, v := range userMetadata {'''),
 dict(name='metadata-map-aliased', file=N, expect='flagged(ownership/)',
      find='\tannotations := make(map[string]string, len(desc.Annotations)+len(userMetadata))\n', replace='\tannotations := userMetadata\n'),
 dict(name='subject-is-signed-descriptor', file=N, expect='flagged(provenance/push-subject)',
      find='_, sigManifestDesc, err = repo.PushSignature(ctx, signOpts.SignatureMediaType, sig, artifactManifestDesc, annotations)', replace='_, sigManifestDesc, err = repo.PushSignature(ctx, signOpts.SignatureMediaType, sig, descToSign, annotations)'),
 dict(name='sign-unmerged', file=N, expect='flagged(provenance/signed-descriptor)',
      find='sig, signerInfo, err := signer.Sign(ctx, descToSign, signOpts.SignerSignOptions)', replace='_ = descToSign\n\tsig, signerInfo, err := signer.Sign(ctx, artifactManifestDesc, signOpts.SignerSignOptions)'),
 dict(name='digest-check-dropped', file=N, expect='flagged(gate/digest-pinning)',
      find='\t\tif _, err := digest.Parse(artifactRef); err == nil {', replace='\t\tif _, err := digest.Parse(artifactRef); err == nil && len(signOpts.UserMetadata) > 0 {'),
 dict(name='digest-check-on-input', file=N, expect='flagged(gate/digest-pinning)',
      find='\t\tif _, err := digest.Parse(artifactRef); err == nil {', replace='\t\tif _, err := digest.Parse(signOpts.ArtifactReference); err == nil {'),
 dict(name='reserved-prefix-dropped', file=N, expect='flagged(merge/reserved-prefix)',
      find='\t\t\tif strings.HasPrefix(k, reservedPrefix) {', replace='\t\t\tif strings.HasPrefix(v, reservedPrefix) {'),
 dict(name='existing-key-overwritten', file=N, expect='flagged(merge/existing-key)',
      find='\t\tif _, ok := desc.Annotations[k]; ok {\n\t\t\treturn desc, fmt.Errorf("error adding user metadata: metadata key %v is already present in the target artifact", k)\n\t\t}\n', replace=''),
 dict(name='merge-error-ignored', file=N, expect='flagged(gate/metadata-merge)',
      find='\tdescToSign, err := addUserMetadataToDescriptor(ctx, artifactManifestDesc, signOpts.UserMetadata)\n\tif err != nil {\n\t\treturn ocispec.Descriptor{}, ocispec.Descriptor{}, err\n\t}',
      replace='\tdescToSign, err := addUserMetadataToDescriptor(ctx, artifactManifestDesc, signOpts.UserMetadata)\n\tif err != nil {\n\t\tlogger.Warn(err)\n\t}'),
 dict(name='thumbprint-leaf-only', file=N, expect='flagged(annotations/thumbprints)',
      find='\tfor _, cert := range signerInfo.CertificateChain {\n\t\tcheckSum := sha256.Sum256(cert.Raw)', replace='\tfor _, cert := range signerInfo.CertificateChain[:1] {\n\t\tcheckSum := sha256.Sum256(cert.Raw)'),
 dict(name='thumbprint-of-tbs', file=N, expect='flagged(annotations/thumbprints)',
      find='checkSum := sha256.Sum256(cert.Raw)', replace='checkSum := sha256.Sum256(cert.RawTBSCertificate)'),
 dict(name='created-now', file=N, expect='flagged(annotations/created)',
      find='annotations[ocispec.AnnotationCreated] = signingTime.Format(time.RFC3339)', replace='annotations[ocispec.AnnotationCreated] = time.Now().Format(time.RFC3339)\n\t_ = signingTime'),
 dict(name='double-push', file=N, expect='flagged(repository/only-resolve-and-push)',
      find='\tlogger.Debugf("Generated annotations: %+v", annotations)\n', replace='\tlogger.Debugf("Generated annotations: %+v", annotations)\n\tif _, _, err := repo.PushSignature(ctx, signOpts.SignatureMediaType, sig, artifactManifestDesc, nil); err != nil {\n\t\tlogger.Debug(err)\n\t}\n'),
 dict(name='options-map-written', file=N, expect='flagged(ownership/)',
      find='\tlogger := log.GetLogger(ctx)\n\tartifactRef := signOpts.ArtifactReference\n', replace='\tlogger := log.GetLogger(ctx)\n\tif signOpts.PluginConfig != nil {\n\t\tsignOpts.PluginConfig["notation.reference"] = signOpts.ArtifactReference\n\t}\n\tartifactRef := signOpts.ArtifactReference\n'),
 # benign
 dict(name='benign-maps-copy', file=N, expect='silent',
      find='\tannotations := make(map[string]string, len(desc.Annotations)+len(userMetadata))\n', replace='\tannotations := map[string]string{}\n'),
 dict(name='benign-annotations-local', file=N, expect='silent',
      find='\tif annotations == nil {\n\t\tannotations = make(map[string]string)\n\t}\n\tannotations[envelope.AnnotationX509ChainThumbprint] = string(val)',
      replace='\tif annotations == nil {\n\t\tannotations = make(map[string]string, 2)\n\t}\n\tannotations[envelope.AnnotationX509ChainThumbprint] = string(val)'),
 dict(name='signer-annotations-copied-over-computed', file=N, expect='flagged(annotations/computed-values-win)',
      find='\tannotations[ocispec.AnnotationCreated] = signingTime.Format(time.RFC3339)\n\treturn annotations, nil',
      replace='\tout := map[string]string{envelope.AnnotationX509ChainThumbprint: string(val)}\n\tout[ocispec.AnnotationCreated] = signingTime.Format(time.RFC3339)\n\tfor k, v := range annotations {\n\t\tout[k] = v\n\t}\n\treturn out, nil'),
 dict(name='created-only-when-absent', file=N, expect='flagged(annotations/computed-values-win)',
      find='\tannotations[ocispec.AnnotationCreated] = signingTime.Format(time.RFC3339)\n',
      replace='\tif _, ok := annotations[ocispec.AnnotationCreated]; !ok {\n\t\tannotations[ocispec.AnnotationCreated] = signingTime.Format(time.RFC3339)\n\t}\n'),
 dict(name='benign-annotations-fresh-map-copy-first', file=N, expect='silent',
      find='\tannotations[ocispec.AnnotationCreated] = signingTime.Format(time.RFC3339)\n\treturn annotations, nil',
      replace='\tout := make(map[string]string, len(annotations)+2)\n\tfor k, v := range annotations {\n\t\tout[k] = v\n\t}\n\tout[envelope.AnnotationX509ChainThumbprint] = string(val)\n\tout[ocispec.AnnotationCreated] = signingTime.Format(time.RFC3339)\n\treturn out, nil'),
]

# ---- shapes accepted after the generalisation of the C11 rules (each: one silent rewrite into the shape, mutants in the shape) ----

IMPORTS = '\t"io"\n\t"mime"\n\t"strings"\n'

def imp(*pkgs):
    # add standard-library imports to the import block (kept sorted is not required for loading)
    return (N, IMPORTS, IMPORTS + ''.join('\t"%s"\n' % p for p in pkgs))

RESOLVE_BLOCK = '''	artifactRef := signOpts.ArtifactReference
	if ref, err := orasRegistry.ParseReference(artifactRef); err == nil {
		// artifactRef is a valid full reference
		artifactRef = ref.Reference
	}
	artifactManifestDesc, err = repo.Resolve(ctx, artifactRef)
	if err != nil {
		return ocispec.Descriptor{}, ocispec.Descriptor{}, fmt.Errorf("failed to resolve reference: %w", err)
	}

	// artifactRef is a tag or a digest, if it's a digest it has to match
	// the resolved digest
	if artifactRef != artifactManifestDesc.Digest.String() {
		if _, err := digest.Parse(artifactRef); err == nil {
			// artifactRef is a digest, but does not match the resolved digest
			return ocispec.Descriptor{}, ocispec.Descriptor{}, fmt.Errorf("user input digest %s does not match the resolved digest %s", artifactRef, artifactManifestDesc.Digest.String())
		}

		// artifactRef is a tag
		logger.Warnf("Always sign the artifact using digest(`@sha256:...`) rather than a tag(`:%s`) because tags are mutable and a tag reference can point to a different artifact than the one signed", artifactRef)
		logger.Infof("Resolved artifact tag `%s` to digest `%v` before signing", artifactRef, artifactManifestDesc.Digest)
	}
'''

HELPER_CALL = '''	artifactManifestDesc, err = resolveSignTarget(ctx, logger, repo, signOpts.ArtifactReference)
	if err != nil {
		return ocispec.Descriptor{}, ocispec.Descriptor{}, err
	}
'''

def helper_fn(parse_arg='artifactRef', parse_extra='', ret='targetDesc'):
    return '''func resolveSignTarget(ctx context.Context, logger log.Logger, repo registry.Repository, reference string) (ocispec.Descriptor, error) {
	artifactRef := reference
	if ref, err := orasRegistry.ParseReference(artifactRef); err == nil {
		artifactRef = ref.Reference
	}
	targetDesc, err := repo.Resolve(ctx, artifactRef)
	if err != nil {
		return ocispec.Descriptor{}, fmt.Errorf("failed to resolve reference: %%w", err)
	}
	if artifactRef != targetDesc.Digest.String() {
		if _, err := digest.Parse(%s); err == nil%s {
			return ocispec.Descriptor{}, fmt.Errorf("user input digest %%s does not match the resolved digest %%s", artifactRef, targetDesc.Digest.String())
		}
		logger.Warnf("Always sign the artifact using digest rather than a tag(`:%%s`)", artifactRef)
		logger.Infof("Resolved artifact tag `%%s` to digest `%%v` before signing", artifactRef, targetDesc.Digest)
	}
	return %s, nil
}

func validateSignArguments(''' % (parse_arg, parse_extra, ret)

VSA = 'func validateSignArguments('

def helper(name, expect, call=HELPER_CALL, **kw):
    return dict(name=name, expect=expect, edits=[(N, RESOLVE_BLOCK, call), (N, VSA, helper_fn(**kw))])

RESERVED_LOOP = '''		for _, reservedPrefix := range reservedAnnotationPrefixes {
			if strings.HasPrefix(k, reservedPrefix) {
				return desc, fmt.Errorf("error adding user metadata: metadata key %v has reserved prefix %v", k, reservedPrefix)
			}
		}
'''

def index_loop(start='0', skip='continue'):
    return '''		for i := %s; i < len(reservedAnnotationPrefixes); i++ {
			if !strings.HasPrefix(k, reservedAnnotationPrefixes[i]) {
				%s
			}
			return desc, fmt.Errorf("error adding user metadata: metadata key %%v has reserved prefix %%v", k, reservedAnnotationPrefixes[i])
		}
''' % (start, skip)

def index_func(cond='i >= 0', pred='strings.HasPrefix(k, reservedPrefix)', lst='reservedAnnotationPrefixes[:]'):
    return '''		if i := slices.IndexFunc(%s, func(reservedPrefix string) bool {
			return %s
		}); %s {
			return desc, fmt.Errorf("error adding user metadata: metadata key %%v has reserved prefix", k)
		}
''' % (lst, pred, cond)

EXISTING = '''		if _, ok := desc.Annotations[k]; ok {
			return desc, fmt.Errorf("error adding user metadata: metadata key %v is already present in the target artifact", k)
		}
		annotations[k] = v
'''

def existing_inverted(cond='!ok'):
    return '''		if _, ok := desc.Annotations[k]; %s {
			annotations[k] = v
			continue
		}
		return desc, fmt.Errorf("error adding user metadata: metadata key %%v is already present in the target artifact", k)
''' % cond

COPY_LOOP = '''	for k, v := range desc.Annotations {
		annotations[k] = v
	}
'''

DIGEST_IF = '''	if artifactRef != artifactManifestDesc.Digest.String() {
		if _, err := digest.Parse(artifactRef); err == nil {
'''

def digest_typed(validate_arg='artifactRef'):
    return '''	if digest.Digest(artifactRef) != artifactManifestDesc.Digest {
		if digest.Digest(%s).Validate() == nil {
''' % validate_arg

DIGEST_WHOLE = RESOLVE_BLOCK[RESOLVE_BLOCK.index('\tif artifactRef != artifactManifestDesc.Digest.String() {'):]

def digest_switch(arm2='notDigestErr == nil'):
    return '''	_, notDigestErr := digest.Parse(artifactRef)
	switch {
	case artifactRef == artifactManifestDesc.Digest.String():
		// artifactRef is the resolved digest
	case %s:
		return ocispec.Descriptor{}, ocispec.Descriptor{}, fmt.Errorf("user input digest %%s does not match the resolved digest %%s", artifactRef, artifactManifestDesc.Digest.String())
	default:
		logger.Warnf("Always sign the artifact using digest rather than a tag(`:%%s`)", artifactRef)
	}
''' % arm2

HEX_LINE = '\t\tthumbprints = append(thumbprints, hex.EncodeToString(checkSum[:]))\n'
NO_HEX = (N, '\t"encoding/hex"\n', '')

def sprintf(fmtstr='%x', arg='checkSum', extra=''):
    return '\t\tthumbprints = append(thumbprints, fmt.Sprintf("%s", %s))\n%s' % (fmtstr, arg, extra)

# in-place merge (pointer to a copy of the resolved descriptor that the helper fills in)
MERGE_CALL = '''	descToSign, err := addUserMetadataToDescriptor(ctx, artifactManifestDesc, signOpts.UserMetadata)
	if err != nil {
		return ocispec.Descriptor{}, ocispec.Descriptor{}, err
	}
'''
INPLACE_CALL = '''	descToSign := artifactManifestDesc
	if err := addUserMetadata(ctx, &descToSign, signOpts.UserMetadata); err != nil {
		return ocispec.Descriptor{}, ocispec.Descriptor{}, err
	}
'''
MERGE_FN = '''func addUserMetadataToDescriptor(ctx context.Context, desc ocispec.Descriptor, userMetadata map[string]string) (ocispec.Descriptor, error) {
	logger := log.GetLogger(ctx)
	if len(userMetadata) == 0 {
		return desc, nil
	}

	// never write into the annotations map of the descriptor handed in
	annotations := make(map[string]string, len(desc.Annotations)+len(userMetadata))
''' + COPY_LOOP + '''	for k, v := range userMetadata {
		logger.Debugf("Adding metadata %v=%v to annotations", k, v)
''' + RESERVED_LOOP + EXISTING + '''	}
	desc.Annotations = annotations
	return desc, nil
}
'''

def inplace_fn(empty='len(userMetadata) == 0', make='make(map[string]string, len(desc.Annotations)+len(userMetadata))', copy=COPY_LOOP, extra=''):
    return '''func addUserMetadata(ctx context.Context, desc *ocispec.Descriptor, userMetadata map[string]string) error {
	logger := log.GetLogger(ctx)
	if %s {
		return nil
	}
	annotations := %s
%s	for k, v := range userMetadata {
		logger.Debugf("Adding metadata %%v=%%v to annotations", k, v)
		for _, reservedPrefix := range reservedAnnotationPrefixes {
			if strings.HasPrefix(k, reservedPrefix) {
				return fmt.Errorf("error adding user metadata: metadata key %%v has reserved prefix %%v", k, reservedPrefix)
			}
		}
		if _, ok := desc.Annotations[k]; ok {
			return fmt.Errorf("error adding user metadata: metadata key %%v is already present in the target artifact", k)
		}
		annotations[k] = v
	}
%s	desc.Annotations = annotations
	return nil
}
''' % (empty, make, copy, extra)

BLOB_CALL = '\t\treturn addUserMetadataToDescriptor(ctx, targetDesc, userMetadata)\n'
BLOB_INPLACE = '''		if err := addUserMetadata(ctx, &targetDesc, userMetadata); err != nil {
			return targetDesc, err
		}
		return targetDesc, nil
'''

def inplace(name, expect, call=INPLACE_CALL, **kw):
    return dict(name=name, expect=expect, edits=[(N, MERGE_CALL, call), (N, MERGE_FN, inplace_fn(**kw)), (N, BLOB_CALL, BLOB_INPLACE)])

GEN_SIG = 'func generateAnnotations(signerInfo *signature.SignerInfo, annotations map[string]string) (map[string]string, error) {'
GEN_SIG_SWAPPED = 'func generateAnnotations(annotations map[string]string, signerInfo *signature.SignerInfo) (map[string]string, error) {'
GEN_CALL = 'annotations, err := generateAnnotations(signerInfo, pluginAnnotations)'
GEN_CALL_SWAPPED = 'annotations, err := generateAnnotations(pluginAnnotations, signerInfo)'
SWAP = [(N, GEN_SIG, GEN_SIG_SWAPPED), (N, GEN_CALL, GEN_CALL_SWAPPED)]

PUSH = '\t_, sigManifestDesc, err = repo.PushSignature(ctx, signOpts.SignatureMediaType, sig, artifactManifestDesc, annotations)\n'

VARIANTS += [
 # S1: Resolve and the digest check live in a helper that returns the resolved descriptor
 helper('helper-resolve', 'silent'),
 helper('helper-resolve-digest-check-conditional', 'flagged(gate/digest-pinning)', parse_extra=' && logger != nil'),
 helper('helper-resolve-digest-check-on-input', 'flagged(gate/digest-pinning)', parse_arg='reference'),
 helper('helper-resolve-error-ignored', 'flagged(gate/resolve)',
        call='\tartifactManifestDesc, err = resolveSignTarget(ctx, logger, repo, signOpts.ArtifactReference)\n\tif err != nil {\n\t\tlogger.Warn(err)\n\t}\n'),
 helper('helper-resolve-returns-trimmed-descriptor', 'flagged(provenance/push-subject)',
        ret='ocispec.Descriptor{MediaType: targetDesc.MediaType, Digest: targetDesc.Digest, Size: targetDesc.Size}'),
 helper('helper-resolve-called-twice', 'flagged(repository/only-resolve-and-push)',
        call='\tif _, err := resolveSignTarget(ctx, logger, repo, signOpts.ArtifactReference); err != nil {\n\t\treturn ocispec.Descriptor{}, ocispec.Descriptor{}, err\n\t}\n' + HELPER_CALL),
 # S2: the reserved list is walked by an index loop with an inverted test; the existing-key test is inverted
 dict(name='reserved-index-loop', file=N, expect='silent', find=RESERVED_LOOP, replace=index_loop()),
 dict(name='reserved-index-loop-from-1', file=N, expect='flagged(merge/reserved-prefix)', find=RESERVED_LOOP, replace=index_loop(start='1')),
 dict(name='reserved-index-loop-break', file=N, expect='flagged(merge/reserved-prefix)', find=RESERVED_LOOP, replace=index_loop(skip='break')),
 dict(name='existing-key-inverted', file=N, expect='silent', find=EXISTING, replace=existing_inverted()),
 dict(name='existing-key-inverted-weakened', file=N, expect='flagged(merge/existing-key)', find=EXISTING, replace=existing_inverted('!ok || v != ""')),
 dict(name='digest-switch', file=N, expect='silent', find=DIGEST_WHOLE, replace=digest_switch()),
 dict(name='digest-switch-arm-weakened', file=N, expect='flagged(gate/digest-pinning)', find=DIGEST_WHOLE, replace=digest_switch('notDigestErr == nil && len(signOpts.UserMetadata) > 0')),
 # S3: digests compared as digest.Digest values, Validate() instead of Parse()
 dict(name='digest-typed-compare', file=N, expect='silent', find=DIGEST_IF, replace=digest_typed()),
 dict(name='digest-typed-validate-on-input', file=N, expect='flagged(gate/digest-pinning)', find=DIGEST_IF, replace=digest_typed('signOpts.ArtifactReference')),
 # S4: maps.Copy instead of the copy loop
 dict(name='maps-copy-annotations', expect='silent', edits=[imp('maps'), (N, COPY_LOOP, '\tmaps.Copy(annotations, desc.Annotations)\n')]),
 dict(name='maps-copy-into-descriptor', expect='flagged(ownership/)', edits=[imp('maps'), (N, COPY_LOOP, '\tmaps.Copy(annotations, desc.Annotations)\n\tif desc.Annotations != nil {\n\t\tmaps.Copy(desc.Annotations, userMetadata)\n\t}\n')]),
 dict(name='maps-copy-metadata-aliased', expect='flagged(ownership/)', edits=[imp('maps'),
      (N, '\tannotations := make(map[string]string, len(desc.Annotations)+len(userMetadata))\n' + COPY_LOOP, '\tannotations := userMetadata\n\tmaps.Copy(annotations, desc.Annotations)\n')]),
 dict(name='maps-copy-wrong-source', expect='flagged(merge/fresh-union)', edits=[imp('maps'), (N, COPY_LOOP, '\tmaps.Copy(annotations, userMetadata)\n')]),
 # S5: fmt.Sprintf("%x", sum) instead of hex.EncodeToString(sum[:])
 dict(name='thumbprint-sprintf-x', expect='silent', edits=[NO_HEX, (N, HEX_LINE, sprintf())]),
 dict(name='thumbprint-sprintf-upper', expect='flagged(annotations/thumbprints)', edits=[NO_HEX, (N, HEX_LINE, sprintf('%X'))]),
 dict(name='thumbprint-sprintf-of-certificate', expect='flagged(annotations/thumbprints)', edits=[NO_HEX, (N, HEX_LINE, sprintf('%x', 'cert.Raw', '\t\t_ = checkSum\n'))]),
 # S6: the merge fills in a copy of the resolved descriptor through a pointer
 inplace('merge-in-place', 'silent'),
 inplace('merge-in-place-on-resolved-descriptor', 'flagged(provenance/push-subject)',
         call='\tif err := addUserMetadata(ctx, &artifactManifestDesc, signOpts.UserMetadata); err != nil {\n\t\treturn ocispec.Descriptor{}, ocispec.Descriptor{}, err\n\t}\n\tdescToSign := artifactManifestDesc\n'),
 inplace('merge-in-place-copy-overwritten', 'flagged(provenance/signed-descriptor)', call=INPLACE_CALL + '\tdescToSign = artifactManifestDesc\n'),
 inplace('merge-in-place-writes-shared-map', 'flagged(ownership/)', make='desc.Annotations', copy='\tif annotations == nil {\n\t\tannotations = map[string]string{}\n\t}\n'),
 inplace('merge-in-place-touches-media-type', 'flagged(merge/)', extra='\tdesc.MediaType = strings.TrimSpace(desc.MediaType)\n'),
 inplace('merge-in-place-skips-large-metadata', 'flagged(merge/result)', empty='len(userMetadata) == 0 || len(userMetadata) > 16'),
 # S7: the annotation generator's parameters in the other order
 dict(name='generator-params-swapped', expect='silent', edits=SWAP),
 dict(name='generator-params-swapped-created-now', expect='flagged(annotations/created)', edits=SWAP + [
      (N, 'annotations[ocispec.AnnotationCreated] = signingTime.Format(time.RFC3339)', 'annotations[ocispec.AnnotationCreated] = time.Now().Format(time.RFC3339)\n\t_ = signingTime')]),
 dict(name='generator-params-swapped-thumbprint-of-tbs', expect='flagged(annotations/thumbprints)', edits=SWAP + [
      (N, 'checkSum := sha256.Sum256(cert.Raw)', 'checkSum := sha256.Sum256(cert.RawTBSCertificate)')]),
 # S8: slices.IndexFunc with a predicate closure that captures the key
 dict(name='reserved-indexfunc', expect='silent', edits=[imp('slices'), (N, RESERVED_LOOP, index_func())]),
 dict(name='reserved-indexfunc-first-element-passes', expect='flagged(merge/reserved-prefix)', edits=[imp('slices'), (N, RESERVED_LOOP, index_func(cond='i > 0'))]),
 dict(name='reserved-indexfunc-arguments-swapped', expect='flagged(merge/reserved-prefix)', edits=[imp('slices'), (N, RESERVED_LOOP, index_func(pred='strings.HasPrefix(reservedPrefix, k)'))]),
 dict(name='reserved-indexfunc-tail-of-list', expect='flagged(merge/reserved-prefix)', edits=[imp('slices'), (N, RESERVED_LOOP, index_func(lst='reservedAnnotationPrefixes[1:]'))]),
 dict(name='reserved-indexfunc-existing-check-on-value', expect='flagged(merge/existing-key)', edits=[imp('slices'), (N, RESERVED_LOOP, index_func()),
      (N, '\t\tif _, ok := desc.Annotations[k]; ok {\n', '\t\tif _, ok := desc.Annotations[v]; ok {\n')]),
 # clauses the re-anchored rules now decide on values (base shape)
 dict(name='resolved-descriptor-field-cleared-before-push', file=N, expect='flagged(provenance/push-subject)', find=PUSH, replace='\tartifactManifestDesc.Annotations = nil\n' + PUSH),
 dict(name='subject-variable-reassigned-to-signed-descriptor', file=N, expect='flagged(provenance/push-subject)', find=PUSH, replace='\tartifactManifestDesc = descToSign\n' + PUSH),
 dict(name='merge-skips-large-metadata', file=N, expect='flagged(merge/result)',
      find='\tif len(userMetadata) == 0 {\n\t\treturn desc, nil\n\t}\n', replace='\tif len(userMetadata) == 0 || len(userMetadata) > 16 {\n\t\treturn desc, nil\n\t}\n'),
 dict(name='merge-returns-rebuilt-descriptor', file=N, expect='flagged(merge/)',
      find='\tdesc.Annotations = annotations\n\treturn desc, nil\n', replace='\treturn ocispec.Descriptor{MediaType: desc.MediaType, Digest: desc.Digest, Size: desc.Size, Annotations: annotations}, nil\n'),
]
