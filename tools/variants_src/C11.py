N = 'notation.go'
VARIANTS = [
 dict(name='F3-reintroduced', file=N, expect='flagged(ownership/)',
      find='''	if len(userMetadata) == 0 {
		return desc, nil
	}

	// never write into the annotations map of the descriptor handed in
	annotations := make(map[string]string, len(desc.Annotations)+len(userMetadata))
	for k, v := range desc.Annotations {
		annotations[k] = v
	}
	for k, v := range userMetadata {''', replace='''	annotations := desc.Annotations
	if annotations == nil && len(userMetadata) > 0 {
		annotations = map[string]string{}
	}
	for k, v := range userMetadata {'''),
 dict(name='metadata-map-aliased', file=N, expect='flagged(ownership/)',
      find='\tannotations := make(map[string]string, len(desc.Annotations)+len(userMetadata))\n', replace='\tannotations := userMetadata\n'),
 dict(name='subject-is-signed-descriptor', file=N, expect='flagged(provenance/push-subject)',
      find='_, sigManifestDesc, err = repo.PushSignature(ctx, signOpts.SignatureMediaType, sig, artifactManifestDesc, annotations)', replace='_, sigManifestDesc, err = repo.PushSignature(ctx, signOpts.SignatureMediaType, sig, descToSign, annotations)'),
 dict(name='sign-unmerged', file=N, expect='flagged(provenance/signed-descriptor)',
      find='sig, signerInfo, err := signer.Sign(ctx, descToSign, signOpts.SignerSignOptions)', replace='_ = descToSign\n\tsig, signerInfo, err := signer.Sign(ctx, artifactManifestDesc, signOpts.SignerSignOptions)'),
 dict(name='digest-check-dropped', file=N, expect='flagged(gate/digest-pinning)',
      find='\t\tif _, err := digest.Parse(artifactRef); err == nil {', replace='\t\tif _, err := digest.Parse(artifactRef); err == nil && len(signOpts.UserMetadata) > 0 {'),
 dict(name='digest-check-on-input', file=N, expect='flagged(gate/digest-pinning)',
      find='\t\tif _, err := digest.Parse(artifactRef); err == nil {', replace='\t\tif _, err := digest.Parse(signOpts.ArtifactReference); err == nil {'),
 dict(name='reserved-prefix-dropped', file=N, expect='flagged(merge/reserved-prefix)',
      find='\t\t\tif strings.HasPrefix(k, reservedPrefix) {', replace='\t\t\tif strings.HasPrefix(v, reservedPrefix) {'),
 dict(name='existing-key-overwritten', file=N, expect='flagged(merge/existing-key)',
      find='\t\tif _, ok := desc.Annotations[k]; ok {\n\t\t\treturn desc, fmt.Errorf("error adding user metadata: metadata key %v is already present in the target artifact", k)\n\t\t}\n', replace=''),
 dict(name='merge-error-ignored', file=N, expect='flagged(gate/metadata-merge)',
      find='\tdescToSign, err := addUserMetadataToDescriptor(ctx, artifactManifestDesc, signOpts.UserMetadata)\n\tif err != nil {\n\t\treturn ocispec.Descriptor{}, ocispec.Descriptor{}, err\n\t}',
      replace='\tdescToSign, err := addUserMetadataToDescriptor(ctx, artifactManifestDesc, signOpts.UserMetadata)\n\tif err != nil {\n\t\tlogger.Warn(err)\n\t}'),
 dict(name='thumbprint-leaf-only', file=N, expect='flagged(annotations/thumbprints)',
      find='\tfor _, cert := range signerInfo.CertificateChain {\n\t\tcheckSum := sha256.Sum256(cert.Raw)', replace='\tfor _, cert := range signerInfo.CertificateChain[:1] {\n\t\tcheckSum := sha256.Sum256(cert.Raw)'),
 dict(name='thumbprint-of-tbs', file=N, expect='flagged(annotations/thumbprints)',
      find='checkSum := sha256.Sum256(cert.Raw)', replace='checkSum := sha256.Sum256(cert.RawTBSCertificate)'),
 dict(name='created-now', file=N, expect='flagged(annotations/created)',
      find='annotations[ocispec.AnnotationCreated] = signingTime.Format(time.RFC3339)', replace='annotations[ocispec.AnnotationCreated] = time.Now().Format(time.RFC3339)\n\t_ = signingTime'),
 dict(name='double-push', file=N, expect='flagged(repository/only-resolve-and-push)',
      find='\tlogger.Debugf("Generated annotations: %+v", annotations)\n', replace='\tlogger.Debugf("Generated annotations: %+v", annotations)\n\tif _, _, err := repo.PushSignature(ctx, signOpts.SignatureMediaType, sig, artifactManifestDesc, nil); err != nil {\n\t\tlogger.Debug(err)\n\t}\n'),
 dict(name='options-map-written', file=N, expect='flagged(ownership/)',
      find='\tlogger := log.GetLogger(ctx)\n\tartifactRef := signOpts.ArtifactReference\n', replace='\tlogger := log.GetLogger(ctx)\n\tif signOpts.PluginConfig != nil {\n\t\tsignOpts.PluginConfig["notation.reference"] = signOpts.ArtifactReference\n\t}\n\tartifactRef := signOpts.ArtifactReference\n'),
 # benign
 dict(name='benign-maps-copy', file=N, expect='silent',
      find='\tannotations := make(map[string]string, len(desc.Annotations)+len(userMetadata))\n', replace='\tannotations := map[string]string{}\n'),
 dict(name='benign-annotations-local', file=N, expect='silent',
      find='\tif annotations == nil {\n\t\tannotations = make(map[string]string)\n\t}\n\tannotations[envelope.AnnotationX509ChainThumbprint] = string(val)',
      replace='\tif annotations == nil {\n\t\tannotations = make(map[string]string, 2)\n\t}\n\tannotations[envelope.AnnotationX509ChainThumbprint] = string(val)'),
 dict(name='signer-annotations-copied-over-computed', file=N, expect='flagged(annotations/computed-values-win)',
      find='\tannotations[ocispec.AnnotationCreated] = signingTime.Format(time.RFC3339)\n\treturn annotations, nil',
      replace='\tout := map[string]string{envelope.AnnotationX509ChainThumbprint: string(val)}\n\tout[ocispec.AnnotationCreated] = signingTime.Format(time.RFC3339)\n\tfor k, v := range annotations {\n\t\tout[k] = v\n\t}\n\treturn out, nil'),
 dict(name='created-only-when-absent', file=N, expect='flagged(annotations/computed-values-win)',
      find='\tannotations[ocispec.AnnotationCreated] = signingTime.Format(time.RFC3339)\n',
      replace='\tif _, ok := annotations[ocispec.AnnotationCreated]; !ok {\n\t\tannotations[ocispec.AnnotationCreated] = signingTime.Format(time.RFC3339)\n\t}\n'),
 dict(name='benign-annotations-fresh-map-copy-first', file=N, expect='silent',
      find='\tannotations[ocispec.AnnotationCreated] = signingTime.Format(time.RFC3339)\n\treturn annotations, nil',
      replace='\tout := make(map[string]string, len(annotations)+2)\n\tfor k, v := range annotations {\n\t\tout[k] = v\n\t}\n\tout[envelope.AnnotationX509ChainThumbprint] = string(val)\n\tout[ocispec.AnnotationCreated] = signingTime.Format(time.RFC3339)\n\treturn out, nil'),
]
