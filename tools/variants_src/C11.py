N = 'notation.go'
VARIANTS = [
 dict(name='F3-reintroduced', file=N, expect='flagged(ownership/)',
      find='''	if len(userMetadata) == 0 {
		return desc, nil
	}

	// never write into the annotations map of the descriptor handed in
	annotations := make(map[string]string, len(desc.Annotations)+len(userMetadata))
	for k, v := range desc.Annotations {
		annotations[k] = v
	}
	for k, v := range userMetadata {''', replace='''	annotations := desc.Annotations
	if annotations == nil && len(userMetadata) > 0 {
		annotations = map[string]string{}
	}
	for k, v := range userMetadata {'''),
 dict(name='metadata-map-aliased', file=N, expect='flagged(ownership/)',
      find='\tannotations := make(map[string]string, len(desc.Annotations)+len(userMetadata))\n', replace='\tannotations := userMetadata\n'),
 dict(name='subject-is-signed-descriptor', file=N, expect='flagged(provenance/push-subject)',
      find='_, sigManifestDesc, err = repo.PushSignature(ctx, signOpts.SignatureMediaType, sig, artifactManifestDesc, annotations)', replace='_, sigManifestDesc, err = repo.PushSignature(ctx, signOpts.SignatureMediaType, sig, descToSign, annotations)'),
 dict(name='sign-unmerged', file=N, expect='flagged(provenance/signed-descriptor)',
      find='sig, signerInfo, err := signer.Sign(ctx, descToSign, signOpts.SignerSignOptions)', replace='_ = descToSign\n\tsig, signerInfo, err := signer.Sign(ctx, artifactManifestDesc, signOpts.SignerSignOptions)'),
 dict(name='digest-check-dropped', file=N, expect='flagged(gate/digest-pinning)',
      find='\t\tif _, err := digest.Parse(artifactRef); err == nil {', replace='\t\tif _, err := digest.Parse(artifactRef); err == nil && len(signOpts.UserMetadata) > 0 {'),
 dict(name='digest-check-on-input', file=N, expect='flagged(gate/digest-pinning)',
      find='\t\tif _, err := digest.Parse(artifactRef); err == nil {', replace='\t\tif _, err := digest.Parse(signOpts.ArtifactReference); err == nil {'),
 dict(name='reserved-prefix-dropped', file=N, expect='flagged(merge/reserved-prefix)',
      find='\t\t\tif strings.HasPrefix(k, reservedPrefix) {', replace='\t\t\tif strings.HasPrefix(v, reservedPrefix) {'),
 dict(name='existing-key-overwritten', file=N, expect='flagged(merge/existing-key)',
      find='\t\tif _, ok := desc.Annotations[k]; ok {\n\t\t\treturn desc, fmt.Errorf("error adding user metadata: metadata key %v is already present in the target artifact", k)\n\t\t}\n', replace=''),
 dict(name='merge-error-ignored', file=N, expect='flagged(gate/metadata-merge)',
      find='\tdescToSign, err := addUserMetadataToDescriptor(ctx, artifactManifestDesc, signOpts.UserMetadata)\n\tif err != nil {\n\t\treturn ocispec.Descriptor{}, ocispec.Descriptor{}, err\n\t}',
      replace='\tdescToSign, err := addUserMetadataToDescriptor(ctx, artifactManifestDesc, signOpts.UserMetadata)\n\tif err != nil {\n\t\tlogger.Warn(err)\n\t}'),
 dict(name='thumbprint-leaf-only', file=N, expect='flagged(annotations/thumbprints)',
      find='\tfor _, cert := range signerInfo.CertificateChain {\n\t\tcheckSum := sha256.Sum256(cert.Raw)', replace='\tfor _, cert := range signerInfo.CertificateChain[:1] {\n\t\tcheckSum := sha256.Sum256(cert.Raw)'),
 dict(name='thumbprint-of-tbs', file=N, expect='flagged(annotations/thumbprints)',
      find='checkSum := sha256.Sum256(cert.Raw)', replace='checkSum := sha256.Sum256(cert.RawTBSCertificate)'),
 dict(name='created-now', file=N, expect='flagged(annotations/created)',
      find='annotations[ocispec.AnnotationCreated] = signingTime.Format(time.RFC3339)', replace='annotations[ocispec.AnnotationCreated] = time.Now().Format(time.RFC3339)\n\t_ = signingTime'),
 dict(name='double-push', file=N, expect='flagged(repository/only-resolve-and-push)',
      find='\tlogger.Debugf("Generated annotations: %+v", annotations)\n', replace='\tlogger.Debugf("Generated annotations: %+v", annotations)\n\tif _, _, err := repo.PushSignature(ctx, signOpts.SignatureMediaType, sig, artifactManifestDesc, nil); err != nil {\n\t\tlogger.Debug(err)\n\t}\n'),
 dict(name='options-map-written', file=N, expect='flagged(ownership/)',
      find='\tlogger := log.GetLogger(ctx)\n\tartifactRef := signOpts.ArtifactReference\n', replace='\tlogger := log.GetLogger(ctx)\n\tif signOpts.PluginConfig != nil {\n\t\tsignOpts.PluginConfig["notation.reference"] = signOpts.ArtifactReference\n\t}\n\tartifactRef := signOpts.ArtifactReference\n'),
 # benign
 dict(name='benign-maps-copy', file=N, expect='silent',
      find='\tannotations := make(map[string]string, len(desc.Annotations)+len(userMetadata))\n', replace='\tannotations := map[string]string{}\n'),
 dict(name='benign-annotations-local', file=N, expect='silent',
      find='\tif annotations == nil {\n\t\tannotations = make(map[string]string)\n\t}\n\tannotations[envelope.AnnotationX509ChainThumbprint] = string(val)',
      replace='\tif annotations == nil {\n\t\tannotations = make(map[string]string, 2)\n\t}\n\tannotations[envelope.AnnotationX509ChainThumbprint] = string(val)'),
 dict(name='signer-annotations-copied-over-computed', file=N, expect='flagged(annotations/computed-values-win)',
      find='\tannotations[ocispec.AnnotationCreated] = signingTime.Format(time.RFC3339)\n\treturn annotations, nil',
      replace='\tout := map[string]string{envelope.AnnotationX509ChainThumbprint: string(val)}\n\tout[ocispec.AnnotationCreated] = signingTime.Format(time.RFC3339)\n\tfor k, v := range annotations {\n\t\tout[k] = v\n\t}\n\treturn out, nil'),
 dict(name='created-only-when-absent', file=N, expect='flagged(annotations/computed-values-win)',
      find='\tannotations[ocispec.AnnotationCreated] = signingTime.Format(time.RFC3339)\n',
      replace='\tif _, ok := annotations[ocispec.AnnotationCreated]; !ok {\n\t\tannotations[ocispec.AnnotationCreated] = signingTime.Format(time.RFC3339)\n\t}\n'),
 dict(name='benign-annotations-fresh-map-copy-first', file=N, expect='silent',
      find='\tannotations[ocispec.AnnotationCreated] = signingTime.Format(time.RFC3339)\n\treturn annotations, nil',
      replace='\tout := make(map[string]string, len(annotations)+2)\n\tfor k, v := range annotations {\n\t\tout[k] = v\n\t}\n\tout[envelope.AnnotationX509ChainThumbprint] = string(val)\n\tout[ocispec.AnnotationCreated] = signingTime.Format(time.RFC3339)\n\treturn out, nil'),
]

# ---- shapes accepted after the generalisation of the C11 rules (each: one silent rewrite into the shape, mutants in the shape) ----

IMPORTS = '\t"io"\n\t"mime"\n\t"strings"\n'

def imp(*pkgs):
    # add standard-library imports to the import block (kept sorted is not required for loading)
    return (N, IMPORTS, IMPORTS + ''.join('\t"%s"\n' % p for p in pkgs))

RESOLVE_BLOCK = '''	artifactRef := signOpts.ArtifactReference
	if ref, err := orasRegistry.ParseReference(artifactRef); err == nil {
		// artifactRef is a valid full reference
		artifactRef = ref.Reference
	}
	artifactManifestDesc, err = repo.Resolve(ctx, artifactRef)
	if err != nil {
		return ocispec.Descriptor{}, ocispec.Descriptor{}, fmt.Errorf("failed to resolve reference: %w", err)
	}

	// artifactRef is a tag or a digest, if it's a digest it has to match
	// the resolved digest
	if artifactRef != artifactManifestDesc.Digest.String() {
		if _, err := digest.Parse(artifactRef); err == nil {
			// artifactRef is a digest, but does not match the resolved digest
			return ocispec.Descriptor{}, ocispec.Descriptor{}, fmt.Errorf("user input digest %s does not match the resolved digest %s", artifactRef, artifactManifestDesc.Digest.String())
		}

		// artifactRef is a tag
		logger.Warnf("Always sign the artifact using digest(`@sha256:...`) rather than a tag(`:%s`) because tags are mutable and a tag reference can point to a different artifact than the one signed", artifactRef)
		logger.Infof("Resolved artifact tag `%s` to digest `%v` before signing", artifactRef, artifactManifestDesc.Digest)
	}
'''

HELPER_CALL = '''	artifactManifestDesc, err = resolveSignTarget(ctx, logger, repo, signOpts.ArtifactReference)
	if err != nil {
		return ocispec.Descriptor{}, ocispec.Descriptor{}, err
	}
'''

def helper_fn(parse_arg='artifactRef', parse_extra='', ret='targetDesc'):
    return '''func resolveSignTarget(ctx context.Context, logger log.Logger, repo registry.Repository, reference string) (ocispec.Descriptor, error) {
	artifactRef := reference
	if ref, err := orasRegistry.ParseReference(artifactRef); err == nil {
		artifactRef = ref.Reference
	}
	targetDesc, err := repo.Resolve(ctx, artifactRef)
	if err != nil {
		return ocispec.Descriptor{}, fmt.Errorf("failed to resolve reference: %%w", err)
	}
	if artifactRef != targetDesc.Digest.String() {
		if _, err := digest.Parse(%s); err == nil%s {
			return ocispec.Descriptor{}, fmt.Errorf("user input digest %%s does not match the resolved digest %%s", artifactRef, targetDesc.Digest.String())
		}
		logger.Warnf("Always sign the artifact using digest rather than a tag(`:%%s`)", artifactRef)
		logger.Infof("Resolved artifact tag `%%s` to digest `%%v` before signing", artifactRef, targetDesc.Digest)
	}
	return %s, nil
}

func validateSignArguments(''' % (parse_arg, parse_extra, ret)

VSA = 'func validateSignArguments('

def helper(name, expect, call=HELPER_CALL, **kw):
    return dict(name=name, expect=expect, edits=[(N, RESOLVE_BLOCK, call), (N, VSA, helper_fn(**kw))])

RESERVED_LOOP = '''		for _, reservedPrefix := range reservedAnnotationPrefixes {
			if strings.HasPrefix(k, reservedPrefix) {
				return desc, fmt.Errorf("error adding user metadata: metadata key %v has reserved prefix %v", k, reservedPrefix)
			}
		}
'''

def index_loop(start='0', skip='continue'):
    return '''		for i := %s; i < len(reservedAnnotationPrefixes); i++ {
			if !strings.HasPrefix(k, reservedAnnotationPrefixes[i]) {
				%s
			}
			return desc, fmt.Errorf("error adding user metadata: metadata key %%v has reserved prefix %%v", k, reservedAnnotationPrefixes[i])
		}
''' % (start, skip)

def index_func(cond='i >= 0', pred='strings.HasPrefix(k, reservedPrefix)', lst='reservedAnnotationPrefixes[:]'):
    return '''		if i := slices.IndexFunc(%s, func(reservedPrefix string) bool {
			return %s
		}); %s {
			return desc, fmt.Errorf("error adding user metadata: metadata key %%v has reserved prefix", k)
		}
''' % (lst, pred, cond)

EXISTING = '''		if _, ok := desc.Annotations[k]; ok {
			return desc, fmt.Errorf("error adding user metadata: metadata key %v is already present in the target artifact", k)
		}
		annotations[k] = v
'''

def existing_inverted(cond='!ok'):
    return '''		if _, ok := desc.Annotations[k]; %s {
			annotations[k] = v
			continue
		}
		return desc, fmt.Errorf("error adding user metadata: metadata key %%v is already present in the target artifact", k)
''' % cond

COPY_LOOP = '''	for k, v := range desc.Annotations {
		annotations[k] = v
	}
'''

DIGEST_IF = '''	if artifactRef != artifactManifestDesc.Digest.String() {
		if _, err := digest.Parse(artifactRef); err == nil {
'''

def digest_typed(validate_arg='artifactRef'):
    return '''	if digest.Digest(artifactRef) != artifactManifestDesc.Digest {
		if digest.Digest(%s).Validate() == nil {
''' % validate_arg

DIGEST_WHOLE = RESOLVE_BLOCK[RESOLVE_BLOCK.index('\tif artifactRef != artifactManifestDesc.Digest.String() {'):]

def digest_switch(arm2='notDigestErr == nil'):
    return '''	_, notDigestErr := digest.Parse(artifactRef)
	switch {
	case artifactRef == artifactManifestDesc.Digest.String():
		// artifactRef is the resolved digest
	case %s:
		return ocispec.Descriptor{}, ocispec.Descriptor{}, fmt.Errorf("user input digest %%s does not match the resolved digest %%s", artifactRef, artifactManifestDesc.Digest.String())
	default:
		logger.Warnf("Always sign the artifact using digest rather than a tag(`:%%s`)", artifactRef)
	}
''' % arm2

HEX_LINE = '\t\tthumbprints = append(thumbprints, hex.EncodeToString(checkSum[:]))\n'
NO_HEX = (N, '\t"encoding/hex"\n', '')

def sprintf(fmtstr='%x', arg='checkSum', extra=''):
    return '\t\tthumbprints = append(thumbprints, fmt.Sprintf("%s", %s))\n%s' % (fmtstr, arg, extra)

# in-place merge (pointer to a copy of the resolved descriptor that the helper fills in)
MERGE_CALL = '''	descToSign, err := addUserMetadataToDescriptor(ctx, artifactManifestDesc, signOpts.UserMetadata)
	if err != nil {
		return ocispec.Descriptor{}, ocispec.Descriptor{}, err
	}
'''
INPLACE_CALL = '''	descToSign := artifactManifestDesc
	if err := addUserMetadata(ctx, &descToSign, signOpts.UserMetadata); err != nil {
		return ocispec.Descriptor{}, ocispec.Descriptor{}, err
	}
'''
MERGE_FN = '''func addUserMetadataToDescriptor(ctx context.Context, desc ocispec.Descriptor, userMetadata map[string]string) (ocispec.Descriptor, error) {
	logger := log.GetLogger(ctx)
	if len(userMetadata) == 0 {
		return desc, nil
	}

	// never write into the annotations map of the descriptor handed in
	annotations := make(map[string]string, len(desc.Annotations)+len(userMetadata))
''' + COPY_LOOP + '''	for k, v := range userMetadata {
		logger.Debugf("Adding metadata %v=%v to annotations", k, v)
''' + RESERVED_LOOP + EXISTING + '''	}
	desc.Annotations = annotations
	return desc, nil
}
'''

def inplace_fn(empty='len(userMetadata) == 0', make='make(map[string]string, len(desc.Annotations)+len(userMetadata))', copy=COPY_LOOP, extra=''):
    return '''func addUserMetadata(ctx context.Context, desc *ocispec.Descriptor, userMetadata map[string]string) error {
	logger := log.GetLogger(ctx)
	if %s {
		return nil
	}
	annotations := %s
%s	for k, v := range userMetadata {
		logger.Debugf("Adding metadata %%v=%%v to annotations", k, v)
		for _, reservedPrefix := range reservedAnnotationPrefixes {
			if strings.HasPrefix(k, reservedPrefix) {
				return fmt.Errorf("error adding user metadata: metadata key %%v has reserved prefix %%v", k, reservedPrefix)
			}
		}
		if _, ok := desc.Annotations[k]; ok {
			return fmt.Errorf("error adding user metadata: metadata key %%v is already present in the target artifact", k)
		}
		annotations[k] = v
	}
%s	desc.Annotations = annotations
	return nil
}
''' % (empty, make, copy, extra)

BLOB_CALL = '\t\treturn addUserMetadataToDescriptor(ctx, targetDesc, userMetadata)\n'
BLOB_INPLACE = '''		if err := addUserMetadata(ctx, &targetDesc, userMetadata); err != nil {
			return targetDesc, err
		}
		return targetDesc, nil
'''

def inplace(name, expect, call=INPLACE_CALL, **kw):
    return dict(name=name, expect=expect, edits=[(N, MERGE_CALL, call), (N, MERGE_FN, inplace_fn(**kw)), (N, BLOB_CALL, BLOB_INPLACE)])

GEN_SIG = 'func generateAnnotations(signerInfo *signature.SignerInfo, annotations map[string]string) (map[string]string, error) {'
GEN_SIG_SWAPPED = 'func generateAnnotations(annotations map[string]string, signerInfo *signature.SignerInfo) (map[string]string, error) {'
GEN_CALL = 'annotations, err := generateAnnotations(signerInfo, pluginAnnotations)'
GEN_CALL_SWAPPED = 'annotations, err := generateAnnotations(pluginAnnotations, signerInfo)'
SWAP = [(N, GEN_SIG, GEN_SIG_SWAPPED), (N, GEN_CALL, GEN_CALL_SWAPPED)]

PUSH = '\t_, sigManifestDesc, err = repo.PushSignature(ctx, signOpts.SignatureMediaType, sig, artifactManifestDesc, annotations)\n'

VARIANTS += [
 # S1: Resolve and the digest check live in a helper that returns the resolved descriptor
 helper('helper-resolve', 'silent'),
 helper('helper-resolve-digest-check-conditional', 'flagged(gate/digest-pinning)', parse_extra=' && logger != nil'),
 helper('helper-resolve-digest-check-on-input', 'flagged(gate/digest-pinning)', parse_arg='reference'),
 helper('helper-resolve-error-ignored', 'flagged(gate/resolve)',
        call='\tartifactManifestDesc, err = resolveSignTarget(ctx, logger, repo, signOpts.ArtifactReference)\n\tif err != nil {\n\t\tlogger.Warn(err)\n\t}\n'),
 helper('helper-resolve-returns-trimmed-descriptor', 'flagged(provenance/push-subject)',
        ret='ocispec.Descriptor{MediaType: targetDesc.MediaType, Digest: targetDesc.Digest, Size: targetDesc.Size}'),
 helper('helper-resolve-called-twice', 'flagged(repository/only-resolve-and-push)',
        call='\tif _, err := resolveSignTarget(ctx, logger, repo, signOpts.ArtifactReference); err != nil {\n\t\treturn ocispec.Descriptor{}, ocispec.Descriptor{}, err\n\t}\n' + HELPER_CALL),
 # S2: the reserved list is walked by an index loop with an inverted test; the existing-key test is inverted
 dict(name='reserved-index-loop', file=N, expect='silent', find=RESERVED_LOOP, replace=index_loop()),
 dict(name='reserved-index-loop-from-1', file=N, expect='flagged(merge/reserved-prefix)', find=RESERVED_LOOP, replace=index_loop(start='1')),
 dict(name='reserved-index-loop-break', file=N, expect='flagged(merge/reserved-prefix)', find=RESERVED_LOOP, replace=index_loop(skip='break')),
 dict(name='existing-key-inverted', file=N, expect='silent', find=EXISTING, replace=existing_inverted()),
 dict(name='existing-key-inverted-weakened', file=N, expect='flagged(merge/existing-key)', find=EXISTING, replace=existing_inverted('!ok || v != ""')),
 dict(name='digest-switch', file=N, expect='silent', find=DIGEST_WHOLE, replace=digest_switch()),
 dict(name='digest-switch-arm-weakened', file=N, expect='flagged(gate/digest-pinning)', find=DIGEST_WHOLE, replace=digest_switch('notDigestErr == nil && len(signOpts.UserMetadata) > 0')),
 # S3: digests compared as digest.Digest values, Validate() instead of Parse()
 dict(name='digest-typed-compare', file=N, expect='silent', find=DIGEST_IF, replace=digest_typed()),
 dict(name='digest-typed-validate-on-input', file=N, expect='flagged(gate/digest-pinning)', find=DIGEST_IF, replace=digest_typed('signOpts.ArtifactReference')),
 # S4: maps.Copy instead of the copy loop
 dict(name='maps-copy-annotations', expect='silent', edits=[imp('maps'), (N, COPY_LOOP, '\tmaps.Copy(annotations, desc.Annotations)\n')]),
 dict(name='maps-copy-into-descriptor', expect='flagged(ownership/)', edits=[imp('maps'), (N, COPY_LOOP, '\tmaps.Copy(annotations, desc.Annotations)\n\tif desc.Annotations != nil {\n\t\tmaps.Copy(desc.Annotations, userMetadata)\n\t}\n')]),
 dict(name='maps-copy-metadata-aliased', expect='flagged(ownership/)', edits=[imp('maps'),
      (N, '\tannotations := make(map[string]string, len(desc.Annotations)+len(userMetadata))\n' + COPY_LOOP, '\tannotations := userMetadata\n\tmaps.Copy(annotations, desc.Annotations)\n')]),
 dict(name='maps-copy-wrong-source', expect='flagged(merge/fresh-union)', edits=[imp('maps'), (N, COPY_LOOP, '\tmaps.Copy(annotations, userMetadata)\n')]),
 # S5: fmt.Sprintf("%x", sum) instead of hex.EncodeToString(sum[:])
 dict(name='thumbprint-sprintf-x', expect='silent', edits=[NO_HEX, (N, HEX_LINE, sprintf())]),
 dict(name='thumbprint-sprintf-upper', expect='flagged(annotations/thumbprints)', edits=[NO_HEX, (N, HEX_LINE, sprintf('%X'))]),
 dict(name='thumbprint-sprintf-of-certificate', expect='flagged(annotations/thumbprints)', edits=[NO_HEX, (N, HEX_LINE, sprintf('%x', 'cert.Raw', '\t\t_ = checkSum\n'))]),
 # S6: the merge fills in a copy of the resolved descriptor through a pointer
 inplace('merge-in-place', 'silent'),
 inplace('merge-in-place-on-resolved-descriptor', 'flagged(provenance/push-subject)',
         call='\tif err := addUserMetadata(ctx, &artifactManifestDesc, signOpts.UserMetadata); err != nil {\n\t\treturn ocispec.Descriptor{}, ocispec.Descriptor{}, err\n\t}\n\tdescToSign := artifactManifestDesc\n'),
 inplace('merge-in-place-copy-overwritten', 'flagged(provenance/signed-descriptor)', call=INPLACE_CALL + '\tdescToSign = artifactManifestDesc\n'),
 inplace('merge-in-place-writes-shared-map', 'flagged(ownership/)', make='desc.Annotations', copy='\tif annotations == nil {\n\t\tannotations = map[string]string{}\n\t}\n'),
 inplace('merge-in-place-touches-media-type', 'flagged(merge/)', extra='\tdesc.MediaType = strings.TrimSpace(desc.MediaType)\n'),
 inplace('merge-in-place-skips-large-metadata', 'flagged(merge/result)', empty='len(userMetadata) == 0 || len(userMetadata) > 16'),
 # S7: the annotation generator's parameters in the other order
 dict(name='generator-params-swapped', expect='silent', edits=SWAP),
 dict(name='generator-params-swapped-created-now', expect='flagged(annotations/created)', edits=SWAP + [
      (N, 'annotations[ocispec.AnnotationCreated] = signingTime.Format(time.RFC3339)', 'annotations[ocispec.AnnotationCreated] = time.Now().Format(time.RFC3339)\n\t_ = signingTime')]),
 dict(name='generator-params-swapped-thumbprint-of-tbs', expect='flagged(annotations/thumbprints)', edits=SWAP + [
      (N, 'checkSum := sha256.Sum256(cert.Raw)', 'checkSum := sha256.Sum256(cert.RawTBSCertificate)')]),
 # S8: slices.IndexFunc with a predicate closure that captures the key
 dict(name='reserved-indexfunc', expect='silent', edits=[imp('slices'), (N, RESERVED_LOOP, index_func())]),
 dict(name='reserved-indexfunc-first-element-passes', expect='flagged(merge/reserved-prefix)', edits=[imp('slices'), (N, RESERVED_LOOP, index_func(cond='i > 0'))]),
 dict(name='reserved-indexfunc-arguments-swapped', expect='flagged(merge/reserved-prefix)', edits=[imp('slices'), (N, RESERVED_LOOP, index_func(pred='strings.HasPrefix(reservedPrefix, k)'))]),
 dict(name='reserved-indexfunc-tail-of-list', expect='flagged(merge/reserved-prefix)', edits=[imp('slices'), (N, RESERVED_LOOP, index_func(lst='reservedAnnotationPrefixes[1:]'))]),
 dict(name='reserved-indexfunc-existing-check-on-value', expect='flagged(merge/existing-key)', edits=[imp('slices'), (N, RESERVED_LOOP, index_func()),
      (N, '\t\tif _, ok := desc.Annotations[k]; ok {\n', '\t\tif _, ok := desc.Annotations[v]; ok {\n')]),
 # clauses the re-anchored rules now decide on values (base shape)
 dict(name='resolved-descriptor-field-cleared-before-push', file=N, expect='flagged(provenance/push-subject)', find=PUSH, replace='\tartifactManifestDesc.Annotations = nil\n' + PUSH),
 dict(name='subject-variable-reassigned-to-signed-descriptor', file=N, expect='flagged(provenance/push-subject)', find=PUSH, replace='\tartifactManifestDesc = descToSign\n' + PUSH),
 dict(name='merge-skips-large-metadata', file=N, expect='flagged(merge/result)',
      find='\tif len(userMetadata) == 0 {\n\t\treturn desc, nil\n\t}\n', replace='\tif len(userMetadata) == 0 || len(userMetadata) > 16 {\n\t\treturn desc, nil\n\t}\n'),
 dict(name='merge-returns-rebuilt-descriptor', file=N, expect='flagged(merge/)',
      find='\tdesc.Annotations = annotations\n\treturn desc, nil\n', replace='\treturn ocispec.Descriptor{MediaType: desc.MediaType, Digest: desc.Digest, Size: desc.Size, Annotations: annotations}, nil\n'),
]

# ---- second pass: shapes accepted by CLASS (facts decided across helpers, roles carried by arguments) ----

DIGEST_INNER = '\t\tif _, err := digest.Parse(artifactRef); err == nil {\n'

def with_fn(fn):
    # add an unexported function in front of validateSignArguments
    return (N, VSA, fn + '\n' + VSA)

IS_DIGEST = '''func isDigestText(s string) bool {
	_, err := digest.Parse(s)
	return err == nil
}
'''
IS_DIGEST_GUARD = '''func isDigestText(s string) bool {
	if _, err := digest.Parse(s); err != nil {
		return false
	}
	return true
}
'''
IS_DIGEST_INVERTED = '''func isDigestText(s string) bool {
	_, err := digest.Parse(s)
	return err != nil
}
'''
IS_TAG = '''func isTagText(s string) bool {
	return !isDigestText(s)
}
''' + IS_DIGEST

def check_pinned(arm2='err == nil', ret2='fmt.Errorf("user input digest %s does not match the resolved digest %s", ref, resolved.Digest)'):
    return '''func checkPinned(resolved ocispec.Descriptor, ref string) error {
	if ref == resolved.Digest.String() {
		return nil
	}
	if _, err := digest.Parse(ref); %s {
		return %s
	}
	return nil
}
''' % (arm2, ret2)

PINNED_CALL = '''	if err := checkPinned(artifactManifestDesc, artifactRef); err != nil {
		return ocispec.Descriptor{}, ocispec.Descriptor{}, err
	}
'''

def parsed_compare(cmp='d != artifactManifestDesc.Digest'):
    return '''	if d, err := digest.Parse(artifactRef); err == nil && %s {
		return ocispec.Descriptor{}, ocispec.Descriptor{}, fmt.Errorf("user input digest %%s does not match the resolved digest %%s", artifactRef, artifactManifestDesc.Digest)
	}
''' % cmp

VARIANTS += [
 # T1 (predicate computed by a helper): "is a digest" decided by a bool helper, in three spellings
 dict(name='digest-predicate-helper', expect='silent', edits=[(N, DIGEST_INNER, '\t\tif isDigestText(artifactRef) {\n'), with_fn(IS_DIGEST)]),
 dict(name='digest-predicate-helper-guard-clauses', expect='silent', edits=[(N, DIGEST_INNER, '\t\tif isDigestText(artifactRef) {\n'), with_fn(IS_DIGEST_GUARD)]),
 dict(name='digest-predicate-helper-negated', expect='silent', edits=[(N, DIGEST_INNER, '\t\tif !isTagText(artifactRef) {\n'), with_fn(IS_TAG)]),
 dict(name='digest-predicate-helper-inverted', expect='flagged(gate/digest-pinning)', edits=[(N, DIGEST_INNER, '\t\tif isDigestText(artifactRef) {\n'), with_fn(IS_DIGEST_INVERTED)]),
 dict(name='digest-predicate-helper-on-input', expect='flagged(gate/digest-pinning)', edits=[(N, DIGEST_INNER, '\t\tif isDigestText(signOpts.ArtifactReference) {\n'), with_fn(IS_DIGEST)]),
 dict(name='digest-predicate-helper-tag-polarity-lost', expect='flagged(gate/digest-pinning)', edits=[(N, DIGEST_INNER, '\t\tif isTagText(artifactRef) {\n'), with_fn(IS_TAG)]),
 # T2 (validator helper): the whole pinning test in a helper that is handed the descriptor and the string
 dict(name='digest-validator-helper', expect='silent', edits=[(N, DIGEST_WHOLE, PINNED_CALL), with_fn(check_pinned())]),
 dict(name='digest-validator-helper-arguments-crossed', expect='flagged(gate/digest-pinning)',
      edits=[(N, DIGEST_WHOLE, PINNED_CALL.replace('artifactRef', 'signOpts.ArtifactReference')), with_fn(check_pinned())]),
 dict(name='digest-validator-helper-mismatch-accepted', expect='flagged(gate/digest-pinning)', edits=[(N, DIGEST_WHOLE, PINNED_CALL), with_fn(check_pinned(ret2='nil'))]),
 dict(name='digest-validator-helper-conditional', expect='flagged(gate/digest-pinning)', edits=[(N, DIGEST_WHOLE, PINNED_CALL), with_fn(check_pinned(arm2='err == nil && resolved.Size > 0'))]),
 dict(name='digest-validator-helper-verdict-ignored', expect='flagged(gate/digest-pinning)',
      edits=[(N, DIGEST_WHOLE, '\tif err := checkPinned(artifactManifestDesc, artifactRef); err != nil {\n\t\tlogger.Warn(err)\n\t}\n'), with_fn(check_pinned())]),
 # T3 (value recomputed): the digest digest.Parse returned is the string itself
 dict(name='digest-parsed-value-compared', file=N, expect='silent', find=DIGEST_WHOLE, replace=parsed_compare()),
 dict(name='digest-parsed-algorithm-compared', file=N, expect='flagged(gate/digest-pinning)', find=DIGEST_WHOLE, replace=parsed_compare('d.Algorithm() != artifactManifestDesc.Digest.Algorithm()')),
]

# per-pair gates of the merge behind helpers
CHECK_KEY_CALL = '''		if err := checkMetadataKey(%s, %s); err != nil {
			return desc, err
		}
		annotations[k] = v
'''

def check_key_fn(lst='reservedAnnotationPrefixes', existing_ret='fmt.Errorf("error adding user metadata: metadata key %v is already present in the target artifact", key)', order=('key string', 'present map[string]string')):
    return '''func checkMetadataKey(%s, %s) error {
	for _, reservedPrefix := range %s {
		if strings.HasPrefix(key, reservedPrefix) {
			return fmt.Errorf("error adding user metadata: metadata key %%v has reserved prefix %%v", key, reservedPrefix)
		}
	}
	if _, ok := present[key]; ok {
		return %s
	}
	return nil
}
''' % (order[0], order[1], lst, existing_ret)

def key_validator(name, expect, a='k', b='desc.Annotations', **kw):
    return dict(name=name, expect=expect, edits=[(N, RESERVED_LOOP + EXISTING, CHECK_KEY_CALL % (a, b)), with_fn(check_key_fn(**kw))])

def reserved_lookup_fn(miss='i < 0'):
    return '''func reservedPrefixOf(key string) (string, bool) {
	i := slices.IndexFunc(reservedAnnotationPrefixes[:], func(prefix string) bool {
		return strings.HasPrefix(key, prefix)
	})
	if %s {
		return "", false
	}
	return reservedAnnotationPrefixes[i], true
}
''' % miss

def reserved_lookup_call(arg='k', cond='ok'):
    return '''		if reservedPrefix, ok := reservedPrefixOf(%s); %s {
			return desc, fmt.Errorf("error adding user metadata: metadata key %%v has reserved prefix %%v", k, reservedPrefix)
		}
''' % (arg, cond)

IS_RESERVED = '''func isReservedKey(key string) bool {
	for _, reservedPrefix := range reservedAnnotationPrefixes {
		if strings.HasPrefix(key, reservedPrefix) {
			return true
		}
	}
	return false
}
'''
IS_RESERVED_EARLY_FALSE = '''func isReservedKey(key string) bool {
	for _, reservedPrefix := range reservedAnnotationPrefixes {
		if !strings.HasPrefix(key, reservedPrefix) {
			return false
		}
	}
	return true
}
'''
IS_RESERVED_CALL = '''		if isReservedKey(k) {
			return desc, fmt.Errorf("error adding user metadata: metadata key %v has reserved prefix", k)
		}
'''
HAS_KEY = '''func hasAnnotation(m map[string]string, key string) bool {
	_, ok := m[key]
	return ok
}
'''
EXISTING_IF = '\t\tif _, ok := desc.Annotations[k]; ok {\n'

VARIANTS += [
 # T4 (validator helper for the pair): both per-pair gates in one helper returning an error
 key_validator('merge-key-validator-helper', 'silent'),
 key_validator('merge-key-validator-helper-params-reordered', 'silent', a='desc.Annotations', b='k', order=('present map[string]string', 'key string')),
 key_validator('merge-key-validator-helper-handed-value', 'flagged(merge/)', a='v'),
 key_validator('merge-key-validator-helper-handed-metadata', 'flagged(merge/existing-key)', b='userMetadata'),
 key_validator('merge-key-validator-helper-existing-accepted', 'flagged(merge/existing-key)', existing_ret='nil'),
 key_validator('merge-key-validator-helper-tail-of-list', 'flagged(merge/reserved-prefix)', lst='reservedAnnotationPrefixes[1:]'),
 dict(name='merge-key-validator-helper-verdict-ignored', expect='flagged(merge/)',
      edits=[(N, RESERVED_LOOP + EXISTING, '\t\tif err := checkMetadataKey(k, desc.Annotations); err != nil {\n\t\t\tlogger.Warn(err)\n\t\t}\n\t\tannotations[k] = v\n'), with_fn(check_key_fn())]),
 # T5 (lookup helper returning (value, ok)) and (predicate helper)
 dict(name='reserved-lookup-helper', expect='silent', edits=[imp('slices'), (N, RESERVED_LOOP, reserved_lookup_call()), with_fn(reserved_lookup_fn())]),
 dict(name='reserved-lookup-helper-first-element-passes', expect='flagged(merge/reserved-prefix)', edits=[imp('slices'), (N, RESERVED_LOOP, reserved_lookup_call()), with_fn(reserved_lookup_fn('i <= 0'))]),
 dict(name='reserved-lookup-helper-handed-value', expect='flagged(merge/reserved-prefix)', edits=[imp('slices'), (N, RESERVED_LOOP, reserved_lookup_call(arg='v')), with_fn(reserved_lookup_fn())]),
 dict(name='reserved-lookup-helper-polarity-lost', expect='flagged(merge/reserved-prefix)', edits=[imp('slices'), (N, RESERVED_LOOP, reserved_lookup_call(cond='!ok')), with_fn(reserved_lookup_fn())]),
 dict(name='reserved-predicate-helper', expect='silent', edits=[(N, RESERVED_LOOP, IS_RESERVED_CALL), with_fn(IS_RESERVED)]),
 dict(name='reserved-predicate-helper-answers-early', expect='flagged(merge/reserved-prefix)', edits=[(N, RESERVED_LOOP, IS_RESERVED_CALL), with_fn(IS_RESERVED_EARLY_FALSE)]),
 dict(name='existing-key-predicate-helper', expect='silent', edits=[(N, EXISTING_IF, '\t\tif hasAnnotation(desc.Annotations, k) {\n'), with_fn(HAS_KEY)]),
 dict(name='existing-key-predicate-helper-wrong-map', expect='flagged(merge/existing-key)', edits=[(N, EXISTING_IF, '\t\tif hasAnnotation(userMetadata, k) && v == "" {\n'), with_fn(HAS_KEY)]),
 dict(name='existing-key-predicate-helper-handed-value', expect='flagged(merge/existing-key)', edits=[(N, EXISTING_IF, '\t\tif hasAnnotation(desc.Annotations, v) {\n'), with_fn(HAS_KEY)]),
 # T6 (lookup in a superset): the key is looked up in the union map once the annotations were copied into it
 dict(name='existing-key-looked-up-in-union', file=N, expect='silent', find=EXISTING_IF, replace='\t\tif _, ok := annotations[k]; ok {\n'),
 dict(name='existing-key-looked-up-in-union-maps-copy', expect='silent', edits=[imp('maps'), (N, COPY_LOOP, '\tmaps.Copy(annotations, desc.Annotations)\n'), (N, EXISTING_IF, '\t\tif _, ok := annotations[k]; ok {\n')]),
 dict(name='existing-key-looked-up-in-union-before-copy', expect='flagged(merge/existing-key)',
      edits=[(N, COPY_LOOP, ''), (N, EXISTING_IF, '\t\tif _, ok := annotations[k]; ok {\n'), (N, '\tdesc.Annotations = annotations\n\treturn desc, nil\n', COPY_LOOP + '\tdesc.Annotations = annotations\n\treturn desc, nil\n')]),
 dict(name='existing-key-looked-up-in-union-with-delete', expect='flagged(merge/)',
      edits=[(N, COPY_LOOP, COPY_LOOP + '\tdelete(annotations, "org.opencontainers.image.created")\n'), (N, EXISTING_IF, '\t\tif _, ok := annotations[k]; ok {\n')]),
]

# validate everything, then build
SPLIT_HEAD = '''	for k, v := range userMetadata {
		logger.Debugf("Adding metadata %v=%v to annotations", k, v)
''' + RESERVED_LOOP + '''		if _, ok := desc.Annotations[k]; ok {
			return desc, fmt.Errorf("error adding user metadata: metadata key %v is already present in the target artifact", k)
		}
'''
MERGE_BODY = MERGE_FN[MERGE_FN.index('\t// never write into the annotations map'):]
MAKE_LINE = '\tannotations := make(map[string]string, len(desc.Annotations)+len(userMetadata))\n'
BULK_COPY = '\tmaps.Copy(annotations, userMetadata)\n'
BULK_LOOP = '\tfor k, v := range userMetadata {\n\t\tannotations[k] = v\n\t}\n'
TAIL = '\tdesc.Annotations = annotations\n\treturn desc, nil\n}\n'

def split(name, expect, bulk=BULK_COPY, inloop='', guard=None, head=SPLIT_HEAD, first='validate'):
    loop = head + inloop + '\t}\n'
    if guard:
        loop = '\tif %s {\n%s\t}\n' % (guard, loop)
    if first == 'validate':
        body = loop + MAKE_LINE + COPY_LOOP + bulk + TAIL
    else:  # the union map is built first and the keys are looked up in it
        body = MAKE_LINE + COPY_LOOP + loop.replace('desc.Annotations[k]', 'annotations[k]') + bulk + TAIL
    return dict(name=name, expect=expect, edits=[imp('maps'), (N, MERGE_BODY, body)])

VARIANTS += [
 # T7 (loop split into phases): every pair is examined first, the pairs are taken over in bulk afterwards
 split('merge-split-then-maps-copy', 'silent'),
 split('merge-split-then-copy-loop', 'silent', bulk=BULK_LOOP + '\t_ = maps.Copy[map[string]string, map[string]string]\n'),
 split('merge-split-union-first', 'silent', first='union'),
 split('merge-split-examination-left-early', 'flagged(merge/fresh-union)', inloop='\t\tif v == "" {\n\t\t\tbreak\n\t\t}\n'),
 split('merge-split-examination-conditional', 'flagged(merge/fresh-union)', guard='len(userMetadata) < 8'),
 split('merge-split-copy-loop-examination-left-early', 'flagged(merge/fresh-union)', bulk=BULK_LOOP + '\t_ = maps.Copy[map[string]string, map[string]string]\n', inloop='\t\tif v == "" {\n\t\t\tbreak\n\t\t}\n'),
 split('merge-split-existing-key-not-examined', 'flagged(merge/existing-key)', head=SPLIT_HEAD[:SPLIT_HEAD.index('\t\tif _, ok := desc.Annotations[k]; ok {')] + '\t\t_ = v\n'),
 split('merge-split-bulk-from-annotations-twice', 'flagged(merge/fresh-union)', bulk='\tmaps.Copy(annotations, desc.Annotations)\n'),
]

# the generator behind a wrapper; the thumbprint list built by a helper
GEN_BLOCK = '''	var pluginAnnotations map[string]string
	if signerAnts, ok := signer.(signerAnnotation); ok {
		pluginAnnotations = signerAnts.PluginAnnotations()
	}
	logger.Debug("Generating annotation")
	annotations, err := generateAnnotations(signerInfo, pluginAnnotations)
	if err != nil {
		return ocispec.Descriptor{}, ocispec.Descriptor{}, err
	}
	logger.Debugf("Generated annotations: %+v", annotations)
'''

def wrapper_call(args='ctx, signer, signerInfo'):
    return '''	annotations, err := manifestAnnotations(%s)
	if err != nil {
		return ocispec.Descriptor{}, ocispec.Descriptor{}, err
	}
''' % args

def wrapper_fn(params='ctx context.Context, signer Signer, signerInfo *signature.SignerInfo', si='signerInfo', onerr='return nil, err', after=''):
    return '''func manifestAnnotations(%s) (map[string]string, error) {
	logger := log.GetLogger(ctx)
	var pluginAnnotations map[string]string
	if signerAnts, ok := signer.(signerAnnotation); ok {
		pluginAnnotations = signerAnts.PluginAnnotations()
	}
	logger.Debug("Generating annotation")
	annotations, err := generateAnnotations(%s, pluginAnnotations)
	if err != nil {
		%s
	}
%s	logger.Debugf("Generated annotations: %%+v", annotations)
	return annotations, nil
}
''' % (params, si, onerr, after)

def wrapper(name, expect, call=None, **kw):
    return dict(name=name, expect=expect, edits=[(N, GEN_BLOCK, call or wrapper_call()), with_fn(wrapper_fn(**kw))])

THUMB_LOOP = '''	var thumbprints []string
	for _, cert := range signerInfo.CertificateChain {
		checkSum := sha256.Sum256(cert.Raw)
		thumbprints = append(thumbprints, hex.EncodeToString(checkSum[:]))
	}
	val, err := json.Marshal(thumbprints)
'''

def thumbs_fn(loop='for i := range certChain', elem='certChain[i].Raw', init='var thumbprints []string', put='thumbprints = append(thumbprints, hex.EncodeToString(checkSum[:]))'):
    return '''func chainThumbprints(certChain []*x509.Certificate) []string {
	%s
	%s {
		checkSum := sha256.Sum256(%s)
		%s
	}
	return thumbprints
}
''' % (init, loop, elem, put)

def thumbs(name, expect, arg='signerInfo.CertificateChain', **kw):
    return dict(name=name, expect=expect, edits=[(N, THUMB_LOOP, '\tval, err := json.Marshal(chainThumbprints(%s))\n' % arg), with_fn(thumbs_fn(**kw))])

def prealloc(put='thumbprints[i] = hex.EncodeToString(checkSum[:])', n='len(signerInfo.CertificateChain)'):
    return '''	thumbprints := make([]string, %s)
	for i, cert := range signerInfo.CertificateChain {
		checkSum := sha256.Sum256(cert.Raw)
		%s
	}
	val, err := json.Marshal(thumbprints)
''' % (n, put)

VARIANTS += [
 # T8 (extract-helper at another boundary): the generator call, the signer probe and the logging in a wrapper
 wrapper('generator-behind-wrapper', 'silent'),
 wrapper('generator-behind-wrapper-params-reordered', 'silent', call=wrapper_call('ctx, signerInfo, signer'), params='ctx context.Context, signerInfo *signature.SignerInfo, signer Signer'),
 wrapper('generator-behind-wrapper-error-swallowed', 'flagged(annotations/delivered)', onerr='logger.Warn(err)'),
 wrapper('generator-behind-wrapper-signer-annotations-copied-after', 'flagged(annotations/)', after='\tfor k, v := range pluginAnnotations {\n\t\tannotations[k] = v\n\t}\n'),
 wrapper('generator-behind-wrapper-created-overwritten', 'flagged(annotations/)', after='\tannotations[ocispec.AnnotationCreated] = time.Now().Format(time.RFC3339)\n'),
 wrapper('generator-behind-wrapper-other-signer-info', 'flagged(annotations/)', si='&signature.SignerInfo{SignedAttributes: signerInfo.SignedAttributes}'),
 dict(name='generator-behind-wrapper-thumbprint-of-tbs', expect='flagged(annotations/thumbprints)', edits=[(N, GEN_BLOCK, wrapper_call()), with_fn(wrapper_fn()),
      (N, 'checkSum := sha256.Sum256(cert.Raw)', 'checkSum := sha256.Sum256(cert.RawTBSCertificate)')]),
 # T9 (extract-helper / index vs range loop / preallocated result): the thumbprint list
 thumbs('thumbprints-by-helper', 'silent'),
 thumbs('thumbprints-by-helper-range-value', 'silent', loop='for _, cert := range certChain', elem='cert.Raw'),
 thumbs('thumbprints-by-helper-for-loop', 'silent', loop='for i := 0; i < len(certChain); i++'),
 thumbs('thumbprints-by-helper-presized', 'silent', init='thumbprints := make([]string, 0, len(certChain))'),
 thumbs('thumbprints-by-helper-of-tbs', 'flagged(annotations/thumbprints)', elem='certChain[i].RawTBSCertificate'),
 thumbs('thumbprints-by-helper-leaf-only', 'flagged(annotations/thumbprints)', arg='signerInfo.CertificateChain[:1]'),
 thumbs('thumbprints-by-helper-first-certificate-repeated', 'flagged(annotations/thumbprints)', loop='for range certChain', elem='certChain[0].Raw'),
 thumbs('thumbprints-by-helper-skips-leaf', 'flagged(annotations/thumbprints)', loop='for i := 1; i < len(certChain); i++'),
 dict(name='thumbprints-preallocated', file=N, expect='silent', find=THUMB_LOOP, replace=prealloc()),
 dict(name='thumbprints-preallocated-one-slot', file=N, expect='flagged(annotations/thumbprints)', find=THUMB_LOOP, replace=prealloc(put='thumbprints[0] = hex.EncodeToString(checkSum[:])\n\t\t_ = i')),
 dict(name='thumbprints-computed-but-other-list-marshalled', file=N, expect='flagged(annotations/thumbprints)',
      find='\tval, err := json.Marshal(thumbprints)\n', replace='\tval, err := json.Marshal(thumbprints[:0])\n'),
]

def check_key_desc_fn(look='target.Annotations[key]'):
    return '''func checkMetadataKey(key string, target ocispec.Descriptor) error {
	for _, reservedPrefix := range reservedAnnotationPrefixes {
		if strings.HasPrefix(key, reservedPrefix) {
			return fmt.Errorf("error adding user metadata: metadata key %%v has reserved prefix %%v", key, reservedPrefix)
		}
	}
	if _, ok := %s; ok {
		return fmt.Errorf("error adding user metadata: metadata key %%v is already present in the target artifact", key)
	}
	return nil
}
''' % look

VARIANTS += [
 # T4b (parameter widened): the pair validator is handed the whole descriptor
 dict(name='merge-key-validator-helper-handed-descriptor', expect='silent', edits=[(N, RESERVED_LOOP + EXISTING, CHECK_KEY_CALL % ('k', 'desc')), with_fn(check_key_desc_fn())]),
 dict(name='merge-key-validator-helper-handed-empty-descriptor', expect='flagged(merge/existing-key)',
      edits=[(N, RESERVED_LOOP + EXISTING, CHECK_KEY_CALL % ('k', 'ocispec.Descriptor{MediaType: desc.MediaType}')), with_fn(check_key_desc_fn())]),
 dict(name='merge-key-validator-helper-handed-descriptor-after-replacement', expect='flagged(merge/)',
      edits=[(N, RESERVED_LOOP + EXISTING, '\t\tdesc.Annotations = annotations\n' + CHECK_KEY_CALL % ('k', 'desc')), with_fn(check_key_desc_fn())]),
]

# the examination of the pairs cut out into a helper that is handed the metadata map
def examiner_fn(pre='', inloop='', present='present'):
    return '''func checkUserMetadata(logger log.Logger, userMetadata, present map[string]string) error {
%s	for k, v := range userMetadata {
		logger.Debugf("Adding metadata %%v=%%v to annotations", k, v)
		for _, reservedPrefix := range reservedAnnotationPrefixes {
			if strings.HasPrefix(k, reservedPrefix) {
				return fmt.Errorf("error adding user metadata: metadata key %%v has reserved prefix %%v", k, reservedPrefix)
			}
		}
		if _, ok := %s[k]; ok {
			return fmt.Errorf("error adding user metadata: metadata key %%v is already present in the target artifact", k)
		}
%s	}
	return nil
}
''' % (pre, present, inloop)

def examiner(name, expect, call='\tif err := checkUserMetadata(logger, userMetadata, desc.Annotations); err != nil {\n\t\treturn desc, err\n\t}\n', bulk=BULK_COPY, **kw):
    body = call + MAKE_LINE + COPY_LOOP + bulk + TAIL
    return dict(name=name, expect=expect, edits=[imp('maps'), (N, MERGE_BODY, body), with_fn(examiner_fn(**kw))])

KEEP_MAPS = '\t_ = maps.Copy[map[string]string, map[string]string]\n'

VARIANTS += [
 # T7b (extract-helper at another boundary): the examining loop in a helper, the pairs taken over in bulk after it succeeded
 examiner('merge-examination-in-helper', 'silent'),
 examiner('merge-examination-in-helper-then-copy-loop', 'silent', bulk=BULK_LOOP + KEEP_MAPS),
 examiner('merge-examination-in-helper-empty-shortcut', 'silent', pre='\tif len(userMetadata) == 0 {\n\t\treturn nil\n\t}\n'),
 examiner('merge-examination-in-helper-verdict-ignored', 'flagged(merge/fresh-union)',
          call='\tif err := checkUserMetadata(logger, userMetadata, desc.Annotations); err != nil {\n\t\tlogger.Warn(err)\n\t}\n'),
 examiner('merge-examination-in-helper-left-early', 'flagged(merge/fresh-union)', inloop='\t\tif v == "" {\n\t\t\tbreak\n\t\t}\n'),
 examiner('merge-examination-in-helper-small-sets-only', 'flagged(merge/fresh-union)', pre='\tif len(userMetadata) > 8 {\n\t\treturn nil\n\t}\n'),
 examiner('merge-examination-in-helper-handed-metadata-twice', 'flagged(merge/existing-key)',
          call='\tif err := checkUserMetadata(logger, userMetadata, userMetadata); err != nil {\n\t\treturn desc, err\n\t}\n'),
 examiner('merge-examination-in-helper-looks-up-value', 'flagged(merge/existing-key)', present='map[string]string{v: k}'),
]

VARIANTS += [
 # "nothing yet" is the right list only where the loop over the chain is entered
 thumbs('thumbprints-by-helper-dropped-for-long-chains', 'flagged(annotations/thumbprints)', init='if len(certChain) > 4 {\n\t\treturn nil\n\t}\n\tvar thumbprints []string'),
 dict(name='thumbprints-dropped-for-long-chains', file=N, expect='flagged(annotations/thumbprints)',
      find='\tval, err := json.Marshal(thumbprints)\n', replace='\tif len(thumbprints) > 4 {\n\t\tthumbprints = nil\n\t}\n\tval, err := json.Marshal(thumbprints)\n'),
]

# ---- fifth pass -------------------------------------------------------------------------------------------------
# class "standard-library equivalent / helper for make + copy loop": the union map is born as a copy of the annotations
# handed in (maps.Clone with the nil case replaced by a fresh empty map), inline or in a helper
def born(name, expect, decl, fn=None):
    edits = [imp('maps'), (N, MAKE_LINE + COPY_LOOP, decl)]
    if fn:
        edits.append(with_fn(fn))
    return dict(name=name, expect=expect, edits=edits)

CLONE = '\tannotations := maps.Clone(desc.Annotations)\n'
KEEP_CLONE = '\t_ = maps.Clone[map[string]string]\n'
COPY_FN_GUARD = '''func copyAnnotations(src map[string]string, extra int) map[string]string {
%s	out := maps.Clone(src)
	if out == nil {
		out = make(map[string]string, extra)
	}
	return out
}
'''
COPY_FN_LOOP = '''func copyAnnotations(src map[string]string, extra int) map[string]string {
	out := make(map[string]string, len(src)+extra)
	for k, v := range src {
%s		out[k] = v
	}
	return out
}
'''
COPY_FN_TWO = '''func copyAnnotations(src map[string]string, extra int) map[string]string {
	if %s {
		return make(map[string]string, extra)
	}
	return maps.Clone(src)
}
'''
VIA_FN = '\tannotations := copyAnnotations(desc.Annotations, len(userMetadata))\n'

VARIANTS += [
 born('union-clone-nil-replaced', 'silent', CLONE + '\tif annotations == nil {\n\t\tannotations = make(map[string]string, len(userMetadata))\n\t}\n'),
 born('union-clone-empty-replaced', 'silent', CLONE + '\tif len(annotations) == 0 {\n\t\tannotations = map[string]string{}\n\t}\n'),
 born('union-clone-or-make-by-source', 'silent',
      '\tvar annotations map[string]string\n\tif desc.Annotations != nil {\n\t\tannotations = maps.Clone(desc.Annotations)\n\t} else {\n\t\tannotations = make(map[string]string, len(userMetadata))\n\t}\n'),
 born('union-clone-in-helper', 'silent', VIA_FN, COPY_FN_GUARD % ''),
 born('union-copy-loop-in-helper', 'silent', VIA_FN + KEEP_CLONE, COPY_FN_LOOP % ''),
 born('union-clone-in-helper-two-returns', 'silent', VIA_FN, COPY_FN_TWO % 'len(src) == 0'),
 # broken counterparts
 born('union-clone-bare', 'flagged(merge/fresh-union)', CLONE),
 born('union-clone-replaced-also-for-many-pairs', 'flagged(merge/fresh-union)',
      CLONE + '\tif annotations == nil || len(userMetadata) > 4 {\n\t\tannotations = make(map[string]string, len(userMetadata))\n\t}\n'),
 born('union-clone-replaced-when-not-nil', 'flagged(merge/fresh-union)',
      CLONE + '\tif annotations != nil {\n\t\tannotations = make(map[string]string, len(userMetadata))\n\t}\n'),
 born('union-clone-of-metadata', 'flagged(merge/fresh-union)',
      '\tannotations := maps.Clone(userMetadata)\n\tif annotations == nil {\n\t\tannotations = make(map[string]string)\n\t}\n'),
 born('union-clone-in-helper-drops-large-sets', 'flagged(merge/fresh-union)', VIA_FN,
      COPY_FN_GUARD % '\tif len(src) > 8 {\n\t\treturn map[string]string{}\n\t}\n'),
 born('union-clone-in-helper-handed-metadata', 'flagged(merge/fresh-union)',
      '\tannotations := copyAnnotations(userMetadata, len(desc.Annotations))\n', COPY_FN_GUARD % ''),
 born('union-copy-loop-in-helper-skips-pairs', 'flagged(merge/fresh-union)', VIA_FN + KEEP_CLONE,
      COPY_FN_LOOP % '\t\tif v == "" {\n\t\t\tcontinue\n\t\t}\n'),
 born('union-clone-in-helper-two-returns-wrong-test', 'flagged(merge/fresh-union)', VIA_FN, COPY_FN_TWO % 'extra == 0'),
]

# class "result object in a new local": the descriptor handed in is copied into further local variables
VARIANTS += [
 dict(name='result-in-new-local', file=N, expect='silent', find=TAIL,
      replace='\tmerged := desc\n\tmerged.Annotations = annotations\n\treturn merged, nil\n}\n'),
 dict(name='result-in-copy-of-copy', file=N, expect='silent', find=TAIL,
      replace='\tsigned := desc\n\tsigned.Annotations = annotations\n\tfinal := signed\n\treturn final, nil\n}\n'),
 dict(name='lookup-in-early-copy', expect='silent',
      edits=[(N, MAKE_LINE, '\thanded := desc\n' + MAKE_LINE), (N, '\t\tif _, ok := desc.Annotations[k]; ok {\n', '\t\tif _, ok := handed.Annotations[k]; ok {\n')]),
 dict(name='result-in-new-local-with-clone', expect='silent',
      edits=[imp('maps'), (N, MAKE_LINE + COPY_LOOP, CLONE + '\tif annotations == nil {\n\t\tannotations = make(map[string]string, len(userMetadata))\n\t}\n'),
             (N, TAIL, '\tmerged := desc\n\tmerged.Annotations = annotations\n\treturn merged, nil\n}\n')]),
 # broken counterparts
 dict(name='result-copy-taken-before-replacement', file=N, expect='flagged(merge/result)', find=TAIL,
      replace='\tmerged := desc\n\tdesc.Annotations = annotations\n\treturn merged, nil\n}\n'),
 dict(name='result-copy-overwritten', file=N, expect='flagged(merge/)', find=TAIL,
      replace='\tmerged := desc\n\tmerged.Annotations = annotations\n\tif len(annotations) > 16 {\n\t\tmerged = desc\n\t}\n\treturn merged, nil\n}\n'),
 dict(name='result-copy-other-field-written', file=N, expect='flagged(merge/)', find=TAIL,
      replace='\tmerged := desc\n\tmerged.Annotations = annotations\n\tmerged.Size = 0\n\treturn merged, nil\n}\n'),
 dict(name='result-built-from-some-fields', file=N, expect='flagged(merge/result)', find=TAIL,
      replace='\tmerged := ocispec.Descriptor{MediaType: desc.MediaType, Digest: desc.Digest, Annotations: annotations}\n\treturn merged, nil\n}\n'),
 dict(name='lookup-in-copy-not-yet-filled', expect='flagged(merge/existing-key)',
      edits=[(N, MAKE_LINE, '\tvar handed ocispec.Descriptor\n' + MAKE_LINE), (N, '\t\tif _, ok := desc.Annotations[k]; ok {\n', '\t\tif _, ok := handed.Annotations[k]; ok {\n'),
             (N, TAIL, '\thanded = desc\n\tlogger.Debugf("merged into %v", handed.Digest)\n' + TAIL)]),
]

VARIANTS += [
 # the copy stays a variable of its own (a field of it is read afterwards); still taken before the replacement
 dict(name='result-copy-taken-before-replacement-and-read', file=N, expect='flagged(merge/result)', find=TAIL,
      replace='\tmerged := desc\n\tdesc.Annotations = annotations\n\tlogger.Debugf("merged metadata into %v", merged.Digest)\n\treturn merged, nil\n}\n'),
 dict(name='result-in-new-local-and-read', file=N, expect='silent', find=TAIL,
      replace='\tmerged := desc\n\tmerged.Annotations = annotations\n\tlogger.Debugf("merged metadata into %v", merged.Digest)\n\treturn merged, nil\n}\n'),
]

# class "what success stands for" (guard campaign): the errors of Signer.Sign, of the annotation generator and of
# PushSignature, and of the fallible calls the generated annotations are computed from, gate the push / the success exit
SIGN_GUARD = 'signOpts.SignerSignOptions)\n\tif err != nil {\n\t\treturn ocispec.Descriptor{}, ocispec.Descriptor{}, err\n\t}'
GEN_GUARD = 'pluginAnnotations)\n\tif err != nil {\n\t\treturn ocispec.Descriptor{}, ocispec.Descriptor{}, err\n\t}'
PUSH_GUARD = 'artifactManifestDesc, annotations)\n\tif err != nil {\n'
PUSH_TAIL = '''	if err != nil {
		var referrerError *remote.ReferrersError
		if errors.As(err, &referrerError) && referrerError.IsReferrersIndexDelete() {
			// return the descriptors for referrersIndexDelete error as
			// the signature is successfully pushed to the repository
			return artifactManifestDesc, sigManifestDesc, err
		}
		logger.Error("Failed to push the signature")
		return ocispec.Descriptor{}, ocispec.Descriptor{}, ErrorPushSignatureFailed{Msg: err.Error()}
	}
	return artifactManifestDesc, sigManifestDesc, nil
'''
TIME_GUARD = 'envelope.SigningTime(signerInfo)\n\tif err != nil {\n\t\treturn nil, err\n\t}\n'
MARSHAL_GUARD = 'json.Marshal(thumbprints)\n\tif err != nil {\n'
FAILED_FN = 'func callFailed(err error) bool {\n\treturn err != nil\n}\n\nfunc validateSignArguments('
VARIANTS += [
 # Signer.Sign
 dict(name='sign-error-guard-disabled', file=N, expect='flagged(gate/push-after-sign)',
      find=SIGN_GUARD, replace=SIGN_GUARD.replace('if err != nil {', 'if false && (err != nil) {')),
 dict(name='sign-error-only-without-bytes', file=N, expect='flagged(gate/push-after-sign)',
      find=SIGN_GUARD, replace=SIGN_GUARD.replace('if err != nil {', 'if len(sig) == 0 && err != nil {')),
 dict(name='sign-error-logged-only', file=N, expect='flagged(gate/push-after-sign)',
      find=SIGN_GUARD, replace='signOpts.SignerSignOptions)\n\tif err != nil {\n\t\tlogger.Warn(err)\n\t}'),
 dict(name='sign-error-switch', file=N, expect='silent',
      find=SIGN_GUARD, replace='signOpts.SignerSignOptions)\n\tswitch {\n\tcase err != nil:\n\t\treturn ocispec.Descriptor{}, ocispec.Descriptor{}, err\n\t}'),
 dict(name='sign-error-test-in-helper', expect='silent',
      edits=[(N, SIGN_GUARD, SIGN_GUARD.replace('if err != nil {', 'if callFailed(err) {')), (N, 'func validateSignArguments(', FAILED_FN)]),
 # the annotation generator
 dict(name='generator-error-guard-disabled', file=N, expect='flagged(gate/push-after-annotations)',
      find=GEN_GUARD, replace=GEN_GUARD.replace('if err != nil {', 'if false && (err != nil) {')),
 dict(name='generator-error-only-without-plugin-annotations', file=N, expect='flagged(gate/push-after-annotations)',
      find=GEN_GUARD, replace=GEN_GUARD.replace('if err != nil {', 'if len(pluginAnnotations) == 0 && err != nil {')),
 dict(name='generator-error-operands-swapped', file=N, expect='silent',
      find=GEN_GUARD, replace=GEN_GUARD.replace('if err != nil {', 'if nil != err {')),
 # PushSignature
 dict(name='push-error-guard-disabled', file=N, expect='flagged(gate/success-after-push)',
      find=PUSH_GUARD, replace=PUSH_GUARD.replace('if err != nil {', 'if false && (err != nil) {')),
 dict(name='push-error-only-without-manifest', file=N, expect='flagged(gate/success-after-push)',
      find=PUSH_GUARD, replace=PUSH_GUARD.replace('if err != nil {', 'if sigManifestDesc.Digest == "" && err != nil {')),
 dict(name='push-index-delete-reported-as-success-for-any-error', file=N, expect='flagged(gate/success-after-push)',
      find='\t\t\treturn artifactManifestDesc, sigManifestDesc, err\n\t\t}\n\t\tlogger.Error("Failed to push the signature")\n\t\treturn ocispec.Descriptor{}, ocispec.Descriptor{}, ErrorPushSignatureFailed{Msg: err.Error()}\n',
      replace='\t\t\treturn artifactManifestDesc, sigManifestDesc, err\n\t\t}\n\t\tlogger.Error("Failed to push the signature")\n\t\treturn artifactManifestDesc, sigManifestDesc, nil\n'),
 dict(name='push-error-success-first', file=N, expect='silent', find=PUSH_TAIL,
      replace='''	if err == nil {
		return artifactManifestDesc, sigManifestDesc, nil
	}
	var referrerError *remote.ReferrersError
	if errors.As(err, &referrerError) && referrerError.IsReferrersIndexDelete() {
		// the signature is successfully pushed to the repository
		return artifactManifestDesc, sigManifestDesc, err
	}
	logger.Error("Failed to push the signature")
	return ocispec.Descriptor{}, ocispec.Descriptor{}, ErrorPushSignatureFailed{Msg: err.Error()}
'''),
 dict(name='push-error-test-in-helper', expect='silent',
      edits=[(N, PUSH_GUARD, PUSH_GUARD.replace('if err != nil {', 'if callFailed(err) {')), (N, 'func validateSignArguments(', FAILED_FN)]),
 # the fallible sources of the generated annotations
 dict(name='signing-time-error-guard-disabled', file=N, expect='flagged(annotations/fallible-sources)',
      find=TIME_GUARD, replace=TIME_GUARD.replace('if err != nil {', 'if false && (err != nil) {')),
 dict(name='signing-time-error-only-for-single-cert', file=N, expect='flagged(annotations/fallible-sources)',
      find=TIME_GUARD, replace=TIME_GUARD.replace('if err != nil {', 'if len(signerInfo.CertificateChain) < 2 && err != nil {')),
 dict(name='signing-time-error-switch', file=N, expect='silent',
      find=TIME_GUARD, replace='envelope.SigningTime(signerInfo)\n\tswitch {\n\tcase err != nil:\n\t\treturn nil, err\n\t}\n'),
 dict(name='signing-time-success-first', file=N, expect='silent',
      find=TIME_GUARD + '\tannotations[ocispec.AnnotationCreated] = signingTime.Format(time.RFC3339)\n\treturn annotations, nil\n',
      replace='envelope.SigningTime(signerInfo)\n\tif err == nil {\n\t\tannotations[ocispec.AnnotationCreated] = signingTime.Format(time.RFC3339)\n\t\treturn annotations, nil\n\t}\n\treturn nil, err\n'),
 dict(name='thumbprint-marshal-error-guard-disabled', file=N, expect='flagged(annotations/fallible-sources)',
      find=MARSHAL_GUARD, replace=MARSHAL_GUARD.replace('if err != nil {', 'if false && (err != nil) {')),
 dict(name='thumbprint-marshal-error-only-for-empty-list', file=N, expect='flagged(annotations/fallible-sources)',
      find=MARSHAL_GUARD, replace=MARSHAL_GUARD.replace('if err != nil {', 'if len(thumbprints) == 0 && err != nil {')),
 dict(name='thumbprint-marshal-error-operands-swapped', file=N, expect='silent',
      find=MARSHAL_GUARD, replace=MARSHAL_GUARD.replace('if err != nil {', 'if nil != err {')),
 # guards of the campaign that are not clauses of the property: stay silent
 dict(name='merge-without-empty-metadata-shortcut', file=N, expect='silent',
      find='\tif len(userMetadata) == 0 {\n\t\treturn desc, nil\n\t}\n\n\t// never write', replace='\t// never write'),
]
