N = 'notation.go'
V = 'verifier/verifier.go'
H = 'verifier/helpers.go'
R = 'registry/repository.go'
SP = 'signer/plugin.go'
VARIANTS = [
 dict(name='F4a-reintroduced', file=N, expect='flagged(nilable/envelope-content/ngo.VerifyBlob)',
      find='\tif vo.EnvelopeContent == nil {\n\t\t// signature verification was skipped, there is no verified payload\n\t\treturn ocispec.Descriptor{}, vo, nil\n\t}\n', replace=''),
 dict(name='F4b-reintroduced', file=V, expect='flagged(nilable/verifier-field/(*ngo/verifier.verifier).SkipVerify)',
      find='\tif v.ociTrustPolicyDoc == nil {\n\t\treturn false, nil, errors.New("ociTrustPolicyDoc is nil")\n\t}\n\ttrustPolicy, err := v.ociTrustPolicyDoc.GetApplicableTrustPolicy(opts.ArtifactReference)\n\tif err != nil {\n\t\treturn false, nil,',
      replace='\ttrustPolicy, err := v.ociTrustPolicyDoc.GetApplicableTrustPolicy(opts.ArtifactReference)\n\tif err != nil {\n\t\treturn false, nil,'),
 dict(name='F5-reintroduced', file=SP, expect='flagged(assert/ngo/signer.areUnknownAttributesAdded)',
      find='descriptor, _ := targetArtifactMap["targetArtifact"].(map[string]interface{})', replace='descriptor := targetArtifactMap["targetArtifact"].(map[string]interface{})'),
 dict(name='F12-reintroduced', file=V, expect='flagged(index/ngo/verifier.revocationFinalResult)',
      find='''	if len(certResults) != len(certChain) {
		// every certificate in the chain needs a revocation result
		if len(certChain) > 0 {
			problematicCertSubject = certChain[0].Subject.String()
		}
		return revocationresult.ResultUnknown, problematicCertSubject
	}
''', replace=''),
 dict(name='filter-dropped', file=H, expect='flagged(assert/ngo/verifier.executePlugin)',
      find='\t\tif ok && !slices.Contains(VerificationPluginHeaders, attrStrKey) {', replace='\t\tif !ok || !slices.Contains(VerificationPluginHeaders, attrStrKey) {'),
 dict(name='plugin-manager-guard-dropped', file=V, expect='flagged(nilable/verifier-field/(*ngo/verifier.verifier).processSignature/pluginManager)',
      find='\t\tif v.pluginManager == nil {\n\t\t\treturn notation.ErrorVerificationInconclusive{Msg: "plugin unsupported due to nil verifier.pluginManager"}\n\t\t}\n', replace=''),
 dict(name='revocation-both-nil-guard-dropped', file=V, expect='flagged(nilable/verifier-field/(*ngo/verifier.verifier).verifyRevocation/revocationClient)',
      find='''	if v.revocationCodeSigningValidator == nil && v.revocationClient == nil {
		return &notation.ValidationResult{
			Type:   trustpolicy.TypeRevocation,
			Action: outcome.VerificationLevel.Enforcement[trustpolicy.TypeRevocation],
			Error:  fmt.Errorf("unable to check revocation status, code signing revocation validator cannot be nil"),
		}
	}
''', replace=''),
 dict(name='blob-count-unchecked', file=R, expect='flagged(index/(*ngo/registry.repositoryClient).getSignatureBlobDesc)',
      find='\tif len(signatureBlobs) != 1 {', replace='\tif len(signatureBlobs) > 1 {'),
 dict(name='manifest-cap-dropped', file=R, expect='flagged(size-cap/(*ngo/registry.repositoryClient).getSignatureBlobDesc)',
      find='\tif sigManifestDesc.Size > maxManifestSizeLimit {\n\t\treturn ocispec.Descriptor{}, fmt.Errorf("signature manifest too large: %d bytes", sigManifestDesc.Size)\n\t}\n', replace=''),
 dict(name='cap-on-other-descriptor', file=R, expect='flagged(size-cap/(*ngo/registry.repositoryClient).FetchSignatureBlob)',
      find='\tif sigBlobDesc.Size > maxBlobSizeLimit {', replace='\tif desc.Size > maxBlobSizeLimit {'),
 dict(name='nil-returned-after-error-store', file=V, expect='flagged(consistency/)',
      find='\t\toutcome.Error = errors.New("content descriptor mismatch")\n\t}\n\n\tif len(opts.UserMetadata) > 0 {\n\t\terr := verifyUserMetadata(logger, payload, opts.UserMetadata)\n\t\tif err != nil {\n\t\t\toutcome.Error = err\n\t\t}\n\t}\n\n\treturn outcome, outcome.Error',
      replace='\t\toutcome.Error = errors.New("content descriptor mismatch")\n\t}\n\n\tif len(opts.UserMetadata) > 0 {\n\t\terr := verifyUserMetadata(logger, payload, opts.UserMetadata)\n\t\tif err != nil {\n\t\t\toutcome.Error = err\n\t\t\treturn outcome, err\n\t\t}\n\t}\n\n\treturn outcome, nil'),
 dict(name='failure-not-recorded', file=V, expect='flagged(consistency/)',
      find='\terr = v.processSignature(ctx, signature, envelopeMediaType, trustPolicy.Name, trustPolicy.TrustedIdentities, trustPolicy.TrustStores, trustPolicy.SignatureVerification, pluginConfig, outcome)\n\n\tif err != nil {\n\t\toutcome.Error = err\n\t\treturn outcome, err',
      replace='\terr = v.processSignature(ctx, signature, envelopeMediaType, trustPolicy.Name, trustPolicy.TrustedIdentities, trustPolicy.TrustStores, trustPolicy.SignatureVerification, pluginConfig, outcome)\n\n\tif err != nil {\n\t\treturn outcome, err'),
 dict(name='nil-outcome-on-failure', file=V, expect='flagged(consistency/)',
      find='\t\tlogger.Error("Failed to unmarshal the payload content in the signature blob to envelope.Payload")\n\t\toutcome.Error = err\n\t\treturn outcome, err\n\t}\n\n\tif !content.Equal',
      replace='\t\tlogger.Error("Failed to unmarshal the payload content in the signature blob to envelope.Payload")\n\t\treturn nil, err\n\t}\n\n\tif !content.Equal'),
 dict(name='decode-error-dropped', file='verifier/crl/crl.go', expect='flagged(decoder-error/(*ngo/verifier/crl.FileCache).Get)',
      find='\tif err := json.Unmarshal(contentBytes, &content); err != nil {\n\t\treturn nil, fmt.Errorf("failed to decode file retrieved from file cache: %w", err)\n\t}', replace='\t_ = json.Unmarshal(contentBytes, &content)'),
 dict(name='nil-map-update', file=N, expect='flagged(map-update/ngo.generateAnnotations)',
      find='\tif annotations == nil {\n\t\tannotations = make(map[string]string)\n\t}\n', replace=''),
 dict(name='explicit-panic', file=H, expect='flagged(explicit-panic)',
      find='\tif !attr.Critical {\n\t\treturn "", fmt.Errorf("%v is not a critical Extended attribute", key)\n\t}', replace='\tif !attr.Critical {\n\t\tpanic(fmt.Sprintf("%v is not a critical Extended attribute", key))\n\t}'),
 dict(name='dynamic-regexp', file='internal/file/file.go', expect='flagged(must-compile)',
      find='\treturn regexp.MustCompile(`^[a-zA-Z0-9_.-]+$`).MatchString(fileName)', replace='\treturn regexp.MustCompile("^[" + allowed + "]+$").MatchString(fileName)',
      edits=[('internal/file/file.go', '// ErrNotRegularFile is returned', 'var allowed = "a-zA-Z0-9_.-"\n\n// ErrNotRegularFile is returned')]),
 # benign
 dict(name='benign-guard-order', file=V, expect='silent',
      find='''	if v.revocationCodeSigningValidator == nil && v.revocationClient == nil {
		return &notation.ValidationResult{''', replace='''	if v.revocationClient == nil && v.revocationCodeSigningValidator == nil {
		return &notation.ValidationResult{'''),
 dict(name='benign-len-check-form', file=R, expect='silent',
      find='\tif len(signatureBlobs) != 1 {', replace='\tif n := len(signatureBlobs); n != 1 {'),
 dict(name='benign-cap-le', file=R, expect='silent',
      find='\tif sigBlobDesc.Size > maxBlobSizeLimit {\n\t\treturn nil, ocispec.Descriptor{}, fmt.Errorf("signature blob too large: %d bytes", sigBlobDesc.Size)\n\t}',
      replace='\tif !(sigBlobDesc.Size <= maxBlobSizeLimit) {\n\t\treturn nil, ocispec.Descriptor{}, fmt.Errorf("signature blob too large: %d bytes", sigBlobDesc.Size)\n\t}'),
]

# index proofs by value (bounds.go): the same loop / search spelled differently, and each spelling with the bound broken
LOOP_OLD = '\t\tfor _, reservedPrefix := range reservedAnnotationPrefixes {\n\t\t\tif strings.HasPrefix(k, reservedPrefix) {\n\t\t\t\treturn desc, fmt.Errorf("error adding user metadata: metadata key %v has reserved prefix %v", k, reservedPrefix)\n\t\t\t}\n\t\t}\n'
def idx_loop(cond):
    return '\t\tfor i := 0; %s; i++ {\n\t\t\treservedPrefix := reservedAnnotationPrefixes[i]\n\t\t\tif strings.HasPrefix(k, reservedPrefix) {\n\t\t\t\treturn desc, fmt.Errorf("error adding user metadata: metadata key %%v has reserved prefix %%v", k, reservedPrefix)\n\t\t\t}\n\t\t}\n' % cond
def idx_search(guard):
    return '\t\tif i := slices.IndexFunc(reservedAnnotationPrefixes[:], func(p string) bool { return strings.HasPrefix(k, p) }); %s {\n\t\t\treturn desc, fmt.Errorf("error adding user metadata: metadata key %%v has reserved prefix %%v", k, reservedAnnotationPrefixes[i])\n\t\t}\n' % guard
SL = [(N, '\t"strings"\n', '\t"slices"\n\t"strings"\n')]
PM = 'plugin/manager_unix.go'
PN_OLD = '\tpluginName, found := strings.CutPrefix(fileName, plugin.BinaryPrefix)\n\tif !found || pluginName == "" {\n'
def pn(k, n):
    return '\tif !strings.HasPrefix(fileName, "notation-") {\n\t\treturn "", fmt.Errorf("invalid plugin executable file name %%s", fileName)\n\t}\n\tpluginName, found := fileName[%d:], true\n\t_ = plugin.BinaryPrefix\n\tif !found || pluginName == "" {\n' % k
VARIANTS += [
 dict(name='benign-index-loop-counting', file=N, expect='silent', find=LOOP_OLD, replace=idx_loop('i < len(reservedAnnotationPrefixes)')),
 dict(name='index-loop-one-past-the-end', file=N, expect='flagged(index/ngo.addUserMetadataToDescriptor)', find=LOOP_OLD, replace=idx_loop('i <= len(reservedAnnotationPrefixes)')),
 dict(name='benign-index-search-guarded', file=N, expect='silent', find=LOOP_OLD, replace=idx_search('i >= 0'), edits=SL),
 dict(name='benign-index-search-guarded-ne', file=N, expect='silent', find=LOOP_OLD, replace=idx_search('i != -1'), edits=SL),
 dict(name='index-search-unguarded', file=N, expect='flagged(index/ngo.addUserMetadataToDescriptor)', find=LOOP_OLD, replace=idx_search('i != 0'), edits=SL),
 dict(name='index-search-guard-too-weak', file=N, expect='flagged(index/ngo.addUserMetadataToDescriptor)', find=LOOP_OLD, replace=idx_search('i >= -1'), edits=SL),
 dict(name='benign-slice-after-prefix', file=PM, expect='silent', find=PN_OLD, replace=pn(9, 9)),
 dict(name='slice-beyond-prefix', file=PM, expect='flagged(slice/ngo/plugin.parsePluginName)', find=PN_OLD, replace=pn(10, 9)),
]

# a nilable verifier field dereferenced in an unexported helper: fine when every caller established it, not otherwise
SK_OLD = '\tif v.ociTrustPolicyDoc == nil {\n\t\treturn false, nil, errors.New("ociTrustPolicyDoc is nil")\n\t}\n\ttrustPolicy, err := v.ociTrustPolicyDoc.GetApplicableTrustPolicy(opts.ArtifactReference)\n\tif err != nil {\n\t\treturn false, nil,'
SK_HELPER = (V, 'func verifyX509TrustedIdentities(', 'func (v *verifier) statementFor(ref string) (*trustpolicy.OCITrustPolicy, error) {\n\treturn v.ociTrustPolicyDoc.GetApplicableTrustPolicy(ref)\n}\n\nfunc verifyX509TrustedIdentities(')
VARIANTS += [
 dict(name='benign-nilable-field-in-helper-caller-guards', file=V, expect='silent', find=SK_OLD,
      replace='\tif v.ociTrustPolicyDoc == nil {\n\t\treturn false, nil, errors.New("ociTrustPolicyDoc is nil")\n\t}\n\ttrustPolicy, err := v.statementFor(opts.ArtifactReference)\n\tif err != nil {\n\t\treturn false, nil,', edits=[SK_HELPER]),
 dict(name='nilable-field-in-helper-caller-does-not-guard', file=V, expect='flagged(nilable/verifier-field/(*ngo/verifier.verifier).statementFor)', find=SK_OLD,
      replace='\ttrustPolicy, err := v.statementFor(opts.ArtifactReference)\n\tif err != nil {\n\t\treturn false, nil,', edits=[SK_HELPER]),
]

# the fetch moved into an unexported helper: the cap is an obligation of every caller of the helper
FV_HELPER = (R, '// signatureReferrers returns referrer nodes', 'func fetchVerified(ctx context.Context, fetcher content.Fetcher, desc ocispec.Descriptor) ([]byte, error) {\n\trc, err := fetcher.Fetch(ctx, desc)\n\tif err != nil {\n\t\treturn nil, err\n\t}\n\tdefer rc.Close()\n\treturn content.ReadAll(rc, desc)\n}\n\n// signatureReferrers returns referrer nodes')
FV_EDITS = [FV_HELPER,
  (R, '\tsigBlob, err := content.FetchAll(ctx, fetcher, sigBlobDesc)', '\tsigBlob, err := fetchVerified(ctx, fetcher, sigBlobDesc)'),
  (R, '\tmanifestJSON, err := content.FetchAll(ctx, fetcher, sigManifestDesc)', '\tmanifestJSON, err := fetchVerified(ctx, fetcher, sigManifestDesc)')]
VARIANTS += [
 dict(name='benign-fetch-in-helper-callers-cap', expect='silent', edits=FV_EDITS),
 dict(name='fetch-in-helper-one-caller-without-cap', expect='flagged(size-cap/(*ngo/registry.repositoryClient).getSignatureBlobDesc)',
      edits=FV_EDITS + [(R, '\tif sigManifestDesc.Size > maxManifestSizeLimit {\n\t\treturn ocispec.Descriptor{}, fmt.Errorf("signature manifest too large: %d bytes", sigManifestDesc.Size)\n\t}\n', '')]),
]

# range-over-func loops (slices.Backward / slices.All): the compiler's protocol checks are not product panics, and the index
# the iterator yields is a valid index of the ranged slice (and of a slice known to have the same length)
IT_IMPORT = (V, '\t"strings"\n\t"time"\n', '\t"strings"\n\tstdslices "slices"\n\t"time"\n')
IT_OLD = 'for i := len(certResults) - 1; i >= 0; i-- {\n\t\tcert := certChain[i]\n\t\tcertResult := certResults[i]'
VARIANTS += [
 dict(name='benign-range-over-backward-iterator', expect='silent',
      edits=[IT_IMPORT, (V, IT_OLD, 'for i, certResult := range stdslices.Backward(certResults) {\n\t\tcert := certChain[i]')]),
 dict(name='iterator-index-into-unrelated-slice', expect='flagged(index/ngo/verifier.revocationFinalResult)',
      edits=[IT_IMPORT, (V, IT_OLD, 'for i, certResult := range stdslices.Backward(certResults) {\n\t\tcert := certChain[i+1]')]),
 dict(name='iterator-without-length-agreement', expect='flagged(index/ngo/verifier.revocationFinalResult)',
      edits=[IT_IMPORT, (V, IT_OLD, 'for i, certResult := range stdslices.Backward(certResults) {\n\t\tcert := certChain[i]'),
             (V, '\tif len(certResults) != len(certChain) {', '\tif len(certResults) > len(certChain)+1 {')]),
]

# a local closure as the single failure exit: `failed := func(err error) (*Outcome, error) { outcome.Error = err; return outcome, err }`
FC_OLD = '\terr = v.processSignature(ctx, signature, envelopeMediaType, trustPolicy.Name, trustPolicy.TrustedIdentities, trustPolicy.TrustStores, trustPolicy.SignatureVerification, pluginConfig, outcome)\n\n\tif err != nil {\n\t\toutcome.Error = err\n\t\treturn outcome, err\n\t}\n'
def fc(body):
    return '\tfailed := func(err error) (*notation.VerificationOutcome, error) {\n' + body + '\t}\n\terr = v.processSignature(ctx, signature, envelopeMediaType, trustPolicy.Name, trustPolicy.TrustedIdentities, trustPolicy.TrustStores, trustPolicy.SignatureVerification, pluginConfig, outcome)\n\n\tif err != nil {\n\t\treturn failed(err)\n\t}\n'
VARIANTS += [
 dict(name='benign-failure-exit-closure', file=V, expect='silent', find=FC_OLD, replace=fc('\t\toutcome.Error = err\n\t\treturn outcome, err\n')),
 dict(name='failure-exit-closure-does-not-record', file=V, expect='flagged(consistency/(*ngo/verifier.verifier).Verify)', find=FC_OLD, replace=fc('\t\treturn outcome, err\n')),
 dict(name='failure-exit-closure-returns-nil', file=V, expect='flagged(consistency/(*ngo/verifier.verifier).Verify)', find=FC_OLD, replace=fc('\t\toutcome.Error = err\n\t\treturn outcome, nil\n')),
 dict(name='failure-exit-closure-returns-fresh-outcome', file=V, expect='flagged(consistency/(*ngo/verifier.verifier).Verify)', find=FC_OLD, replace=fc('\t\toutcome.Error = err\n\t\treturn &notation.VerificationOutcome{Error: err}, err\n')),
]

# the outcome made by a constructor and every exit concluded by a helper that records the error
NO_OLD = '\terr = v.processSignature(ctx, signature, envelopeMediaType, trustPolicy.Name, trustPolicy.TrustedIdentities, trustPolicy.TrustStores, trustPolicy.SignatureVerification, pluginConfig, outcome)\n\n\tif err != nil {\n\t\toutcome.Error = err\n\t\treturn outcome, err\n\t}\n'
NO_NEW = '\terr = v.processSignature(ctx, signature, envelopeMediaType, trustPolicy.Name, trustPolicy.TrustedIdentities, trustPolicy.TrustStores, trustPolicy.SignatureVerification, pluginConfig, outcome)\n\n\tif err != nil {\n\t\treturn conclude(outcome, err)\n\t}\n'
def conclude(body):
    return (V, 'func verifyX509TrustedIdentities(', 'func conclude(outcome *notation.VerificationOutcome, err error) (*notation.VerificationOutcome, error) {\n' + body + '}\n\nfunc verifyX509TrustedIdentities(')
VARIANTS += [
 dict(name='benign-exit-concluded-by-helper', file=V, expect='silent', find=NO_OLD, replace=NO_NEW, edits=[conclude('\toutcome.Error = err\n\treturn outcome, err\n')]),
 dict(name='conclude-helper-does-not-record', file=V, expect='flagged(consistency/(*ngo/verifier.verifier).Verify)', find=NO_OLD, replace=NO_NEW, edits=[conclude('\treturn outcome, err\n')]),
 dict(name='conclude-helper-returns-nil-error', file=V, expect='flagged(consistency/(*ngo/verifier.verifier).Verify)', find=NO_OLD, replace=NO_NEW, edits=[conclude('\toutcome.Error = err\n\treturn outcome, nil\n')]),
]

# an index handed back by a helper (positions remembered while scanning, -1 for none)
TP = 'verifier/trustpolicy/oci.go'
IDX_OLD = '\tvar wildcardPolicy *OCITrustPolicy\n\tvar applicablePolicy *OCITrustPolicy\n\tfor _, policyStatement := range policyDoc.TrustPolicies {\n\t\tif slices.Contains(policyStatement.RegistryScopes, trustpolicy.Wildcard) {\n\t\t\t// we need to deep copy because we can\'t use the loop variable\n\t\t\t// address. see https://stackoverflow.com/a/45967429\n\t\t\twildcardPolicy = (&policyStatement).clone()\n\t\t} else if slices.Contains(policyStatement.RegistryScopes, artifactPath) {\n\t\t\tapplicablePolicy = (&policyStatement).clone()\n\t\t}\n\t}\n'
def idx_new(use_exact='exact >= 0', use_wild='wildcard >= 0'):
    return '\tvar wildcardPolicy *OCITrustPolicy\n\tvar applicablePolicy *OCITrustPolicy\n\texact, wildcard := policyDoc.positions(artifactPath)\n\tif ' + use_exact + ' {\n\t\tapplicablePolicy = policyDoc.TrustPolicies[exact].clone()\n\t}\n\tif ' + use_wild + ' {\n\t\twildcardPolicy = policyDoc.TrustPolicies[wildcard].clone()\n\t}\n'
def idx_helper(ret='exact, wildcard', init='-1, -1'):
    return (TP, '// clone returns a pointer to the deep copied [OCITrustPolicy]', 'func (policyDoc *OCIDocument) positions(artifactPath string) (int, int) {\n\texact, wildcard := ' + init + '\n\tfor i := range policyDoc.TrustPolicies {\n\t\tscopes := policyDoc.TrustPolicies[i].RegistryScopes\n\t\tif slices.Contains(scopes, trustpolicy.Wildcard) {\n\t\t\twildcard = i\n\t\t} else if slices.Contains(scopes, artifactPath) {\n\t\t\texact = i\n\t\t}\n\t}\n\treturn ' + ret + '\n}\n\n// clone returns a pointer to the deep copied [OCITrustPolicy]')
VARIANTS += [
 dict(name='benign-positions-from-helper', file=TP, expect='silent', find=IDX_OLD, replace=idx_new(), edits=[idx_helper()]),
 dict(name='positions-from-helper-unguarded', file=TP, expect='flagged(index/(*ngo/verifier/trustpolicy.OCIDocument).GetApplicableTrustPolicy)', find=IDX_OLD, replace=idx_new(use_wild='wildcard != 0'), edits=[idx_helper()]),
 dict(name='positions-helper-returns-one-past', file=TP, expect='flagged(index/(*ngo/verifier/trustpolicy.OCIDocument).GetApplicableTrustPolicy)', find=IDX_OLD, replace=idx_new(), edits=[idx_helper(ret='exact, wildcard + 1')]),
 dict(name='positions-helper-returns-length-for-none', file=TP, expect='flagged(index/(*ngo/verifier/trustpolicy.OCIDocument).GetApplicableTrustPolicy)', find=IDX_OLD, replace=idx_new(), edits=[idx_helper(init='len(policyDoc.TrustPolicies), -1')]),
]

# the outcome produced, together with an error, by a helper that also runs the signature processing
PR_OLD = '\toutcome := &notation.VerificationOutcome{\n\t\tRawSignature:      signature,\n\t\tVerificationLevel: verificationLevel,\n\t}\n\t// verificationLevel is skip\n\tif reflect.DeepEqual(verificationLevel, trustpolicy.LevelSkip) {\n\t\tlogger.Debug("Skipping signature verification")\n\t\treturn outcome, nil\n\t}\n\terr = v.processSignature(ctx, signature, envelopeMediaType, trustPolicy.Name, trustPolicy.TrustedIdentities, trustPolicy.TrustStores, trustPolicy.SignatureVerification, pluginConfig, outcome)\n\n\tif err != nil {\n\t\toutcome.Error = err\n\t\treturn outcome, err\n\t}\n'
def pr_new(test='err != nil || skipped'):
    return '\toutcome, skipped, err := v.evaluate(ctx, signature, envelopeMediaType, trustPolicy, pluginConfig, verificationLevel)\n\tif ' + test + ' {\n\t\treturn outcome, err\n\t}\n'
def pr_helper(fail='\t\toutcome.Error = err\n\t\treturn outcome, false, err\n'):
    return (V, 'func verifyX509TrustedIdentities(', 'func (v *verifier) evaluate(ctx context.Context, signature []byte, envelopeMediaType string, trustPolicy *trustpolicy.OCITrustPolicy, pluginConfig map[string]string, verificationLevel *trustpolicy.VerificationLevel) (*notation.VerificationOutcome, bool, error) {\n\toutcome := &notation.VerificationOutcome{\n\t\tRawSignature:      signature,\n\t\tVerificationLevel: verificationLevel,\n\t}\n\tif reflect.DeepEqual(verificationLevel, trustpolicy.LevelSkip) {\n\t\treturn outcome, true, nil\n\t}\n\tif err := v.processSignature(ctx, signature, envelopeMediaType, trustPolicy.Name, trustPolicy.TrustedIdentities, trustPolicy.TrustStores, trustPolicy.SignatureVerification, pluginConfig, outcome); err != nil {\n' + fail + '\t}\n\treturn outcome, false, nil\n}\n\nfunc verifyX509TrustedIdentities(')
VARIANTS += [
 dict(name='benign-outcome-producer-helper', file=V, expect='silent', find=PR_OLD, replace=pr_new(), edits=[pr_helper()]),
 dict(name='outcome-producer-does-not-record', file=V, expect='flagged(consistency/(*ngo/verifier.verifier).Verify)', find=PR_OLD, replace=pr_new(), edits=[pr_helper(fail='\t\treturn outcome, false, err\n')]),
 dict(name='outcome-producer-error-not-tested-by-caller', file=V, expect='flagged((*ngo/verifier.verifier).Verify)', find=PR_OLD, replace=pr_new(test='skipped'), edits=[pr_helper()]),
 dict(name='outcome-producer-skip-not-tested-by-caller', file=V, expect='flagged(nilable/envelope-content/(*ngo/verifier.verifier).Verify)', find=PR_OLD, replace=pr_new(test='err != nil').replace('\tif err != nil {', '\t_ = skipped\n\tif err != nil {'), edits=[pr_helper()]),
]

# the cap moved into the fetch helper together with the fetch, the limit being a parameter (round-4 seed C19-6 and its benign twin)
FL_HELPER = (R, '// signatureReferrers returns referrer nodes', 'func fetchLimited(ctx context.Context, fetcher content.Fetcher, desc ocispec.Descriptor, limit int64, what string) ([]byte, error) {\n\tif desc.Size > limit {\n\t\treturn nil, fmt.Errorf("%s too large: %d bytes", what, desc.Size)\n\t}\n\treturn content.FetchAll(ctx, fetcher, desc)\n}\n\n// signatureReferrers returns referrer nodes')
FL_BLOB_CAP = (R, '\tif sigBlobDesc.Size > maxBlobSizeLimit {\n\t\treturn nil, ocispec.Descriptor{}, fmt.Errorf("signature blob too large: %d bytes", sigBlobDesc.Size)\n\t}\n', '')
FL_MAN_CAP = (R, '\tif sigManifestDesc.Size > maxManifestSizeLimit {\n\t\treturn ocispec.Descriptor{}, fmt.Errorf("signature manifest too large: %d bytes", sigManifestDesc.Size)\n\t}\n', '')
def fl_calls(blob='maxBlobSizeLimit', man='maxManifestSizeLimit'):
    return [(R, '\tsigBlob, err := content.FetchAll(ctx, fetcher, sigBlobDesc)', '\tsigBlob, err := fetchLimited(ctx, fetcher, sigBlobDesc, %s, "signature blob")' % blob),
            (R, '\tmanifestJSON, err := content.FetchAll(ctx, fetcher, sigManifestDesc)', '\tmanifestJSON, err := fetchLimited(ctx, fetcher, sigManifestDesc, %s, "signature manifest")' % man)]
VARIANTS += [
 dict(name='benign-cap-and-fetch-in-helper-with-limit-parameter', expect='silent', edits=[FL_HELPER, FL_BLOB_CAP, FL_MAN_CAP] + fl_calls()),
 dict(name='benign-limit-helper-compares-a-constant', expect='silent',
      edits=[(FL_HELPER[0], FL_HELPER[1], FL_HELPER[2].replace('desc.Size > limit', 'desc.Size > maxBlobSizeLimit').replace('"%s too large: %d bytes", what, desc.Size', '"%s too large: %d bytes (limit %d)", what, desc.Size, limit')), FL_BLOB_CAP, FL_MAN_CAP] + fl_calls()),
 dict(name='limit-helper-one-caller-passes-no-limit', expect='flagged(size-cap/)', edits=[FL_HELPER, FL_BLOB_CAP, FL_MAN_CAP] + fl_calls(man='0')),
 dict(name='limit-helper-caller-passes-a-computed-limit', expect='flagged(size-cap/)', edits=[FL_HELPER, FL_BLOB_CAP, FL_MAN_CAP] + fl_calls(blob='sigBlobDesc.Size+1')),
 dict(name='limit-helper-ignores-the-limit', expect='flagged(size-cap/)',
      edits=[(FL_HELPER[0], FL_HELPER[1], FL_HELPER[2].replace('\tif desc.Size > limit {\n\t\treturn nil, fmt.Errorf("%s too large: %d bytes", what, desc.Size)\n\t}\n', '\t_ = limit\n\t_ = what\n')), FL_BLOB_CAP, FL_MAN_CAP] + fl_calls()),
]

# ---- pointers out of decoded data (nilable/decoded-element, nilable/decoded-field) ----------------------------------------------
# the per-capability verdict of the verification plugin is a *VerificationResult looked up in a map decoded from the plugin's
# stdout: `{"verificationResults":{"<capability>":null}}` is a present key with a nil value. The presence test of the comma-ok
# form is not a nil test; the dereference may sit in a helper; the test may sit in the reader, in the helper, or at the return
# of a helper that hands the pointer back.
LK_OLD = '\t\tpluginResult := response.VerificationResults[capability]\n\t\tif pluginResult == nil {\n'
LK_OK = '\t\tpluginResult, ok := response.VerificationResults[capability]\n\t\tif !ok {\n'
LK_OK_NIL = '\t\tpluginResult, ok := response.VerificationResults[capability]\n\t\tif !ok || pluginResult == nil {\n'
DE_KEY = 'flagged(nilable/decoded-element/ngo/verifier.processPluginResponse)'
# seed 6 of round 4: the whole function tidied up (arms moved into helpers that dereference the verdict)
PP_OLD = r'''func processPluginResponse(capabilitiesToVerify []pluginframework.Capability, response *pluginframework.VerifySignatureResponse, outcome *notation.VerificationOutcome) error {
	verificationPluginName, err := getVerificationPlugin(&outcome.EnvelopeContent.SignerInfo)
	if err != nil {
		return err
	}

	// attribute keys are strings in the plugin protocol: a critical attribute
	// with any other key type (COSE labels can be integers) cannot be handed
	// to the plugin, so nothing can have processed it
	for _, attr := range outcome.EnvelopeContent.SignerInfo.SignedAttributes.ExtendedAttributes {
		if _, ok := attr.Key.(string); !ok && attr.Critical {
			return fmt.Errorf("extended critical attribute %v is not supported: only attributes with a string key can be processed by the verification plugin %q", attr.Key, verificationPluginName)
		}
	}

	// verify all extended critical attributes are processed by the plugin
	for _, attr := range getNonPluginExtendedCriticalAttributes(&outcome.EnvelopeContent.SignerInfo) {
		if !slices.ContainsAny(response.ProcessedAttributes, attr.Key) {
			return fmt.Errorf("extended critical attribute %q was not processed by the verification plugin %q (all extended critical attributes must be processed by the verification plugin)", attr.Key, verificationPluginName)
		}
	}

	for _, capability := range capabilitiesToVerify {
		pluginResult := response.VerificationResults[capability]
		if pluginResult == nil {
			// verification result is empty for this capability
			return notation.ErrorVerificationInconclusive{Msg: fmt.Sprintf("verification plugin %q failed to verify %q", verificationPluginName, capability)}
		}
		switch capability {
		case pluginframework.CapabilityTrustedIdentityVerifier:
			if !pluginResult.Success {
				// find the Authenticity VerificationResult that we already
				// created during x509 trust store verification
				var authenticityResult *notation.ValidationResult
				for _, r := range outcome.VerificationResults {
					if r.Type == trustpolicy.TypeAuthenticity {
						authenticityResult = r
						break
					}
				}

				authenticityResult.Error = fmt.Errorf("trusted identify verification by plugin %q failed with reason %q", verificationPluginName, pluginResult.Reason)

				if isCriticalFailure(authenticityResult) {
					return authenticityResult.Error
				}
			}
		case pluginframework.CapabilityRevocationCheckVerifier:
			var revocationResult *notation.ValidationResult
			if !pluginResult.Success {
				revocationResult = &notation.ValidationResult{
					Error:  fmt.Errorf("revocation check by verification plugin %q failed with reason %q", verificationPluginName, pluginResult.Reason),
					Type:   trustpolicy.TypeRevocation,
					Action: outcome.VerificationLevel.Enforcement[trustpolicy.TypeRevocation],
				}
			} else {
				revocationResult = &notation.ValidationResult{
					Type:   trustpolicy.TypeRevocation,
					Action: outcome.VerificationLevel.Enforcement[trustpolicy.TypeRevocation],
				}
			}
			outcome.VerificationResults = append(outcome.VerificationResults, revocationResult)
			if isCriticalFailure(revocationResult) {
				return revocationResult.Error
			}
		}
	}

	return nil
}

'''
PP_NEW = r'''func processPluginResponse(capabilitiesToVerify []pluginframework.Capability, response *pluginframework.VerifySignatureResponse, outcome *notation.VerificationOutcome) error {
	signerInfo := &outcome.EnvelopeContent.SignerInfo
	verificationPluginName, err := getVerificationPlugin(signerInfo)
	if err != nil {
		return err
	}
	if err := checkPluginProcessedAttributes(verificationPluginName, signerInfo, response.ProcessedAttributes); err != nil {
		return err
	}

	for _, capability := range capabilitiesToVerify {
		pluginResult, ok := response.VerificationResults[capability]
		if !ok {
			// verification result is empty for this capability
			return notation.ErrorVerificationInconclusive{Msg: fmt.Sprintf("verification plugin %q failed to verify %q", verificationPluginName, capability)}
		}

		var result *notation.ValidationResult
		switch capability {
		case pluginframework.CapabilityTrustedIdentityVerifier:
			result = pluginTrustedIdentityResult(verificationPluginName, pluginResult, outcome)
		case pluginframework.CapabilityRevocationCheckVerifier:
			result = pluginRevocationResult(verificationPluginName, pluginResult, outcome)
			outcome.VerificationResults = append(outcome.VerificationResults, result)
		default:
			continue
		}
		if isCriticalFailure(result) {
			return result.Error
		}
	}

	return nil
}

// checkPluginProcessedAttributes verifies that every extended critical
// attribute of the signature has been processed by the verification plugin.
func checkPluginProcessedAttributes(verificationPluginName string, signerInfo *signature.SignerInfo, processedAttributes []interface{}) error {
	// attribute keys are strings in the plugin protocol: a critical attribute
	// with any other key type (COSE labels can be integers) cannot be handed
	// to the plugin, so nothing can have processed it
	for _, attr := range signerInfo.SignedAttributes.ExtendedAttributes {
		if _, ok := attr.Key.(string); !ok && attr.Critical {
			return fmt.Errorf("extended critical attribute %v is not supported: only attributes with a string key can be processed by the verification plugin %q", attr.Key, verificationPluginName)
		}
	}

	// verify all extended critical attributes are processed by the plugin
	for _, attr := range getNonPluginExtendedCriticalAttributes(signerInfo) {
		if !slices.ContainsAny(processedAttributes, attr.Key) {
			return fmt.Errorf("extended critical attribute %q was not processed by the verification plugin %q (all extended critical attributes must be processed by the verification plugin)", attr.Key, verificationPluginName)
		}
	}
	return nil
}

// pluginTrustedIdentityResult folds the trusted identity verification done by
// the plugin into the Authenticity ValidationResult that was created during
// x509 trust store verification, and returns that result.
func pluginTrustedIdentityResult(verificationPluginName string, pluginResult *pluginframework.VerificationResult, outcome *notation.VerificationOutcome) *notation.ValidationResult {
	var authenticityResult *notation.ValidationResult
	for _, r := range outcome.VerificationResults {
		if r.Type == trustpolicy.TypeAuthenticity {
			authenticityResult = r
			break
		}
	}
	if !pluginResult.Success {
		authenticityResult.Error = fmt.Errorf("trusted identify verification by plugin %q failed with reason %q", verificationPluginName, pluginResult.Reason)
	}
	return authenticityResult
}

// pluginRevocationResult returns the Revocation ValidationResult of the
// revocation check done by the plugin.
func pluginRevocationResult(verificationPluginName string, pluginResult *pluginframework.VerificationResult, outcome *notation.VerificationOutcome) *notation.ValidationResult {
	result := &notation.ValidationResult{
		Type:   trustpolicy.TypeRevocation,
		Action: outcome.VerificationLevel.Enforcement[trustpolicy.TypeRevocation],
	}
	if !pluginResult.Success {
		result.Error = fmt.Errorf("revocation check by verification plugin %q failed with reason %q", verificationPluginName, pluginResult.Reason)
	}
	return result
}

'''
VI = 'func verifyIntegrity(sigBlob []byte'
def vi(helpers):
    return (V, VI, helpers + '\n' + VI)
H_FAILED = 'func pluginVerdictFailed(r *pluginframework.VerificationResult) bool {\n\treturn !r.Success\n}\n'
H_FAILED_SAFE = 'func pluginVerdictFailed(r *pluginframework.VerificationResult) bool {\n\tif r == nil {\n\t\treturn true\n\t}\n\treturn !r.Success\n}\n'
H_REASON = 'func pluginVerdictReason(r *pluginframework.VerificationResult) string {\n\treturn r.Reason\n}\n'
H_REASON_SAFE = 'func pluginVerdictReason(r *pluginframework.VerificationResult) string {\n\tif r != nil {\n\t\treturn r.Reason\n\t}\n\treturn "no result"\n}\n'
USE_FAILED = (V, '\t\t\tif !pluginResult.Success {\n', '\t\t\tif pluginVerdictFailed(pluginResult) {\n')
USE_REASON = (V, 'verificationPluginName, pluginResult.Reason)', 'verificationPluginName, pluginVerdictReason(pluginResult))')
def h_lookup(ret):
    return 'func verdictFor(response *pluginframework.VerifySignatureResponse, capability pluginframework.Capability) (*pluginframework.VerificationResult, bool) {\n\tr, ok := response.VerificationResults[capability]\n\treturn ' + ret + '\n}\n'
def lk_helper(test):
    return '\t\tpluginResult, ok := verdictFor(response, capability)\n\t\tif ' + test + ' {\n'
VARIANTS += [
 dict(name='seed4-6-verdict-presence-only-derefs-in-helpers', file=V, expect='flagged(nilable/decoded-element/ngo/verifier.processPluginResponse)', find=PP_OLD, replace=PP_NEW),
 dict(name='benign-seed4-6-twin-presence-and-nil-test', file=V, expect='silent', find=PP_OLD, replace=PP_NEW.replace('\t\tif !ok {\n', '\t\tif !ok || pluginResult == nil {\n')),
 dict(name='benign-seed4-6-twin-plain-lookup-nil-test', file=V, expect='silent', find=PP_OLD,
      replace=PP_NEW.replace('\t\tpluginResult, ok := response.VerificationResults[capability]\n\t\tif !ok {\n', '\t\tpluginResult := response.VerificationResults[capability]\n\t\tif pluginResult == nil {\n')),
 dict(name='verdict-presence-test-only', file=V, expect=DE_KEY, find=LK_OLD, replace=LK_OK),
 dict(name='verdict-nil-test-dropped', file=V, expect=DE_KEY,
      find=LK_OLD + '\t\t\t// verification result is empty for this capability\n\t\t\treturn notation.ErrorVerificationInconclusive{Msg: fmt.Sprintf("verification plugin %q failed to verify %q", verificationPluginName, capability)}\n\t\t}\n',
      replace='\t\tpluginResult := response.VerificationResults[capability]\n'),
 dict(name='verdict-nil-test-on-other-capability', file=V, expect=DE_KEY, find=LK_OLD,
      replace='\t\tpluginResult := response.VerificationResults[capability]\n\t\tif response.VerificationResults[pluginframework.CapabilityTrustedIdentityVerifier] == nil {\n'),
 dict(name='benign-verdict-presence-and-nil-test', file=V, expect='silent', find=LK_OLD, replace=LK_OK_NIL),
 dict(name='benign-verdict-nil-test-in-boolean-local', file=V, expect='silent', find=LK_OLD,
      replace='\t\tpluginResult := response.VerificationResults[capability]\n\t\tmissing := nil == pluginResult\n\t\tif missing {\n'),
 dict(name='benign-verdict-through-phi-tested', file=V, expect='silent', find=LK_OLD,
      replace='\t\tvar pluginResult *pluginframework.VerificationResult\n\t\tif r, ok := response.VerificationResults[capability]; ok {\n\t\t\tpluginResult = r\n\t\t}\n\t\tif pluginResult == nil {\n'),
 # the dereference in a helper
 dict(name='benign-verdict-deref-in-helper-caller-tests', expect='silent', edits=[USE_FAILED, USE_FAILED, vi(H_FAILED)]),
 dict(name='verdict-deref-in-helper-caller-tests-presence-only', expect=DE_KEY, edits=[(V, LK_OLD, LK_OK), USE_FAILED, USE_FAILED, USE_REASON, USE_REASON, vi(H_FAILED_SAFE + '\n' + H_REASON)]),
 dict(name='benign-verdict-read-only-by-nil-safe-helpers', expect='silent', edits=[(V, LK_OLD, LK_OK), USE_FAILED, USE_FAILED, USE_REASON, USE_REASON, vi(H_FAILED_SAFE + '\n' + H_REASON_SAFE)]),
 dict(name='verdict-one-arm-reaches-helper-unguarded', expect=DE_KEY,
      edits=[(V, LK_OLD, '\t\tpluginResult, ok := response.VerificationResults[capability]\n\t\tif !ok || (pluginResult == nil && capability != pluginframework.CapabilityRevocationCheckVerifier) {\n'), USE_FAILED, USE_FAILED, vi(H_FAILED)]),
 # the pointer handed back by a helper
 dict(name='verdict-from-helper-presence-only', expect='flagged(nilable/decoded-element/ngo/verifier.verdictFor)', edits=[(V, LK_OLD, lk_helper('!ok')), vi(h_lookup('r, ok'))]),
 dict(name='benign-verdict-from-helper-caller-tests-nil', expect='silent', edits=[(V, LK_OLD, lk_helper('!ok || pluginResult == nil')), vi(h_lookup('r, ok'))]),
 dict(name='benign-verdict-from-helper-that-tests-nil', expect='silent', edits=[(V, LK_OLD, lk_helper('!ok')),
      vi('func verdictFor(response *pluginframework.VerifySignatureResponse, capability pluginframework.Capability) (*pluginframework.VerificationResult, bool) {\n\tr := response.VerificationResults[capability]\n\tif r == nil {\n\t\treturn nil, false\n\t}\n\treturn r, true\n}\n')]),
]
# optional pointer members of decoded documents (manifest subject, default key name)
SUBJ_OLD = '\t\t\tif image.Subject == nil || !content.Equal(*image.Subject, desc) {\n'
ART_OLD = '\t\t\tif artifact.Subject == nil || !content.Equal(*artifact.Subject, desc) {\n'
DF_KEY = 'flagged(nilable/decoded-field/ngo/registry.signatureReferrers)'
def subj_helper(body):
    return (R, '// signatureReferrers returns referrer nodes', 'func sameSubject(subject *ocispec.Descriptor, desc ocispec.Descriptor) bool {\n\treturn ' + body + '\n}\n\n// signatureReferrers returns referrer nodes')
SUBJ_USE = [(R, SUBJ_OLD, '\t\t\tif !sameSubject(image.Subject, desc) {\n'), (R, ART_OLD, '\t\t\tif !sameSubject(artifact.Subject, desc) {\n')]
VARIANTS += [
 dict(name='manifest-subject-nil-test-dropped', file=R, expect=DF_KEY, find=SUBJ_OLD, replace='\t\t\tif !content.Equal(*image.Subject, desc) {\n'),
 dict(name='artifact-subject-nil-test-on-other-document', file=R, expect=DF_KEY, find=ART_OLD, replace='\t\t\tif node.Annotations == nil || !content.Equal(*artifact.Subject, desc) {\n'),
 dict(name='benign-manifest-subject-in-local', file=R, expect='silent', find=SUBJ_OLD, replace='\t\t\tif subject := image.Subject; subject == nil || !content.Equal(*subject, desc) {\n'),
 dict(name='benign-subject-test-in-helper', expect='silent', edits=SUBJ_USE + [subj_helper('subject != nil && content.Equal(*subject, desc)')]),
 dict(name='subject-helper-without-nil-test', expect=DF_KEY, edits=SUBJ_USE + [subj_helper('content.Equal(*subject, desc)')]),
 dict(name='default-key-nil-test-dropped', file='config/keys.go', expect='flagged(nilable/decoded-field/ngo/config.validateKeys)',
      find='\tif config.Default != nil {\n\t\tdefaultKey := *config.Default\n', replace='\tif len(config.Keys) > 0 {\n\t\tdefaultKey := *config.Default\n'),
]

# the pointer handed back next to a verdict: what the caller knows about the other result must exclude every exit of the helper
# that hands back an untested pointer (`return r, ok` does not, `return r, ok && r != nil` does)
def h_verdict(res, body):
    return vi('func verdictFor(response *pluginframework.VerifySignatureResponse, capability pluginframework.Capability) (*pluginframework.VerificationResult, ' + res + ') {\n' + body + '}\n')
LK_ERR = '\t\tpluginResult, lerr := verdictFor(response, capability)\n\t\tif lerr != nil {\n'
DE_HKEY = 'flagged(nilable/decoded-element/ngo/verifier.verdictFor)'
VARIANTS += [
 dict(name='benign-verdict-from-helper-ok-implies-non-nil', expect='silent', edits=[(V, LK_OLD, lk_helper('!ok')), vi(h_lookup('r, ok && r != nil'))]),
 dict(name='benign-verdict-from-helper-true-only-with-non-nil', expect='silent', edits=[(V, LK_OLD, lk_helper('!ok')),
      h_verdict('bool', '\tif r, ok := response.VerificationResults[capability]; ok && r != nil {\n\t\treturn r, true\n\t}\n\treturn nil, false\n')]),
 dict(name='verdict-from-helper-true-on-presence', expect=DE_HKEY, edits=[(V, LK_OLD, lk_helper('!ok')),
      h_verdict('bool', '\tif r, ok := response.VerificationResults[capability]; ok {\n\t\treturn r, true\n\t}\n\treturn nil, false\n')]),
 dict(name='verdict-from-helper-one-exit-untested', expect=DE_HKEY, edits=[(V, LK_OLD, lk_helper('!ok')),
      h_verdict('bool', '\tr, ok := response.VerificationResults[capability]\n\tif capability == pluginframework.CapabilityRevocationCheckVerifier {\n\t\treturn r, ok\n\t}\n\treturn r, r != nil\n')]),
 dict(name='verdict-from-helper-caller-on-the-wrong-side', expect=DE_HKEY, edits=[(V, LK_OLD, lk_helper('ok')), h_verdict('bool', '\tr := response.VerificationResults[capability]\n\treturn r, r != nil\n')]),
 dict(name='verdict-from-helper-error-on-absence-only', expect=DE_HKEY, edits=[(V, LK_OLD, LK_ERR),
      h_verdict('error', '\tr, ok := response.VerificationResults[capability]\n\tif !ok {\n\t\treturn nil, errors.New("no verdict")\n\t}\n\treturn r, nil\n')]),
 dict(name='benign-verdict-from-helper-error-on-absence-or-null', expect='silent', edits=[(V, LK_OLD, LK_ERR),
      h_verdict('error', '\tr, ok := response.VerificationResults[capability]\n\tif !ok || r == nil {\n\t\treturn r, errors.New("no verdict")\n\t}\n\treturn r, nil\n')]),
 # a closure that reads the verdict: it must only ever run after the test
 dict(name='benign-verdict-closure-called-after-test', file=V, expect='silent', find=LK_OLD,
      replace='\t\tpluginResult := response.VerificationResults[capability]\n\t\tfailed := func() bool { return !pluginResult.Success }\n\t\tif pluginResult == nil || (failed() && capability == "") {\n'),
 dict(name='verdict-closure-called-before-test', file=V, expect=DE_KEY, find=LK_OLD,
      replace='\t\tpluginResult := response.VerificationResults[capability]\n\t\tfailed := func() bool { return !pluginResult.Success }\n\t\tif failed() && pluginResult == nil {\n'),
 # every verdict of the response read in a loop
 dict(name='verdict-range-value-untested', file=V, expect=DE_KEY, find=LK_OLD,
      replace='\t\tfor _, other := range response.VerificationResults {\n\t\t\tif other.Success {\n\t\t\t\tbreak\n\t\t\t}\n\t\t}\n' + LK_OLD),
 dict(name='benign-verdict-range-value-tested', file=V, expect='silent', find=LK_OLD,
      replace='\t\tfor _, other := range response.VerificationResults {\n\t\t\tif other != nil && other.Success {\n\t\t\t\tbreak\n\t\t\t}\n\t\t}\n' + LK_OLD),
]

# a constant bound that an earlier access of the same value already proved (`x[0]` … `x[1:]`)
LEAF = '\tleafCert := certs[0] // trusted identities only supported on the leaf cert\n'
VARIANTS += [
 dict(name='benign-rest-slice-after-first-element', file=V, expect='silent', find=LEAF, replace=LEAF + '\tfor _, issuer := range certs[1:] {\n\t\t_ = issuer\n\t}\n'),
 dict(name='benign-first-element-read-twice', file=V, expect='silent', find=LEAF, replace=LEAF + '\t_ = certs[0].Subject\n\t_ = certs[:1]\n'),
 dict(name='slice-beyond-what-the-first-element-proves', file=V, expect='flagged(slice/ngo/verifier.verifyX509TrustedIdentities)', find=LEAF, replace=LEAF + '\tfor _, issuer := range certs[2:] {\n\t\t_ = issuer\n\t}\n'),
 dict(name='second-element-after-first-only', file=V, expect='flagged(index/ngo/verifier.verifyX509TrustedIdentities)', find=LEAF, replace=LEAF + '\t_ = certs[1].Subject\n'),
 dict(name='rest-slice-before-first-element-on-another-branch', file=V, expect='flagged(slice/ngo/verifier.verifyX509TrustedIdentities)', find=LEAF,
      replace='\tif len(trustedX509Identities) > 3 {\n\t\t_ = certs[0].Subject\n\t}\n\t_ = certs[1:]\n' + LEAF),
]

# ---- parameters the function itself tests against nil (nilable/tested-parameter) ----------------------------------------
# a function that compares a pointer / interface parameter with nil expects nil; every dereference the parameter reaches lies
# behind the non-nil edge of a test of it. SignOCI hands the *SignerInfo a caller-supplied Signer returned to generateAnnotations.
E = 'internal/envelope/envelope.go'
GA_OLD = '\tif signerInfo == nil {\n\t\treturn nil, errors.New("failed to generate annotations: signerInfo cannot be nil")\n\t}\n'
GA_RET = '\t\treturn nil, errors.New("failed to generate annotations: signerInfo cannot be nil")\n\t}\n'
ST_OLD = '\tif signerInfo == nil {\n\t\treturn time.Time{}, errors.New("failed to generate annotations: signerInfo cannot be nil")\n\t}\n\tsigningTime := signerInfo.SignedAttributes.SigningTime\n'
ST_RET = '\t\treturn time.Time{}, errors.New("failed to generate annotations: signerInfo cannot be nil")\n\t}\n'
ST_USE = '\tsigningTime := signerInfo.SignedAttributes.SigningTime\n'
EP_OLD = '\tif installedPlugin == nil {\n\t\treturn nil, errors.New("installedPlugin cannot be nil")\n\t}\n'
EP_RET = '\t\treturn nil, errors.New("installedPlugin cannot be nil")\n\t}\n'
EP_CALLER = '\tif installedPlugin != nil {\n\t\tvar capabilitiesToVerify []pluginframework.Capability\n'
REPO_OLD = '\tif repo == nil {\n\t\treturn ocispec.Descriptor{}, ocispec.Descriptor{}, errors.New("repo cannot be nil")\n\t}\n'
REPO_RET = '\t\treturn ocispec.Descriptor{}, ocispec.Descriptor{}, errors.New("repo cannot be nil")\n\t}\n'
TP_GA = 'flagged(nilable/tested-parameter/ngo.generateAnnotations)'
TP_ST = 'flagged(nilable/tested-parameter/ngo/internal/envelope.SigningTime)'
TP_EP = 'flagged(nilable/tested-parameter/ngo/verifier.executePlugin)'
TP_SO = 'flagged(nilable/tested-parameter/ngo.SignOCI)'
VARIANTS += [
 # the guard weakened by a conjunct: the body is no longer reached for a nil parameter, the dereferences behind it are
 dict(name='annotator-signer-info-guard-false-conjunct', file=N, expect=TP_GA, find=GA_OLD, replace='\tif false && (signerInfo == nil) {\n' + GA_RET),
 dict(name='annotator-signer-info-guard-extra-conjunct', file=N, expect=TP_GA, find=GA_OLD, replace='\tif len(annotations) > 0 && signerInfo == nil {\n' + GA_RET),
 dict(name='annotator-signer-info-tested-on-one-path-only', file=N, expect=TP_GA, find=GA_OLD,
      replace='\tif signerInfo != nil && len(signerInfo.CertificateChain) == 0 {\n\t\treturn nil, errors.New("failed to generate annotations: no certificate chain")\n\t}\n'),
 dict(name='signing-time-guard-false-conjunct', file=E, expect=TP_ST, find=ST_OLD, replace='\tif false && (signerInfo == nil) {\n' + ST_RET + ST_USE),
 dict(name='signing-time-read-before-the-test', file=E, expect=TP_ST, find=ST_OLD, replace=ST_USE + '\tif signerInfo == nil {\n' + ST_RET),
 dict(name='sign-repo-guard-false-conjunct', file=N, expect=TP_SO, find=REPO_OLD, replace='\tif false && (repo == nil) {\n' + REPO_RET),
 dict(name='sign-repo-guard-extra-conjunct', file=N, expect=TP_SO, find=REPO_OLD, replace='\tif signOpts.ArtifactReference == "" && repo == nil {\n' + REPO_RET),
 # executePlugin is unexported and its only call site lies behind `installedPlugin != nil`: its own test is redundant as long as
 # the caller's holds; weakened together with the caller's, the nil plugin reaches the method call
 dict(name='benign-plugin-guard-weakened-caller-still-tests', file=V, expect='silent', find=EP_OLD, replace='\tif false && (installedPlugin == nil) {\n' + EP_RET),
 dict(name='plugin-guard-and-caller-test-weakened', expect=TP_EP,
      edits=[(V, EP_OLD, '\tif len(capabilitiesToVerify) > 1 && installedPlugin == nil {\n' + EP_RET),
             (V, EP_CALLER, '\tif installedPlugin != nil || len(pluginCapabilities) > 0 {\n\t\tvar capabilitiesToVerify []pluginframework.Capability\n')]),
 dict(name='plugin-guard-false-conjunct-caller-test-weakened', expect=TP_EP,
      edits=[(V, EP_OLD, '\tif false && (installedPlugin == nil) {\n' + EP_RET),
             (V, EP_CALLER, '\tif installedPlugin != nil || len(pluginCapabilities) > 0 {\n\t\tvar capabilitiesToVerify []pluginframework.Capability\n')]),
 # the same guards spelled differently
 dict(name='benign-annotator-guard-operands-swapped', file=N, expect='silent', find=GA_OLD, replace='\tif nil == signerInfo {\n' + GA_RET),
 dict(name='benign-annotator-guard-as-switch', file=N, expect='silent', find=GA_OLD, replace='\tswitch {\n\tcase signerInfo == nil:\n\t' + GA_RET.replace('\n\t}\n', '\n\t}\n')),
 dict(name='benign-annotator-guard-nested-if', file=N, expect='silent', find=GA_OLD,
      replace='\tif annotations == nil {\n\t\tif signerInfo == nil {\n\t' + GA_RET.replace('\n\t}\n', '\n\t\t}\n\t}\n') + GA_OLD),
 dict(name='benign-annotator-default-signer-info', file=N, expect='silent', find=GA_OLD, replace='\tif signerInfo == nil {\n\t\tsignerInfo = &signature.SignerInfo{}\n\t}\n'),
 dict(name='benign-annotator-use-under-the-non-nil-edge', file=N, expect='silent', find=GA_OLD + '\tvar thumbprints []string\n\tfor _, cert := range signerInfo.CertificateChain {',
      replace='\tvar thumbprints []string\n\tvar certs []*x509.Certificate\n\tif signerInfo != nil {\n\t\tcerts = signerInfo.CertificateChain\n\t}\n\tfor _, cert := range certs {'),
 dict(name='benign-signing-time-guard-in-helper', file=E, expect='silent', find=ST_OLD,
      replace='\tif err := requireSignerInfo(signerInfo); err != nil {\n\t\treturn time.Time{}, err\n\t}\n' + ST_USE,
      edits=[(E, '// SigningTime returns the signing time', 'func requireSignerInfo(s *signature.SignerInfo) error {\n\tif s == nil {\n\t\treturn errors.New("failed to generate annotations: signerInfo cannot be nil")\n\t}\n\treturn nil\n}\n\n// SigningTime returns the signing time')]),
 dict(name='benign-signing-time-bool-local', file=E, expect='silent', find=ST_OLD,
      replace='\tmissing := signerInfo == nil\n\tif missing {\n' + ST_RET + ST_USE),
 dict(name='signing-time-guard-extra-conjunct', file=E, expect=TP_ST, find=ST_OLD,
      replace='\tif signerInfo == nil && time.Now().IsZero() {\n' + ST_RET + ST_USE),
]

# ---- a local pointer that is nil on one way in (checker/nilphi.go; seed C12-7) ----
CRLF = 'verifier/crl/crl.go'
_NP = 'flagged(nilable/local-maybe-nil)'
_GET_OLD = '\tvar bundle corecrl.Bundle\n\tbundle.BaseCRL, err = x509.ParseRevocationList(content.BaseCRL)\n\tif err != nil {\n\t\treturn nil, fmt.Errorf("failed to parse base CRL of file retrieved from file cache: %w", err)\n\t}\n\tif content.DeltaCRL != nil {\n\t\tbundle.DeltaCRL, err = x509.ParseRevocationList(content.DeltaCRL)\n\t\tif err != nil {\n\t\t\treturn nil, fmt.Errorf("failed to parse delta CRL of file retrieved from file cache: %w", err)\n\t\t}\n\t}\n\n\t// check expiry\n\tif err := checkExpiry(ctx, bundle.BaseCRL.NextUpdate); err != nil {\n\t\treturn nil, fmt.Errorf("check BaseCRL expiry failed: %w", err)\n\t}\n\tif bundle.DeltaCRL != nil {\n\t\tif err := checkExpiry(ctx, bundle.DeltaCRL.NextUpdate); err != nil {\n\t\t\treturn nil, fmt.Errorf("check DeltaCRL expiry failed: %w", err)\n\t\t}\n\t}\n\n\treturn &bundle, nil\n'
_APPEND_AUTH = '\toutcome.VerificationResults = append(outcome.VerificationResults, authenticityResult)\n\tlogVerificationResult(logger, authenticityResult)\n'
VARIANTS += [
 dict(name='nilphi-delta-guards-disagree', file=CRLF, expect=_NP, find=_GET_OLD, replace='\tbaseCRL, err := x509.ParseRevocationList(content.BaseCRL)\n\tif err != nil {\n\t\treturn nil, fmt.Errorf("failed to parse base CRL of file retrieved from file cache: %w", err)\n\t}\n\tvar deltaCRL *x509.RevocationList\n\tif len(content.DeltaCRL) > 0 {\n\t\tdeltaCRL, err = x509.ParseRevocationList(content.DeltaCRL)\n\t\tif err != nil {\n\t\t\treturn nil, fmt.Errorf("failed to parse delta CRL of file retrieved from file cache: %w", err)\n\t\t}\n\t}\n\n\t// check expiry\n\tif err := checkExpiry(ctx, baseCRL.NextUpdate); err != nil {\n\t\treturn nil, fmt.Errorf("check BaseCRL expiry failed: %w", err)\n\t}\n\tif content.DeltaCRL != nil {\n\t\tif err := checkExpiry(ctx, deltaCRL.NextUpdate); err != nil {\n\t\t\treturn nil, fmt.Errorf("check DeltaCRL expiry failed: %w", err)\n\t\t}\n\t}\n\n\treturn &corecrl.Bundle{BaseCRL: baseCRL, DeltaCRL: deltaCRL}, nil\n', why='seed C12-7: parsed behind len > 0, dereferenced behind != nil'),
 dict(name='nilphi-delta-deref-unguarded', file=CRLF, expect=_NP, find=_GET_OLD, replace='\tbaseCRL, err := x509.ParseRevocationList(content.BaseCRL)\n\tif err != nil {\n\t\treturn nil, fmt.Errorf("failed to parse base CRL of file retrieved from file cache: %w", err)\n\t}\n\tvar deltaCRL *x509.RevocationList\n\tif content.DeltaCRL != nil {\n\t\tdeltaCRL, err = x509.ParseRevocationList(content.DeltaCRL)\n\t\tif err != nil {\n\t\t\treturn nil, fmt.Errorf("failed to parse delta CRL of file retrieved from file cache: %w", err)\n\t\t}\n\t}\n\n\t// check expiry\n\tif err := checkExpiry(ctx, baseCRL.NextUpdate); err != nil {\n\t\treturn nil, fmt.Errorf("check BaseCRL expiry failed: %w", err)\n\t}\n\tif baseCRL != nil {\n\t\tif err := checkExpiry(ctx, deltaCRL.NextUpdate); err != nil {\n\t\t\treturn nil, fmt.Errorf("check DeltaCRL expiry failed: %w", err)\n\t\t}\n\t}\n\n\treturn &corecrl.Bundle{BaseCRL: baseCRL, DeltaCRL: deltaCRL}, nil\n', why='dereferenced whenever the base CRL is fine'),
 dict(name='benign-nilphi-delta-guards-same-test', file=CRLF, expect='silent', find=_GET_OLD, replace='\tbaseCRL, err := x509.ParseRevocationList(content.BaseCRL)\n\tif err != nil {\n\t\treturn nil, fmt.Errorf("failed to parse base CRL of file retrieved from file cache: %w", err)\n\t}\n\tvar deltaCRL *x509.RevocationList\n\tif content.DeltaCRL != nil {\n\t\tdeltaCRL, err = x509.ParseRevocationList(content.DeltaCRL)\n\t\tif err != nil {\n\t\t\treturn nil, fmt.Errorf("failed to parse delta CRL of file retrieved from file cache: %w", err)\n\t\t}\n\t}\n\n\t// check expiry\n\tif err := checkExpiry(ctx, baseCRL.NextUpdate); err != nil {\n\t\treturn nil, fmt.Errorf("check BaseCRL expiry failed: %w", err)\n\t}\n\tif content.DeltaCRL != nil {\n\t\tif err := checkExpiry(ctx, deltaCRL.NextUpdate); err != nil {\n\t\t\treturn nil, fmt.Errorf("check DeltaCRL expiry failed: %w", err)\n\t\t}\n\t}\n\n\treturn &corecrl.Bundle{BaseCRL: baseCRL, DeltaCRL: deltaCRL}, nil\n', why='both guards test the same quantity'),
 dict(name='benign-nilphi-delta-guard-on-the-local', file=CRLF, expect='silent', find=_GET_OLD, replace='\tbaseCRL, err := x509.ParseRevocationList(content.BaseCRL)\n\tif err != nil {\n\t\treturn nil, fmt.Errorf("failed to parse base CRL of file retrieved from file cache: %w", err)\n\t}\n\tvar deltaCRL *x509.RevocationList\n\tif len(content.DeltaCRL) > 0 {\n\t\tdeltaCRL, err = x509.ParseRevocationList(content.DeltaCRL)\n\t\tif err != nil {\n\t\t\treturn nil, fmt.Errorf("failed to parse delta CRL of file retrieved from file cache: %w", err)\n\t\t}\n\t}\n\n\t// check expiry\n\tif err := checkExpiry(ctx, baseCRL.NextUpdate); err != nil {\n\t\treturn nil, fmt.Errorf("check BaseCRL expiry failed: %w", err)\n\t}\n\tif deltaCRL != nil {\n\t\tif err := checkExpiry(ctx, deltaCRL.NextUpdate); err != nil {\n\t\t\treturn nil, fmt.Errorf("check DeltaCRL expiry failed: %w", err)\n\t\t}\n\t}\n\n\treturn &corecrl.Bundle{BaseCRL: baseCRL, DeltaCRL: deltaCRL}, nil\n', why='the dereference is guarded by the nil test of the local itself'),
 dict(name='nilphi-authenticity-result-recorded-only-on-failure', file=V, expect=_NP, find=_APPEND_AUTH,
      replace='\tif authenticityResult.Error != nil {\n\t\toutcome.VerificationResults = append(outcome.VerificationResults, authenticityResult)\n\t}\n\tlogVerificationResult(logger, authenticityResult)\n',
      why='the search in processPluginResponse can now find nothing: nil dereference on a failed plugin verdict'),
]

# ---- map handed to an unexported helper: decided at the helper's call sites (cross-sweep of C04's benign variants) ----
_PK = 'internal/pkix/pkix.go'
_ATTR_HELPER = [('internal/pkix/pkix.go', '// ParseDistinguishedName parses a DN name and validates Notary Project rules\n', '// addAttribute stores one attribute under its canonical type.\nfunc addAttribute(attrKeyValue map[string]string, name string, attribute *ldapv3.AttributeTypeAndValue) error {\n\t// stateOrProvince name \'S\' is an alias for \'ST\'\n\tif attribute.Type == "S" {\n\t\tattribute.Type = "ST"\n\t}\n\tif attrKeyValue[attribute.Type] == "" {\n\t\tattrKeyValue[attribute.Type] = attribute.Value\n\t} else {\n\t\treturn fmt.Errorf("distinguished name (DN) %q has duplicate RDN attribute for %q, DN can only have unique RDN attributes", name, attribute.Type)\n\t}\n\treturn nil\n}\n\n// ParseDistinguishedName parses a DN name and validates Notary Project rules\n'), ('internal/pkix/pkix.go', '\t\t\t// stateOrProvince name \'S\' is an alias for \'ST\'\n\t\t\tif attribute.Type == "S" {\n\t\t\t\tattribute.Type = "ST"\n\t\t\t}\n\t\t\tif attrKeyValue[attribute.Type] == "" {\n\t\t\t\tattrKeyValue[attribute.Type] = attribute.Value\n\t\t\t} else {\n\t\t\t\treturn nil, fmt.Errorf("distinguished name (DN) %q has duplicate RDN attribute for %q, DN can only have unique RDN attributes", name, attribute.Type)\n\t\t\t}\n', '\t\t\tif err := addAttribute(attrKeyValue, name, attribute); err != nil {\n\t\t\t\treturn nil, err\n\t\t\t}\n')]
VARIANTS += [
 dict(name='benign-map-filled-by-helper', expect='silent', edits=_ATTR_HELPER, why='the helper updates a map its only caller has just made'),
 dict(name='map-filled-by-helper-caller-passes-nil-map', expect='flagged(map-update/)', edits=_ATTR_HELPER + [(_PK, '\tattrKeyValue := make(map[string]string)\n', '\tvar attrKeyValue map[string]string\n')],
      why='the caller declares the map without making it: the update in the helper panics'),
]

# ---- nil test of the verifier fields computed by a predicate helper (cross-sweep of C05's variants) ----
VARIANTS += [
 dict(name='benign-verifier-field-nil-check-by-predicate-helper', expect='silent', edits=[('verifier/verifier.go', '\tif v.revocationCodeSigningValidator == nil && v.revocationClient == nil {\n', '\tif !v.canCheckRevocation() {\n'), ('verifier/verifier.go', 'func processPluginResponse(', 'func (recv *verifier) canCheckRevocation() bool {\n\treturn recv.revocationCodeSigningValidator != nil || recv.revocationClient != nil\n}\n\nfunc processPluginResponse(')]),
 dict(name='benign-verifier-field-nil-check-by-negative-predicate-helper', expect='silent', edits=[('verifier/verifier.go', '\tif v.revocationCodeSigningValidator == nil && v.revocationClient == nil {\n', '\tif v.canCheckRevocation() {\n'), ('verifier/verifier.go', 'func processPluginResponse(', 'func (recv *verifier) canCheckRevocation() bool {\n\tif recv.revocationCodeSigningValidator != nil {\n\t\treturn false\n\t}\n\treturn recv.revocationClient == nil\n}\n\nfunc processPluginResponse(')]),
 dict(name='verifier-field-predicate-helper-looks-at-one-field-only', expect='flagged(nilable/verifier-field)', edits=[('verifier/verifier.go', '\tif v.revocationCodeSigningValidator == nil && v.revocationClient == nil {\n', '\tif !v.canCheckRevocation() {\n'), ('verifier/verifier.go', 'func processPluginResponse(', 'func (recv *verifier) canCheckRevocation() bool {\n\treturn recv.revocationCodeSigningValidator != nil || recv.revocationTimestampingValidator != nil\n}\n\nfunc processPluginResponse(')]),
 dict(name='verifier-field-predicate-helper-result-inverted', expect='flagged(nilable/verifier-field)', edits=[('verifier/verifier.go', '\tif v.revocationCodeSigningValidator == nil && v.revocationClient == nil {\n', '\tif v.canCheckRevocation() {\n'), ('verifier/verifier.go', 'func processPluginResponse(', 'func (recv *verifier) canCheckRevocation() bool {\n\treturn recv.revocationCodeSigningValidator != nil || recv.revocationClient != nil\n}\n\nfunc processPluginResponse(')]),
]
