N = 'notation.go'
V = 'verifier/verifier.go'
H = 'verifier/helpers.go'
R = 'registry/repository.go'
SP = 'signer/plugin.go'
VARIANTS = [
 dict(name='F4a-reintroduced', file=N, expect='flagged(nilable/envelope-content/ngo.VerifyBlob)',
      find='\tif vo.EnvelopeContent == nil {\n\t\t// signature verification was skipped, there is no verified payload\n\t\treturn ocispec.Descriptor{}, vo, nil\n\t}\n', replace=''),
 dict(name='F4b-reintroduced', file=V, expect='flagged(nilable/verifier-field/(*ngo/verifier.verifier).SkipVerify)',
      find='\tif v.ociTrustPolicyDoc == nil {\n\t\treturn false, nil, errors.New("ociTrustPolicyDoc is nil")\n\t}\n\ttrustPolicy, err := v.ociTrustPolicyDoc.GetApplicableTrustPolicy(opts.ArtifactReference)\n\tif err != nil {\n\t\treturn false, nil,',
      replace='\ttrustPolicy, err := v.ociTrustPolicyDoc.GetApplicableTrustPolicy(opts.ArtifactReference)\n\tif err != nil {\n\t\treturn false, nil,'),
 dict(name='F5-reintroduced', file=SP, expect='flagged(assert/ngo/signer.areUnknownAttributesAdded)',
      find='descriptor, _ := targetArtifactMap["targetArtifact"].(map[string]interface{})', replace='descriptor := targetArtifactMap["targetArtifact"].(map[string]interface{})'),
 dict(name='F12-reintroduced', file=V, expect='flagged(index/ngo/verifier.revocationFinalResult)',
      find='''	if len(certResults) != len(certChain) {
		// every certificate in the chain needs a revocation result
		if len(certChain) > 0 {
			problematicCertSubject = certChain[0].Subject.String()
		}
		return revocationresult.ResultUnknown, problematicCertSubject
	}
''', replace=''),
 dict(name='filter-dropped', file=H, expect='flagged(assert/ngo/verifier.executePlugin)',
      find='\t\tif ok && !slices.Contains(VerificationPluginHeaders, attrStrKey) {', replace='\t\tif !ok || !slices.Contains(VerificationPluginHeaders, attrStrKey) {'),
 dict(name='plugin-manager-guard-dropped', file=V, expect='flagged(nilable/verifier-field/(*ngo/verifier.verifier).processSignature/pluginManager)',
      find='\t\tif v.pluginManager == nil {\n\t\t\treturn notation.ErrorVerificationInconclusive{Msg: "plugin unsupported due to nil verifier.pluginManager"}\n\t\t}\n', replace=''),
 dict(name='revocation-both-nil-guard-dropped', file=V, expect='flagged(nilable/verifier-field/(*ngo/verifier.verifier).verifyRevocation/revocationClient)',
      find='''	if v.revocationCodeSigningValidator == nil && v.revocationClient == nil {
		return &notation.ValidationResult{
			Type:   trustpolicy.TypeRevocation,
			Action: outcome.VerificationLevel.Enforcement[trustpolicy.TypeRevocation],
			Error:  fmt.Errorf("unable to check revocation status, code signing revocation validator cannot be nil"),
		}
	}
''', replace=''),
 dict(name='blob-count-unchecked', file=R, expect='flagged(index/(*ngo/registry.repositoryClient).getSignatureBlobDesc)',
      find='\tif len(signatureBlobs) != 1 {', replace='\tif len(signatureBlobs) > 1 {'),
 dict(name='manifest-cap-dropped', file=R, expect='flagged(size-cap/(*ngo/registry.repositoryClient).getSignatureBlobDesc)',
      find='\tif sigManifestDesc.Size > maxManifestSizeLimit {\n\t\treturn ocispec.Descriptor{}, fmt.Errorf("signature manifest too large: %d bytes", sigManifestDesc.Size)\n\t}\n', replace=''),
 dict(name='cap-on-other-descriptor', file=R, expect='flagged(size-cap/(*ngo/registry.repositoryClient).FetchSignatureBlob)',
      find='\tif sigBlobDesc.Size > maxBlobSizeLimit {', replace='\tif desc.Size > maxBlobSizeLimit {'),
 dict(name='nil-returned-after-error-store', file=V, expect='flagged(consistency/)',
      find='\t\toutcome.Error = errors.New("content descriptor mismatch")\n\t}\n\n\tif len(opts.UserMetadata) > 0 {\n\t\terr := verifyUserMetadata(logger, payload, opts.UserMetadata)\n\t\tif err != nil {\n\t\t\toutcome.Error = err\n\t\t}\n\t}\n\n\treturn outcome, outcome.Error',
      replace='\t\toutcome.Error = errors.New("content descriptor mismatch")\n\t}\n\n\tif len(opts.UserMetadata) > 0 {\n\t\terr := verifyUserMetadata(logger, payload, opts.UserMetadata)\n\t\tif err != nil {\n\t\t\toutcome.Error = err\n\t\t\treturn outcome, err\n\t\t}\n\t}\n\n\treturn outcome, nil'),
 dict(name='failure-not-recorded', file=V, expect='flagged(consistency/)',
      find='\terr = v.processSignature(ctx, signature, envelopeMediaType, trustPolicy.Name, trustPolicy.TrustedIdentities, trustPolicy.TrustStores, trustPolicy.SignatureVerification, pluginConfig, outcome)\n\n\tif err != nil {\n\t\toutcome.Error = err\n\t\treturn outcome, err',
      replace='\terr = v.processSignature(ctx, signature, envelopeMediaType, trustPolicy.Name, trustPolicy.TrustedIdentities, trustPolicy.TrustStores, trustPolicy.SignatureVerification, pluginConfig, outcome)\n\n\tif err != nil {\n\t\treturn outcome, err'),
 dict(name='nil-outcome-on-failure', file=V, expect='flagged(consistency/)',
      find='\t\tlogger.Error("Failed to unmarshal the payload content in the signature blob to envelope.Payload")\n\t\toutcome.Error = err\n\t\treturn outcome, err\n\t}\n\n\tif !content.Equal',
      replace='\t\tlogger.Error("Failed to unmarshal the payload content in the signature blob to envelope.Payload")\n\t\treturn nil, err\n\t}\n\n\tif !content.Equal'),
 dict(name='decode-error-dropped', file='verifier/crl/crl.go', expect='flagged(decoder-error/(*ngo/verifier/crl.FileCache).Get)',
      find='\tif err := json.Unmarshal(contentBytes, &content); err != nil {\n\t\treturn nil, fmt.Errorf("failed to decode file retrieved from file cache: %w", err)\n\t}', replace='\t_ = json.Unmarshal(contentBytes, &content)'),
 dict(name='nil-map-update', file=N, expect='flagged(map-update/ngo.generateAnnotations)',
      find='\tif annotations == nil {\n\t\tannotations = make(map[string]string)\n\t}\n', replace=''),
 dict(name='explicit-panic', file=H, expect='flagged(explicit-panic)',
      find='\tif !attr.Critical {\n\t\treturn "", fmt.Errorf("%v is not a critical Extended attribute", key)\n\t}', replace='\tif !attr.Critical {\n\t\tpanic(fmt.Sprintf("%v is not a critical Extended attribute", key))\n\t}'),
 dict(name='dynamic-regexp', file='internal/file/file.go', expect='flagged(must-compile)',
      find='\treturn regexp.MustCompile(`^[a-zA-Z0-9_.-]+$`).MatchString(fileName)', replace='\treturn regexp.MustCompile("^[" + allowed + "]+$").MatchString(fileName)',
      edits=[('internal/file/file.go', '// ErrNotRegularFile is returned', 'var allowed = "a-zA-Z0-9_.-"\n\n// ErrNotRegularFile is returned')]),
 # benign
 dict(name='benign-guard-order', file=V, expect='silent',
      find='''	if v.revocationCodeSigningValidator == nil && v.revocationClient == nil {
		return &notation.ValidationResult{''', replace='''	if v.revocationClient == nil && v.revocationCodeSigningValidator == nil {
		return &notation.ValidationResult{'''),
 dict(name='benign-len-check-form', file=R, expect='silent',
      find='\tif len(signatureBlobs) != 1 {', replace='\tif n := len(signatureBlobs); n != 1 {'),
 dict(name='benign-cap-le', file=R, expect='silent',
      find='\tif sigBlobDesc.Size > maxBlobSizeLimit {\n\t\treturn nil, ocispec.Descriptor{}, fmt.Errorf("signature blob too large: %d bytes", sigBlobDesc.Size)\n\t}',
      replace='\tif !(sigBlobDesc.Size <= maxBlobSizeLimit) {\n\t\treturn nil, ocispec.Descriptor{}, fmt.Errorf("signature blob too large: %d bytes", sigBlobDesc.Size)\n\t}'),
]

# index proofs by value (bounds.go): the same loop / search spelled differently, and each spelling with the bound broken
LOOP_OLD = '\t\tfor _, reservedPrefix := range reservedAnnotationPrefixes {\n\t\t\tif strings.HasPrefix(k, reservedPrefix) {\n\t\t\t\treturn desc, fmt.Errorf("error adding user metadata: metadata key %v has reserved prefix %v", k, reservedPrefix)\n\t\t\t}\n\t\t}\n'
def idx_loop(cond):
    return '\t\tfor i := 0; %s; i++ {\n\t\t\treservedPrefix := reservedAnnotationPrefixes[i]\n\t\t\tif strings.HasPrefix(k, reservedPrefix) {\n\t\t\t\treturn desc, fmt.Errorf("error adding user metadata: metadata key %%v has reserved prefix %%v", k, reservedPrefix)\n\t\t\t}\n\t\t}\n' % cond
def idx_search(guard):
    return '\t\tif i := slices.IndexFunc(reservedAnnotationPrefixes[:], func(p string) bool { return strings.HasPrefix(k, p) }); %s {\n\t\t\treturn desc, fmt.Errorf("error adding user metadata: metadata key %%v has reserved prefix %%v", k, reservedAnnotationPrefixes[i])\n\t\t}\n' % guard
SL = [(N, '\t"strings"\n', '\t"slices"\n\t"strings"\n')]
PM = 'plugin/manager_unix.go'
PN_OLD = '\tpluginName, found := strings.CutPrefix(fileName, plugin.BinaryPrefix)\n\tif !found || pluginName == "" {\n'
def pn(k, n):
    return '\tif !strings.HasPrefix(fileName, "notation-") {\n\t\treturn "", fmt.Errorf("invalid plugin executable file name %%s", fileName)\n\t}\n\tpluginName, found := fileName[%d:], true\n\t_ = plugin.BinaryPrefix\n\tif !found || pluginName == "" {\n' % k
VARIANTS += [
 dict(name='benign-index-loop-counting', file=N, expect='silent', find=LOOP_OLD, replace=idx_loop('i < len(reservedAnnotationPrefixes)')),
 dict(name='index-loop-one-past-the-end', file=N, expect='flagged(index/ngo.addUserMetadataToDescriptor)', find=LOOP_OLD, replace=idx_loop('i <= len(reservedAnnotationPrefixes)')),
 dict(name='benign-index-search-guarded', file=N, expect='silent', find=LOOP_OLD, replace=idx_search('i >= 0'), edits=SL),
 dict(name='benign-index-search-guarded-ne', file=N, expect='silent', find=LOOP_OLD, replace=idx_search('i != -1'), edits=SL),
 dict(name='index-search-unguarded', file=N, expect='flagged(index/ngo.addUserMetadataToDescriptor)', find=LOOP_OLD, replace=idx_search('i != 0'), edits=SL),
 dict(name='index-search-guard-too-weak', file=N, expect='flagged(index/ngo.addUserMetadataToDescriptor)', find=LOOP_OLD, replace=idx_search('i >= -1'), edits=SL),
 dict(name='benign-slice-after-prefix', file=PM, expect='silent', find=PN_OLD, replace=pn(9, 9)),
 dict(name='slice-beyond-prefix', file=PM, expect='flagged(slice/ngo/plugin.parsePluginName)', find=PN_OLD, replace=pn(10, 9)),
]

# a nilable verifier field dereferenced in an unexported helper: fine when every caller established it, not otherwise
SK_OLD = '\tif v.ociTrustPolicyDoc == nil {\n\t\treturn false, nil, errors.New("ociTrustPolicyDoc is nil")\n\t}\n\ttrustPolicy, err := v.ociTrustPolicyDoc.GetApplicableTrustPolicy(opts.ArtifactReference)\n\tif err != nil {\n\t\treturn false, nil,'
SK_HELPER = (V, 'func verifyX509TrustedIdentities(', 'func (v *verifier) statementFor(ref string) (*trustpolicy.OCITrustPolicy, error) {\n\treturn v.ociTrustPolicyDoc.GetApplicableTrustPolicy(ref)\n}\n\nfunc verifyX509TrustedIdentities(')
VARIANTS += [
 dict(name='benign-nilable-field-in-helper-caller-guards', file=V, expect='silent', find=SK_OLD,
      replace='\tif v.ociTrustPolicyDoc == nil {\n\t\treturn false, nil, errors.New("ociTrustPolicyDoc is nil")\n\t}\n\ttrustPolicy, err := v.statementFor(opts.ArtifactReference)\n\tif err != nil {\n\t\treturn false, nil,', edits=[SK_HELPER]),
 dict(name='nilable-field-in-helper-caller-does-not-guard', file=V, expect='flagged(nilable/verifier-field/(*ngo/verifier.verifier).statementFor)', find=SK_OLD,
      replace='\ttrustPolicy, err := v.statementFor(opts.ArtifactReference)\n\tif err != nil {\n\t\treturn false, nil,', edits=[SK_HELPER]),
]

# the fetch moved into an unexported helper: the cap is an obligation of every caller of the helper
FV_HELPER = (R, '// signatureReferrers returns referrer nodes', 'func fetchVerified(ctx context.Context, fetcher content.Fetcher, desc ocispec.Descriptor) ([]byte, error) {\n\trc, err := fetcher.Fetch(ctx, desc)\n\tif err != nil {\n\t\treturn nil, err\n\t}\n\tdefer rc.Close()\n\treturn content.ReadAll(rc, desc)\n}\n\n// signatureReferrers returns referrer nodes')
FV_EDITS = [FV_HELPER,
  (R, '\tsigBlob, err := content.FetchAll(ctx, fetcher, sigBlobDesc)', '\tsigBlob, err := fetchVerified(ctx, fetcher, sigBlobDesc)'),
  (R, '\tmanifestJSON, err := content.FetchAll(ctx, fetcher, sigManifestDesc)', '\tmanifestJSON, err := fetchVerified(ctx, fetcher, sigManifestDesc)')]
VARIANTS += [
 dict(name='benign-fetch-in-helper-callers-cap', expect='silent', edits=FV_EDITS),
 dict(name='fetch-in-helper-one-caller-without-cap', expect='flagged(size-cap/(*ngo/registry.repositoryClient).getSignatureBlobDesc)',
      edits=FV_EDITS + [(R, '\tif sigManifestDesc.Size > maxManifestSizeLimit {\n\t\treturn ocispec.Descriptor{}, fmt.Errorf("signature manifest too large: %d bytes", sigManifestDesc.Size)\n\t}\n', '')]),
]

# range-over-func loops (slices.Backward / slices.All): the compiler's protocol checks are not product panics, and the index
# the iterator yields is a valid index of the ranged slice (and of a slice known to have the same length)
IT_IMPORT = (V, '\t"strings"\n\t"time"\n', '\t"strings"\n\tstdslices "slices"\n\t"time"\n')
IT_OLD = 'for i := len(certResults) - 1; i >= 0; i-- {\n\t\tcert := certChain[i]\n\t\tcertResult := certResults[i]'
VARIANTS += [
 dict(name='benign-range-over-backward-iterator', expect='silent',
      edits=[IT_IMPORT, (V, IT_OLD, 'for i, certResult := range stdslices.Backward(certResults) {\n\t\tcert := certChain[i]')]),
 dict(name='iterator-index-into-unrelated-slice', expect='flagged(index/ngo/verifier.revocationFinalResult)',
      edits=[IT_IMPORT, (V, IT_OLD, 'for i, certResult := range stdslices.Backward(certResults) {\n\t\tcert := certChain[i+1]')]),
 dict(name='iterator-without-length-agreement', expect='flagged(index/ngo/verifier.revocationFinalResult)',
      edits=[IT_IMPORT, (V, IT_OLD, 'for i, certResult := range stdslices.Backward(certResults) {\n\t\tcert := certChain[i]'),
             (V, '\tif len(certResults) != len(certChain) {', '\tif len(certResults) > len(certChain)+1 {')]),
]

# a local closure as the single failure exit: `failed := func(err error) (*Outcome, error) { outcome.Error = err; return outcome, err }`
FC_OLD = '\terr = v.processSignature(ctx, signature, envelopeMediaType, trustPolicy.Name, trustPolicy.TrustedIdentities, trustPolicy.TrustStores, trustPolicy.SignatureVerification, pluginConfig, outcome)\n\n\tif err != nil {\n\t\toutcome.Error = err\n\t\treturn outcome, err\n\t}\n'
def fc(body):
    return '\tfailed := func(err error) (*notation.VerificationOutcome, error) {\n' + body + '\t}\n\terr = v.processSignature(ctx, signature, envelopeMediaType, trustPolicy.Name, trustPolicy.TrustedIdentities, trustPolicy.TrustStores, trustPolicy.SignatureVerification, pluginConfig, outcome)\n\n\tif err != nil {\n\t\treturn failed(err)\n\t}\n'
VARIANTS += [
 dict(name='benign-failure-exit-closure', file=V, expect='silent', find=FC_OLD, replace=fc('\t\toutcome.Error = err\n\t\treturn outcome, err\n')),
 dict(name='failure-exit-closure-does-not-record', file=V, expect='flagged(consistency/(*ngo/verifier.verifier).Verify)', find=FC_OLD, replace=fc('\t\treturn outcome, err\n')),
 dict(name='failure-exit-closure-returns-nil', file=V, expect='flagged(consistency/(*ngo/verifier.verifier).Verify)', find=FC_OLD, replace=fc('\t\toutcome.Error = err\n\t\treturn outcome, nil\n')),
 dict(name='failure-exit-closure-returns-fresh-outcome', file=V, expect='flagged(consistency/(*ngo/verifier.verifier).Verify)', find=FC_OLD, replace=fc('\t\toutcome.Error = err\n\t\treturn &notation.VerificationOutcome{Error: err}, err\n')),
]

# the outcome made by a constructor and every exit concluded by a helper that records the error
NO_OLD = '\terr = v.processSignature(ctx, signature, envelopeMediaType, trustPolicy.Name, trustPolicy.TrustedIdentities, trustPolicy.TrustStores, trustPolicy.SignatureVerification, pluginConfig, outcome)\n\n\tif err != nil {\n\t\toutcome.Error = err\n\t\treturn outcome, err\n\t}\n'
NO_NEW = '\terr = v.processSignature(ctx, signature, envelopeMediaType, trustPolicy.Name, trustPolicy.TrustedIdentities, trustPolicy.TrustStores, trustPolicy.SignatureVerification, pluginConfig, outcome)\n\n\tif err != nil {\n\t\treturn conclude(outcome, err)\n\t}\n'
def conclude(body):
    return (V, 'func verifyX509TrustedIdentities(', 'func conclude(outcome *notation.VerificationOutcome, err error) (*notation.VerificationOutcome, error) {\n' + body + '}\n\nfunc verifyX509TrustedIdentities(')
VARIANTS += [
 dict(name='benign-exit-concluded-by-helper', file=V, expect='silent', find=NO_OLD, replace=NO_NEW, edits=[conclude('\toutcome.Error = err\n\treturn outcome, err\n')]),
 dict(name='conclude-helper-does-not-record', file=V, expect='flagged(consistency/(*ngo/verifier.verifier).Verify)', find=NO_OLD, replace=NO_NEW, edits=[conclude('\treturn outcome, err\n')]),
 dict(name='conclude-helper-returns-nil-error', file=V, expect='flagged(consistency/(*ngo/verifier.verifier).Verify)', find=NO_OLD, replace=NO_NEW, edits=[conclude('\toutcome.Error = err\n\treturn outcome, nil\n')]),
]

# an index handed back by a helper (positions remembered while scanning, -1 for none)
TP = 'verifier/trustpolicy/oci.go'
IDX_OLD = '\tvar wildcardPolicy *OCITrustPolicy\n\tvar applicablePolicy *OCITrustPolicy\n\tfor _, policyStatement := range policyDoc.TrustPolicies {\n\t\tif slices.Contains(policyStatement.RegistryScopes, trustpolicy.Wildcard) {\n\t\t\t// we need to deep copy because we can\'t use the loop variable\n\t\t\t// address. see https://stackoverflow.com/a/45967429\n\t\t\twildcardPolicy = (&policyStatement).clone()\n\t\t} else if slices.Contains(policyStatement.RegistryScopes, artifactPath) {\n\t\t\tapplicablePolicy = (&policyStatement).clone()\n\t\t}\n\t}\n'
def idx_new(use_exact='exact >= 0', use_wild='wildcard >= 0'):
    return '\tvar wildcardPolicy *OCITrustPolicy\n\tvar applicablePolicy *OCITrustPolicy\n\texact, wildcard := policyDoc.positions(artifactPath)\n\tif ' + use_exact + ' {\n\t\tapplicablePolicy = policyDoc.TrustPolicies[exact].clone()\n\t}\n\tif ' + use_wild + ' {\n\t\twildcardPolicy = policyDoc.TrustPolicies[wildcard].clone()\n\t}\n'
def idx_helper(ret='exact, wildcard', init='-1, -1'):
    return (TP, '// clone returns a pointer to the deep copied [OCITrustPolicy]', 'func (policyDoc *OCIDocument) positions(artifactPath string) (int, int) {\n\texact, wildcard := ' + init + '\n\tfor i := range policyDoc.TrustPolicies {\n\t\tscopes := policyDoc.TrustPolicies[i].RegistryScopes\n\t\tif slices.Contains(scopes, trustpolicy.Wildcard) {\n\t\t\twildcard = i\n\t\t} else if slices.Contains(scopes, artifactPath) {\n\t\t\texact = i\n\t\t}\n\t}\n\treturn ' + ret + '\n}\n\n// clone returns a pointer to the deep copied [OCITrustPolicy]')
VARIANTS += [
 dict(name='benign-positions-from-helper', file=TP, expect='silent', find=IDX_OLD, replace=idx_new(), edits=[idx_helper()]),
 dict(name='positions-from-helper-unguarded', file=TP, expect='flagged(index/(*ngo/verifier/trustpolicy.OCIDocument).GetApplicableTrustPolicy)', find=IDX_OLD, replace=idx_new(use_wild='wildcard != 0'), edits=[idx_helper()]),
 dict(name='positions-helper-returns-one-past', file=TP, expect='flagged(index/(*ngo/verifier/trustpolicy.OCIDocument).GetApplicableTrustPolicy)', find=IDX_OLD, replace=idx_new(), edits=[idx_helper(ret='exact, wildcard + 1')]),
 dict(name='positions-helper-returns-length-for-none', file=TP, expect='flagged(index/(*ngo/verifier/trustpolicy.OCIDocument).GetApplicableTrustPolicy)', find=IDX_OLD, replace=idx_new(), edits=[idx_helper(init='len(policyDoc.TrustPolicies), -1')]),
]

# the outcome produced, together with an error, by a helper that also runs the signature processing
PR_OLD = '\toutcome := &notation.VerificationOutcome{\n\t\tRawSignature:      signature,\n\t\tVerificationLevel: verificationLevel,\n\t}\n\t// verificationLevel is skip\n\tif reflect.DeepEqual(verificationLevel, trustpolicy.LevelSkip) {\n\t\tlogger.Debug("Skipping signature verification")\n\t\treturn outcome, nil\n\t}\n\terr = v.processSignature(ctx, signature, envelopeMediaType, trustPolicy.Name, trustPolicy.TrustedIdentities, trustPolicy.TrustStores, trustPolicy.SignatureVerification, pluginConfig, outcome)\n\n\tif err != nil {\n\t\toutcome.Error = err\n\t\treturn outcome, err\n\t}\n'
def pr_new(test='err != nil || skipped'):
    return '\toutcome, skipped, err := v.evaluate(ctx, signature, envelopeMediaType, trustPolicy, pluginConfig, verificationLevel)\n\tif ' + test + ' {\n\t\treturn outcome, err\n\t}\n'
def pr_helper(fail='\t\toutcome.Error = err\n\t\treturn outcome, false, err\n'):
    return (V, 'func verifyX509TrustedIdentities(', 'func (v *verifier) evaluate(ctx context.Context, signature []byte, envelopeMediaType string, trustPolicy *trustpolicy.OCITrustPolicy, pluginConfig map[string]string, verificationLevel *trustpolicy.VerificationLevel) (*notation.VerificationOutcome, bool, error) {\n\toutcome := &notation.VerificationOutcome{\n\t\tRawSignature:      signature,\n\t\tVerificationLevel: verificationLevel,\n\t}\n\tif reflect.DeepEqual(verificationLevel, trustpolicy.LevelSkip) {\n\t\treturn outcome, true, nil\n\t}\n\tif err := v.processSignature(ctx, signature, envelopeMediaType, trustPolicy.Name, trustPolicy.TrustedIdentities, trustPolicy.TrustStores, trustPolicy.SignatureVerification, pluginConfig, outcome); err != nil {\n' + fail + '\t}\n\treturn outcome, false, nil\n}\n\nfunc verifyX509TrustedIdentities(')
VARIANTS += [
 dict(name='benign-outcome-producer-helper', file=V, expect='silent', find=PR_OLD, replace=pr_new(), edits=[pr_helper()]),
 dict(name='outcome-producer-does-not-record', file=V, expect='flagged(consistency/(*ngo/verifier.verifier).Verify)', find=PR_OLD, replace=pr_new(), edits=[pr_helper(fail='\t\treturn outcome, false, err\n')]),
 dict(name='outcome-producer-error-not-tested-by-caller', file=V, expect='flagged((*ngo/verifier.verifier).Verify)', find=PR_OLD, replace=pr_new(test='skipped'), edits=[pr_helper()]),
 dict(name='outcome-producer-skip-not-tested-by-caller', file=V, expect='flagged(nilable/envelope-content/(*ngo/verifier.verifier).Verify)', find=PR_OLD, replace=pr_new(test='err != nil').replace('\tif err != nil {', '\t_ = skipped\n\tif err != nil {'), edits=[pr_helper()]),
]
