T = 'verifier/truststore/truststore.go'
VARIANTS = [
 dict(name='type-unchecked', file=T, expect='flagged(gate/known-type)',
      find='\tif !isValidStoreType(storeType) {', replace='\tif !isValidStoreType(storeType) && storeType == "" {'),
 dict(name='name-unchecked', file=T, expect='flagged(gate/safe-name)',
      find='\tif !file.IsValidFileName(namedStore) {', replace='\tif namedStore == "" && !file.IsValidFileName(namedStore) {'),
 dict(name='stat-follows-symlink', file=T, expect='flagged(gate/lstat)',
      find='fileInfo, err := os.Lstat(path)', replace='fileInfo, err := os.Stat(path)'),
 dict(name='symlinked-store-accepted', file=T, expect='flagged(gate/not-symlink)',
      find='\tif !mode.IsDir() || mode&fs.ModeSymlink != 0 {', replace='\tif !mode.IsDir() {'),
 dict(name='entry-symlink-accepted', file=T, expect='flagged(entry/regular-file)',
      find='\t\tif file.IsDir() || file.Type()&fs.ModeSymlink != 0 {', replace='\t\tif file.IsDir() {'),
 dict(name='bad-entry-skipped', file=T, expect='flagged(entry/read-error)',
      find='\t\tif err != nil {\n\t\t\treturn nil, CertificateError{InnerError: err, Msg: fmt.Sprintf("failed to read the trusted certificate %s in trust store %s of type %s", certFileName, namedStore, storeType)}\n\t\t}',
      replace='\t\tif err != nil {\n\t\t\tcontinue\n\t\t}'),
 dict(name='validation-dropped', file=T, expect='flagged(entry/)',
      find='\t\tif err := ValidateCertificates(certs); err != nil {\n\t\t\treturn nil, CertificateError{InnerError: err, Msg: fmt.Sprintf("failed to validate the trusted certificate %s in trust store %s of type %s", certFileName, namedStore, storeType)}\n\t\t}\n', replace=''),
 dict(name='leaf-accepted', file=T, expect='flagged(entry/ca-or-self-signed)',
      find='\t\tif !cert.IsCA {\n\t\t\tif err := cert.CheckSignature(cert.SignatureAlgorithm, cert.RawTBSCertificate, cert.Signature); err != nil {',
      replace='\t\tif !cert.IsCA && len(certs) > 1 {\n\t\t\tif err := cert.CheckSignature(cert.SignatureAlgorithm, cert.RawTBSCertificate, cert.Signature); err != nil {'),
 dict(name='first-cert-only', file=T, expect='flagged(entry/ca-or-self-signed)',
      find='\tfor _, cert := range certs {\n\t\tif !cert.IsCA {', replace='\tfor _, cert := range certs[:1] {\n\t\tif !cert.IsCA {'),
 dict(name='tsa-root-check-dropped', file=T, expect='flagged(entry/tsa-roots)',
      find='\t\tif storeType == TypeTSA {', replace='\t\tif storeType == TypeTSA && len(certs) == 1 {'),
 dict(name='root-check-issuer-only', file=T, expect='flagged(root)',
      find='\tif err := cert.CheckSignatureFrom(cert); err != nil {\n\t\treturn fmt.Errorf("certificate with subject %q is not a root CA certificate: %w", cert.Subject, err)\n\t}\n', replace=''),
 dict(name='empty-store-ok', file=T, expect='flagged(gate/non-empty)',
      find='\tif len(certificates) < 1 {\n\t\treturn nil, CertificateError{InnerError: fs.ErrNotExist,', replace='\tif certificates == nil && len(files) > 0 {\n\t\treturn nil, CertificateError{InnerError: fs.ErrNotExist,'),
 dict(name='partial-set-on-error', file=T, expect='flagged(no-partial-set)',
      find='\t\t\treturn nil, CertificateError{Msg: fmt.Sprintf("trusted certificate %s in trust store %s of type %s is not a regular file (directories or symlinks are not supported)", certFileName, namedStore, storeType)}',
      replace='\t\t\treturn certificates, CertificateError{Msg: fmt.Sprintf("trusted certificate %s in trust store %s of type %s is not a regular file (directories or symlinks are not supported)", certFileName, namedStore, storeType)}'),
 dict(name='layout-swapped', file='dir/path.go', expect='flagged(path/layout)',
      find='\tpathItems := []string{TrustStoreDir, "x509"}', replace='\tpathItems := []string{"x509", TrustStoreDir}'),
 dict(name='name-before-type', file=T, expect='flagged(path/layout-arguments)',
      find='dir.X509TrustStoreDir(string(storeType), namedStore)', replace='dir.X509TrustStoreDir(namedStore, string(storeType))'),
 dict(name='extra-source', file=T, expect='flagged(exact-set/appended-only-from-files)',
      find='\tif len(certificates) < 1 {', replace='\tif extra, err := corex509.ReadCertificateFile(filepath.Join(filepath.Dir(path), "extra.pem")); err == nil {\n\t\tcertificates = append(certificates, extra...)\n\t}\n\tif len(certificates) < 1 {'),
 # benign
 dict(name='benign-type-isregular', file=T, expect='silent',
      find='\t\tif file.IsDir() || file.Type()&fs.ModeSymlink != 0 {', replace='\t\tif !file.Type().IsRegular() {'),
 dict(name='benign-error-texts', file=T, expect='silent',
      find='Msg: fmt.Sprintf("unsupported trust store type: %s", storeType)', replace='Msg: fmt.Sprintf("unsupported trust store type %q", storeType)'),
 dict(name='benign-len-eq-zero', file=T, expect='silent',
      find='\tif len(certificates) < 1 {', replace='\tif len(certificates) == 0 {'),
]

# the per-entry processing moved into an unexported helper (the loop hands it the entry), and that form with a rule broken
ENTRY_OLD = '\t\tcertFileName := file.Name()\n\t\tjoinedPath := filepath.Join(path, certFileName)\n\t\tif file.IsDir() || file.Type()&fs.ModeSymlink != 0 {\n\t\t\treturn nil, CertificateError{Msg: fmt.Sprintf("trusted certificate %s in trust store %s of type %s is not a regular file (directories or symlinks are not supported)", certFileName, namedStore, storeType)}\n\t\t}\n\t\tcerts, err := corex509.ReadCertificateFile(joinedPath)\n\t\tif err != nil {\n\t\t\treturn nil, CertificateError{InnerError: err, Msg: fmt.Sprintf("failed to read the trusted certificate %s in trust store %s of type %s", certFileName, namedStore, storeType)}\n\t\t}\n\t\tif err := ValidateCertificates(certs); err != nil {\n\t\t\treturn nil, CertificateError{InnerError: err, Msg: fmt.Sprintf("failed to validate the trusted certificate %s in trust store %s of type %s", certFileName, namedStore, storeType)}\n\t\t}\n\t\t// we require TSA certificates in trust store to be root CA certificates\n\t\tif storeType == TypeTSA {\n\t\t\tfor _, cert := range certs {\n\t\t\t\tif err := isRootCACertificate(cert); err != nil {\n\t\t\t\t\treturn nil, CertificateError{InnerError: err, Msg: fmt.Sprintf("trusted certificate %s in trust store %s of type %s is invalid: %v", certFileName, namedStore, storeType, err.Error())}\n\t\t\t\t}\n\t\t\t}\n\t\t}\n'
ENTRY_CALL = '\t\tcerts, err := loadEntry(path, file, storeType, namedStore)\n\t\tif err != nil {\n\t\t\treturn nil, err\n\t\t}\n'
def entry_helper(body_edit=None, ret='certs'):
    b = ENTRY_OLD.replace('file.', 'entry.').replace('(path, certFileName)', '(storePath, certFileName)')
    b = '\n'.join(l[1:] if l.startswith('\t') else l for l in b.split('\n'))
    if body_edit:
        assert body_edit[0] in b, body_edit[0]
        b = b.replace(body_edit[0], body_edit[1])
    return 'func loadEntry(storePath string, entry fs.DirEntry, storeType Type, namedStore string) ([]*x509.Certificate, error) {\n' + b + '\treturn ' + ret + ', nil\n}\n\n// ValidateCertificates ensures certificates from trust store are'
HOOK = '// ValidateCertificates ensures certificates from trust store are'
VARIANTS += [
 dict(name='benign-entry-helper', file=T, expect='silent', find=ENTRY_OLD, replace=ENTRY_CALL, edits=[(T, HOOK, entry_helper())]),
 dict(name='entry-helper-accepts-symlinks', file=T, expect='flagged(entry/regular-file)', find=ENTRY_OLD, replace=ENTRY_CALL,
      edits=[(T, HOOK, entry_helper(('if entry.IsDir() || entry.Type()&fs.ModeSymlink != 0 {', 'if entry.IsDir() {')))]),
 dict(name='entry-helper-skips-tsa-root-check', file=T, expect='flagged(entry/tsa-roots)', find=ENTRY_OLD, replace=ENTRY_CALL,
      edits=[(T, HOOK, entry_helper(('if storeType == TypeTSA {', 'if storeType == TypeTSA && len(certs) > 1 {')))]),
 dict(name='entry-helper-returns-more', file=T, expect='flagged(exact-set/helper-returns-what-it-read)', find=ENTRY_OLD, replace=ENTRY_CALL,
      edits=[(T, HOOK, entry_helper(ret='append(certs, certs[0])'))]),
 dict(name='entry-helper-error-ignored', file=T, expect='flagged(entry/)', find=ENTRY_OLD,
      replace='\t\tcerts, err := loadEntry(path, file, storeType, namedStore)\n\t\tif err != nil {\n\t\t\tcontinue\n\t\t}\n', edits=[(T, HOOK, entry_helper())]),
 dict(name='entry-helper-reads-other-path', file=T, expect='flagged(exact-set/file-path)', find=ENTRY_OLD, replace=ENTRY_CALL,
      edits=[(T, HOOK, entry_helper(('filepath.Join(storePath, certFileName)', 'filepath.Join(filepath.Dir(storePath), certFileName)')))]),
]
