T = 'verifier/truststore/truststore.go'
VARIANTS = [
 dict(name='type-unchecked', file=T, expect='flagged(gate/known-type)',
      find='\tif !isValidStoreType(storeType) {', replace='\tif !isValidStoreType(storeType) && storeType == "" {'),
 dict(name='name-unchecked', file=T, expect='flagged(gate/safe-name)',
      find='\tif !file.IsValidFileName(namedStore) {', replace='\tif namedStore == "" && !file.IsValidFileName(namedStore) {'),
 dict(name='stat-follows-symlink', file=T, expect='flagged(gate/lstat)',
      find='fileInfo, err := os.Lstat(path)', replace='fileInfo, err := os.Stat(path)'),
 dict(name='symlinked-store-accepted', file=T, expect='flagged(gate/not-symlink)',
      find='\tif !mode.IsDir() || mode&fs.ModeSymlink != 0 {', replace='\tif !mode.IsDir() {'),
 dict(name='entry-symlink-accepted', file=T, expect='flagged(entry/regular-file)',
      find='\t\tif file.IsDir() || file.Type()&fs.ModeSymlink != 0 {', replace='\t\tif file.IsDir() {'),
 dict(name='bad-entry-skipped', file=T, expect='flagged(entry/read-error)',
      find='\t\tif err != nil {\n\t\t\treturn nil, CertificateError{InnerError: err, Msg: fmt.Sprintf("failed to read the trusted certificate %s in trust store %s of type %s", certFileName, namedStore, storeType)}\n\t\t}',
      replace='\t\tif err != nil {\n\t\t\tcontinue\n\t\t}'),
 dict(name='validation-dropped', file=T, expect='flagged(entry/)',
      find='\t\tif err := ValidateCertificates(certs); err != nil {\n\t\t\treturn nil, CertificateError{InnerError: err, Msg: fmt.Sprintf("failed to validate the trusted certificate %s in trust store %s of type %s", certFileName, namedStore, storeType)}\n\t\t}\n', replace=''),
 dict(name='leaf-accepted', file=T, expect='flagged(entry/ca-or-self-signed)',
      find='\t\tif !cert.IsCA {\n\t\t\tif err := cert.CheckSignature(cert.SignatureAlgorithm, cert.RawTBSCertificate, cert.Signature); err != nil {',
      replace='\t\tif !cert.IsCA && len(certs) > 1 {\n\t\t\tif err := cert.CheckSignature(cert.SignatureAlgorithm, cert.RawTBSCertificate, cert.Signature); err != nil {'),
 dict(name='first-cert-only', file=T, expect='flagged(entry/ca-or-self-signed)',
      find='\tfor _, cert := range certs {\n\t\tif !cert.IsCA {', replace='\tfor _, cert := range certs[:1] {\n\t\tif !cert.IsCA {'),
 dict(name='tsa-root-check-dropped', file=T, expect='flagged(entry/tsa-roots)',
      find='\t\tif storeType == TypeTSA {', replace='\t\tif storeType == TypeTSA && len(certs) == 1 {'),
 dict(name='root-check-issuer-only', file=T, expect='flagged(root)',
      find='\tif err := cert.CheckSignatureFrom(cert); err != nil {\n\t\treturn fmt.Errorf("certificate with subject %q is not a root CA certificate: %w", cert.Subject, err)\n\t}\n', replace=''),
 dict(name='empty-store-ok', file=T, expect='flagged(gate/non-empty)',
      find='\tif len(certificates) < 1 {\n\t\treturn nil, CertificateError{InnerError: fs.ErrNotExist,', replace='\tif certificates == nil && len(files) > 0 {\n\t\treturn nil, CertificateError{InnerError: fs.ErrNotExist,'),
 dict(name='partial-set-on-error', file=T, expect='flagged(no-partial-set)',
      find='\t\t\treturn nil, CertificateError{Msg: fmt.Sprintf("trusted certificate %s in trust store %s of type %s is not a regular file (directories or symlinks are not supported)", certFileName, namedStore, storeType)}',
      replace='\t\t\treturn certificates, CertificateError{Msg: fmt.Sprintf("trusted certificate %s in trust store %s of type %s is not a regular file (directories or symlinks are not supported)", certFileName, namedStore, storeType)}'),
 dict(name='layout-swapped', file='dir/path.go', expect='flagged(path/layout)',
      find='\tpathItems := []string{TrustStoreDir, "x509"}', replace='\tpathItems := []string{"x509", TrustStoreDir}'),
 dict(name='name-before-type', file=T, expect='flagged(path/layout-arguments)',
      find='dir.X509TrustStoreDir(string(storeType), namedStore)', replace='dir.X509TrustStoreDir(namedStore, string(storeType))'),
 dict(name='extra-source', file=T, expect='flagged(exact-set/appended-only-from-files)',
      find='\tif len(certificates) < 1 {', replace='\tif extra, err := corex509.ReadCertificateFile(filepath.Join(filepath.Dir(path), "extra.pem")); err == nil {\n\t\tcertificates = append(certificates, extra...)\n\t}\n\tif len(certificates) < 1 {'),
 # benign
 dict(name='benign-type-isregular', file=T, expect='silent',
      find='\t\tif file.IsDir() || file.Type()&fs.ModeSymlink != 0 {', replace='\t\tif !file.Type().IsRegular() {'),
 dict(name='benign-error-texts', file=T, expect='silent',
      find='Msg: fmt.Sprintf("unsupported trust store type: %s", storeType)', replace='Msg: fmt.Sprintf("unsupported trust store type %q", storeType)'),
 dict(name='benign-len-eq-zero', file=T, expect='silent',
      find='\tif len(certificates) < 1 {', replace='\tif len(certificates) == 0 {'),
]

# the per-entry processing moved into an unexported helper (the loop hands it the entry), and that form with a rule broken
ENTRY_OLD = '\t\tcertFileName := file.Name()\n\t\tjoinedPath := filepath.Join(path, certFileName)\n\t\tif file.IsDir() || file.Type()&fs.ModeSymlink != 0 {\n\t\t\treturn nil, CertificateError{Msg: fmt.Sprintf("trusted certificate %s in trust store %s of type %s is not a regular file (directories or symlinks are not supported)", certFileName, namedStore, storeType)}\n\t\t}\n\t\tcerts, err := corex509.ReadCertificateFile(joinedPath)\n\t\tif err != nil {\n\t\t\treturn nil, CertificateError{InnerError: err, Msg: fmt.Sprintf("failed to read the trusted certificate %s in trust store %s of type %s", certFileName, namedStore, storeType)}\n\t\t}\n\t\tif err := ValidateCertificates(certs); err != nil {\n\t\t\treturn nil, CertificateError{InnerError: err, Msg: fmt.Sprintf("failed to validate the trusted certificate %s in trust store %s of type %s", certFileName, namedStore, storeType)}\n\t\t}\n\t\t// we require TSA certificates in trust store to be root CA certificates\n\t\tif storeType == TypeTSA {\n\t\t\tfor _, cert := range certs {\n\t\t\t\tif err := isRootCACertificate(cert); err != nil {\n\t\t\t\t\treturn nil, CertificateError{InnerError: err, Msg: fmt.Sprintf("trusted certificate %s in trust store %s of type %s is invalid: %v", certFileName, namedStore, storeType, err.Error())}\n\t\t\t\t}\n\t\t\t}\n\t\t}\n'
ENTRY_CALL = '\t\tcerts, err := loadEntry(path, file, storeType, namedStore)\n\t\tif err != nil {\n\t\t\treturn nil, err\n\t\t}\n'
def entry_helper(body_edit=None, ret='certs'):
    b = ENTRY_OLD.replace('file.', 'entry.').replace('(path, certFileName)', '(storePath, certFileName)')
    b = '\n'.join(l[1:] if l.startswith('\t') else l for l in b.split('\n'))
    if body_edit:
        assert body_edit[0] in b, body_edit[0]
        b = b.replace(body_edit[0], body_edit[1])
    return 'func loadEntry(storePath string, entry fs.DirEntry, storeType Type, namedStore string) ([]*x509.Certificate, error) {\n' + b + '\treturn ' + ret + ', nil\n}\n\n// ValidateCertificates ensures certificates from trust store are'
HOOK = '// ValidateCertificates ensures certificates from trust store are'
VARIANTS += [
 dict(name='benign-entry-helper', file=T, expect='silent', find=ENTRY_OLD, replace=ENTRY_CALL, edits=[(T, HOOK, entry_helper())]),
 dict(name='entry-helper-accepts-symlinks', file=T, expect='flagged(entry/regular-file)', find=ENTRY_OLD, replace=ENTRY_CALL,
      edits=[(T, HOOK, entry_helper(('if entry.IsDir() || entry.Type()&fs.ModeSymlink != 0 {', 'if entry.IsDir() {')))]),
 dict(name='entry-helper-skips-tsa-root-check', file=T, expect='flagged(entry/tsa-roots)', find=ENTRY_OLD, replace=ENTRY_CALL,
      edits=[(T, HOOK, entry_helper(('if storeType == TypeTSA {', 'if storeType == TypeTSA && len(certs) > 1 {')))]),
 dict(name='entry-helper-returns-more', file=T, expect='flagged(exact-set/helper-returns-what-it-read)', find=ENTRY_OLD, replace=ENTRY_CALL,
      edits=[(T, HOOK, entry_helper(ret='append(certs, certs[0])'))]),
 dict(name='entry-helper-error-ignored', file=T, expect='flagged(entry/)', find=ENTRY_OLD,
      replace='\t\tcerts, err := loadEntry(path, file, storeType, namedStore)\n\t\tif err != nil {\n\t\t\tcontinue\n\t\t}\n', edits=[(T, HOOK, entry_helper())]),
 dict(name='entry-helper-reads-other-path', file=T, expect='flagged(exact-set/file-path)', find=ENTRY_OLD, replace=ENTRY_CALL,
      edits=[(T, HOOK, entry_helper(('filepath.Join(storePath, certFileName)', 'filepath.Join(filepath.Dir(storePath), certFileName)')))]),
]


# ---- second pass: classes of rewrites (the whole method is replaced; the pieces are the statements of the base tree) ----------
GETCERTS_OLD = '// GetCertificates returns certificates under storeType/namedStore\nfunc (trustStore *x509TrustStore) GetCertificates(ctx context.Context, storeType Type, namedStore string) ([]*x509.Certificate, error) {\n\tif !isValidStoreType(storeType) {\n\t\treturn nil, TrustStoreError{Msg: fmt.Sprintf("unsupported trust store type: %s", storeType)}\n\t}\n\tif !file.IsValidFileName(namedStore) {\n\t\treturn nil, TrustStoreError{Msg: fmt.Sprintf("trust store name needs to follow [a-zA-Z0-9_.-]+ format, %s is invalid", namedStore)}\n\t}\n\tpath, err := trustStore.trustStorefs.SysPath(dir.X509TrustStoreDir(string(storeType), namedStore))\n\tif err != nil {\n\t\treturn nil, TrustStoreError{InnerError: err, Msg: fmt.Sprintf("failed to get path of trust store %s of type %s", namedStore, storeType)}\n\t}\n\t// throw error if path is not a directory or is a symlink or does not exist.\n\tfileInfo, err := os.Lstat(path)\n\tif err != nil {\n\t\tif os.IsNotExist(err) {\n\t\t\treturn nil, TrustStoreError{InnerError: err, Msg: fmt.Sprintf("the trust store %q of type %q does not exist", namedStore, storeType)}\n\t\t}\n\t\treturn nil, TrustStoreError{InnerError: err, Msg: fmt.Sprintf("failed to access the trust store %q of type %q", namedStore, storeType)}\n\t}\n\tmode := fileInfo.Mode()\n\tif !mode.IsDir() || mode&fs.ModeSymlink != 0 {\n\t\treturn nil, TrustStoreError{Msg: fmt.Sprintf("the trust store %s of type %s with path %s is not a regular directory (symlinks are not supported)", namedStore, storeType, path)}\n\t}\n\tfiles, err := os.ReadDir(path)\n\tif err != nil {\n\t\treturn nil, TrustStoreError{InnerError: err, Msg: fmt.Sprintf("failed to access the trust store %q of type %q", namedStore, storeType)}\n\t}\n\n\tvar certificates []*x509.Certificate\n\tfor _, file := range files {\n\t\tcertFileName := file.Name()\n\t\tjoinedPath := filepath.Join(path, certFileName)\n\t\tif file.IsDir() || file.Type()&fs.ModeSymlink != 0 {\n\t\t\treturn nil, CertificateError{Msg: fmt.Sprintf("trusted certificate %s in trust store %s of type %s is not a regular file (directories or symlinks are not supported)", certFileName, namedStore, storeType)}\n\t\t}\n\t\tcerts, err := corex509.ReadCertificateFile(joinedPath)\n\t\tif err != nil {\n\t\t\treturn nil, CertificateError{InnerError: err, Msg: fmt.Sprintf("failed to read the trusted certificate %s in trust store %s of type %s", certFileName, namedStore, storeType)}\n\t\t}\n\t\tif err := ValidateCertificates(certs); err != nil {\n\t\t\treturn nil, CertificateError{InnerError: err, Msg: fmt.Sprintf("failed to validate the trusted certificate %s in trust store %s of type %s", certFileName, namedStore, storeType)}\n\t\t}\n\t\t// we require TSA certificates in trust store to be root CA certificates\n\t\tif storeType == TypeTSA {\n\t\t\tfor _, cert := range certs {\n\t\t\t\tif err := isRootCACertificate(cert); err != nil {\n\t\t\t\t\treturn nil, CertificateError{InnerError: err, Msg: fmt.Sprintf("trusted certificate %s in trust store %s of type %s is invalid: %v", certFileName, namedStore, storeType, err.Error())}\n\t\t\t\t}\n\t\t\t}\n\t\t}\n\t\tcertificates = append(certificates, certs...)\n\t}\n\tif len(certificates) < 1 {\n\t\treturn nil, CertificateError{InnerError: fs.ErrNotExist, Msg: fmt.Sprintf("no x509 certificates were found in trust store %q of type %q", namedStore, storeType)}\n\t}\n\treturn certificates, nil\n}\n\n'
E_TYPE = '\tif !isValidStoreType(storeType) {\n\t\treturn %s, TrustStoreError{Msg: fmt.Sprintf("unsupported trust store type: %%s", storeType)}\n\t}\n'
E_NAME = '\tif !file.IsValidFileName(namedStore) {\n\t\treturn %s, TrustStoreError{Msg: fmt.Sprintf("trust store name needs to follow [a-zA-Z0-9_.-]+ format, %%s is invalid", namedStore)}\n\t}\n'
E_SYS = '\tstorePath, err := %s.trustStorefs.SysPath(dir.X509TrustStoreDir(string(storeType), namedStore))\n\tif err != nil {\n\t\treturn %s, TrustStoreError{InnerError: err, Msg: fmt.Sprintf("failed to get path of trust store %%s of type %%s", namedStore, storeType)}\n\t}\n'
E_LSTAT = '\tfileInfo, err := os.Lstat(storePath)\n\tif err != nil {\n\t\tif os.IsNotExist(err) {\n\t\t\treturn nil, TrustStoreError{InnerError: err, Msg: fmt.Sprintf("the trust store %q of type %q does not exist", namedStore, storeType)}\n\t\t}\n\t\treturn nil, TrustStoreError{InnerError: err, Msg: fmt.Sprintf("failed to access the trust store %q of type %q", namedStore, storeType)}\n\t}\n'
E_MODE = '\tmode := fileInfo.Mode()\n\tif !mode.IsDir() || mode&fs.ModeSymlink != 0 {\n\t\treturn nil, TrustStoreError{Msg: fmt.Sprintf("the trust store %s of type %s with path %s is not a regular directory (symlinks are not supported)", namedStore, storeType, storePath)}\n\t}\n'
E_READDIR = '\tentries, err := os.ReadDir(storePath)\n\tif err != nil {\n\t\treturn nil, TrustStoreError{InnerError: err, Msg: fmt.Sprintf("failed to access the trust store %q of type %q", namedStore, storeType)}\n\t}\n'
E_EMPTYDIR = '\tif len(entries) == 0 {\n\t\treturn nil, CertificateError{InnerError: fs.ErrNotExist, Msg: fmt.Sprintf("no x509 certificates were found in trust store %q of type %q", namedStore, storeType)}\n\t}\n'
E_EMPTYRES = '\tif len(certificates) < 1 {\n\t\treturn nil, CertificateError{InnerError: fs.ErrNotExist, Msg: fmt.Sprintf("no x509 certificates were found in trust store %q of type %q", namedStore, storeType)}\n\t}\n'
# the per-entry statements (one tab deep: the body of a helper), up to and including ValidateCertificates
E_ENTRY = ('\tcertFileName := entry.Name()\n\tif entry.IsDir() || entry.Type()&fs.ModeSymlink != 0 {\n\t\treturn nil, CertificateError{Msg: fmt.Sprintf("trusted certificate %s in trust store %s of type %s is not a regular file (directories or symlinks are not supported)", certFileName, namedStore, storeType)}\n\t}\n'
           '\tcerts, err := corex509.ReadCertificateFile(filepath.Join(storePath, certFileName))\n\tif err != nil {\n\t\treturn nil, CertificateError{InnerError: err, Msg: fmt.Sprintf("failed to read the trusted certificate %s in trust store %s of type %s", certFileName, namedStore, storeType)}\n\t}\n'
           '\tif err := ValidateCertificates(certs); err != nil {\n\t\treturn nil, CertificateError{InnerError: err, Msg: fmt.Sprintf("failed to validate the trusted certificate %s in trust store %s of type %s", certFileName, namedStore, storeType)}\n\t}\n')
E_TSA_INLINE = '\tif storeType == TypeTSA {\n\t\tfor _, cert := range certs {\n\t\t\tif err := isRootCACertificate(cert); err != nil {\n\t\t\t\treturn nil, CertificateError{InnerError: err, Msg: fmt.Sprintf("trusted certificate %s in trust store %s of type %s is invalid: %v", certFileName, namedStore, storeType, err.Error())}\n\t\t\t}\n\t\t}\n\t}\n'
E_TSA_CALL = '\tif storeType == TypeTSA {\n\t\tif err := validateRootCACertificates(certs); err != nil {\n\t\t\treturn nil, CertificateError{InnerError: err, Msg: fmt.Sprintf("trusted certificate %s in trust store %s of type %s is invalid: %v", certFileName, namedStore, storeType, err.Error())}\n\t\t}\n\t}\n'
E_TSA_TYPED_CALL = '\tif err := checkTSARoots(storeType, certs); err != nil {\n\t\treturn nil, CertificateError{InnerError: err, Msg: fmt.Sprintf("trusted certificate %s in trust store %s of type %s is invalid: %v", certFileName, namedStore, storeType, err.Error())}\n\t}\n'
F_ROOTS = 'func validateRootCACertificates(certs []*x509.Certificate) error {\n\tfor _, cert := range %s {\n\t\tif err := isRootCACertificate(cert); err != nil {\n\t\t\treturn err\n\t\t}\n\t}\n\treturn nil\n}\n\n'
F_TYPED_ROOTS = 'func checkTSARoots(storeType Type, certs []*x509.Certificate) error {\n\tif %s {\n\t\treturn nil\n\t}\n\tfor _, cert := range certs {\n\t\tif err := isRootCACertificate(cert); err != nil {\n\t\t\treturn err\n\t\t}\n\t}\n\treturn nil\n}\n\n'
SIG = 'func (trustStore *x509TrustStore) GetCertificates(ctx context.Context, storeType Type, namedStore string) ([]*x509.Certificate, error) {\n'
def indent(s):
    return ''.join('\t' + l if l.strip() else l for l in s.splitlines(True))
def accumulate(call, init='\tvar certificates []*x509.Certificate\n', tail=E_EMPTYRES):
    return init + '\tfor _, entry := range entries {\n\t\tcerts, err := ' + call + '\n\t\tif err != nil {\n\t\t\treturn nil, err\n\t\t}\n\t\tcertificates = append(certificates, certs...)\n\t}\n' + tail + '\treturn certificates, nil\n}\n\n'
def f_entry(tsa=E_TSA_INLINE, extra=''):
    return 'func loadStoreEntry(storePath string, entry fs.DirEntry, storeType Type, namedStore string) ([]*x509.Certificate, error) {\n' + E_ENTRY + tsa + '\treturn certs, nil\n}\n\n' + extra

# class: the method cut into stage helpers at other boundaries (driver over resolve / list / load-entry / validate-roots)
def stage_helpers(name=E_NAME % '""', stat='os.Lstat(storePath)', roots='certs', resolve_err='\tif err != nil {\n\t\treturn nil, err\n\t}\n', resolve_lhs='storePath, err :=',
                  list_arg='storePath', entry_arg='storePath', list_guard=''):
    drv = SIG + '\t' + resolve_lhs + ' trustStore.resolveStorePath(storeType, namedStore)\n' + resolve_err
    drv += '\tentries, err := listStoreEntries(' + list_arg + ', storeType, namedStore)\n\tif err != nil {\n\t\treturn nil, err\n\t}\n'
    drv += accumulate('loadStoreEntry(' + entry_arg + ', entry, storeType, namedStore)')
    res = 'func (trustStore *x509TrustStore) resolveStorePath(storeType Type, namedStore string) (string, error) {\n' + E_TYPE % '""' + name + E_SYS % ('trustStore', '""') + '\treturn storePath, nil\n}\n\n'
    lst = 'func listStoreEntries(storePath string, storeType Type, namedStore string) ([]fs.DirEntry, error) {\n' + E_LSTAT.replace('os.Lstat(storePath)', stat) + E_MODE + E_READDIR + list_guard + '\treturn entries, nil\n}\n\n'
    return drv + res + lst + f_entry(E_TSA_CALL, F_ROOTS % roots)
# class member: type/name/path in the method, the rest in a loader that receives the path
def path_then_loader(mode=E_MODE, call='\treturn loadStoreDirectory(storePath, storeType, namedStore)\n', partial='nil'):
    drv = SIG + E_TYPE % 'nil' + E_NAME % 'nil' + E_SYS % ('trustStore', 'nil') + call + '}\n\n'
    ld = 'func loadStoreDirectory(storePath string, storeType Type, namedStore string) ([]*x509.Certificate, error) {\n' + E_LSTAT + mode + E_READDIR
    ld += accumulate('loadStoreEntry(storePath, entry, storeType, namedStore)').replace('\t\t\treturn nil, err\n', '\t\t\treturn ' + partial + ', err\n')
    return drv + ld + f_entry()
# class member: a chain of two loaders (validate and resolve in the first, list and load in the second)
def two_level_loader(mid='\treturn loadStoreDirectory(storePath, storeType, namedStore)\n'):
    drv = SIG + '\treturn trustStore.loadNamedStore(storeType, namedStore)\n}\n\n'
    midf = 'func (trustStore *x509TrustStore) loadNamedStore(storeType Type, namedStore string) ([]*x509.Certificate, error) {\n' + E_TYPE % 'nil' + E_NAME % 'nil' + E_SYS % ('trustStore', 'nil') + mid + '}\n\n'
    ld = 'func loadStoreDirectory(storePath string, storeType Type, namedStore string) ([]*x509.Certificate, error) {\n' + E_LSTAT + E_MODE + E_READDIR
    ld += accumulate('loadStoreEntry(storePath, entry, storeType, namedStore)')
    return drv + midf + ld + f_entry()
# class member: the tsa test inside the roots helper (the helper receives the store type)
def typed_roots(cond='storeType != TypeTSA'):
    drv = SIG + E_TYPE % 'nil' + E_NAME % 'nil' + E_SYS % ('trustStore', 'nil') + E_LSTAT + E_MODE + E_READDIR
    drv += accumulate('loadStoreEntry(storePath, entry, storeType, namedStore)')
    return drv + f_entry(E_TSA_TYPED_CALL, F_TYPED_ROOTS % cond)
# class: the empty-store test as a guard on the listing, in front of the loop (no test of the result afterwards)
def empty_guard(guard=E_EMPTYDIR, init='\tcertificates := make([]*x509.Certificate, 0, len(entries))\n', on_err='\t\t\treturn nil, err\n', index_loop=False):
    drv = SIG + E_TYPE % 'nil' + E_NAME % 'nil' + E_SYS % ('trustStore', 'nil') + E_LSTAT + E_MODE + E_READDIR + guard
    acc = accumulate('loadStoreEntry(storePath, entry, storeType, namedStore)', init=init, tail='').replace('\t\t\treturn nil, err\n', on_err)
    if index_loop:
        acc = acc.replace('\tfor _, entry := range entries {\n', '\tfor i := range entries {\n\t\tentry := entries[i]\n')
    return drv + acc + f_entry()
LEN_OLD = '\tif len(certs) < 1 {\n\t\treturn errors.New("input certs cannot be empty")\n\t}\n'
def whole(name, expect, text, edits=None):
    d = dict(name=name, file=T, expect=expect, find=GETCERTS_OLD, replace=text)
    if edits:
        d['edits'] = edits
    return d
VARIANTS += [
 whole('benign-stage-helpers', 'silent', stage_helpers()),
 whole('stage-helpers-list-follows-symlink', 'flagged(gate/lstat)', stage_helpers(stat='os.Stat(storePath)')),
 whole('stage-helpers-roots-first-only', 'flagged(entry/tsa-roots)', stage_helpers(roots='certs[:1]')),
 whole('stage-helpers-name-unchecked', 'flagged(gate/safe-name)', stage_helpers(name=(E_NAME % '""').replace('!file.IsValidFileName(namedStore)', 'namedStore == "" && !file.IsValidFileName(namedStore)'))),
 whole('stage-helpers-resolve-error-ignored', 'flagged(gate/known-type)', stage_helpers(resolve_lhs='storePath, _ :=', resolve_err='')),
 whole('stage-helpers-lists-parent-dir', 'flagged(path/syspath)', stage_helpers(list_arg='filepath.Dir(storePath)', entry_arg='filepath.Dir(storePath)')),
 whole('stage-helpers-entry-path-mismatch', 'flagged(exact-set/file-path)', stage_helpers(entry_arg='filepath.Dir(storePath)')),
 whole('benign-stage-helpers-empty-guard-in-list', 'silent', stage_helpers(list_guard=E_EMPTYDIR).replace(E_EMPTYRES, '')),
 whole('stage-helpers-no-empty-test', 'flagged(gate/non-empty)', stage_helpers().replace(E_EMPTYRES, '')),
 whole('benign-path-then-loader', 'silent', path_then_loader()),
 whole('path-then-loader-accepts-symlinked-store', 'flagged(gate/not-symlink)', path_then_loader(mode=E_MODE.replace(' || mode&fs.ModeSymlink != 0', ''))),
 whole('benign-path-then-loader-forwarded-pair', 'silent', path_then_loader(call='\tcerts, err := loadStoreDirectory(storePath, storeType, namedStore)\n\tif err != nil {\n\t\treturn certs, err\n\t}\n\treturn certs, nil\n')),
 whole('path-then-loader-partial-set', 'flagged(no-partial-set)', path_then_loader(call='\tcerts, err := loadStoreDirectory(storePath, storeType, namedStore)\n\tif err != nil {\n\t\treturn certs, err\n\t}\n\treturn certs, nil\n', partial='certificates')),
 whole('benign-two-level-loader', 'silent', two_level_loader()),
 whole('two-level-loader-error-dropped', 'flagged(exact-set/returned-from-loader)', two_level_loader(mid='\tcerts, _ := loadStoreDirectory(storePath, storeType, namedStore)\n\treturn certs, nil\n')),
 whole('benign-typed-roots-helper', 'silent', typed_roots()),
 whole('typed-roots-helper-skips-multi-cert-files', 'flagged(entry/tsa-roots)', typed_roots(cond='storeType != TypeTSA || len(certs) > 1')),
 whole('benign-empty-guard-before-loop', 'silent', empty_guard()),
 whole('benign-empty-guard-index-loop', 'silent', empty_guard(guard=E_EMPTYDIR.replace('len(entries) == 0', 'len(entries) < 1'), init='\tvar certificates []*x509.Certificate\n', index_loop=True)),
 whole('empty-guard-weakened', 'flagged(gate/non-empty)', empty_guard(guard=E_EMPTYDIR.replace('len(entries) == 0', 'len(entries) == 0 && storeType == TypeTSA'))),
 whole('empty-guard-but-entry-skipped', 'flagged(gate/non-empty)', empty_guard(on_err='\t\t\tcontinue\n')),
 whole('empty-guard-presized-with-length', 'flagged(exact-set/returns-accumulated)', empty_guard(init='\tcertificates := make([]*x509.Certificate, len(entries))\n')),
 whole('empty-guard-empty-files-accepted', 'flagged(gate/non-empty)', empty_guard(), edits=[(T, LEN_OLD, LEN_OLD.replace('len(certs) < 1', 'certs == nil'))]),
 dict(name='benign-lstat-switch-errors-is', file=T, expect='silent',
      find='\tif err != nil {\n\t\tif os.IsNotExist(err) {\n\t\t\treturn nil, TrustStoreError{InnerError: err, Msg: fmt.Sprintf("the trust store %q of type %q does not exist", namedStore, storeType)}\n\t\t}\n\t\treturn nil, TrustStoreError{InnerError: err, Msg: fmt.Sprintf("failed to access the trust store %q of type %q", namedStore, storeType)}\n\t}\n\tmode := fileInfo.Mode()',
      replace='\tswitch {\n\tcase err == nil:\n\tcase errors.Is(err, fs.ErrNotExist):\n\t\treturn nil, TrustStoreError{InnerError: err, Msg: fmt.Sprintf("the trust store %q of type %q does not exist", namedStore, storeType)}\n\tdefault:\n\t\treturn nil, TrustStoreError{InnerError: err, Msg: fmt.Sprintf("failed to access the trust store %q of type %q", namedStore, storeType)}\n\t}\n\tmode := fileInfo.Mode()'),
 dict(name='lstat-switch-not-exist-falls-through', file=T, expect='flagged(gate/lstat)',
      find='\tif err != nil {\n\t\tif os.IsNotExist(err) {\n\t\t\treturn nil, TrustStoreError{InnerError: err, Msg: fmt.Sprintf("the trust store %q of type %q does not exist", namedStore, storeType)}\n\t\t}\n\t\treturn nil, TrustStoreError{InnerError: err, Msg: fmt.Sprintf("failed to access the trust store %q of type %q", namedStore, storeType)}\n\t}\n\tmode := fileInfo.Mode()',
      replace='\tswitch {\n\tcase err == nil, fileInfo != nil:\n\tcase errors.Is(err, fs.ErrNotExist):\n\t\treturn nil, TrustStoreError{InnerError: err, Msg: fmt.Sprintf("the trust store %q of type %q does not exist", namedStore, storeType)}\n\tdefault:\n\t\treturn nil, TrustStoreError{InnerError: err, Msg: fmt.Sprintf("failed to access the trust store %q of type %q", namedStore, storeType)}\n\t}\n\tmode := fileInfo.Mode()'),
]

# class member: the tsa test narrowed to a boolean parameter of the per-entry helper, bound by the caller
def flag_param(arg='storeType == TypeTSA', hoist=False):
    drv = SIG + E_TYPE % 'nil' + E_NAME % 'nil' + E_SYS % ('trustStore', 'nil') + E_LSTAT + E_MODE + E_READDIR
    if hoist:
        drv += '\trequireRootCA := ' + arg + '\n'
        arg = 'requireRootCA'
    drv += accumulate('loadStoreEntry(storePath, entry, storeType, namedStore, ' + arg + ')')
    fe = f_entry(E_TSA_INLINE.replace('if storeType == TypeTSA {', 'if requireRootCA {')).replace('storeType Type, namedStore string) (', 'storeType Type, namedStore string, requireRootCA bool) (')
    return drv + fe
VARIANTS += [
 whole('benign-roots-flag-parameter', 'silent', flag_param()),
 whole('benign-roots-flag-parameter-hoisted', 'silent', flag_param(hoist=True)),
 whole('roots-flag-parameter-bound-to-less', 'flagged(entry/tsa-roots)', flag_param(arg='storeType == TypeTSA && len(entries) == 1')),
]

# class member: the per-entry processing as a closure over the path, the type and the name (captured variables instead of parameters)
def entry_closure(tsa=E_TSA_INLINE, before='', after='', join='storePath'):
    drv = SIG + E_TYPE % 'nil' + E_NAME % 'nil' + E_SYS % ('trustStore', 'nil') + E_LSTAT + E_MODE + E_READDIR + before
    drv += '\tloadEntry := func(entry fs.DirEntry) ([]*x509.Certificate, error) {\n' + indent(E_ENTRY.replace('filepath.Join(storePath,', 'filepath.Join(' + join + ',') + tsa) + '\t\treturn certs, nil\n\t}\n' + after
    return drv + accumulate('loadEntry(entry)')
VARIANTS += [
 whole('benign-entry-closure', 'silent', entry_closure()),
 whole('entry-closure-skips-tsa-root-check', 'flagged(entry/tsa-roots)', entry_closure(tsa=E_TSA_INLINE.replace('if storeType == TypeTSA {', 'if storeType == TypeTSA && len(certs) == 1 {'))),
 whole('entry-closure-captures-other-dir', 'flagged(exact-set/file-path)', entry_closure(before='\tcertDir := filepath.Dir(storePath)\n', join='certDir')),
 whole('entry-closure-path-reassigned', 'flagged(path/syspath)', entry_closure(after='\tstorePath = filepath.Dir(storePath)\n')),
 whole('entry-closure-captured-dir-set-too-late', 'flagged(exact-set/file-path)', entry_closure(before='\tvar certDir string\n', join='certDir').replace('\treturn certificates, nil\n', '\tcertDir = storePath\n\treturn certificates, nil\n')),
]

# class member: single exit — a failed entry is remembered in an error local, the loop is left with break, the local decides after the loop
def error_local(check='\tif loadErr != nil {\n\t\treturn nil, loadErr\n\t}\n'):
    drv = SIG + E_TYPE % 'nil' + E_NAME % 'nil' + E_SYS % ('trustStore', 'nil') + E_LSTAT + E_MODE + E_READDIR
    drv += '\tvar certificates []*x509.Certificate\n\tvar loadErr error\n\tfor _, entry := range entries {\n\t\tcerts, err := loadStoreEntry(storePath, entry, storeType, namedStore)\n\t\tif err != nil {\n\t\t\tloadErr = err\n\t\t\tbreak\n\t\t}\n\t\tcertificates = append(certificates, certs...)\n\t}\n' + check + E_EMPTYRES + '\treturn certificates, nil\n}\n\n'
    return drv + f_entry()
VARIANTS += [
 whole('benign-error-local-break', 'silent', error_local()),
 whole('error-local-partial-success', 'flagged(entry/no-early-success)', error_local(check='\tif loadErr != nil && len(certificates) == 0 {\n\t\treturn nil, loadErr\n\t}\n')),
 dict(name='stop-at-first-bad-entry', file=T, expect='flagged(entry/no-early-success)',
      find='\t\tif err != nil {\n\t\t\treturn nil, CertificateError{InnerError: err, Msg: fmt.Sprintf("failed to read the trusted certificate %s in trust store %s of type %s", certFileName, namedStore, storeType)}\n\t\t}',
      replace='\t\tif err != nil {\n\t\t\tbreak\n\t\t}'),
]


# ---- third pass ------------------------------------------------------------------------------------------------------------
# class: PARAMETER OBJECT — the store identity (type, name) travels as the fields of an unexported struct, by value, by pointer,
# as a method receiver or captured by a closure, instead of as two loose arguments
E_ID = 'type storeID struct {\n\tstoreType Type\n\tname      string\n}\n\n'
def sid(s):
    return s.replace('storeType', 'store.storeType').replace('namedStore', 'store.name')
def param_object(build='\tstore := storeID{storeType: storeType, name: namedStore}\n', ptr=False, decl=E_ID, entry_recv='store', after_locate='', locate_pre='',
                 locate_arg='store', entry_call=None):
    star = '*' if ptr else ''
    drv = SIG + build + '\tstorePath, err := trustStore.locate(' + locate_arg + ')\n\tif err != nil {\n\t\treturn nil, err\n\t}\n' + after_locate + E_READDIR
    drv += accumulate(entry_call or (entry_recv + '.readEntry(storePath, entry)'))
    loc = ('func (trustStore *x509TrustStore) locate(store %sstoreID) (string, error) {\n' % star) + locate_pre
    loc += sid(E_TYPE % '""' + E_NAME % '""' + E_SYS % ('trustStore', '""') + E_LSTAT.replace('return nil,', 'return "",') + E_MODE.replace('return nil,', 'return "",')) + '\treturn storePath, nil\n}\n\n'
    ent = ('func (store %sstoreID) readEntry(storePath string, entry fs.DirEntry) ([]*x509.Certificate, error) {\n' % star) + sid(E_ENTRY + E_TSA_CALL) + '\treturn certs, nil\n}\n\n'
    return drv + decl + loc + ent + F_ROOTS % 'certs'
# the object captured by a per-entry closure
def param_object_closure(build='\tstore := storeID{storeType: storeType, name: namedStore}\n', late=''):
    drv = SIG + build + '\tstorePath, err := trustStore.locate(store)\n\tif err != nil {\n\t\treturn nil, err\n\t}\n' + E_READDIR
    drv += '\tloadEntry := func(entry fs.DirEntry) ([]*x509.Certificate, error) {\n' + indent(sid(E_ENTRY + E_TSA_INLINE)) + '\t\treturn certs, nil\n\t}\n' + late
    drv += accumulate('loadEntry(entry)')
    loc = 'func (trustStore *x509TrustStore) locate(store storeID) (string, error) {\n'
    loc += sid(E_TYPE % '""' + E_NAME % '""' + E_SYS % ('trustStore', '""') + E_LSTAT.replace('return nil,', 'return "",') + E_MODE.replace('return nil,', 'return "",')) + '\treturn storePath, nil\n}\n\n'
    return drv + E_ID + loc
VARIANTS += [
 whole('benign-param-object-by-value', 'silent', param_object()),
 whole('benign-param-object-by-pointer', 'silent', param_object(build='\tstore := &storeID{storeType: storeType, name: namedStore}\n', ptr=True)),
 whole('benign-param-object-positional-other-order', 'silent', param_object(build='\tstore := storeID{namedStore, storeType}\n', decl='type storeID struct {\n\tname      string\n\tstoreType Type\n}\n\n')),
 whole('benign-param-object-field-assignments', 'silent', param_object(build='\tvar store storeID\n\tstore.name = namedStore\n\tstore.storeType = storeType\n')),
 whole('benign-param-object-fields-read-by-driver', 'silent', param_object(entry_call='loadStoreEntry(storePath, entry, store.storeType, store.name)') + f_entry()),
 whole('benign-param-object-captured-by-closure', 'silent', param_object_closure()),
 whole('param-object-fields-swapped', 'flagged(path/layout-arguments)', param_object(build='\tstore := storeID{storeType: Type(namedStore), name: string(storeType)}\n')),
 whole('param-object-other-identity-for-entries', 'flagged(entry/tsa-roots)', param_object(build='\tstore := storeID{storeType: storeType, name: namedStore}\n\tother := storeID{storeType: TypeCA, name: namedStore}\n', entry_recv='other')),
 whole('param-object-other-identity-located', 'flagged(gate/known-type)', param_object(build='\tstore := storeID{storeType: storeType, name: namedStore}\n\tother := storeID{storeType: TypeCA, name: namedStore}\n', locate_arg='other')),
 whole('param-object-name-rewritten-by-helper', 'flagged(gate/safe-name)', param_object(build='\tstore := &storeID{storeType: storeType, name: namedStore}\n', ptr=True, locate_pre='\tstore.name = filepath.Base(store.name)\n')),
 whole('param-object-name-set-after-use', 'flagged(gate/safe-name)', param_object(build='\tvar store storeID\n\tstore.storeType = storeType\n', after_locate='\tstore.name = namedStore\n')),
 whole('param-object-type-rewritten-before-entries', 'flagged(entry/tsa-roots)', param_object(build='\tstore := &storeID{storeType: storeType, name: namedStore}\n', ptr=True, after_locate='\tstore.storeType = TypeCA\n')),
 whole('param-object-closure-sees-later-type', 'flagged(entry/tsa-roots)', param_object_closure(late='\tstore.storeType = TypeCA\n')),
]

# class: the certificates of an entry are added ONE BY ONE (all or some branches of the iteration) instead of in bulk; the emptiness test
# is a guard on the listing
E_ROOT_ERR = 'return nil, CertificateError{InnerError: err, Msg: fmt.Sprintf("trusted certificate %s in trust store %s of type %s is invalid: %v", certFileName, namedStore, storeType, err.Error())}\n'
def elementwise(head='\t\tfor _, cert := range certs {\n', root_if='if err := isRootCACertificate(cert); err != nil {', add='\t\t\tcertificates = append(certificates, cert)\n', skip='',
                split='continue', guard=E_EMPTYDIR, init='\tcertificates := make([]*x509.Certificate, 0, len(entries))\n', tail='', outer='\tfor i := range entries {\n\t\tentry := entries[i]\n'):
    drv = SIG + E_TYPE % 'nil' + E_NAME % 'nil' + E_SYS % ('trustStore', 'nil') + E_LSTAT + E_MODE + E_READDIR + guard
    drv += '\trequireRootCA := storeType == TypeTSA\n' + init + outer + indent(E_ENTRY)
    inner = head + skip + '\t\t\t' + root_if + '\n\t\t\t\t' + E_ROOT_ERR + '\t\t\t}\n' + add + '\t\t}\n'
    if split == 'continue':
        drv += '\t\tif !requireRootCA {\n\t\t\tcertificates = append(certificates, certs...)\n\t\t\tcontinue\n\t\t}\n' + inner
    elif split == 'else':
        drv += '\t\tif !requireRootCA {\n\t\t\tcertificates = append(certificates, certs...)\n\t\t} else {\n' + indent(inner) + '\t\t}\n'
    else:  # every store adds one by one; the tsa test sits inside the loop over the certificates
        drv += head + skip + '\t\t\tif requireRootCA {\n\t\t\t\t' + root_if + '\n\t\t\t\t\t' + E_ROOT_ERR + '\t\t\t\t}\n\t\t\t}\n' + add + '\t\t}\n'
    return drv + '\t}\n' + tail + '\treturn certificates, nil\n}\n\n'
PINNED = (T, HOOK, 'var pinnedRoots []*x509.Certificate\n\n' + HOOK)
VARIANTS += [
 whole('benign-elementwise-tsa-branch', 'silent', elementwise()),
 whole('benign-elementwise-if-else', 'silent', elementwise(split='else')),
 whole('benign-elementwise-always', 'silent', elementwise(split='always')),
 whole('benign-elementwise-index-loop', 'silent', elementwise(head='\t\tfor j := 0; j < len(certs); j++ {\n\t\t\tcert := certs[j]\n')),
 whole('benign-elementwise-result-tested', 'silent', elementwise(split='always', guard='', init='\tvar certificates []*x509.Certificate\n', tail=E_EMPTYRES, outer='\tfor _, entry := range entries {\n')),
 whole('elementwise-skips-some', 'flagged(exact-set/every-entry-added)', elementwise(skip='\t\t\tif cert.IsCA && len(certs) > 1 {\n\t\t\t\tcontinue\n\t\t\t}\n')),
 whole('elementwise-skips-some-empty-result', 'flagged(gate/non-empty)', elementwise(skip='\t\t\tif cert.IsCA && len(certs) > 1 {\n\t\t\t\tcontinue\n\t\t\t}\n')),
 whole('elementwise-from-second', 'flagged(gate/non-empty)', elementwise(head='\t\tfor j := 1; j < len(certs); j++ {\n\t\t\tcert := certs[j]\n')),
 whole('elementwise-every-other', 'flagged(exact-set/every-entry-added)', elementwise(head='\t\tfor j := 0; j < len(certs); j += 2 {\n\t\t\tcert := certs[j]\n')),
 whole('elementwise-tail-only', 'flagged(exact-set/every-entry-added)', elementwise(head='\t\tfor _, cert := range certs[1:] {\n')),
 whole('elementwise-first-then-break', 'flagged(exact-set/every-entry-added)', elementwise(add='\t\t\tcertificates = append(certificates, cert)\n\t\t\tbreak\n')),
 whole('elementwise-always-first-element', 'flagged(exact-set/every-entry-added)', elementwise(add='\t\t\tcertificates = append(certificates, certs[0])\n')),
 whole('elementwise-restarts-from-empty', 'flagged(exact-set/every-entry-added)', elementwise(add='\t\t\tcertificates = append(certificates[:0], cert)\n')),
 whole('elementwise-foreign-element', 'flagged(exact-set/appended-only-from-files)', elementwise(add='\t\t\tcertificates = append(certificates, cert, pinnedRoots[0])\n'), edits=[PINNED]),
 whole('elementwise-root-check-weakened', 'flagged(entry/tsa-roots)', elementwise(root_if='if err := isRootCACertificate(cert); err != nil && len(certs) == 1 {')),
 whole('elementwise-always-root-check-weakened', 'flagged(entry/tsa-roots)', elementwise(split='always', root_if='if err := isRootCACertificate(cert); err != nil && len(certs) == 1 {')),
 dict(name='entry-not-added', file=T, expect='flagged(exact-set/every-entry-added)',
      find='\t\tcertificates = append(certificates, certs...)\n', replace='\t\tif len(certs) > 1 {\n\t\t\tcontinue\n\t\t}\n\t\tcertificates = append(certificates, certs...)\n'),
]

# the small shapes of the same refactoring: the type validator inlined with the standard slices.Contains, the two argument checks as one switch
STD_SLICES = [(T, '\t"github.com/notaryproject/notation-go/internal/slices"\n', ''), (T, '\t"path/filepath"\n', '\t"path/filepath"\n\t"slices"\n'),
              (T, '// isValidStoreType checks if storeType is supported\nfunc isValidStoreType(storeType Type) bool {\n\treturn slices.Contains(Types, storeType)\n}\n\n', '')]
ARGS_OLD = '\tif !isValidStoreType(storeType) {\n\t\treturn nil, TrustStoreError{Msg: fmt.Sprintf("unsupported trust store type: %s", storeType)}\n\t}\n\tif !file.IsValidFileName(namedStore) {\n'
def args_switch(first='!slices.Contains(Types, storeType)', mid=''):
    return '\tswitch {\n\tcase ' + first + ':\n\t\treturn nil, TrustStoreError{Msg: fmt.Sprintf("unsupported trust store type: %s", storeType)}\n' + mid + '\tcase !file.IsValidFileName(namedStore):\n'
VARIANTS += [
 dict(name='benign-args-switch-std-contains', file=T, expect='silent', find=ARGS_OLD, replace=args_switch(), edits=STD_SLICES),
 dict(name='args-switch-std-contains-own-list', file=T, expect='flagged(gate/known-type)', find=ARGS_OLD, replace=args_switch(first='!slices.Contains([]Type{TypeCA, TypeSigningAuthority, TypeTSA, Type(namedStore)}, storeType)'), edits=STD_SLICES),
 dict(name='args-switch-name-case-shadowed', file=T, expect='flagged(gate/safe-name)', find=ARGS_OLD, replace=args_switch(mid='\tcase storeType == TypeCA:\n'), edits=STD_SLICES),
]

# class member: the parameter object comes from a constructor function (by value / by pointer), or also carries the file system (a loader object)
CTOR_V = 'func newStoreID(t Type, n string) storeID {\n\treturn storeID{storeType: t, name: n}\n}\n\n'
CTOR_P = 'func newStoreID(t Type, n string) *storeID {\n\treturn &storeID{storeType: t, name: n}\n}\n\n'
def loader_object(build='\tl := &storeLoader{fs: trustStore.trustStorefs, storeType: storeType, name: namedStore}\n', late=''):
    drv = SIG + build + '\tstorePath, err := l.locate()\n\tif err != nil {\n\t\treturn nil, err\n\t}\n' + late + E_READDIR
    drv += accumulate('l.readEntry(storePath, entry)')
    decl = 'type storeLoader struct {\n\tfs        dir.SysFS\n\tstoreType Type\n\tname      string\n}\n\n'
    body = E_TYPE % '""' + E_NAME % '""' + E_SYS % ('l', '""') + E_LSTAT.replace('return nil,', 'return "",') + E_MODE.replace('return nil,', 'return "",')
    loc = 'func (l *storeLoader) locate() (string, error) {\n' + body.replace('l.trustStorefs', 'l.fs').replace('storeType', 'l.storeType').replace('namedStore', 'l.name') + '\treturn storePath, nil\n}\n\n'
    ent = 'func (l *storeLoader) readEntry(storePath string, entry fs.DirEntry) ([]*x509.Certificate, error) {\n' + (E_ENTRY + E_TSA_CALL).replace('storeType', 'l.storeType').replace('namedStore', 'l.name') + '\treturn certs, nil\n}\n\n'
    return drv + decl + loc + ent + F_ROOTS % 'certs'
VARIANTS += [
 whole('benign-param-object-constructor-value', 'silent', param_object(build='\tstore := newStoreID(storeType, namedStore)\n', decl=E_ID + CTOR_V)),
 whole('benign-param-object-constructor-pointer', 'silent', param_object(build='\tstore := newStoreID(storeType, namedStore)\n', ptr=True, decl=E_ID + CTOR_P)),
 whole('benign-loader-object', 'silent', loader_object()),
 whole('param-object-constructor-swaps', 'flagged(path/layout-arguments)', param_object(build='\tstore := newStoreID(storeType, namedStore)\n', decl=E_ID + CTOR_V.replace('storeType: t, name: n', 'storeType: Type(n), name: string(t)'))),
 whole('param-object-constructor-arguments-swapped', 'flagged(gate/known-type)', param_object(build='\tstore := newStoreID(Type(namedStore), string(storeType))\n', decl=E_ID + CTOR_V)),
 whole('param-object-constructed-then-rewritten', 'flagged(entry/tsa-roots)', param_object(build='\tstore := newStoreID(storeType, namedStore)\n', ptr=True, decl=E_ID + CTOR_P, after_locate='\tstore.storeType = TypeCA\n')),
 whole('loader-object-type-rewritten', 'flagged(entry/tsa-roots)', loader_object(late='\tl.storeType = TypeCA\n')),
 whole('loader-object-other-name', 'flagged(gate/safe-name)', loader_object(build='\tl := &storeLoader{fs: trustStore.trustStorefs, storeType: storeType, name: filepath.Base(namedStore)}\n')),
]

# fourth pass: the decision "CA or self-signed" is taken by module predicates (bool helpers) instead of by two edges in the loop body;
# `continue` instead of a nested if; the Lstat error chain as a switch; De Morgan on the directory mode test; the tsa test hoisted out of the loop
VC_LOOP_OLD = ('\tfor _, cert := range certs {\n\t\tif !cert.IsCA {\n\t\t\tif err := cert.CheckSignature(cert.SignatureAlgorithm, cert.RawTBSCertificate, cert.Signature); err != nil {\n'
               '\t\t\t\treturn fmt.Errorf(\n\t\t\t\t\t"certificate with subject %q is not a CA certificate or self-signed signing certificate",\n\t\t\t\t\tcert.Subject,\n\t\t\t\t)\n\t\t\t}\n\t\t}\n\t}\n\treturn nil\n}\n')
VC_ERR = 'fmt.Errorf("certificate with subject %q is not a CA certificate or self-signed signing certificate", cert.Subject)'
CHECKSIG = 'CheckSignature(%s.SignatureAlgorithm, %s.RawTBSCertificate, %s.Signature)'
def self_signed(arg='c', cmp='== nil', name='isSelfSigned'):
    return 'func ' + name + '(c *x509.Certificate) bool {\n\treturn ' + arg + '.' + CHECKSIG % (arg, arg, arg) + ' ' + cmp + '\n}\n'
def vc(loop, helpers):
    return dict(file=T, find=VC_LOOP_OLD, replace='\tfor _, cert := range certs {\n' + loop + '\t}\n\treturn nil\n}\n\n' + helpers)
L_CONTINUE = '\t\tif cert.IsCA || isSelfSigned(cert) {\n\t\t\tcontinue\n\t\t}\n\t\treturn ' + VC_ERR + '\n'
L_GUARD = '\t\tif !cert.IsCA && !isSelfSigned(cert) {\n\t\t\treturn ' + VC_ERR + '\n\t\t}\n'
L_ACCEPT = '\t\tif !acceptable(cert) {\n\t\t\treturn ' + VC_ERR + '\n\t\t}\n'
L_REJECT = '\t\tif rejected(cert) {\n\t\t\treturn ' + VC_ERR + '\n\t\t}\n'
L_SWITCH = '\t\tswitch {\n\t\tcase cert.IsCA:\n\t\tcase isSelfSigned(cert):\n\t\tdefault:\n\t\t\treturn ' + VC_ERR + '\n\t\t}\n'
F_ACCEPT = 'func acceptable(c *x509.Certificate) bool {\n\treturn c.IsCA || isSelfSigned(c)\n}\n\n'
F_ACCEPT_IF = 'func acceptable(c *x509.Certificate) bool {\n\tif c.IsCA {\n\t\treturn true\n\t}\n\treturn c.' + CHECKSIG % ('c', 'c', 'c') + ' == nil\n}\n'
F_REJECT = 'func rejected(c *x509.Certificate) bool {\n\treturn !c.IsCA && c.' + CHECKSIG % ('c', 'c', 'c') + ' != nil\n}\n'
F_ERRPRED = 'func checkSelfSigned(c *x509.Certificate) error {\n\tif !isSelfSigned(c) {\n\t\treturn errors.New("not self-signed")\n\t}\n\treturn nil\n}\n\n'
L_ERRPRED = '\t\tif cert.IsCA {\n\t\t\tcontinue\n\t\t}\n\t\tif err := checkSelfSigned(cert); err != nil {\n\t\t\treturn ' + VC_ERR + '\n\t\t}\n'
def v(name, expect, d, edits=None):
    d = dict(d, name=name, expect=expect)
    if edits:
        d['edits'] = edits
    return d
LSTAT_IF = '\tif err != nil {\n\t\tif os.IsNotExist(err) {\n\t\t\treturn nil, TrustStoreError{InnerError: err, Msg: fmt.Sprintf("the trust store %q of type %q does not exist", namedStore, storeType)}\n\t\t}\n\t\treturn nil, TrustStoreError{InnerError: err, Msg: fmt.Sprintf("failed to access the trust store %q of type %q", namedStore, storeType)}\n\t}\n\tmode := fileInfo.Mode()\n'
def lstat_switch(first='err == nil'):
    return ('\tswitch {\n\tcase ' + first + ':\n\tcase os.IsNotExist(err):\n\t\treturn nil, TrustStoreError{InnerError: err, Msg: fmt.Sprintf("the trust store %q of type %q does not exist", namedStore, storeType)}\n'
            '\tdefault:\n\t\treturn nil, TrustStoreError{InnerError: err, Msg: fmt.Sprintf("failed to access the trust store %q of type %q", namedStore, storeType)}\n\t}\n\tmode := fileInfo.Mode()\n')
MODE_OLD = '\tif !mode.IsDir() || mode&fs.ModeSymlink != 0 {\n'
TSA_IF_OLD = '\t\tif storeType == TypeTSA {\n'
LOOP_HEAD = '\tvar certificates []*x509.Certificate\n\tfor _, file := range files {\n'
VARIANTS += [
 v('benign-self-signed-predicate-continue', 'silent', vc(L_CONTINUE, self_signed())),
 v('benign-self-signed-predicate-guard', 'silent', vc(L_GUARD, self_signed())),
 v('benign-self-signed-predicate-switch', 'silent', vc(L_SWITCH, self_signed())),
 v('benign-acceptable-predicate', 'silent', vc(L_ACCEPT, F_ACCEPT + self_signed())),
 v('benign-acceptable-predicate-if', 'silent', vc(L_ACCEPT, F_ACCEPT_IF)),
 v('benign-rejected-predicate', 'silent', vc(L_REJECT, F_REJECT)),
 v('benign-self-signed-error-over-predicate', 'silent', vc(L_ERRPRED, F_ERRPRED + self_signed())),
 # the new shapes with the property broken
 v('self-signed-predicate-ignores-result', 'flagged(entry/ca-or-self-signed)', vc(L_CONTINUE, 'func isSelfSigned(c *x509.Certificate) bool {\n\t_ = c.' + CHECKSIG % ('c', 'c', 'c') + '\n\treturn true\n}\n')),
 v('self-signed-predicate-inverted', 'flagged(entry/ca-or-self-signed)', vc(L_CONTINUE, self_signed(cmp='!= nil'))),
 v('self-signed-predicate-on-first-file-cert', 'flagged(entry/ca-or-self-signed)', vc(L_CONTINUE.replace('isSelfSigned(cert)', 'isSelfSigned(certs[len(certs)-1])'), self_signed())),
 v('self-signed-predicate-short-circuited', 'flagged(entry/ca-or-self-signed)', vc(L_CONTINUE, 'func isSelfSigned(c *x509.Certificate) bool {\n\treturn len(c.Signature) > 0 || c.' + CHECKSIG % ('c', 'c', 'c') + ' == nil\n}\n')),
 v('self-signed-predicate-guard-wrong-polarity', 'flagged(entry/ca-or-self-signed)', vc(L_GUARD.replace('!isSelfSigned(cert)', 'isSelfSigned(cert)'), self_signed())),
 v('acceptable-predicate-any-key-usage', 'flagged(entry/ca-or-self-signed)', vc(L_ACCEPT, F_ACCEPT.replace('c.IsCA ||', 'c.IsCA || c.KeyUsage != 0 ||') + self_signed())),
 v('acceptable-predicate-asked-about-other-cert', 'flagged(entry/ca-or-self-signed)', vc(L_ACCEPT.replace('acceptable(cert)', 'acceptable(&x509.Certificate{IsCA: true})'), F_ACCEPT + self_signed())),
 v('rejected-predicate-or', 'flagged(entry/ca-or-self-signed)', vc(L_REJECT, F_REJECT.replace('!c.IsCA && c.', 'c.IsCA && c.'))),
 v('self-signed-error-over-predicate-swallowed', 'flagged(entry/ca-or-self-signed)', vc(L_ERRPRED, F_ERRPRED.replace('return errors.New("not self-signed")', 'return nil') + self_signed())),
 # the control-flow rewrites of the same refactoring
 dict(name='benign-lstat-switch-demorgan-hoisted-tsa', file=T, expect='silent', find=LSTAT_IF, replace=lstat_switch(),
      edits=[(T, MODE_OLD, '\tif !(mode.IsDir() && mode&fs.ModeSymlink == 0) {\n'), (T, TSA_IF_OLD, '\t\tif rootsOnly {\n'),
             (T, LOOP_HEAD, '\trootsOnly := storeType == TypeTSA\n\tcertificates := make([]*x509.Certificate, 0, len(files))\n\tfor _, file := range files {\n')]),
 dict(name='lstat-switch-first-case-always', file=T, expect='flagged(gate/lstat)', find=LSTAT_IF, replace=lstat_switch(first='err == nil || fileInfo != nil')),
 dict(name='demorgan-symlink-dropped', file=T, expect='flagged(gate/not-symlink)', find=MODE_OLD, replace='\tif !(mode.IsDir() || mode&fs.ModeSymlink == 0) {\n'),
 dict(name='hoisted-tsa-test-on-other-type', file=T, expect='flagged(entry/tsa-roots)', find=TSA_IF_OLD, replace='\t\tif rootsOnly {\n',
      edits=[(T, LOOP_HEAD, '\trootsOnly := storeType == TypeSigningAuthority\n' + LOOP_HEAD)]),
]

# round-4 seed C03-6: an iteration of the per-certificate loop must not end in success
CA_OLD = '\t\tif !cert.IsCA {\n\t\t\tif err := cert.CheckSignature(cert.SignatureAlgorithm, cert.RawTBSCertificate, cert.Signature); err != nil {\n\t\t\t\treturn fmt.Errorf(\n\t\t\t\t\t"certificate with subject %q is not a CA certificate or self-signed signing certificate",\n\t\t\t\t\tcert.Subject,\n\t\t\t\t)\n\t\t\t}\n\t\t}\n'
def ca_guard(word):
    return ('\t\tif cert.IsCA {\n\t\t\t' + word + '\n\t\t}\n\t\tif err := cert.CheckSignature(cert.SignatureAlgorithm, cert.RawTBSCertificate, cert.Signature); err != nil {\n'
            '\t\t\treturn fmt.Errorf("certificate with subject %q is not a CA certificate or self-signed signing certificate", cert.Subject)\n\t\t}\n')
VARIANTS += [
 dict(name='ca-guard-clause-returns-success-at-first-ca', file=T, expect='flagged(entry/ca-or-self-signed)', find=CA_OLD, replace=ca_guard('return nil')),
 dict(name='ca-guard-clause-breaks-at-first-ca', file=T, expect='flagged(entry/ca-or-self-signed)', find=CA_OLD, replace=ca_guard('break')),
 dict(name='benign-ca-guard-clause-continue', file=T, expect='silent', find=CA_OLD, replace=ca_guard('continue')),
 dict(name='self-signed-leaf-ends-the-scan', file=T, expect='flagged(entry/ca-or-self-signed)', find=CA_OLD,
      replace='\t\tif !cert.IsCA {\n\t\t\tif err := cert.CheckSignature(cert.SignatureAlgorithm, cert.RawTBSCertificate, cert.Signature); err != nil {\n\t\t\t\treturn fmt.Errorf("certificate with subject %q is not a CA certificate or self-signed signing certificate", cert.Subject)\n\t\t\t}\n\t\t\treturn nil\n\t\t}\n'),
 dict(name='tsa-root-scan-stops-after-first-root', file=T, expect='flagged(entry/tsa-roots)',
      find='\t\t\t\tif err := isRootCACertificate(cert); err != nil {\n\t\t\t\t\treturn nil, CertificateError{InnerError: err, Msg: fmt.Sprintf("trusted certificate %s in trust store %s of type %s is invalid: %v", certFileName, namedStore, storeType, err.Error())}\n\t\t\t\t}\n',
      replace='\t\t\t\tif err := isRootCACertificate(cert); err != nil {\n\t\t\t\t\treturn nil, CertificateError{InnerError: err, Msg: fmt.Sprintf("trusted certificate %s in trust store %s of type %s is invalid: %v", certFileName, namedStore, storeType, err.Error())}\n\t\t\t\t}\n\t\t\t\tbreak\n'),
]

# ---- membership test of the store type written out as a loop (benign batch 6, C13-2) ----
_TS = 'verifier/truststore/truststore.go'
_CONTAINS = '\treturn slices.Contains(Types, storeType)\n'
def _loop(cond='storeType == supported', tail='false'):
    return '\tfor _, supported := range Types {\n\t\tif ' + cond + ' {\n\t\t\treturn true\n\t\t}\n\t}\n\treturn ' + tail + '\n'
_KEEP = [(_TS, 'func isRootCACertificate(', 'var _ = slices.Contains[Type]\n\nfunc isRootCACertificate(')]
VARIANTS += [
 dict(name='benign-known-type-loop', file=_TS, expect='silent', find=_CONTAINS, replace=_loop(), edits=_KEEP, why='slices.Contains written out'),
 dict(name='known-type-loop-inverted', file=_TS, expect='flagged(gate/known-type)', find=_CONTAINS, replace=_loop(cond='storeType != supported'), edits=_KEEP, why='true for every type that differs from some supported one'),
 dict(name='known-type-loop-default-true', file=_TS, expect='flagged(gate/known-type)', find=_CONTAINS, replace=_loop(tail='true'), edits=_KEEP, why='falls through to true'),
]
