F = 'internal/file/file.go'
C = 'verifier/crl/crl.go'
VARIANTS = [
 dict(name='in-place-write', file=C, expect='flagged(set/uses-writer)',
      find='\tif err := file.WriteFile(c.root, filepath.Join(c.root, c.fileName(url)), contentBytes); err != nil {', replace='\t_ = file.TrimFileExtension\n\tif err := os.WriteFile(filepath.Join(c.root, c.fileName(url)), contentBytes, 0600); err != nil {'),
 dict(name='writer-in-place', file=F, expect='flagged(writer/protocol)',
      find='''	tempFile, err := os.CreateTemp(tempDir, tempFileNamePrefix)
	if err != nil {
		return fmt.Errorf("failed to create temp file: %w", err)
	}''', replace='''	tempFile, err := os.OpenFile(path, os.O_WRONLY|os.O_CREATE|os.O_TRUNC, 0600)
	if err != nil {
		return fmt.Errorf("failed to create temp file: %w", err)
	}
	_ = tempDir'''),
 dict(name='temp-in-os-tempdir', file=C, expect='flagged(set/temp-in-cache-root)',
      find='file.WriteFile(c.root, filepath.Join(c.root, c.fileName(url)), contentBytes)', replace='file.WriteFile(os.TempDir(), filepath.Join(c.root, c.fileName(url)), contentBytes)'),
 dict(name='rename-before-close', file=F, expect='flagged(writer/protocol)',
      find='''	// close before moving
	if err := tempFile.Close(); err != nil {
		return fmt.Errorf("failed to close temp file: %w", err)
	}

	// rename is atomic on UNIX-like platforms
	return os.Rename(tempFile.Name(), path)''', replace='''	if err := os.Rename(tempFile.Name(), path); err != nil {
		return err
	}
	return tempFile.Close()'''),
 dict(name='close-error-ignored', file=F, expect='flagged(writer/protocol)',
      find='''	if err := tempFile.Close(); err != nil {
		return fmt.Errorf("failed to close temp file: %w", err)
	}
''', replace='''	tempFile.Close()
'''),
 dict(name='hex-temp-prefix', file=F, expect='flagged(temp-name-disjoint)',
      find='tempFileNamePrefix = "notation-*"', replace='tempFileNamePrefix = "*"'),
 dict(name='second-writer', file=C, expect='flagged(who-may-write)',
      find='\t\tif errors.Is(err, fs.ErrNotExist) {\n\t\t\tlogger.Debugf("CRL file cache miss. Key %q does not exist", url)', replace='\t\tif errors.Is(err, fs.ErrNotExist) {\n\t\t\tos.WriteFile(filepath.Join(c.root, c.fileName(url)), nil, 0600)\n\t\t\tlogger.Debugf("CRL file cache miss. Key %q does not exist", url)'),
 dict(name='expired-entry-removed', file=C, expect='flagged(who-may-write)',
      find='\tif err := checkExpiry(ctx, bundle.BaseCRL.NextUpdate); err != nil {\n', replace='\tif err := checkExpiry(ctx, bundle.BaseCRL.NextUpdate); err != nil {\n\t\tos.Remove(filepath.Join(c.root, c.fileName(url)))\n'),
 dict(name='truncated-hash', file=C, expect='flagged(key/sha256-of-url)',
      find='return hex.EncodeToString(hash[:])', replace='return hex.EncodeToString(hash[:8])'),
 dict(name='stat-then-read', file=C, expect='flagged(reader/single-whole-file-read)',
      find='\tcontentBytes, err := os.ReadFile(filepath.Join(c.root, c.fileName(url)))\n', replace='\tif _, statErr := os.Stat(filepath.Join(c.root, c.fileName(url))); statErr != nil {\n\t\treturn nil, corecrl.ErrCacheMiss\n\t}\n\tcontentBytes, err := os.ReadFile(filepath.Join(c.root, c.fileName(url)))\n'),
 dict(name='destination-precreated', file=F, expect='flagged(writer/destination-only-renamed)',
      find='\t// rename is atomic on UNIX-like platforms\n', replace='\tif f, err := os.OpenFile(path, os.O_CREATE, 0600); err == nil {\n\t\tf.Close()\n\t}\n'),
 # benign
 dict(name='benign-error-texts', file=F, expect='silent',
      find='return fmt.Errorf("failed to close temp file: %w", err)', replace='return fmt.Errorf("closing temp file: %w", err)'),
 dict(name='benign-sync-before-close', file=F, expect='silent',
      find='\t// close before moving\n', replace='\tif err := tempFile.Sync(); err != nil {\n\t\treturn fmt.Errorf("failed to sync temp file: %w", err)\n\t}\n'),
 dict(name='pooled-encode-buffer', file=C, expect='flagged(writer/content-owned)',
      edits=[(C, 'import (\n\t"context"\n', 'import (\n\t"bytes"\n\t"sync"\n\t"context"\n'),
             (C, '// NewFileCache creates a FileCache', 'var encodePool = sync.Pool{New: func() any { return new(bytes.Buffer) }}\n\n// NewFileCache creates a FileCache'),
             (C, '\tcontentBytes, err := json.Marshal(content)\n', '\tbuf := encodePool.Get().(*bytes.Buffer)\n\tdefer encodePool.Put(buf)\n\tbuf.Reset()\n\terr := json.NewEncoder(buf).Encode(content)\n\tcontentBytes := buf.Bytes()\n')]),
 dict(name='benign-local-encode-buffer', file=C, expect='silent',
      edits=[(C, 'import (\n\t"context"\n', 'import (\n\t"bytes"\n\t"context"\n'),
             (C, '\tcontentBytes, err := json.Marshal(content)\n', '\tvar buf bytes.Buffer\n\terr := json.NewEncoder(&buf).Encode(content)\n\tcontentBytes := buf.Bytes()\n')],
      why='a buffer local to the call is owned by the call'),
]

# ---- the writer's steps split between WriteFile and a helper that owns the temporary file up to Close (the helper hands
# ---- the name back, WriteFile renames), and the single-exit writer (if/else chain, one error variable, no defer)
WF_OLD = """func WriteFile(tempDir, path string, content []byte) (writeErr error) {
	tempFile, err := os.CreateTemp(tempDir, tempFileNamePrefix)
	if err != nil {
		return fmt.Errorf("failed to create temp file: %w", err)
	}
	defer func() {
		// remove the temp file in case of error
		if writeErr != nil {
			tempFile.Close()
			os.Remove(tempFile.Name())
		}
	}()

	if _, err := tempFile.Write(content); err != nil {
		return fmt.Errorf("failed to write content to temp file: %w", err)
	}

	// close before moving
	if err := tempFile.Close(); err != nil {
		return fmt.Errorf("failed to close temp file: %w", err)
	}

	// rename is atomic on UNIX-like platforms
	return os.Rename(tempFile.Name(), path)
}"""
def wf_split(call='tempPath, err := writeTempFile(tempDir, content)\n\tif err != nil {\n\t\treturn err\n\t}',
             write='if _, err := tempFile.Write(content); err != nil {\n\t\treturn "", fmt.Errorf("failed to write content to temp file: %w", err)\n\t}',
             close='if err := tempFile.Close(); err != nil {\n\t\treturn "", fmt.Errorf("failed to close temp file: %w", err)\n\t}',
             name='tempFile.Name()'):
    return """func WriteFile(tempDir, path string, content []byte) error {
	""" + call + """
	if err := os.Rename(tempPath, path); err != nil {
		os.Remove(tempPath)
		return err
	}
	return nil
}

func writeTempFile(tempDir string, content []byte) (tempPath string, writeErr error) {
	tempFile, err := os.CreateTemp(tempDir, tempFileNamePrefix)
	if err != nil {
		return "", fmt.Errorf("failed to create temp file: %w", err)
	}
	defer func() {
		if writeErr != nil {
			tempFile.Close()
			os.Remove(tempFile.Name())
		}
	}()
	""" + write + """
	""" + close + """
	return """ + name + """, nil
}"""
def wf_single(chain=None, after=''):
    if chain is None:
        chain = """if _, err = tempFile.Write(content); err != nil {
		err = fmt.Errorf("failed to write content to temp file: %w", err)
	} else if err = tempFile.Close(); err != nil {
		err = fmt.Errorf("failed to close temp file: %w", err)
	} else {
		err = os.Rename(tempPath, path)
	}"""
    return """func WriteFile(tempDir, path string, content []byte) error {
	tempFile, err := os.CreateTemp(tempDir, tempFileNamePrefix)
	if err != nil {
		return fmt.Errorf("failed to create temp file: %w", err)
	}
	tempPath := tempFile.Name()
	""" + chain + """
	if err != nil {
		tempFile.Close()
		os.Remove(tempPath)
	}""" + after + """
	return err
}"""
VARIANTS += [
 dict(name='benign-writer-split-helper', file=F, expect='silent', find=WF_OLD, replace=wf_split(),
      why='Rename runs only where the helper returned a nil error, and the helper returns nil only behind the success edges of Write and Close'),
 dict(name='split-close-error-ignored', file=F, expect='flagged(writer/protocol)', find=WF_OLD, replace=wf_split(close='tempFile.Close()')),
 dict(name='split-write-error-ignored', file=F, expect='flagged(writer/protocol)', find=WF_OLD, replace=wf_split(write='tempFile.Write(content)')),
 dict(name='split-helper-failure-ignored', file=F, expect='flagged(writer/protocol)', find=WF_OLD,
      replace=wf_split(call='tempPath, _ := writeTempFile(tempDir, content)')),
 dict(name='split-helper-returns-other-name', file=F, expect='flagged(writer/protocol)', find=WF_OLD,
      replace=wf_split(name='filepath.Join(tempDir, "notation-last")')),
 dict(name='split-helper-never-closes', file=F, expect='flagged(writer/protocol)', find=WF_OLD, replace=wf_split(close='')),
 dict(name='benign-writer-single-exit', file=F, expect='silent', find=WF_OLD, replace=wf_single(),
      why='every value that reaches the single return is a non-nil wrapped error or the result of the rename itself; the second Close sits on the failure path only'),
 dict(name='single-exit-write-error-swallowed', file=F, expect='flagged(writer/success-only-after-rename)', find=WF_OLD,
      replace=wf_single(chain="""if _, err = tempFile.Write(content); err != nil {
		err = nil // best effort: the cache is only an optimisation
	} else if err = tempFile.Close(); err != nil {
		err = fmt.Errorf("failed to close temp file: %w", err)
	} else {
		err = os.Rename(tempPath, path)
	}""")),
 dict(name='single-exit-error-cleared-after-cleanup', file=F, expect='flagged(writer/success-only-after-rename)', find=WF_OLD,
      replace=wf_single(after='\n\tif errors.Is(err, fs.ErrExist) {\n\t\terr = nil\n\t}')),
 dict(name='single-exit-rename-before-close', file=F, expect='flagged(writer/protocol)', find=WF_OLD,
      replace=wf_single(chain="""if _, err = tempFile.Write(content); err != nil {
		err = fmt.Errorf("failed to write content to temp file: %w", err)
	} else if err = os.Rename(tempPath, path); err == nil {
		err = tempFile.Close()
	}""")),
 dict(name='single-exit-close-only-on-failure', file=F, expect='flagged(writer/protocol)', find=WF_OLD,
      replace=wf_single(chain="""if _, err = tempFile.Write(content); err != nil {
		err = fmt.Errorf("failed to write content to temp file: %w", err)
	} else {
		err = os.Rename(tempPath, path)
	}""")),
 dict(name='single-exit-write-not-awaited', file=F, expect='flagged(writer/protocol)', find=WF_OLD,
      replace=wf_single(chain="""_, werr := tempFile.Write(content)
	if err = tempFile.Close(); err != nil {
		err = fmt.Errorf("failed to close temp file: %w", err)
	} else {
		err = os.Rename(tempPath, path)
	}
	if err == nil && werr != nil {
		err = fmt.Errorf("failed to write content to temp file: %w", werr)
	}""")),
]

# ---- the decoder in a function Get calls
DEC_OLD = '\tvar content fileCacheContent\n\tif err := json.Unmarshal(contentBytes, &content); err != nil {\n\t\treturn nil, fmt.Errorf("failed to decode file retrieved from file cache: %w", err)\n\t}\n'
def dec_helper(arg='contentBytes'):
    return '\tcontent, err := decodeContent(%s)\n\tif err != nil {\n\t\treturn nil, err\n\t}\n' % arg
SET_DOC = '// Set stores the CRL bundle in c with url as key.'
DEC_FN = """// decodeContent decodes the content of a cache file
func decodeContent(data []byte) (fileCacheContent, error) {
	var content fileCacheContent
	if err := json.Unmarshal(data, &content); err != nil {
		return content, fmt.Errorf("failed to decode file retrieved from file cache: %w", err)
	}
	return content, nil
}

""" + SET_DOC
VARIANTS += [
 dict(name='benign-decode-helper', expect='silent',
      edits=[(C, DEC_OLD, dec_helper()), (C, SET_DOC, DEC_FN)],
      why='the helper decodes its parameter and its only call passes the content result of the one read'),
 dict(name='decode-helper-gets-a-prefix', expect='flagged(reader/decodes-those-bytes)',
      edits=[(C, DEC_OLD, dec_helper('contentBytes[:len(contentBytes)&^511]')), (C, SET_DOC, DEC_FN)]),
 dict(name='decode-helper-called-with-other-bytes-too', expect='flagged(reader/decodes-those-bytes)',
      edits=[(C, DEC_OLD, '\tif _, err := decodeContent([]byte(url)); err == nil {\n\t\treturn nil, corecrl.ErrCacheMiss\n\t}\n' + dec_helper()), (C, SET_DOC, DEC_FN)]),
]

# ---- the roles of the writer's parameters are read off the writer, not assumed from their position
SIG_OLD = 'func WriteFile(tempDir, path string, content []byte) (writeErr error) {'
SIG_SWAPPED = 'func WriteFile(path, tempDir string, content []byte) (writeErr error) {'
CALL_OLD = 'file.WriteFile(c.root, filepath.Join(c.root, c.fileName(url)), contentBytes)'
VARIANTS += [
 dict(name='benign-writer-params-reordered', expect='silent',
      edits=[(F, SIG_OLD, SIG_SWAPPED), (C, CALL_OLD, 'file.WriteFile(filepath.Join(c.root, c.fileName(url)), c.root, contentBytes)')],
      why='declaration and call agree: the directory argument is the cache root, the destination Join(root, key)'),
 dict(name='writer-params-reordered-call-not', file=F, expect='flagged(set/)', find=SIG_OLD, replace=SIG_SWAPPED),
]
