F = 'internal/file/file.go'
C = 'verifier/crl/crl.go'
VARIANTS = [
 dict(name='in-place-write', file=C, expect='flagged(set/uses-writer)',
      find='\tif err := file.WriteFile(c.root, filepath.Join(c.root, c.fileName(url)), contentBytes); err != nil {', replace='\t_ = file.TrimFileExtension\n\tif err := os.WriteFile(filepath.Join(c.root, c.fileName(url)), contentBytes, 0600); err != nil {'),
 dict(name='writer-in-place', file=F, expect='flagged(writer/protocol)',
      find='''	tempFile, err := os.CreateTemp(tempDir, tempFileNamePrefix)
	if err != nil {
		return fmt.Errorf("failed to create temp file: %w", err)
	}''', replace='''	tempFile, err := os.OpenFile(path, os.O_WRONLY|os.O_CREATE|os.O_TRUNC, 0600)
	if err != nil {
		return fmt.Errorf("failed to create temp file: %w", err)
	}
	_ = tempDir'''),
 dict(name='temp-in-os-tempdir', file=C, expect='flagged(set/temp-in-cache-root)',
      find='file.WriteFile(c.root, filepath.Join(c.root, c.fileName(url)), contentBytes)', replace='file.WriteFile(os.TempDir(), filepath.Join(c.root, c.fileName(url)), contentBytes)'),
 dict(name='rename-before-close', file=F, expect='flagged(writer/protocol)',
      find='''	// close before moving
	if err := tempFile.Close(); err != nil {
		return fmt.Errorf("failed to close temp file: %w", err)
	}

	// rename is atomic on UNIX-like platforms
	return os.Rename(tempFile.Name(), path)''', replace='''	if err := os.Rename(tempFile.Name(), path); err != nil {
		return err
	}
	return tempFile.Close()'''),
 dict(name='close-error-ignored', file=F, expect='flagged(writer/protocol)',
      find='''	if err := tempFile.Close(); err != nil {
		return fmt.Errorf("failed to close temp file: %w", err)
	}
''', replace='''	tempFile.Close()
'''),
 dict(name='hex-temp-prefix', file=F, expect='flagged(temp-name-disjoint)',
      find='tempFileNamePrefix = "notation-*"', replace='tempFileNamePrefix = "*"'),
 dict(name='second-writer', file=C, expect='flagged(who-may-write)',
      find='\t\tif errors.Is(err, fs.ErrNotExist) {\n\t\t\tlogger.Debugf("CRL file cache miss. Key %q does not exist", url)', replace='\t\tif errors.Is(err, fs.ErrNotExist) {\n\t\t\tos.WriteFile(filepath.Join(c.root, c.fileName(url)), nil, 0600)\n\t\t\tlogger.Debugf("CRL file cache miss. Key %q does not exist", url)'),
 dict(name='expired-entry-removed', file=C, expect='flagged(who-may-write)',
      find='\tif err := checkExpiry(ctx, bundle.BaseCRL.NextUpdate); err != nil {\n', replace='\tif err := checkExpiry(ctx, bundle.BaseCRL.NextUpdate); err != nil {\n\t\tos.Remove(filepath.Join(c.root, c.fileName(url)))\n'),
 dict(name='truncated-hash', file=C, expect='flagged(key/sha256-of-url)',
      find='return hex.EncodeToString(hash[:])', replace='return hex.EncodeToString(hash[:8])'),
 dict(name='stat-then-read', file=C, expect='flagged(reader/single-whole-file-read)',
      find='\tcontentBytes, err := os.ReadFile(filepath.Join(c.root, c.fileName(url)))\n', replace='\tif _, statErr := os.Stat(filepath.Join(c.root, c.fileName(url))); statErr != nil {\n\t\treturn nil, corecrl.ErrCacheMiss\n\t}\n\tcontentBytes, err := os.ReadFile(filepath.Join(c.root, c.fileName(url)))\n'),
 dict(name='destination-precreated', file=F, expect='flagged(writer/destination-only-renamed)',
      find='\t// rename is atomic on UNIX-like platforms\n', replace='\tif f, err := os.OpenFile(path, os.O_CREATE, 0600); err == nil {\n\t\tf.Close()\n\t}\n'),
 # benign
 dict(name='benign-error-texts', file=F, expect='silent',
      find='return fmt.Errorf("failed to close temp file: %w", err)', replace='return fmt.Errorf("closing temp file: %w", err)'),
 dict(name='benign-sync-before-close', file=F, expect='silent',
      find='\t// close before moving\n', replace='\tif err := tempFile.Sync(); err != nil {\n\t\treturn fmt.Errorf("failed to sync temp file: %w", err)\n\t}\n'),
 dict(name='pooled-encode-buffer', file=C, expect='flagged(writer/content-owned)',
      edits=[(C, 'import (\n\t"context"\n', 'import (\n\t"bytes"\n\t"sync"\n\t"context"\n'),
             (C, '// NewFileCache creates a FileCache', 'var encodePool = sync.Pool{New: func() any { return new(bytes.Buffer) }}\n\n// NewFileCache creates a FileCache'),
             (C, '\tcontentBytes, err := json.Marshal(content)\n', '\tbuf := encodePool.Get().(*bytes.Buffer)\n\tdefer encodePool.Put(buf)\n\tbuf.Reset()\n\terr := json.NewEncoder(buf).Encode(content)\n\tcontentBytes := buf.Bytes()\n')]),
 dict(name='benign-local-encode-buffer', file=C, expect='silent',
      edits=[(C, 'import (\n\t"context"\n', 'import (\n\t"bytes"\n\t"context"\n'),
             (C, '\tcontentBytes, err := json.Marshal(content)\n', '\tvar buf bytes.Buffer\n\terr := json.NewEncoder(&buf).Encode(content)\n\tcontentBytes := buf.Bytes()\n')],
      why='a buffer local to the call is owned by the call'),
]

# ---- the writer's steps split between WriteFile and a helper that owns the temporary file up to Close (the helper hands
# ---- the name back, WriteFile renames), and the single-exit writer (if/else chain, one error variable, no defer)
WF_OLD = """func WriteFile(tempDir, path string, content []byte) (writeErr error) {
	tempFile, err := os.CreateTemp(tempDir, tempFileNamePrefix)
	if err != nil {
		return fmt.Errorf("failed to create temp file: %w", err)
	}
	defer func() {
		// remove the temp file in case of error
		if writeErr != nil {
			tempFile.Close()
			os.Remove(tempFile.Name())
		}
	}()

	if _, err := tempFile.Write(content); err != nil {
		return fmt.Errorf("failed to write content to temp file: %w", err)
	}

	// close before moving
	if err := tempFile.Close(); err != nil {
		return fmt.Errorf("failed to close temp file: %w", err)
	}

	// rename is atomic on UNIX-like platforms
	return os.Rename(tempFile.Name(), path)
}"""
def wf_split(call='tempPath, err := writeTempFile(tempDir, content)\n\tif err != nil {\n\t\treturn err\n\t}',
             write='if _, err := tempFile.Write(content); err != nil {\n\t\treturn "", fmt.Errorf("failed to write content to temp file: %w", err)\n\t}',
             close='if err := tempFile.Close(); err != nil {\n\t\treturn "", fmt.Errorf("failed to close temp file: %w", err)\n\t}',
             name='tempFile.Name()'):
    return """func WriteFile(tempDir, path string, content []byte) error {
	""" + call + """
	if err := os.Rename(tempPath, path); err != nil {
		os.Remove(tempPath)
		return err
	}
	return nil
}

func writeTempFile(tempDir string, content []byte) (tempPath string, writeErr error) {
	tempFile, err := os.CreateTemp(tempDir, tempFileNamePrefix)
	if err != nil {
		return "", fmt.Errorf("failed to create temp file: %w", err)
	}
	defer func() {
		if writeErr != nil {
			tempFile.Close()
			os.Remove(tempFile.Name())
		}
	}()
	""" + write + """
	""" + close + """
	return """ + name + """, nil
}"""
def wf_single(chain=None, after=''):
    if chain is None:
        chain = """if _, err = tempFile.Write(content); err != nil {
		err = fmt.Errorf("failed to write content to temp file: %w", err)
	} else if err = tempFile.Close(); err != nil {
		err = fmt.Errorf("failed to close temp file: %w", err)
	} else {
		err = os.Rename(tempPath, path)
	}"""
    return """func WriteFile(tempDir, path string, content []byte) error {
	tempFile, err := os.CreateTemp(tempDir, tempFileNamePrefix)
	if err != nil {
		return fmt.Errorf("failed to create temp file: %w", err)
	}
	tempPath := tempFile.Name()
	""" + chain + """
	if err != nil {
		tempFile.Close()
		os.Remove(tempPath)
	}""" + after + """
	return err
}"""
VARIANTS += [
 dict(name='benign-writer-split-helper', file=F, expect='silent', find=WF_OLD, replace=wf_split(),
      why='Rename runs only where the helper returned a nil error, and the helper returns nil only behind the success edges of Write and Close'),
 dict(name='split-close-error-ignored', file=F, expect='flagged(writer/protocol)', find=WF_OLD, replace=wf_split(close='tempFile.Close()')),
 dict(name='split-write-error-ignored', file=F, expect='flagged(writer/protocol)', find=WF_OLD, replace=wf_split(write='tempFile.Write(content)')),
 dict(name='split-helper-failure-ignored', file=F, expect='flagged(writer/protocol)', find=WF_OLD,
      replace=wf_split(call='tempPath, _ := writeTempFile(tempDir, content)')),
 dict(name='split-helper-returns-other-name', file=F, expect='flagged(writer/protocol)', find=WF_OLD,
      replace=wf_split(name='filepath.Join(tempDir, "notation-last")')),
 dict(name='split-helper-never-closes', file=F, expect='flagged(writer/protocol)', find=WF_OLD, replace=wf_split(close='')),
 dict(name='benign-writer-single-exit', file=F, expect='silent', find=WF_OLD, replace=wf_single(),
      why='every value that reaches the single return is a non-nil wrapped error or the result of the rename itself; the second Close sits on the failure path only'),
 dict(name='single-exit-write-error-swallowed', file=F, expect='flagged(writer/success-only-after-rename)', find=WF_OLD,
      replace=wf_single(chain="""if _, err = tempFile.Write(content); err != nil {
		err = nil // best effort: the cache is only an optimisation
	} else if err = tempFile.Close(); err != nil {
		err = fmt.Errorf("failed to close temp file: %w", err)
	} else {
		err = os.Rename(tempPath, path)
	}""")),
 dict(name='single-exit-error-cleared-after-cleanup', file=F, expect='flagged(writer/success-only-after-rename)', find=WF_OLD,
      replace=wf_single(after='\n\tif errors.Is(err, fs.ErrExist) {\n\t\terr = nil\n\t}')),
 dict(name='single-exit-rename-before-close', file=F, expect='flagged(writer/protocol)', find=WF_OLD,
      replace=wf_single(chain="""if _, err = tempFile.Write(content); err != nil {
		err = fmt.Errorf("failed to write content to temp file: %w", err)
	} else if err = os.Rename(tempPath, path); err == nil {
		err = tempFile.Close()
	}""")),
 dict(name='single-exit-close-only-on-failure', file=F, expect='flagged(writer/protocol)', find=WF_OLD,
      replace=wf_single(chain="""if _, err = tempFile.Write(content); err != nil {
		err = fmt.Errorf("failed to write content to temp file: %w", err)
	} else {
		err = os.Rename(tempPath, path)
	}""")),
 dict(name='single-exit-write-not-awaited', file=F, expect='flagged(writer/protocol)', find=WF_OLD,
      replace=wf_single(chain="""_, werr := tempFile.Write(content)
	if err = tempFile.Close(); err != nil {
		err = fmt.Errorf("failed to close temp file: %w", err)
	} else {
		err = os.Rename(tempPath, path)
	}
	if err == nil && werr != nil {
		err = fmt.Errorf("failed to write content to temp file: %w", werr)
	}""")),
]

# ---- the decoder in a function Get calls
DEC_OLD = '\tvar content fileCacheContent\n\tif err := json.Unmarshal(contentBytes, &content); err != nil {\n\t\treturn nil, fmt.Errorf("failed to decode file retrieved from file cache: %w", err)\n\t}\n'
def dec_helper(arg='contentBytes'):
    return '\tcontent, err := decodeContent(%s)\n\tif err != nil {\n\t\treturn nil, err\n\t}\n' % arg
SET_DOC = '// Set stores the CRL bundle in c with url as key.'
DEC_FN = """// decodeContent decodes the content of a cache file
func decodeContent(data []byte) (fileCacheContent, error) {
	var content fileCacheContent
	if err := json.Unmarshal(data, &content); err != nil {
		return content, fmt.Errorf("failed to decode file retrieved from file cache: %w", err)
	}
	return content, nil
}

""" + SET_DOC
VARIANTS += [
 dict(name='benign-decode-helper', expect='silent',
      edits=[(C, DEC_OLD, dec_helper()), (C, SET_DOC, DEC_FN)],
      why='the helper decodes its parameter and its only call passes the content result of the one read'),
 dict(name='decode-helper-gets-a-prefix', expect='flagged(reader/decodes-those-bytes)',
      edits=[(C, DEC_OLD, dec_helper('contentBytes[:len(contentBytes)&^511]')), (C, SET_DOC, DEC_FN)]),
 dict(name='decode-helper-called-with-other-bytes-too', expect='flagged(reader/decodes-those-bytes)',
      edits=[(C, DEC_OLD, '\tif _, err := decodeContent([]byte(url)); err == nil {\n\t\treturn nil, corecrl.ErrCacheMiss\n\t}\n' + dec_helper()), (C, SET_DOC, DEC_FN)]),
]

# ---- the roles of the writer's parameters are read off the writer, not assumed from their position
SIG_OLD = 'func WriteFile(tempDir, path string, content []byte) (writeErr error) {'
SIG_SWAPPED = 'func WriteFile(path, tempDir string, content []byte) (writeErr error) {'
CALL_OLD = 'file.WriteFile(c.root, filepath.Join(c.root, c.fileName(url)), contentBytes)'
VARIANTS += [
 dict(name='benign-writer-params-reordered', expect='silent',
      edits=[(F, SIG_OLD, SIG_SWAPPED), (C, CALL_OLD, 'file.WriteFile(filepath.Join(c.root, c.fileName(url)), c.root, contentBytes)')],
      why='declaration and call agree: the directory argument is the cache root, the destination Join(root, key)'),
 dict(name='writer-params-reordered-call-not', file=F, expect='flagged(set/)', find=SIG_OLD, replace=SIG_SWAPPED),
]

# ---- second pass: the steps of the protocol cut between functions at other places (the handle travels as an argument or a
# ---- result; the rename in a callee), clean-up by an explicit helper or a pass-through closure, the streaming hash
def wf_handle(fill='if err := fillAndClose(tempFile, content); err != nil {\n\t\tdiscardTempFile(tempFile)\n\t\treturn err\n\t}',
              write='if _, err := tempFile.Write(content); err != nil {\n\t\treturn fmt.Errorf("failed to write content to temp file: %w", err)\n\t}',
              close='if err := tempFile.Close(); err != nil {\n\t\treturn fmt.Errorf("failed to close temp file: %w", err)\n\t}',
              extra=''):
    return """func WriteFile(tempDir, path string, content []byte) error {
	tempFile, err := os.CreateTemp(tempDir, tempFileNamePrefix)
	if err != nil {
		return fmt.Errorf("failed to create temp file: %w", err)
	}
	""" + fill + """
	if err := os.Rename(tempFile.Name(), path); err != nil {
		discardTempFile(tempFile)
		return err
	}
	return nil
}

func fillAndClose(tempFile *os.File, content []byte) error {
	""" + write + """
	""" + close + """
	return nil
}

func discardTempFile(tempFile *os.File) {
	tempFile.Close()
	os.Remove(tempFile.Name())
}""" + extra
def wf_commit(call='return commit(tempFile, path)', order=None):
    if order is None:
        order = """if err := tempFile.Close(); err != nil {
		return fmt.Errorf("failed to close temp file: %w", err)
	}
	return os.Rename(tempFile.Name(), path)"""
    return """func WriteFile(tempDir, path string, content []byte) (writeErr error) {
	tempFile, err := newTempFile(tempDir)
	if err != nil {
		return fmt.Errorf("failed to create temp file: %w", err)
	}
	defer func() {
		if writeErr != nil {
			tempFile.Close()
			os.Remove(tempFile.Name())
		}
	}()
	if _, err := tempFile.Write(content); err != nil {
		return fmt.Errorf("failed to write content to temp file: %w", err)
	}
	""" + call + """
}

func newTempFile(dir string) (*os.File, error) {
	return os.CreateTemp(dir, tempFileNamePrefix)
}

func commit(tempFile *os.File, path string) error {
	""" + order + """
}"""
def wf_discard(ret='return writeErr', close_ret='return discard(fmt.Errorf("failed to close temp file: %w", err))'):
    return """func WriteFile(tempDir, path string, content []byte) error {
	tempFile, err := os.CreateTemp(tempDir, tempFileNamePrefix)
	if err != nil {
		return fmt.Errorf("failed to create temp file: %w", err)
	}
	discard := func(writeErr error) error {
		tempFile.Close()
		os.Remove(tempFile.Name())
		""" + ret + """
	}
	if _, err := tempFile.Write(content); err != nil {
		return discard(fmt.Errorf("failed to write content to temp file: %w", err))
	}
	if err := tempFile.Close(); err != nil {
		""" + close_ret + """
	}
	if err := os.Rename(tempFile.Name(), path); err != nil {
		return discard(err)
	}
	return nil
}"""
VARIANTS += [
 dict(name='benign-writer-fill-helper-takes-handle', file=F, expect='silent', find=WF_OLD, replace=wf_handle(),
      why='the helper writes and closes the file it is handed, which at its only call is the file CreateTemp returned; Rename is reached only where the helper returned nil, i.e. behind the success edges of Write and Close'),
 dict(name='handle-helper-close-error-ignored', file=F, expect='flagged(writer/protocol)', find=WF_OLD, replace=wf_handle(close='tempFile.Close()')),
 dict(name='handle-helper-failure-ignored', file=F, expect='flagged(writer/protocol)', find=WF_OLD, replace=wf_handle(fill='fillAndClose(tempFile, content)')),
 dict(name='handle-helper-writes-a-prefix', file=F, expect='flagged(writer/protocol)', find=WF_OLD,
      replace=wf_handle(write='if _, err := tempFile.Write(content[:len(content)&^4095]); err != nil {\n\t\treturn err\n\t}')),
 dict(name='handle-helper-fed-another-file', file=F, expect='flagged(writer/protocol)', find=WF_OLD,
      replace=wf_handle(fill='if err := fillAndClose(os.Stdout, content); err != nil {\n\t\tdiscardTempFile(tempFile)\n\t\treturn err\n\t}')),
 dict(name='handle-helper-second-write-in-cleanup', file=F, expect='flagged(writer/protocol)', find=WF_OLD,
      replace=wf_handle().replace('\ttempFile.Close()\n\tos.Remove(tempFile.Name())\n}', '\ttempFile.Write([]byte("incomplete"))\n\ttempFile.Close()\n\tos.Remove(tempFile.Name())\n}')),
 dict(name='benign-writer-create-and-commit-helpers', file=F, expect='silent', find=WF_OLD, replace=wf_commit(),
      why='the handle comes back from the helper that creates it, Close and Rename stand in a helper that is handed the handle and the destination; the writer forwards that helper\'s error'),
 dict(name='commit-helper-renames-before-close', file=F, expect='flagged(writer/protocol)', find=WF_OLD,
      replace=wf_commit(order='if err := os.Rename(tempFile.Name(), path); err != nil {\n\t\treturn err\n\t}\n\treturn tempFile.Close()')),
 dict(name='commit-helper-error-dropped', file=F, expect='flagged(writer/success-only-after-rename)', find=WF_OLD,
      replace=wf_commit(call='if len(content) > 0 {\n\t\treturn commit(tempFile, path)\n\t}\n\treturn nil')),
 dict(name='commit-helper-precreates-destination', file=F, expect='flagged(writer/)', find=WF_OLD,
      replace=wf_commit(order='if f, err := os.OpenFile(path, os.O_CREATE, 0600); err == nil {\n\t\tf.Close()\n\t}\n\tif err := tempFile.Close(); err != nil {\n\t\treturn err\n\t}\n\treturn os.Rename(tempFile.Name(), path)')),
 dict(name='benign-writer-discard-closure', file=F, expect='silent', find=WF_OLD, replace=wf_discard(),
      why='the clean-up closure hands its argument back unchanged: what it returns is the wrapped (non-nil) error or the result of the rename'),
 dict(name='discard-closure-swallows-error', file=F, expect='flagged(writer/success-only-after-rename)', find=WF_OLD, replace=wf_discard(ret='return nil')),
 dict(name='discard-closure-fed-nil', file=F, expect='flagged(writer/success-only-after-rename)', find=WF_OLD, replace=wf_discard(close_ret='return discard(nil)')),
]
KEY_OLD = '\thash := sha256.Sum256([]byte(url))\n\treturn hex.EncodeToString(hash[:])'
IMP_OLD = '\t"io/fs"\n'
def key_stream(feed='io.WriteString(h, url)', digest='h.Sum(nil)', imp='\t"io"\n\t"io/fs"\n'):
    return [(C, KEY_OLD, '\th := sha256.New()\n\t' + feed + '\n\treturn hex.EncodeToString(' + digest + ')'), (C, IMP_OLD, imp)]
VARIANTS += [
 dict(name='benign-key-streaming-hash', expect='silent', edits=key_stream(),
      why='one write of the whole URL into a fresh SHA-256, Sum(nil): the same 32 bytes as Sum256([]byte(url))'),
 dict(name='benign-key-streaming-hash-write-bytes', expect='silent', edits=key_stream(feed='h.Write([]byte(url))', imp=IMP_OLD)),
 dict(name='key-streaming-hash-of-lowered-url', expect='flagged(key/sha256-of-url)', edits=key_stream(feed='io.WriteString(h, strings.ToLower(url))', imp='\t"io"\n\t"io/fs"\n\t"strings"\n')),
 dict(name='key-streaming-hash-truncated', expect='flagged(key/sha256-of-url)', edits=key_stream(digest='h.Sum(nil)[:8]')),
 dict(name='key-streaming-hash-url-written-conditionally', expect='flagged(key/sha256-of-url)', edits=key_stream(feed='if len(url) < 2048 {\n\t\tio.WriteString(h, url)\n\t}')),
 dict(name='key-streaming-hash-appended-to-url', expect='flagged(key/sha256-of-url)', edits=key_stream(digest='h.Sum([]byte(url))')),
 dict(name='key-one-return-not-hashed', file=C, expect='flagged(key/sha256-of-url)', find=KEY_OLD,
      replace='\tif len(url) < 16 {\n\t\treturn hex.EncodeToString([]byte(url))\n\t}\n' + KEY_OLD),
 dict(name='key-of-lowered-url-at-call', file=C, expect='flagged()', find='contentBytes, err := os.ReadFile(filepath.Join(c.root, c.fileName(url)))',
      replace='contentBytes, err := os.ReadFile(filepath.Join(c.root, c.fileName(strings.ToLower(url))))', edits=[(C, '\t"path/filepath"\n', '\t"path/filepath"\n\t"strings"\n')]),
]
VARIANTS += [
 dict(name='handle-helper-appends-trailer', file=F, expect='flagged(writer/protocol)', find=WF_OLD,
      replace=wf_handle(close='if _, err := tempFile.WriteString("\\n"); err != nil {\n\t\treturn err\n\t}\n\tif err := tempFile.Close(); err != nil {\n\t\treturn fmt.Errorf("failed to close temp file: %w", err)\n\t}')),
 dict(name='writer-truncates-before-close', file=F, expect='flagged(writer/protocol)',
      find='\t// close before moving\n', replace='\tif err := tempFile.Truncate(int64(len(content) &^ 4095)); err != nil {\n\t\treturn err\n\t}\n'),
]

# ---- third pass: the read step of Get in a helper of the package (extract-helper at the read boundary)
READ_OLD = ('\tcontentBytes, err := os.ReadFile(filepath.Join(c.root, c.fileName(url)))\n\tif err != nil {\n\t\tif errors.Is(err, fs.ErrNotExist) {\n\t\t\tlogger.Debugf("CRL file cache miss. Key %q does not exist", url)\n\t\t\treturn nil, corecrl.ErrCacheMiss\n\t\t}\n'
            '\t\treturn nil, fmt.Errorf("failed to get crl bundle from file cache with key %q: %w", url, err)\n\t}\n')
def read_helper(call='\tcontentBytes, err := c.readEntry(logger, url)\n\tif err != nil {\n\t\treturn nil, err\n\t}\n', body=READ_OLD, ret='\treturn contentBytes, nil\n', imports=None):
    e = [(C, READ_OLD, call), (C, SET_DOC, '// readEntry reads the entry stored for url\nfunc (c *FileCache) readEntry(logger log.Logger, url string) ([]byte, error) {\n' + body + ret + '}\n\n' + SET_DOC)]
    if imports:
        e.append((C, '\t"path/filepath"\n', '\t"path/filepath"\n' + imports))
    return e
VARIANTS += [
 dict(name='benign-get-read-helper', expect='silent', edits=read_helper(),
      why='the one read stands in a helper called once, of Join(root, key(url)) read in Get\'s frame; what the helper hands back is nil or the content of that read, and that is what Get decodes'),
 dict(name='benign-get-read-helper-params-swapped', expect='silent',
      edits=[(C, READ_OLD, '\tcontentBytes, err := c.readEntry(url, logger)\n\tif err != nil {\n\t\treturn nil, err\n\t}\n'),
             (C, SET_DOC, '// readEntry reads the entry stored for key\nfunc (c *FileCache) readEntry(key string, logger log.Logger) ([]byte, error) {\n' + READ_OLD.replace('url', 'key') + '\treturn contentBytes, nil\n}\n\n' + SET_DOC)]),
 dict(name='read-helper-stats-first', expect='flagged(reader/single-whole-file-read)',
      edits=read_helper(body='\tif _, statErr := os.Stat(filepath.Join(c.root, c.fileName(url))); statErr != nil {\n\t\treturn nil, corecrl.ErrCacheMiss\n\t}\n' + READ_OLD)),
 dict(name='read-helper-called-twice', expect='flagged(reader/single-whole-file-read)',
      edits=read_helper(call='\tif _, err := c.readEntry(logger, url); err != nil {\n\t\treturn nil, err\n\t}\n\tcontentBytes, err := c.readEntry(logger, url)\n\tif err != nil {\n\t\treturn nil, err\n\t}\n')),
 dict(name='read-helper-reads-key-of-lowered-url', expect='flagged(reader/single-whole-file-read)', edits=read_helper(body=READ_OLD.replace('c.fileName(url)', 'c.fileName(strings.ToLower(url))'), imports='\t"strings"\n')),
 dict(name='read-helper-returns-a-prefix', expect='flagged(reader/decodes-those-bytes)', edits=read_helper(ret='\treturn contentBytes[:len(contentBytes)&^511], nil\n')),
 dict(name='read-helper-returns-cached-copy', expect='flagged(reader/decodes-those-bytes)',
      edits=read_helper(ret='\tif len(lastEntry) > len(contentBytes) {\n\t\treturn lastEntry, nil\n\t}\n\tlastEntry = contentBytes\n\treturn contentBytes, nil\n') + [(C, '// NewFileCache creates a FileCache', 'var lastEntry []byte\n\n// NewFileCache creates a FileCache')]),
]

# ---- third pass: the write step of Set in a helper of the package (extract-helper at the write boundary)
WRITE_OLD = '\tif err := file.WriteFile(c.root, filepath.Join(c.root, c.fileName(url)), contentBytes); err != nil {\n\t\treturn fmt.Errorf("failed to store crl bundle in file cache: %w", err)\n\t}\n\treturn nil\n}\n'
def write_helper(call='c.writeEntry(url, contentBytes)', stmt=None, body='\treturn file.WriteFile(c.root, filepath.Join(c.root, c.fileName(url)), content)\n', extra=None, imports=None):
    if stmt is None:
        stmt = '\tif err := ' + call + '; err != nil {\n\t\treturn fmt.Errorf("failed to store crl bundle in file cache: %w", err)\n\t}\n'
    e = [(C, WRITE_OLD, stmt + '\treturn nil\n}\n\n// writeEntry stores content as the entry of url\nfunc (c *FileCache) writeEntry(url string, content []byte) error {\n' + body + '}\n')]
    if extra:
        e += extra
    if imports:
        e.append((C, '\t"path/filepath"\n', '\t"path/filepath"\n' + imports))
    return e
VARIANTS += [
 dict(name='benign-set-write-helper', expect='silent', edits=write_helper(),
      why='the one call of the writer stands in a helper only Set calls, once: temp dir and destination read root and Join(root, key(url)) in Set\'s frame, the content is the fresh encoding Set passes'),
 dict(name='benign-set-write-helper-wraps-error', expect='silent',
      edits=write_helper(stmt='\tif err := c.writeEntry(url, contentBytes); err != nil {\n\t\treturn err\n\t}\n',
                         body='\tif err := file.WriteFile(c.root, filepath.Join(c.root, c.fileName(url)), content); err != nil {\n\t\treturn fmt.Errorf("failed to store crl bundle in file cache: %w", err)\n\t}\n\treturn nil\n')),
 dict(name='write-helper-also-called-from-get', expect='flagged(set/uses-writer)',
      edits=write_helper(extra=[(C, '\t// decode content to crl Bundle\n', '\t_ = c.writeEntry(url, contentBytes) // refresh the entry\n\n\t// decode content to crl Bundle\n')])),
 dict(name='write-helper-temp-in-os-tempdir', expect='flagged(set/temp-in-cache-root)', edits=write_helper(body='\treturn file.WriteFile(os.TempDir(), filepath.Join(c.root, c.fileName(url)), content)\n')),
 dict(name='write-helper-fed-trimmed-url', expect='flagged(set/destination)', edits=write_helper(call='c.writeEntry(strings.TrimSuffix(url, "/"), contentBytes)', imports='\t"strings"\n')),
 dict(name='write-helper-destination-is-url', expect='flagged(set/destination)', edits=write_helper(body='\treturn file.WriteFile(c.root, filepath.Join(c.root, filepath.Base(url)), content)\n')),
 dict(name='write-helper-fed-view-of-bytes', expect='flagged(writer/content-owned)', edits=write_helper(call='c.writeEntry(url, contentBytes[:len(contentBytes)&^511])')),
 dict(name='write-helper-writes-in-place-too', expect='flagged(who-may-write)',
      edits=write_helper(body='\tif err := os.WriteFile(filepath.Join(c.root, c.fileName(url)+".bak"), content, 0600); err != nil {\n\t\treturn err\n\t}\n\treturn file.WriteFile(c.root, filepath.Join(c.root, c.fileName(url)), content)\n')),
]
