F = 'internal/file/file.go'
C = 'verifier/crl/crl.go'
VARIANTS = [
 dict(name='in-place-write', file=C, expect='flagged(set/uses-writer)',
      find='\tif err := file.WriteFile(c.root, filepath.Join(c.root, c.fileName(url)), contentBytes); err != nil {', replace='\t_ = file.TrimFileExtension\n\tif err := os.WriteFile(filepath.Join(c.root, c.fileName(url)), contentBytes, 0600); err != nil {'),
 dict(name='writer-in-place', file=F, expect='flagged(writer/protocol)',
      find='''	tempFile, err := os.CreateTemp(tempDir, tempFileNamePrefix)
	if err != nil {
		return fmt.Errorf("failed to create temp file: %w", err)
	}''', replace='''	tempFile, err := os.OpenFile(path, os.O_WRONLY|os.O_CREATE|os.O_TRUNC, 0600)
	if err != nil {
		return fmt.Errorf("failed to create temp file: %w", err)
	}
	_ = tempDir'''),
 dict(name='temp-in-os-tempdir', file=C, expect='flagged(set/temp-in-cache-root)',
      find='file.WriteFile(c.root, filepath.Join(c.root, c.fileName(url)), contentBytes)', replace='file.WriteFile(os.TempDir(), filepath.Join(c.root, c.fileName(url)), contentBytes)'),
 dict(name='rename-before-close', file=F, expect='flagged(writer/protocol)',
      find='''	// close before moving
	if err := tempFile.Close(); err != nil {
		return fmt.Errorf("failed to close temp file: %w", err)
	}

	// rename is atomic on UNIX-like platforms
	return os.Rename(tempFile.Name(), path)''', replace='''	if err := os.Rename(tempFile.Name(), path); err != nil {
		return err
	}
	return tempFile.Close()'''),
 dict(name='close-error-ignored', file=F, expect='flagged(writer/protocol)',
      find='''	if err := tempFile.Close(); err != nil {
		return fmt.Errorf("failed to close temp file: %w", err)
	}
''', replace='''	tempFile.Close()
'''),
 dict(name='hex-temp-prefix', file=F, expect='flagged(temp-name-disjoint)',
      find='tempFileNamePrefix = "notation-*"', replace='tempFileNamePrefix = "*"'),
 dict(name='second-writer', file=C, expect='flagged(who-may-write)',
      find='\t\tif errors.Is(err, fs.ErrNotExist) {\n\t\t\tlogger.Debugf("CRL file cache miss. Key %q does not exist", url)', replace='\t\tif errors.Is(err, fs.ErrNotExist) {\n\t\t\tos.WriteFile(filepath.Join(c.root, c.fileName(url)), nil, 0600)\n\t\t\tlogger.Debugf("CRL file cache miss. Key %q does not exist", url)'),
 dict(name='expired-entry-removed', file=C, expect='flagged(who-may-write)',
      find='\tif err := checkExpiry(ctx, bundle.BaseCRL.NextUpdate); err != nil {\n', replace='\tif err := checkExpiry(ctx, bundle.BaseCRL.NextUpdate); err != nil {\n\t\tos.Remove(filepath.Join(c.root, c.fileName(url)))\n'),
 dict(name='truncated-hash', file=C, expect='flagged(key/sha256-of-url)',
      find='return hex.EncodeToString(hash[:])', replace='return hex.EncodeToString(hash[:8])'),
 dict(name='stat-then-read', file=C, expect='flagged(reader/single-whole-file-read)',
      find='\tcontentBytes, err := os.ReadFile(filepath.Join(c.root, c.fileName(url)))\n', replace='\tif _, statErr := os.Stat(filepath.Join(c.root, c.fileName(url))); statErr != nil {\n\t\treturn nil, corecrl.ErrCacheMiss\n\t}\n\tcontentBytes, err := os.ReadFile(filepath.Join(c.root, c.fileName(url)))\n'),
 dict(name='destination-precreated', file=F, expect='flagged(writer/destination-only-renamed)',
      find='\t// rename is atomic on UNIX-like platforms\n', replace='\tif f, err := os.OpenFile(path, os.O_CREATE, 0600); err == nil {\n\t\tf.Close()\n\t}\n'),
 # benign
 dict(name='benign-error-texts', file=F, expect='silent',
      find='return fmt.Errorf("failed to close temp file: %w", err)', replace='return fmt.Errorf("closing temp file: %w", err)'),
 dict(name='benign-sync-before-close', file=F, expect='silent',
      find='\t// close before moving\n', replace='\tif err := tempFile.Sync(); err != nil {\n\t\treturn fmt.Errorf("failed to sync temp file: %w", err)\n\t}\n'),
 dict(name='pooled-encode-buffer', file=C, expect='flagged(writer/content-owned)',
      edits=[(C, 'import (\n\t"context"\n', 'import (\n\t"bytes"\n\t"sync"\n\t"context"\n'),
             (C, '// NewFileCache creates a FileCache', 'var encodePool = sync.Pool{New: func() any { return new(bytes.Buffer) }}\n\n// NewFileCache creates a FileCache'),
             (C, '\tcontentBytes, err := json.Marshal(content)\n', '\tbuf := encodePool.Get().(*bytes.Buffer)\n\tdefer encodePool.Put(buf)\n\tbuf.Reset()\n\terr := json.NewEncoder(buf).Encode(content)\n\tcontentBytes := buf.Bytes()\n')]),
 dict(name='benign-local-encode-buffer', file=C, expect='silent',
      edits=[(C, 'import (\n\t"context"\n', 'import (\n\t"bytes"\n\t"context"\n'),
             (C, '\tcontentBytes, err := json.Marshal(content)\n', '\tvar buf bytes.Buffer\n\terr := json.NewEncoder(&buf).Encode(content)\n\tcontentBytes := buf.Bytes()\n')],
      why='a buffer local to the call is owned by the call'),
]
