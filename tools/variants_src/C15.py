C = 'verifier/crl/crl.go'
VARIANTS = [
 dict(name='fields-swapped-set', file=C, expect='flagged(pairing/set)',
      find='\tcontent := fileCacheContent{\n\t\tBaseCRL: bundle.BaseCRL.Raw,\n\t}\n\tif bundle.DeltaCRL != nil {\n\t\tcontent.DeltaCRL = bundle.DeltaCRL.Raw\n\t}',
      replace='\tcontent := fileCacheContent{\n\t\tBaseCRL: bundle.BaseCRL.Raw,\n\t}\n\tif bundle.DeltaCRL != nil {\n\t\tcontent.DeltaCRL = bundle.BaseCRL.Raw\n\t}'),
 dict(name='fields-swapped-get', file=C, expect='flagged(pairing/get)',
      find='\t\tbundle.DeltaCRL, err = x509.ParseRevocationList(content.DeltaCRL)', replace='\t\tbundle.DeltaCRL, err = x509.ParseRevocationList(content.BaseCRL)'),
 dict(name='same-json-name', file=C, expect='flagged(pairing/json-names)',
      find='DeltaCRL []byte `json:"deltaCRL,omitempty"`', replace='DeltaCRL []byte `json:"baseCRL,omitempty"`'),
 dict(name='delta-expiry-dropped', file=C, expect='flagged(get/delta-expiry)',
      find='\tif bundle.DeltaCRL != nil {\n\t\tif err := checkExpiry(ctx, bundle.DeltaCRL.NextUpdate); err != nil {\n\t\t\treturn nil, fmt.Errorf("check DeltaCRL expiry failed: %w", err)\n\t\t}\n\t}\n', replace=''),
 dict(name='base-expiry-only-without-delta', file=C, expect='flagged(get/base-expiry)',
      find='\tif err := checkExpiry(ctx, bundle.BaseCRL.NextUpdate); err != nil {\n\t\treturn nil, fmt.Errorf("check BaseCRL expiry failed: %w", err)\n\t}',
      replace='\tif bundle.DeltaCRL == nil {\n\t\tif err := checkExpiry(ctx, bundle.BaseCRL.NextUpdate); err != nil {\n\t\t\treturn nil, fmt.Errorf("check BaseCRL expiry failed: %w", err)\n\t\t}\n\t}'),
 dict(name='expiry-reversed', file=C, expect='flagged(expiry/)',
      find='\tif time.Now().After(nextUpdate) {', replace='\tif time.Now().Before(nextUpdate) {'),
 dict(name='zero-next-update-ok', file=C, expect='flagged(expiry/zero-next-update)',
      find='\tif nextUpdate.IsZero() {\n\t\treturn errors.New("crl bundle retrieved from file cache does not contain valid NextUpdate")\n\t}\n', replace=''),
 dict(name='expired-is-error', file=C, expect='flagged(expiry/expired-is-miss)',
      find='\t\treturn corecrl.ErrCacheMiss\n\t}\n\treturn nil\n}', replace='\t\treturn errors.New("expired")\n\t}\n\treturn nil\n}'),
 dict(name='url-path-escaped', file=C, expect='flagged(key/sha256-of-url)',
      find='\thash := sha256.Sum256([]byte(url))\n\treturn hex.EncodeToString(hash[:])', replace='\t_, _ = sha256.Size, hex.EncodeToString\n\treturn strings.ReplaceAll(url, "/", "_")',
      edits=[(C, '\t"path/filepath"\n', '\t"path/filepath"\n\t"strings"\n')]),
 dict(name='url-host-dir', file=C, expect='flagged(confinement/)',
      find='contentBytes, err := os.ReadFile(filepath.Join(c.root, c.fileName(url)))', replace='contentBytes, err := os.ReadFile(filepath.Join(c.root, filepath.Base(url), c.fileName(url)))'),
 dict(name='delta-parse-error-ignored', file=C, expect='flagged(get/delta-parse-error)',
      find='\t\tif err != nil {\n\t\t\treturn nil, fmt.Errorf("failed to parse delta CRL of file retrieved from file cache: %w", err)\n\t\t}', replace='\t\tif err != nil {\n\t\t\tbundle.DeltaCRL = nil\n\t\t}'),
 dict(name='nil-base-stored', file=C, expect='flagged(set/nil-base)',
      find='\tif bundle.BaseCRL == nil {\n\t\treturn errors.New("failed to store crl bundle in file cache: bundle BaseCRL cannot be nil")\n\t}\n', replace=''),
 dict(name='delta-dropped-on-set', file=C, expect='flagged(set/delta-stored-when-present)',
      find='\tif bundle.DeltaCRL != nil {\n\t\tcontent.DeltaCRL = bundle.DeltaCRL.Raw\n\t}', replace='\tif bundle.DeltaCRL != nil && len(bundle.DeltaCRL.Raw) < 1024 {\n\t\tcontent.DeltaCRL = bundle.DeltaCRL.Raw\n\t}'),
 # benign
 dict(name='benign-expiry-before-form', file=C, expect='silent',
      find='\tif time.Now().After(nextUpdate) {', replace='\tif nextUpdate.Before(time.Now()) {'),
 dict(name='benign-log', file=C, expect='silent',
      find='\tlogger.Debugf("Storing crl bundle to file cache with key %q ...", url)\n', replace='\tlogger.Infof("Storing crl bundle for %q", url)\n'),
]

# the locals form of Get / Set (values built in locals, the bundle / entry as one composite literal) and its mutants
GET_OLD = '\tvar bundle corecrl.Bundle\n\tbundle.BaseCRL, err = x509.ParseRevocationList(content.BaseCRL)\n\tif err != nil {\n\t\treturn nil, fmt.Errorf("failed to parse base CRL of file retrieved from file cache: %w", err)\n\t}\n\tif content.DeltaCRL != nil {\n\t\tbundle.DeltaCRL, err = x509.ParseRevocationList(content.DeltaCRL)\n\t\tif err != nil {\n\t\t\treturn nil, fmt.Errorf("failed to parse delta CRL of file retrieved from file cache: %w", err)\n\t\t}\n\t}\n\n\t// check expiry\n\tif err := checkExpiry(ctx, bundle.BaseCRL.NextUpdate); err != nil {\n\t\treturn nil, fmt.Errorf("check BaseCRL expiry failed: %w", err)\n\t}\n\tif bundle.DeltaCRL != nil {\n\t\tif err := checkExpiry(ctx, bundle.DeltaCRL.NextUpdate); err != nil {\n\t\t\treturn nil, fmt.Errorf("check DeltaCRL expiry failed: %w", err)\n\t\t}\n\t}\n\n\treturn &bundle, nil\n'
def get_locals(base_arg='content.BaseCRL', delta_arg='content.DeltaCRL', delta_check=True, lit='BaseCRL: baseCRL, DeltaCRL: deltaCRL', delta_guard='deltaCRL != nil'):
    s = '\tbaseCRL, err := x509.ParseRevocationList(%s)\n\tif err != nil {\n\t\treturn nil, fmt.Errorf("failed to parse base CRL: %%w", err)\n\t}\n\tvar deltaCRL *x509.RevocationList\n\tif content.DeltaCRL != nil {\n\t\tdeltaCRL, err = x509.ParseRevocationList(%s)\n\t\tif err != nil {\n\t\t\treturn nil, fmt.Errorf("failed to parse delta CRL: %%w", err)\n\t\t}\n\t}\n\tif err := checkExpiry(ctx, baseCRL.NextUpdate); err != nil {\n\t\treturn nil, fmt.Errorf("check BaseCRL expiry failed: %%w", err)\n\t}\n' % (base_arg, delta_arg)
    if delta_check:
        s += '\tif %s {\n\t\tif err := checkExpiry(ctx, deltaCRL.NextUpdate); err != nil {\n\t\t\treturn nil, fmt.Errorf("check DeltaCRL expiry failed: %%w", err)\n\t\t}\n\t}\n' % delta_guard
    s += '\treturn &corecrl.Bundle{%s}, nil\n' % lit
    return s
SET_OLD = '\tcontent := fileCacheContent{\n\t\tBaseCRL: bundle.BaseCRL.Raw,\n\t}\n\tif bundle.DeltaCRL != nil {\n\t\tcontent.DeltaCRL = bundle.DeltaCRL.Raw\n\t}\n\tcontentBytes, err := json.Marshal(content)\n'
def set_locals(delta='bundle.DeltaCRL.Raw', lit='BaseCRL: bundle.BaseCRL.Raw, DeltaCRL: deltaRaw'):
    return '\tvar deltaRaw []byte\n\tif bundle.DeltaCRL != nil {\n\t\tdeltaRaw = %s\n\t}\n\tcontentBytes, err := json.Marshal(fileCacheContent{%s})\n' % (delta, lit)
VARIANTS += [
 dict(name='benign-locals-form', file=C, expect='silent', find=GET_OLD, replace=get_locals(), edits=[(C, SET_OLD, set_locals())]),
 dict(name='benign-locals-delta-guard-on-entry', file=C, expect='silent', find=GET_OLD, replace=get_locals(delta_guard='content.DeltaCRL != nil')),
 dict(name='locals-fields-swapped-in-literal', file=C, expect='flagged(pairing/get)', find=GET_OLD, replace=get_locals(lit='BaseCRL: deltaCRL, DeltaCRL: baseCRL')),
 dict(name='locals-delta-parsed-from-base', file=C, expect='flagged(pairing/get)', find=GET_OLD, replace=get_locals(delta_arg='content.BaseCRL')),
 dict(name='locals-delta-expiry-dropped', file=C, expect='flagged(get/delta-expiry)', find=GET_OLD, replace=get_locals(delta_check=False)),
 dict(name='locals-delta-expiry-only-when-base-raw-long', file=C, expect='flagged(get/delta-expiry)', find=GET_OLD, replace=get_locals(delta_guard='deltaCRL != nil && len(content.BaseCRL) > 4096')),
 dict(name='locals-delta-left-out-of-literal', file=C, expect='flagged(pairing/get)', find=GET_OLD, replace=get_locals(lit='BaseCRL: baseCRL')),
 dict(name='locals-set-delta-from-base', file=C, expect='flagged(pairing/set)', find=SET_OLD, replace=set_locals(delta='bundle.BaseCRL.Raw')),
 dict(name='locals-set-swapped-in-literal', file=C, expect='flagged(pairing/set)', find=SET_OLD, replace=set_locals(lit='BaseCRL: deltaRaw, DeltaCRL: bundle.BaseCRL.Raw')),
]
